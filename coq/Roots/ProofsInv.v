(* Roots/ProofsInv.v — the invariant behind C03 and C13 and its preservation by every
   disciplined operation. *)
From Coq Require Import Lia ZifyBool ZifyN ZifyNat.
From HostdBase Require Import Base.
From HostdRoots Require Import Model Lists ProofsReplay.
Open Scope N_scope.

(** * success of the store methods, spelled out *)

Lemma ok_any_fault A (m : M A) fault a k' :
  fok m -> m fault = Ok (a, k') -> m None = Ok (a, None).
Proof.
  intros [H1 H2] E. destruct fault as [k|].
  - specialize (H2 k). now rewrite E in H2.
  - now rewrite (H1 _ _ E) in E.
Qed.

Lemma store_add1_ok d id c d' k :
  store_add1 d id c None = Ok (d', k) ->
  alookup id (t1 d) = None /\ d' = set_t1 d (aset id c (t1 d)).
Proof.
  cbv [store_add1 transaction mbind stmt ret lift].
  destruct (alookup id (t1 d)); [discriminate|].
  now intros [= <- _].
Qed.

Lemma store_add2_ok d id c d' k :
  store_add2 d id c None = Ok (d', k) ->
  alookup id (t2 d) = None /\ d' = set_t2 d (aset id c (t2 d)).
Proof.
  cbv [store_add2 transaction mbind stmt ret lift].
  destruct (alookup id (t2 d)); [discriminate|].
  now intros [= <- _].
Qed.

Lemma store_revise1_ok d id nrev nfsize nmroot old acts d' k :
  store_revise1 d id nrev nfsize nmroot old acts None = Ok (d', k) ->
  exists c t' ns', alookup id (t1 d) = Some c /\
    store_replay (stored d) (rows c) old (nsec d) acts None = Ok ((t', ns'), None) /\
    d' = set_nsec (set_t1 d (aset id (with_rows (with_rev c nrev nfsize nmroot) t') (t1 d))) ns'.
Proof.
  cbv [store_revise1 transaction mbind stmt ret lift].
  destruct (alookup id (t1 d)) as [c|]; [|discriminate].
  destruct (store_replay (stored d) (rows c) old (nsec d) acts None) as [[[t' ns'] k1]| |] eqn:E; try discriminate.
  pose proof (proj1 (fok_store_replay (stored d) acts (rows c) old (nsec d)) _ _ E) as ->.
  intros [= <- _]. now exists c, t', ns'.
Qed.

Lemma store_revise2_ok d id c old new d' k :
  store_revise2 d id c old new None = Ok (d', k) ->
  exists e t' ns', alookup id (t2 d) = Some e /\
    v2_diff (stored d) (rows e) old new (nsec d) None = Ok ((t', ns'), None) /\
    d' = set_nsec (set_t2 d (aset id (with_rows (with_rv2 e c) t') (t2 d))) ns'.
Proof.
  cbv [store_revise2 transaction mbind stmt ret lift].
  destruct (alookup id (t2 d)) as [e|]; [|discriminate].
  destruct (v2_diff (stored d) (rows e) old new (nsec d) None) as [[[t' ns'] k1]| |] eqn:E; try discriminate.
  pose proof (proj1 (fok_v2_diff (stored d) (rows e) old new (nsec d)) _ _ E) as ->.
  intros [= <- _]. now exists e, t', ns'.
Qed.

Lemma store_renew1_ok d old new crev cfsize cmroot nc d' k :
  store_renew1 d old new crev cfsize cmroot nc None = Ok (d', k) ->
  alookup new (t1 d) = None /\
  exists c, alookup old (aset new nc (t1 d)) = Some c /\
    d' = set_t1 d (move_rows old new (link_from old new
           (aset old (with_to (with_rev c crev cfsize cmroot) (Some new)) (aset new nc (t1 d))))).
Proof.
  cbv [store_renew1 transaction mbind stmt ret lift].
  destruct (alookup new (t1 d)); [discriminate|].
  destruct (alookup old (aset new nc (t1 d))) as [c|]; [|discriminate].
  intros [= <- _]. split; [reflexivity|]. now exists c.
Qed.

Lemma store_renew2_ok d old new nc d' k :
  store_renew2 d old new nc None = Ok (d', k) ->
  alookup new (t2 d) = None /\
  exists c, alookup old (aset new nc (t2 d)) = Some c /\
    d' = set_t2 d (move_rows old new (link_from old new
           (aset old (with_to c (Some new)) (aset new nc (t2 d))))).
Proof.
  cbv [store_renew2 transaction mbind stmt ret lift].
  destruct (alookup new (t2 d)); [discriminate|].
  destruct (alookup old (aset new nc (t2 d))) as [c|]; [|discriminate].
  intros [= <- _]. split; [reflexivity|]. now exists c.
Qed.

Lemma store_get_ok t id c k : store_get t id None = Ok (c, k) -> alookup id t = Some c /\ k = None.
Proof.
  cbv [store_get transaction mbind stmt ret lift].
  destruct (alookup id t); [|discriminate]. now intros [= <- <-].
Qed.

(* the table after a renewal, by lookups *)
Lemma renew_lookup (t : list (cid * ct)) old new (oc nc : ct) :
  old <> new -> alookup new t = None ->
  let t' := move_rows old new (link_from old new (aset old oc (aset new nc t))) in
  (forall x, alookup x t' =
     if x =? old then Some (with_rows oc [])
     else if x =? new then Some (with_rows (with_from nc (Some old)) (rows oc))
     else alookup x t) /\
  (NoDup (map fst t) -> NoDup (map fst t')).
Proof.
  intros Hne Hnew t'. subst t'.
  assert (Eno : (new =? old) = false) by lia. assert (Eon : (old =? new) = false) by lia.
  unfold link_from. rewrite alookup_aset, Eno, alookup_aset, N.eqb_refl.
  unfold move_rows. rewrite Eon.
  repeat (rewrite ?alookup_aset, ?N.eqb_refl, ?Eon, ?Eno; cbn iota).
  split.
  - intros x. rewrite !alookup_aset.
    destruct (x =? old) eqn:E1; [reflexivity|]. destruct (x =? new) eqn:E2; reflexivity.
  - intros ND. repeat apply NoDup_aset. exact ND.
Qed.

(** * the number of root rows of a table *)

Fixpoint total (t : list (cid * ct)) : N :=
  match t with [] => 0 | (_, c) :: k => nlen (rows c) + total k end.

Lemma total_aset_none id c t : alookup id t = None -> total (aset id c t) = total t + nlen (rows c).
Proof.
  induction t as [|[k x] t IH]; cbn; intros L; [lia|].
  destruct (id =? k) eqn:E; [discriminate|]. cbn. rewrite IH by exact L. lia.
Qed.

Lemma total_aset_some id c c0 t : alookup id t = Some c0 ->
  total (aset id c t) + nlen (rows c0) = total t + nlen (rows c).
Proof.
  induction t as [|[k x] t IH]; cbn; intros L; [discriminate|].
  destruct (id =? k) eqn:E.
  - injection L as ->. cbn. lia.
  - cbn. specialize (IH L). lia.
Qed.

Lemma total_ge id c t : alookup id t = Some c -> nlen (rows c) <= total t.
Proof.
  induction t as [|[k x] t IH]; cbn; intros L; [discriminate|].
  destruct (id =? k); [injection L as ->; lia|specialize (IH L); lia].
Qed.

(* a renewal moves the rows: their number stays *)
Lemma total_renew t old new (c oc nc : ct) :
  old <> new -> alookup new t = None -> alookup old t = Some c ->
  rows oc = rows c -> rows nc = [] ->
  total (move_rows old new (link_from old new (aset old oc (aset new nc t)))) = total t.
Proof.
  intros Hne Ln Lo Ro Rn.
  assert (Eno : (new =? old) = false) by lia. assert (Eon : (old =? new) = false) by lia.
  unfold link_from. rewrite alookup_aset, Eno, alookup_aset, N.eqb_refl.
  unfold move_rows. rewrite Eon.
  repeat (rewrite ?alookup_aset, ?N.eqb_refl, ?Eon, ?Eno; cbn iota).
  set (T1 := aset new nc t). set (T2 := aset old oc T1).
  set (T3 := aset new (with_from nc (Some old)) T2).
  set (T4 := aset new (with_rows (with_from nc (Some old)) (rows oc)) T3).
  assert (H1 : total T1 = total t) by (subst T1; rewrite total_aset_none, Rn by exact Ln; cbn; lia).
  assert (L1 : alookup old T1 = Some c) by (subst T1; now rewrite alookup_aset, Eon).
  pose proof (total_aset_some old oc c T1 L1) as H2. fold T2 in H2. rewrite Ro in H2.
  assert (L2 : alookup new T2 = Some nc) by (subst T2 T1; now rewrite alookup_aset, Eno, alookup_aset, N.eqb_refl).
  pose proof (total_aset_some new (with_from nc (Some old)) nc T2 L2) as H3. fold T3 in H3.
  cbn [with_from rows] in H3.
  assert (L3 : alookup new T3 = Some (with_from nc (Some old))) by (subst T3; now rewrite alookup_aset, N.eqb_refl).
  pose proof (total_aset_some new (with_rows (with_from nc (Some old)) (rows oc)) _ T3 L3) as H4. fold T4 in H4.
  cbn [with_rows with_from rows] in H4. rewrite Rn in H4.
  assert (L4 : alookup old T4 = Some oc).
  { subst T4 T3 T2. now rewrite alookup_aset, Eon, alookup_aset, Eon, alookup_aset, N.eqb_refl. }
  pose proof (total_aset_some old (with_rows oc []) oc T4 L4) as H5. cbn [with_rows rows] in H5.
  change (total (aset old (with_rows oc []) T4) = total t).
  change (nlen (@nil (N * root))) with 0 in H4, H5. lia.
Qed.

(** * the invariant *)

Section Inv.
Variable meta : list root -> hash.

Definition live_ok (l : list root) (c : ct) : Prop :=
  rows c = tbl_of l /\ fsize c = sector_size * nlen l /\ mroot c = meta l.

(* one contract row against the served lists [g] and its table [t] *)
Definition entry_ok (v1 : bool) (g : cid -> list root) (t : list (cid * ct)) (id : cid) (c : ct) : Prop :=
  match rto c with
  | None => live_ok (g id) c
  | Some d => rows c = [] /\ (v1 = true -> rev c = max_rev) /\ d <> id /\
              exists c', alookup d t = Some c' /\ rfrom c' = Some id
  end /\
  (forall p, rfrom c = Some p -> exists cp, alookup p t = Some cp /\ rto cp = Some id).

Definition tab_ok (v1 : bool) (g : cid -> list root) (t : list (cid * ct)) : Prop :=
  NoDup (map fst t) /\ forall id c, alookup id t = Some c -> entry_ok v1 g t id c.

Definition upd_ok (s : state) : Prop :=
  forall u x, alookup u (upds s) = Some x ->
    (exists c, alookup (u_cid x) (t1 (dbs s)) = Some c /\ rto c = None) /\
    u_old x = cache_get s (u_cid x) /\
    fold_upd (u_old x) (u_acts x) = Ok (u_roots x) /\
    (forall u' x', alookup u' (upds s) = Some x' -> u_cid x' = u_cid x -> u' = u).

Record Inv (s : state) : Prop := {
  inv_t1 : tab_ok true (cache_get s) (t1 (dbs s));
  inv_t2 : tab_ok false (cache_get s) (t2 (dbs s));
  inv_disj : forall id, alookup id (t1 (dbs s)) <> None -> alookup id (t2 (dbs s)) = None;
  inv_cdom : forall id, alookup id (cache s) <> None ->
             alookup id (t1 (dbs s)) <> None \/ alookup id (t2 (dbs s)) <> None;
  inv_upd : upd_ok s;
  inv_unodup : NoDup (map fst (upds s));
  (* the contract-sector counter equals the number of root rows (what C05 asks of it) *)
  inv_nsec : nsec (dbs s) = total (t1 (dbs s)) + total (t2 (dbs s)) }.

(** * discipline: what the RHP handlers guarantee about their calls, and what the
   oracle fields of an operation mean *)

Definition no_upd_on (s : state) (id : cid) : Prop :=
  forall u x, alookup u (upds s) = Some x -> u_cid x <> id.

Definition disc (s : state) (o : op) : Prop :=
  match o with
  | Form1 id _ ffsize fmroot _ => alookup id (t2 (dbs s)) = None /\ ffsize = 0 /\ fmroot = meta []
  | Form2 id c => alookup id (t1 (dbs s)) = None /\ r2_fsize c = 0 /\ r2_mroot c = meta []
  | Unlock1 id => mem id (locks s) = true /\ no_upd_on s id
  | Open1 u id =>
      mem id (locks s) = true /\ no_upd_on s id /\ alookup u (upds s) = None /\
      exists c, alookup id (t1 (dbs s)) = Some c /\ rev c <> max_rev
  | Commit1 u _ nfsize nmroot _ =>
      forall x, alookup u (upds s) = Some x ->
        nfsize = sector_size * nlen (u_roots x) /\ nmroot = meta (u_roots x)
  | Renew1 old new _ _ _ _ _ _ _ mold _ =>
      mem old (locks s) = true /\ no_upd_on s old /\ alookup new (t2 (dbs s)) = None /\
      (exists c, alookup old (t1 (dbs s)) = Some c /\ rev c <> max_rev) /\
      mold = meta (cache_get s old)
  | Revise2 _ _ newroots mnew _ _ _ => mnew = meta newroots
  | Renew2 old new _ mold _ _ =>
      alookup new (t1 (dbs s)) = None /\ mold = meta (cache_get s old) /\
      (* new = old.V2RenewalID(): a contract has one renewal id *)
      (forall e d, alookup old (t2 (dbs s)) = Some e -> rto e = Some d -> new = d)
  | RawRevise1 _ _ _ _ _ _ _ => False
  | RawRevise2 _ _ _ _ _ => False
  | _ => True
  end.

Fixpoint disc_run (s : state) (ops : list op) : Prop :=
  match ops with
  | [] => True
  | o :: rest => disc s o /\ disc_run (fst (step s o)) rest
  end.

Definition runs (s : state) (ops : list op) : state := fold_left (fun s o => fst (step s o)) ops s.

(** * helper lemmas on tables *)

Lemma tab_ok_ext v1 g g' t :
  (forall id c, alookup id t = Some c -> rto c = None -> g id = g' id) ->
  tab_ok v1 g t -> tab_ok v1 g' t.
Proof.
  intros Hg [ND H]; split; [exact ND|]. intros id c L. specialize (H id c L).
  unfold entry_ok in *. destruct H as [H1 H2]; split; [|exact H2].
  destruct (rto c) eqn:R; [exact H1|]. rewrite <- (Hg id c L R). exact H1.
Qed.

Definition gset (g : cid -> list root) (k : cid) (l : list root) : cid -> list root :=
  fun x => if x =? k then l else g x.

(* rewrite one live row *)
Lemma tab_ok_update v1 g t id c c' l :
  tab_ok v1 g t -> alookup id t = Some c -> rto c = None ->
  rto c' = None -> rfrom c' = rfrom c -> live_ok l c' ->
  tab_ok v1 (gset g id l) (aset id c' t).
Proof.
  intros [ND H] L R R' F' LO. split; [now apply NoDup_aset|].
  intros x cx Lx. rewrite alookup_aset in Lx. unfold gset.
  destruct (x =? id) eqn:E.
  - apply N.eqb_eq in E; subst x. injection Lx as <-.
    unfold entry_ok. cbn beta. rewrite N.eqb_refl, R'. split; [exact LO|].
    intros p Fp. rewrite F' in Fp. destruct (H id c L) as [_ H2].
    destruct (H2 p Fp) as (cp & Lp & Tp). exists cp. split; [|exact Tp].
    rewrite alookup_aset. destruct (p =? id) eqn:Ep; [|exact Lp].
    apply N.eqb_eq in Ep; subst p. rewrite L in Lp. injection Lp as <-. congruence.
  - destruct (H x cx Lx) as [H1 H2]. unfold entry_ok in *. cbn beta. rewrite E. split.
    + destruct (rto cx) as [d|] eqn:Rx; [|exact H1].
      destruct H1 as (Hr & Hm & Hd & c2 & L2 & F2). repeat split; auto.
      rewrite alookup_aset. destruct (d =? id) eqn:Ed.
      * apply N.eqb_eq in Ed; subst d. rewrite L in L2. injection L2 as <-.
        exists c'. split; [reflexivity|]. now rewrite F'.
      * exists c2. now split.
    + intros p Fp. destruct (H2 p Fp) as (cp & Lp & Tp). exists cp. split; [|exact Tp].
      rewrite alookup_aset. destruct (p =? id) eqn:Ep; [|exact Lp].
      apply N.eqb_eq in Ep; subst p. rewrite L in Lp. injection Lp as <-. congruence.
Qed.

(* insert a new live, unlinked row *)
Lemma tab_ok_insert v1 g t id c :
  tab_ok v1 g t -> alookup id t = None ->
  rto c = None -> rfrom c = None -> live_ok (g id) c ->
  tab_ok v1 g (aset id c t).
Proof.
  intros [ND H] L R F LO. split; [now apply NoDup_aset|].
  intros x cx Lx. rewrite alookup_aset in Lx.
  destruct (x =? id) eqn:E.
  - apply N.eqb_eq in E; subst x. injection Lx as <-.
    unfold entry_ok. rewrite R, F. split; [exact LO|discriminate].
  - destruct (H x cx Lx) as [H1 H2]. unfold entry_ok in *. split.
    + destruct (rto cx) as [d|] eqn:Rx; [|exact H1].
      destruct H1 as (Hr & Hm & Hd & c2 & L2 & F2). repeat split; auto.
      exists c2. split; [|exact F2]. rewrite alookup_aset.
      destruct (d =? id) eqn:Ed; [|exact L2]. apply N.eqb_eq in Ed; subst d. congruence.
    + intros p Fp. destruct (H2 p Fp) as (cp & Lp & Tp). exists cp. split; [|exact Tp].
      rewrite alookup_aset. destruct (p =? id) eqn:Ep; [|exact Lp].
      apply N.eqb_eq in Ep; subst p. congruence.
Qed.

(* the renewal: [old] live becomes linked and empty, [new] takes its rows *)
Lemma tab_ok_renew v1 g t t' old new (c oc nc : ct) :
  tab_ok v1 g t -> old <> new -> alookup new t = None -> alookup old t = Some c -> rto c = None ->
  rto oc = Some new -> rfrom oc = rfrom c -> rows oc = rows c -> (v1 = true -> rev oc = max_rev) ->
  rto nc = None -> fsize nc = sector_size * nlen (g old) -> mroot nc = meta (g old) ->
  NoDup (map fst t') ->
  (forall x, alookup x t' =
     if x =? old then Some (with_rows oc [])
     else if x =? new then Some (with_rows (with_from nc (Some old)) (rows oc))
     else alookup x t) ->
  tab_ok v1 (gset g new (g old)) t'.
Proof.
  intros [ND H] Hne Lnew Lold Rc Roc Foc Rows Hrev Rnc Fs Mr ND' LK.
  assert (Eno : (new =? old) = false) by lia. assert (Eon : (old =? new) = false) by lia.
  destruct (H old c Lold) as [Hlive Hfrom]. unfold entry_ok in Hlive; rewrite Rc in Hlive.
  destruct Hlive as (Hrows & _ & _).
  split; [exact ND'|]. intros x cx Lx. rewrite LK in Lx. unfold gset.
  destruct (x =? old) eqn:E1; [|destruct (x =? new) eqn:E2].
  - apply N.eqb_eq in E1; subst x. injection Lx as <-.
    unfold entry_ok. cbn [with_rows rto rfrom rows rev]. rewrite Roc. split.
    + repeat split; auto.
      eexists. split; [rewrite LK, Eno, N.eqb_refl; reflexivity|reflexivity].
    + intros p Fp. rewrite Foc in Fp. destruct (Hfrom p Fp) as (cp & Lp & Tp).
      exists cp. split; [|exact Tp]. rewrite LK.
      destruct (p =? old) eqn:Ep.
      { apply N.eqb_eq in Ep; subst p. rewrite Lold in Lp. injection Lp as <-. congruence. }
      destruct (p =? new) eqn:Ep2; [|exact Lp].
      apply N.eqb_eq in Ep2; subst p. congruence.
  - apply N.eqb_eq in E2; subst x. injection Lx as <-.
    unfold entry_ok. cbn [with_rows with_from rto rfrom rows fsize mroot]. cbn beta.
    rewrite N.eqb_refl, Rnc. split.
    + unfold live_ok. cbn [rows fsize mroot]. rewrite Rows. auto.
    + intros p [= <-]. eexists. split; [rewrite LK, N.eqb_refl; reflexivity|exact Roc].
  - destruct (H x cx Lx) as [H1 H2]. unfold entry_ok in *. cbn beta. rewrite E2. split.
    + destruct (rto cx) as [d|] eqn:Rx; [|exact H1].
      destruct H1 as (Hr & Hm & Hd & c2 & L2 & F2). repeat split; auto.
      rewrite LK. destruct (d =? old) eqn:Ed.
      * apply N.eqb_eq in Ed; subst d. rewrite Lold in L2. injection L2 as <-.
        eexists. split; [reflexivity|]. cbn [with_rows rfrom]. now rewrite Foc.
      * destruct (d =? new) eqn:Ed2.
        { apply N.eqb_eq in Ed2; subst d. congruence. }
        exists c2. now split.
    + intros p Fp. destruct (H2 p Fp) as (cp & Lp & Tp). exists cp. split; [|exact Tp].
      rewrite LK. destruct (p =? old) eqn:Ep.
      { apply N.eqb_eq in Ep; subst p. rewrite Lold in Lp. injection Lp as <-. congruence. }
      destruct (p =? new) eqn:Ep2; [|exact Lp].
      apply N.eqb_eq in Ep2; subst p. congruence.
Qed.

(** * small facts about the state *)

Lemma cache_get_aset s k l x c :
  cache_get (set_cache s (aset k l c)) x =
  if x =? k then l else match alookup x c with Some m => m | None => [] end.
Proof. unfold cache_get; cbn [cache set_cache]. rewrite alookup_aset. now destruct (x =? k). Qed.

Lemma fold_upd_snoc l acts a l1 l2 :
  fold_upd l acts = Ok l1 -> upd_apply l1 a = Ok l2 -> fold_upd l (acts ++ [a]) = Ok l2.
Proof.
  revert l; induction acts as [|b acts IH]; intros l H1 H2; cbn in *.
  - injection H1 as <-. now rewrite H2.
  - destruct (upd_apply l b) as [l'| |]; cbn in *; try discriminate. now apply IH.
Qed.

Lemma NoDup_aremove V k (l : list (N * V)) : NoDup (map fst l) -> NoDup (map fst (aremove k l)).
Proof.
  induction l as [|[k' v] t IH]; cbn; [auto|]. intros ND. inversion ND as [|? ? Hn ND']; subst.
  destruct (k =? k'); [exact ND'|]. cbn. constructor; [|now apply IH].
  intros Hin. apply Hn. clear -Hin. induction t as [|[k2 v2] t IH]; cbn in *; [tauto|].
  destruct (k =? k2); cbn in *; [now right|]. destruct Hin; [now left|right; auto].
Qed.

(* a v1 row that is not at the maximum revision number has not been renewed *)
Lemma not_max_live s id c :
  Inv s -> alookup id (t1 (dbs s)) = Some c -> rev c <> max_rev -> rto c = None.
Proof.
  intros I L R. destruct (proj2 (inv_t1 s I) id c L) as [H _].
  destruct (rto c); [|reflexivity]. destruct H as (_ & Hm & _). now specialize (Hm eq_refl).
Qed.

(** * Restart: the loaded cache *)

Lemma load_tab_lookup id : forall t acc, NoDup (map fst t) ->
  alookup id (load_tab t acc) =
  match alookup id t with
  | Some c => match rows c with [] => alookup id acc | _ => Some (tbl_list (rows c)) end
  | None => alookup id acc
  end.
Proof.
  induction t as [|[k c] t IH]; intros acc ND; cbn [load_tab alookup map fst] in *; [reflexivity|].
  inversion ND as [|? ? Hn ND']; subst. rewrite IH by exact ND'.
  destruct (id =? k) eqn:E.
  - apply N.eqb_eq in E; subst k.
    assert (Hno : alookup id t = None).
    { destruct (alookup id t) eqn:L; [|reflexivity]. apply alookup_In in L.
      exfalso; apply Hn. change id with (fst (id, c0)). now apply in_map. }
    rewrite Hno. destruct (rows c); [reflexivity|]. now rewrite alookup_aset_same.
  - destruct (alookup id t) as [c'|] eqn:L.
    + destruct (rows c'); [|reflexivity].
      destruct (rows c); [reflexivity|]. rewrite alookup_aset_other; [reflexivity|]. lia.
    + destruct (rows c); [reflexivity|]. rewrite alookup_aset_other; [reflexivity|]. lia.
Qed.

Lemma cache_get_load s id : Inv s ->
  cache_get {| dbs := dbs s; cache := load (dbs s); upds := []; locks := []; height := height s |} id =
  match alookup id (t1 (dbs s)), alookup id (t2 (dbs s)) with
  | Some c, _ => tbl_list (rows c)
  | None, Some c => tbl_list (rows c)
  | None, None => []
  end.
Proof.
  intros I. unfold cache_get, load; cbn [cache].
  rewrite load_tab_lookup by exact (proj1 (inv_t2 s I)).
  rewrite load_tab_lookup by exact (proj1 (inv_t1 s I)). cbn [alookup].
  destruct (alookup id (t1 (dbs s))) as [c1|] eqn:L1.
  - rewrite (inv_disj s I id) by congruence. now destruct (rows c1).
  - destruct (alookup id (t2 (dbs s))) as [c2|]; [|reflexivity]. now destruct (rows c2).
Qed.


(** * preservation, operation by operation *)

Lemma cache_get_same s s' : cache s' = cache s -> forall x, cache_get s' x = cache_get s x.
Proof. intros H x; unfold cache_get; now rewrite H. Qed.

Lemma cache_get_upd s s' k l : cache s' = aset k l (cache s) ->
  forall x, cache_get s' x = if x =? k then l else cache_get s x.
Proof. intros H x; unfold cache_get; rewrite H, alookup_aset. now destruct (x =? k). Qed.

Lemma cache_get_renew1 s s' old new l : cache s' = cdel old (aset new l (cache s)) ->
  forall x, cache_get s' x = if x =? old then [] else if x =? new then l else cache_get s x.
Proof.
  intros H x; unfold cache_get; rewrite H, alookup_cdel.
  destruct (x =? old); [reflexivity|]. rewrite alookup_aset. now destruct (x =? new).
Qed.

(* tables and cache untouched *)
Lemma inv_frame s s' :
  Inv s -> t1 (dbs s') = t1 (dbs s) -> t2 (dbs s') = t2 (dbs s) -> nsec (dbs s') = nsec (dbs s) ->
  cache s' = cache s -> upd_ok s' -> NoDup (map fst (upds s')) -> Inv s'.
Proof.
  intros I E1 E2 En Ec U N. pose proof (cache_get_same s s' Ec) as G.
  constructor; auto; rewrite ?E1, ?E2, ?Ec, ?En.
  - eapply tab_ok_ext; [|exact (inv_t1 s I)]. intros; now rewrite G.
  - eapply tab_ok_ext; [|exact (inv_t2 s I)]. intros; now rewrite G.
  - exact (inv_disj s I).
  - exact (inv_cdom s I).
  - exact (inv_nsec s I).
Qed.

Lemma upd_ok_frame s s' :
  upd_ok s -> t1 (dbs s') = t1 (dbs s) -> cache s' = cache s -> upds s' = upds s -> upd_ok s'.
Proof.
  intros U E1 Ec Eu u x L. rewrite Eu in L. destruct (U u x L) as (H1 & H2 & H3 & H4).
  rewrite E1, (cache_get_same s s' Ec), Eu. auto.
Qed.

Lemma inv_simple s s' :
  Inv s -> t1 (dbs s') = t1 (dbs s) -> t2 (dbs s') = t2 (dbs s) -> nsec (dbs s') = nsec (dbs s) ->
  cache s' = cache s -> upds s' = upds s -> Inv s'.
Proof.
  intros I E1 E2 En Ec Eu. apply (inv_frame s s' I E1 E2 En Ec).
  - now apply (upd_ok_frame s s' (inv_upd s I)).
  - rewrite Eu. exact (inv_unodup s I).
Qed.

Lemma inv_open1 s u id : Inv s -> disc s (Open1 u id) -> Inv (fst (step s (Open1 u id))).
Proof.
  intros I (_ & Hno & Hu & c & Lc & Rc). cbn [step].
  destruct (revisable1 (height s) (t1 (dbs s)) id) as [[]|e|]; cbn [fst]; try exact I.
  apply (inv_frame s); try reflexivity; auto.
  - intros u' x L. cbn [upds set_upds dbs cache] in *. rewrite alookup_aset in L.
    unfold cache_get at 1; cbn [cache set_upds].
    destruct (u' =? u) eqn:E.
    + apply N.eqb_eq in E; subst u'. injection L as <-. cbn [u_cid u_old u_acts u_roots].
      repeat split.
      * exists c. split; [exact Lc|]. now apply (not_max_live s id c I).
      * intros u2 x2 L2 Ec. rewrite alookup_aset in L2.
        destruct (u2 =? u) eqn:E2; [lia|]. exfalso. now apply (Hno u2 x2 L2).
    + destruct (inv_upd s I u' x L) as (H1 & H2 & H3 & H4). repeat split; auto.
      intros u2 x2 L2 Ec. rewrite alookup_aset in L2.
      destruct (u2 =? u) eqn:E2; [|now apply (H4 u2 x2)].
      injection L2 as <-. cbn [u_cid] in Ec. exfalso. now apply (Hno u' x L).
  - cbn [upds set_upds]. apply NoDup_aset. exact (inv_unodup s I).
Qed.

Lemma inv_act s u a : Inv s -> Inv (fst (step s (Act u a))).
Proof.
  intros I. cbn [step]. destruct (alookup u (upds s)) as [x|] eqn:L; [|exact I].
  destruct (upd_apply (u_roots x) a) as [l'|e|] eqn:A; cbn [fst]; try exact I.
  destruct (inv_upd s I u x L) as (H1 & H2 & H3 & H4).
  apply (inv_frame s); try reflexivity; auto.
  - intros u' x' L'. cbn [upds set_upds dbs cache] in *. rewrite alookup_aset in L'.
    unfold cache_get at 1; cbn [cache set_upds].
    destruct (u' =? u) eqn:E.
    + apply N.eqb_eq in E; subst u'. injection L' as <-. cbn [u_cid u_old u_acts u_roots].
      repeat split; auto.
      * eapply fold_upd_snoc; eauto.
      * intros u2 x2 L2 Ec. rewrite alookup_aset in L2.
        destruct (u2 =? u) eqn:E2; [lia|]. now apply (H4 u2 x2).
    + destruct (inv_upd s I u' x' L') as (G1 & G2 & G3 & G4). repeat split; auto.
      intros u2 x2 L2 Ec. rewrite alookup_aset in L2.
      destruct (u2 =? u) eqn:E2; [|now apply (G4 u2 x2)].
      injection L2 as <-. cbn [u_cid] in Ec. exfalso.
      assert (u' = u) by (apply (H4 u' x' L'); congruence). lia.
  - cbn [upds set_upds]. apply NoDup_aset. exact (inv_unodup s I).
Qed.

Lemma inv_close1 s u : Inv s -> Inv (fst (step s (Close1 u))).
Proof.
  intros I. cbn [step fst]. apply (inv_frame s); try reflexivity; auto.
  - intros u' x L. cbn [upds set_upds dbs cache] in *.
    unfold cache_get at 1; cbn [cache set_upds].
    destruct (N.eq_dec u' u) as [->|Hne].
    + rewrite alookup_aremove_same in L by exact (inv_unodup s I). discriminate.
    + rewrite alookup_aremove_other in L by exact Hne.
      destruct (inv_upd s I u' x L) as (G1 & G2 & G3 & G4). repeat split; auto.
      intros u2 x2 L2 Ec. destruct (N.eq_dec u2 u) as [->|Hne2].
      * rewrite alookup_aremove_same in L2 by exact (inv_unodup s I). discriminate.
      * rewrite alookup_aremove_other in L2 by exact Hne2. now apply (G4 u2 x2).
  - cbn [upds set_upds]. apply NoDup_aremove. exact (inv_unodup s I).
Qed.

(* a new contract row whose id no updater refers to *)
Lemma upd_ok_t1_insert s d' id c :
  upd_ok s -> alookup id (t1 (dbs s)) = None -> t1 d' = aset id c (t1 (dbs s)) ->
  upd_ok (set_dbs s d').
Proof.
  intros U Ln E u x L. cbn [upds set_dbs] in L. destruct (U u x L) as ((c0 & L0 & R0) & H2 & H3 & H4).
  cbn [dbs set_dbs upds]. unfold cache_get; cbn [cache set_dbs]. fold (cache_get s (u_cid x)).
  repeat split; auto. exists c0. split; [|exact R0]. rewrite E, alookup_aset.
  destruct (u_cid x =? id) eqn:Ex; [|exact L0]. apply N.eqb_eq in Ex. congruence.
Qed.

Lemma cache_absent s id : Inv s ->
  alookup id (t1 (dbs s)) = None -> alookup id (t2 (dbs s)) = None -> cache_get s id = [].
Proof.
  intros I L1 L2. unfold cache_get. destruct (alookup id (cache s)) eqn:E; [|reflexivity].
  destruct (inv_cdom s I id); congruence.
Qed.

Lemma inv_form1 s id frev ffsize fmroot ws :
  Inv s -> disc s (Form1 id frev ffsize fmroot ws) -> Inv (fst (step s (Form1 id frev ffsize fmroot ws))).
Proof.
  intros I (L2 & -> & ->). cbn [step]. unfold outcome.
  match goal with |- context [store_add1 ?d ?i ?c None] => destruct (store_add1 d i c None) as [[d' k]|e|] eqn:E end;
    cbn [fst]; try exact I.
  apply store_add1_ok in E as [L1 ->].
  pose proof (cache_absent s id I L1 L2) as Cg.
  constructor; cbn [dbs set_dbs set_t1 t1 t2 cache upds nsec].
  - eapply tab_ok_ext; [|apply (tab_ok_insert true (cache_get s)); [exact (inv_t1 s I)|exact L1|reflexivity|reflexivity|]].
    + intros; reflexivity.
    + rewrite Cg. repeat split; cbn [rows fsize mroot]; reflexivity || lia.
  - exact (inv_t2 s I).
  - intros x Hx. rewrite alookup_aset in Hx. destruct (x =? id) eqn:Ex.
    + apply N.eqb_eq in Ex; now subst.
    + now apply (inv_disj s I).
  - intros x Hx. destruct (inv_cdom s I x Hx) as [H|H]; [left|now right].
    rewrite alookup_aset. destruct (x =? id); [discriminate|exact H].
  - eapply (upd_ok_t1_insert s); [exact (inv_upd s I)|exact L1|reflexivity].
  - exact (inv_unodup s I).
  - cbn [nsec]. rewrite total_aset_none by exact L1. cbn [rows]. rewrite (inv_nsec s I). cbn. lia.
Qed.

Lemma inv_form2 s id c :
  Inv s -> disc s (Form2 id c) -> Inv (fst (step s (Form2 id c))).
Proof.
  intros I (L1 & Hf & Hm). cbn [step]. unfold outcome.
  destruct (store_add2 (dbs s) id (ct_of_rv2 c) None) as [[d' k]|e|] eqn:E; cbn [fst]; try exact I.
  apply store_add2_ok in E as [L2 ->].
  pose proof (cache_absent s id I L1 L2) as Cg.
  constructor; cbn [dbs set_dbs set_t2 t1 t2 cache upds nsec].
  - exact (inv_t1 s I).
  - eapply tab_ok_ext; [|apply (tab_ok_insert false (cache_get s)); [exact (inv_t2 s I)|exact L2|reflexivity|reflexivity|]].
    + intros; reflexivity.
    + rewrite Cg. repeat split; cbn [rows fsize mroot ct_of_rv2]; auto; try (rewrite Hf; reflexivity).
  - intros x Hx. rewrite alookup_aset. destruct (x =? id) eqn:Ex.
    + apply N.eqb_eq in Ex; subst. congruence.
    + now apply (inv_disj s I).
  - intros x Hx. destruct (inv_cdom s I x Hx) as [H|H]; [now left|right].
    rewrite alookup_aset. destruct (x =? id); [discriminate|exact H].
  - intros u x L. destruct (inv_upd s I u x L) as (H1 & H2 & H3 & H4). repeat split; auto.
  - exact (inv_unodup s I).
  - cbn [nsec]. rewrite total_aset_none by exact L2. cbn [rows ct_of_rv2]. rewrite (inv_nsec s I). cbn. lia.
Qed.

End Inv.
