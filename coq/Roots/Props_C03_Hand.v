(* C03 (WP-Y) — the session statements of C03 over histories that contain the RHP handlers' updater calls
   and status changes made by the chain subscriber (Hand.v).  Statements only; every proof is [exact lemma].

   Vocabulary (Hand.v / HandProofs.v)
     hop                  HS e (an event of Sess.v) | HAct t u a (an updater call of session t's handler:
                          AppendSector / SwapSectors / TrimSectors / UpdateSector) | HStatus id st (the chain
                          subscriber writes Contract.Status of id: confirmed, rejected, successful, failed, or
                          back after a reorg — any status, at any moment, whoever holds or waits for the lock)
     hdisc meta H e       the discipline of Sess.v (callers' discipline + lock protocol) for HS / HAct; a status
                          change needs none, except that a contract whose rows were expired stays rejected
     hreach meta H        H is reached from the empty host by a disciplined history of any length
     usable st            st is pending or active (isGoodForModification's first clause)
     unusable H id        id is a v1 contract of the store whose status is neither

   Reading.  "whatever the store refuses afterwards is refused in the model": on a v1 contract that is
   rejected / resolved, Manager.Lock (of a caller that waited or not), ReviseContract, ContractUpdater.Commit
   and RenewContract refuse and change nothing ([c03_unusable_contract_*]).  What the code does NOT refuse is
   not refused here either: a payment revision persisted by an RHP3 RPC that got its lock before the status
   changed, and everything v2 (Hand.v header). *)
From HostdBase Require Import Base.
From HostdRoots Require Import Model Lists ProofsReplay ProofsInv ProofsStep ProofsRenew ProofsSpec ProofsTop.
From HostdRoots Require Import Sess Chain Hand SessFrame SessProofs SessTop SessCheck HandProofs.
Open Scope N_scope.

(* every state reached by handlers editing lists, callers queueing, payments, renewals AND status changes
   in any order is a state the sessions of Sess.v reach: c03_lock_returns_current_list,
   c03_v1_lock_returns_current_revision, c03_locked_view_is_current, c03_invariant_under_sessions (and
   through it every [reach] theorem of Props_C03.v) hold there *)
Theorem c03_handler_histories_are_session_histories : forall meta H, hreach meta H -> sreach meta (hS H).
Proof. exact hreach_sreach. Qed.
Print Assumptions c03_handler_histories_are_session_histories.

Theorem c03_invariant_under_handlers_and_status_changes : forall meta H, hreach meta H -> Inv meta (sb (hS H)).
Proof. exact (fun meta H R => si_inv meta _ (hreach_sinv meta H R)). Qed.
Print Assumptions c03_invariant_under_handlers_and_status_changes.

(* Manager.Lock returning to a caller (queued or not) in such a state: the contract is usable, the revision
   is the stored one and commits to the list the manager serves and the store persists *)
Theorem c03_v1_lock_returns_current_revision_with_status : forall meta H t id H' r f m,
  hreach meta H -> hstep H (HS (SAcq1 t id)) = (H', hs (SOLock1 (Ok (r, f, m)))) ->
  usable (hstatus H id) = true /\
  exists c, alookup id (t1 (dbs (sb (hS H)))) = Some c /\ rto c = None /\ r = rev c /\
    tbl_list (rows c) = cache_get (sb (hS H)) id /\
    f = sector_size * nlen (cache_get (sb (hS H)) id) /\ m = meta (cache_get (sb (hS H)) id).
Proof. exact hand_acquire1. Qed.
Print Assumptions c03_v1_lock_returns_current_revision_with_status.

(* LockV2Contract does not read the status: whatever it is, handed = persisted = served *)
Theorem c03_lock_returns_current_list_with_status : forall meta H t id H' r rv l,
  hreach meta H -> hstep H (HS (SAcq2 t id)) = (H', hs (SO (OLock2 (Ok (r, false, rv, l))))) ->
  exists c, alookup id (t2 (dbs (sb (hS H)))) = Some c /\ rto c = None /\ r = rev c /\
    l = tbl_list (rows c) /\ l = cache_get (sb (hS H)) id /\
    fsize c = sector_size * nlen l /\ mroot c = meta l.
Proof. exact hand_acquire2. Qed.
Print Assumptions c03_lock_returns_current_list_with_status.

(* what a holder was handed stays the contract's state while it holds the lock, whatever the chain does to
   the contract's status meanwhile *)
Theorem c03_locked_view_is_current_with_status : forall meta H t w,
  hreach meta H -> alookup t (views (hS H)) = Some w ->
  alookup (w_id w) (owner (hS H)) = Some t /\ view_cur (sb (hS H)) w.
Proof. exact hand_locked_view_is_current. Qed.
Print Assumptions c03_locked_view_is_current_with_status.

(* a status change touches nothing but the status: lists, revisions, cache, locks, views stay *)
Theorem c03_status_change_keeps_lists : forall H id st,
  hS (fst (hstep H (HStatus id st))) = hS H /\ hstatus (fst (hstep H (HStatus id st))) id = Some st.
Proof. exact status_change_keeps_everything. Qed.
Print Assumptions c03_status_change_keeps_lists.

(* a rejected / resolved contract refuses the lock — for a caller that queued while it was still usable as
   for any other — and nothing changes (in ANY state) *)
Theorem c03_unusable_contract_refuses_lock : forall H t id, unusable H id ->
  hstep H (HS (SAcq1 t id)) = (H, hs (SOLock1 (Err EInvalid))) \/ hstep H (HS (SAcq1 t id)) = (H, hs SOBusy).
Proof. exact unusable_refuses_lock. Qed.
Print Assumptions c03_unusable_contract_refuses_lock.

(* ... and refuses the session that has held its lock since before: ReviseContract, Commit (a store failure
   at any statement included), RenewContract (after any pool answer) answer an error and leave the whole
   state — list, revision, cache, locks, views, statuses — unchanged *)
Theorem c03_unusable_contract_refuses_holder : forall H t e, sownb (hS H) e = true ->
  (exists u id, e = SOp t (Open1 u id) /\ unusable H id) \/
  (exists u x a b c f, e = SOp t (Commit1 u a b c f) /\ alookup u (upds (sb (hS H))) = Some x /\ unusable H (u_cid x)) \/
  (exists old new a b c d e1 f g h k, (e = SOp t (Renew1 old new a b c d e1 f g h k) \/
                                       e = SRenewH t true (Renew1 old new a b c d e1 f g h k)) /\ unusable H old) ->
  exists r, hstep H (HS e) = (H, hs (SO (ORes r))) /\ r <> Ok tt.
Proof. exact unusable_refuses_holder. Qed.
Print Assumptions c03_unusable_contract_refuses_holder.

(** Round 2: the expiry of root rows (ExpireContractSectors / ExpireV2ContractSectors delete the rows of
   rejected contracts, the cache entry stays) and the status guard of the v2 path.

   Reading of "every contract that has not been superseded by a renewal": a contract whose formation was
   never confirmed and whose root rows the host has deleted is given up — the host holds no list for it any
   more; C03 then asks that the host does not modify it (it signs nothing that commits to a list it does not
   persist).  The model contains fixes/C03-v2-rejected-contract-not-revisable.patch; the code before it is
   the _refuted statement below.
     hexp H       the contracts whose rows an expiry has deleted
     hreal H      what the database holds: hS H with those rows erased
     is_rej H id  the status of id is rejected *)

(* for every contract the host has not given up and that is not superseded by a renewal: the persisted list
   is the served list, and the stored revision commits to it — in every state reached by handler edits,
   waiters, payments, renewals, status changes and expiries in any order *)
Theorem c03_lists_identical_with_status_changes_and_expiry : forall meta H id c,
  hreach meta H -> mem id (hexp H) = false ->
  alookup id (t1 (dbs (hreal H))) = Some c \/ alookup id (t2 (dbs (hreal H))) = Some c ->
  rto c = None ->
  tbl_list (rows c) = cache_get (sb (hS H)) id /\
  fsize c = sector_size * nlen (cache_get (sb (hS H)) id) /\ mroot c = meta (cache_get (sb (hS H)) id).
Proof. exact live_lists_identical. Qed.
Print Assumptions c03_lists_identical_with_status_changes_and_expiry.

(* an expiry deletes rows of rejected contracts only and changes nothing else; a contract whose rows are gone
   is a rejected contract in every reachable state (hdisc: the status of such a contract does not come back) *)
Theorem c03_expiry_deletes_rejected_only : forall H id,
  hS (fst (hstep H HExpire)) = hS H /\ hst (fst (hstep H HExpire)) = hst H /\
  (mem id (hexp (fst (hstep H HExpire))) = true -> mem id (hexp H) = true \/ is_rej H id = true).
Proof. exact (expire_only_rejected (fun _ => 0)). Qed.
Print Assumptions c03_expiry_deletes_rejected_only.

Theorem c03_expired_contract_is_rejected : forall meta H id,
  hreach meta H -> mem id (hexp H) = true -> is_rej H id = true.
Proof. exact expired_is_rejected. Qed.
Print Assumptions c03_expired_contract_is_rejected.

(* ... and a rejected v2 contract is not modified (the patch): LockV2Contract reports it not revisable,
   ReviseV2Contract and RenewV2Contract — with a store failure at any statement — refuse and change nothing;
   for v1 this is c03_unusable_contract_refuses_lock / _holder *)
Theorem c03_rejected_v2_contract_not_revisable : forall H t id H' r rn rv l,
  hstep H (HS (SAcq2 t id)) = (H', hs (SO (OLock2 (Ok (r, rn, rv, l))))) -> is_rej H id = true -> rv = false.
Proof. exact rejected2_not_revisable. Qed.
Print Assumptions c03_rejected_v2_contract_not_revisable.

Theorem c03_rejected_v2_contract_refuses_revision : forall H t e, sownb (hS H) e = true ->
  (exists id c l m a b f, e = SOp t (Revise2 id c l m a b f) /\ unusable2 H id) \/
  (exists old new c m f, (e = SOp t (Renew2 old new c m true f) \/ e = SRenewH t true (Renew2 old new c m true f)) /\
                         unusable2 H old) ->
  exists r, hstep H (HS e) = (H, hs (SO (ORes r))) /\ r <> Ok tt.
Proof. exact rejected2_refuses. Qed.
Print Assumptions c03_rejected_v2_contract_refuses_revision.

(* The code BEFORE the patch (the v2 path reads no status: Model.v's Revise2 on what the database holds):
   form a v2 contract, append two roots, the formation is never confirmed, the contract is rejected and its
   rows are deleted; an append of a third root is accepted — the host persists [3] for a contract, not
   superseded by any renewal, whose signed revision commits to three sectors and for which it serves
   [1; 2; 3].  Witnessed on the real RHP4 server by TestVerifC03V4Rejected (monitor rejected-contract-revised);
   a free instead of the append panics the host ("negative stat value"). *)
Theorem c03_rejected_v2_contract_revised_refuted :
  exists evs id o c,
    hdisc_run meta0 hinit evs /\ is_rej (hruns hinit evs) id = true /\ mem id (hexp (hruns hinit evs)) = true /\
    snd (step (hreal (hruns hinit evs)) o) = ORes (Ok tt) /\
    alookup id (t2 (dbs (fst (step (hreal (hruns hinit evs)) o)))) = Some c /\ rto c = None /\
    tbl_list (rows c) <> cache_get (fst (step (hreal (hruns hinit evs)) o)) id /\
    fsize c <> sector_size * nlen (tbl_list (rows c)) /\
    mroot c <> meta0 (tbl_list (rows c)).
Proof. exact rejected_v2_revised_refuted. Qed.
Print Assumptions c03_rejected_v2_contract_revised_refuted.

(* non-vacuity of the round-2 statements: the same history on the model with the guard — not revisable,
   the append refused, the database holds no rows, the cache still [1; 2] *)
Example c03_rejected_v2_nonvacuous :
  hdisc_run meta0 hinit ex_rej2 /\
  let H := hruns hinit ex_rej2 in
  snd (hstep H (HS (SAcq2 1 7))) = hs (SO (OLock2 (Ok (1, false, false, [1; 2])))) /\
  hstep (fst (hstep H (HS (SAcq2 1 7)))) (HS (SOp 1 ex_rej2_append))
    = (fst (hstep H (HS (SAcq2 1 7))), hs (SO (ORes (Err EInvalid)))) /\
  snd (hstep H (HS (SOp 0 (Look2 7)))) = hs (SO (OLook true [] [1; 2] 1 (2 * sector_size) (meta0 [1; 2]) None None)).
Proof. exact (conj ex_rej2_disc ex_rej2_patched). Qed.

(* non-vacuity: session 1 gets the lock of pending contract 7 and appends a root, session 2 queues, the
   contract is rejected: the holder's next ReviseContract and the waiter's Lock are refused, the list and
   the revision stay *)
Example c03_handlers_nonvacuous :
  hdisc_run meta0 hinit ex_rejected /\
  snd (hstep (hruns hinit (firstn 9 ex_rejected)) (HS (SOp 1 (Open1 1 7)))) = hs (SO (ORes (Err EInvalid))) /\
  snd (hstep (hruns hinit (firstn 11 ex_rejected)) (HS (SAcq1 2 7))) = hs (SOLock1 (Err EInvalid)) /\
  look (t1 (dbs (sb (hS (hruns hinit ex_rejected))))) (sb (hS (hruns hinit ex_rejected))) 7
    = OLook true [1] [1] 2 sector_size (meta0 [1]) None None.
Proof. exact (conj ex_rejected_disc ex_rejected_obs). Qed.
