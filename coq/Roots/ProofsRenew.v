(* Roots/ProofsRenew.v — consequences of the invariant: rejected operations change nothing,
   restarts serve the same lists, accepted modifications are accepted, the renewal
   hand-over, predecessors refuse for ever, sectors stay stored. *)
From Coq Require Import Lia ZifyBool ZifyN ZifyNat.
From HostdBase Require Import Base.
From HostdRoots Require Import Model Lists ProofsReplay ProofsInv ProofsStep.
Open Scope N_scope.

(** * a rejected or failed operation leaves the whole state as it was *)

Lemma outcome_err A s (r : res (A * option nat)) f s' x :
  outcome s r f = (s', ORes x) -> x <> Ok tt -> s' = s.
Proof.
  unfold outcome. destruct r as [[a k]|e|]; intros [= <- <-] H; [now elim H|reflexivity|reflexivity].
Qed.

Lemma step_error_unchanged s o s' r : step s o = (s', ORes r) -> r <> Ok tt -> s' = s.
Proof.
  destruct o; cbn [step]; intros H Hr;
    try (injection H as <- <-; now elim Hr);
    try (now apply outcome_err in H);
    try discriminate.
  - (* Lock1 *) destruct (mem id (locks s)); [now injection H as <- _|].
    destruct (alookup id (t1 (dbs s))); [|now injection H as <- _].
    destruct (good1 (height s) c); injection H as <- <-; [now elim Hr|reflexivity].
  - (* Unlock1 *) destruct (mem id (locks s)); injection H as <- <-; [now elim Hr|reflexivity].
  - (* Open1 *) destruct (revisable1 (height s) (t1 (dbs s)) id) as [[]| |]; injection H as <- <-;
      [now elim Hr|reflexivity|reflexivity].
  - (* Act *) destruct (alookup u (upds s)); [|discriminate].
    destruct (upd_apply (u_roots u0) a); discriminate.
  - (* Commit1 *) destruct (alookup u (upds s)); [|now injection H as <- _].
    now apply outcome_err in H.
  - (* Lock2 *) destruct (mem id (locks s)); [discriminate|]. destruct (alookup id (t2 (dbs s))); discriminate.
  - unfold look in H. destruct (alookup id (t1 (dbs s))); discriminate.
  - unfold look in H. destruct (alookup id (t2 (dbs s))); discriminate.
Qed.

(* an updater action the bounds check refuses leaves the updater as it was *)
Lemma act_error_unchanged s u a s' r l : step s (Act u a) = (s', OAct r l) -> r <> Ok tt -> s' = s.
Proof.
  cbn [step]. destruct (alookup u (upds s)) as [x|]; [|now intros [= <- _ _]].
  destruct (upd_apply (u_roots x) a); intros [= <- <- _] H; [now elim H|reflexivity|reflexivity].
Qed.

(** * success, spelled out at the level of [step] *)

Lemma outcome_ok A s (m : M A) fault f s' :
  fok m -> outcome s (m fault) f = (s', ORes (Ok tt)) -> exists a, m None = Ok (a, None) /\ s' = f a.
Proof.
  intros F. unfold outcome. destruct (m fault) as [[a k]|e|] eqn:E; intros [= <-]; try discriminate.
  exists a. split; [|reflexivity]. eapply ok_any_fault; eauto.
Qed.

Lemma commit1_form s u nrev nfsize nmroot fault s' :
  step s (Commit1 u nrev nfsize nmroot fault) = (s', ORes (Ok tt)) ->
  exists x c t' ns', alookup u (upds s) = Some x /\ alookup (u_cid x) (t1 (dbs s)) = Some c /\
    store_replay (stored (dbs s)) (rows c) (u_old x) (nsec (dbs s)) (u_acts x) None = Ok ((t', ns'), None) /\
    s' = set_upds (set_cache (set_dbs s (set_nsec (set_t1 (dbs s)
            (aset (u_cid x) (with_rows (with_rev c nrev nfsize nmroot) t') (t1 (dbs s)))) ns'))
            (aset (u_cid x) (u_roots x) (cache s)))
            (aset u {| u_cid := u_cid x; u_roots := u_roots x; u_old := u_roots x; u_acts := [] |} (upds s)).
Proof.
  cbn [step]. destruct (alookup u (upds s)) as [x|]; [|discriminate]. intros H.
  apply outcome_ok in H as (d' & E & ->); [|apply fok_g_commit1]. apply guarded_ok in E as [_ E].
  apply store_revise1_ok in E as (c & t' & ns' & Lc & R & ->). now exists x, c, t', ns'.
Qed.

Lemma revise2_form s id c newroots mnew rsig hsig fault s' :
  step s (Revise2 id c newroots mnew rsig hsig fault) = (s', ORes (Ok tt)) ->
  exists e t' ns', alookup id (t2 (dbs s)) = Some e /\ rto e = None /\
    r2_fsize c = sector_size * nlen newroots /\ r2_mroot c = mnew /\
    v2_diff (stored (dbs s)) (rows e) (cache_get s id) newroots (nsec (dbs s)) None = Ok ((t', ns'), None) /\
    s' = set_cache (set_dbs s (set_nsec (set_t2 (dbs s) (aset id (with_rows (with_rv2 e c) t') (t2 (dbs s)))) ns'))
           (aset id newroots (cache s)).
Proof.
  cbn [step]. intros H. apply outcome_ok in H as (d' & E & ->); [|apply fok_m_revise2].
  unfold m_revise2, mbind in E.
  destruct (store_get (t2 (dbs s)) id None) as [[e k0]| |] eqn:Eg; try discriminate.
  apply store_get_ok in Eg as [Le ->].
  destruct (opt_is_some (rto e)) eqn:Rto; [discriminate|].
  destruct (mem _ (rejd (dbs s))); [discriminate|].
  destruct (negb (rk e =? r2_rk c)); [discriminate|].
  destruct (negb (hk e =? r2_hk c)); [discriminate|].
  destruct (negb (wstart e =? r2_ph c)); [discriminate|].
  destruct (negb (expi e =? r2_exp c)); [discriminate|].
  destruct (negb (r2_fsize c =? sector_size * nlen newroots)) eqn:Efs; [discriminate|].
  destruct (r2_cap c <? r2_fsize c); [discriminate|].
  destruct (negb rsig); [discriminate|]. destruct (negb hsig); [discriminate|].
  destruct (negb (r2_mroot c =? mnew)) eqn:Emr; [discriminate|].
  apply store_revise2_ok in E as (e' & t' & ns' & Le' & R & ->).
  rewrite Le in Le'; injection Le' as <-.
  exists e, t', ns'. repeat split; auto; try lia.
  destruct (rto e); [discriminate|reflexivity].
Qed.

Definition nc1 (nrev nfsize : N) (nmroot : hash) (nws : N) : ct :=
  {| rev := nrev; fsize := nfsize; cap := 0; mroot := nmroot; wstart := nws; expi := 0;
     rk := 0; hk := 0; rto := None; rfrom := None; rows := [] |}.

Lemma renew1_form s old new crev cfsize cmroot nrev nfsize nmroot nws mold fault s' c :
  alookup old (t1 (dbs s)) = Some c ->
  step s (Renew1 old new crev cfsize cmroot nrev nfsize nmroot nws mold fault) = (s', ORes (Ok tt)) ->
  alookup new (t1 (dbs s)) = None /\ old <> new /\
    crev = max_rev /\ cfsize = 0 /\ cmroot = 0 /\
    nfsize = sector_size * nlen (cache_get s old) /\ nmroot = mold /\
    s' = set_cache (set_dbs s (set_t1 (dbs s)
           (move_rows old new (link_from old new
              (aset old (with_to (with_rev c crev cfsize cmroot) (Some new))
                 (aset new (nc1 nrev nfsize nmroot nws) (t1 (dbs s))))))))
           (cdel old (aset new (cache_get s old) (cache s))).
Proof.
  intros Lc. cbn [step]. intros H. apply outcome_ok in H as (d' & E & ->); [|apply fok_g_renew1].
  apply guarded_ok in E as [_ E]. unfold m_renew1 in E.
  destruct (negb (cmroot =? 0)) eqn:E1; [discriminate|]. destruct (negb (cfsize =? 0)) eqn:E2; [discriminate|].
  destruct (negb (crev =? max_rev)) eqn:E3; [discriminate|].
  destruct (negb (nfsize =? sector_size * nlen (cache_get s old))) eqn:E4; [discriminate|].
  destruct (negb (nmroot =? mold)) eqn:E5; [discriminate|].
  apply store_renew1_ok in E as (Ln1 & c0 & Lc0 & ->).
  assert (Hne : old <> new) by (intros ->; congruence).
  rewrite alookup_aset_other in Lc0 by exact Hne. rewrite Lc in Lc0; injection Lc0 as <-.
  repeat split; auto; lia.
Qed.

Lemma renew2_form s old new c mold wf fault s' :
  step s (Renew2 old new c mold wf fault) = (s', ORes (Ok tt)) ->
  exists e, alookup old (t2 (dbs s)) = Some e /\ alookup new (t2 (dbs s)) = None /\ old <> new /\
    r2_fsize c = fsize e /\ r2_cap c = cap e /\ r2_mroot c = mroot e /\ r2_mroot c = mold /\
    s' = set_cache (set_dbs s (set_t2 (dbs s)
           (move_rows old new (link_from old new
              (aset old (with_to e (Some new)) (aset new (ct_of_rv2 c) (t2 (dbs s))))))))
           (aset new (cache_get s old) (cache s)).
Proof.
  cbn [step]. intros H. apply outcome_ok in H as (d' & E & ->); [|apply fok_m_renew2].
  unfold m_renew2 in E. destruct (negb wf); [discriminate|]. unfold mbind in E.
  destruct (store_get (t2 (dbs s)) old None) as [[e k0]| |] eqn:Eg; try discriminate.
  apply store_get_ok in Eg as [Le ->].
  destruct (mem old (rejd (dbs s))); [discriminate|].
  destruct (negb (r2_fsize c =? fsize e)) eqn:E1; [discriminate|].
  destruct (negb (r2_cap c =? cap e)) eqn:E2; [discriminate|].
  destruct (negb (r2_mroot c =? mroot e)) eqn:E3; [discriminate|].
  destruct (negb (r2_mroot c =? mold)) eqn:E4; [discriminate|].
  apply store_renew2_ok in E as (Ln2 & c0 & Lc0 & ->).
  assert (Hne : old <> new) by (intros ->; congruence).
  rewrite alookup_aset_other in Lc0 by exact Hne. rewrite Le in Lc0; injection Lc0 as <-.
  exists e. repeat split; auto; lia.
Qed.

Section Renew.
Variable meta : list root -> hash.
Notation Inv := (Inv meta).
Notation disc := (disc meta).

(** * the invariant, read out for a contract that has not been superseded *)

Definition is_live (s : state) (id : cid) (c : ct) : Prop :=
  (alookup id (t1 (dbs s)) = Some c \/ alookup id (t2 (dbs s)) = Some c) /\ rto c = None.

Lemma inv_live s id c : Inv s -> is_live s id c ->
  tbl_list (rows c) = cache_get s id /\
  fsize c = sector_size * nlen (cache_get s id) /\
  mroot c = meta (cache_get s id).
Proof.
  intros I [[L|L] R].
  - destruct (live_rows meta _ _ _ _ _ (inv_t1 meta s I) L R) as (-> & F & M).
    now rewrite tbl_list_of.
  - destruct (live_rows meta _ _ _ _ _ (inv_t2 meta s I) L R) as (-> & F & M).
    now rewrite tbl_list_of.
Qed.

(** * Restart *)

Lemma restart_same_lists s id c : Inv s -> is_live s id c ->
  dbs (fst (step s Restart)) = dbs s /\ cache_get (fst (step s Restart)) id = cache_get s id.
Proof.
  intros I HL. split; [reflexivity|]. cbn [step fst].
  rewrite (cache_get_load meta s id I).
  destruct (inv_live s id c I HL) as (<- & _). destruct HL as [[L|L] R].
  - now rewrite L.
  - destruct (alookup id (t1 (dbs s))) eqn:L1; [|now rewrite L].
    rewrite (inv_disj meta s I id) in L by congruence. discriminate.
Qed.

(** * accepted modifications are accepted *)

Lemma store_revise1_run d id nrev nfsize nmroot old acts c t' ns' :
  alookup id (t1 d) = Some c -> store_replay (stored d) (rows c) old (nsec d) acts None = Ok ((t', ns'), None) ->
  store_revise1 d id nrev nfsize nmroot old acts None =
  Ok (set_nsec (set_t1 d (aset id (with_rows (with_rev c nrev nfsize nmroot) t') (t1 d))) ns', None).
Proof. intros L R. cbv [store_revise1 transaction mbind stmt ret lift]. now rewrite L, R. Qed.

Lemma store_revise2_run d id c old new e t' ns' :
  alookup id (t2 d) = Some e -> v2_diff (stored d) (rows e) old new (nsec d) None = Ok ((t', ns'), None) ->
  store_revise2 d id c old new None =
  Ok (set_nsec (set_t2 d (aset id (with_rows (with_rv2 e c) t') (t2 d))) ns', None).
Proof. intros L R. cbv [store_revise2 transaction mbind stmt ret lift]. now rewrite L, R. Qed.

Lemma store_get_run t id c : alookup id t = Some c -> store_get t id None = Ok (c, None).
Proof. intros L. cbv [store_get transaction mbind stmt ret lift]. now rewrite L. Qed.

(* a commit whose sectors are stored is accepted, and serves the updater's list *)
Lemma commit_accepted s u x nrev nfsize nmroot :
  Inv s -> alookup u (upds s) = Some x ->
  acts_stored (stored (dbs s)) (u_acts x) = true ->
  (* WP-G: ... and whose contract is still revisable at the current tip *)
  (forall c, alookup (u_cid x) (t1 (dbs s)) = Some c -> good1 (height s) c = true) ->
  snd (step s (Commit1 u nrev nfsize nmroot None)) = ORes (Ok tt) /\
  cache_get (fst (step s (Commit1 u nrev nfsize nmroot None))) (u_cid x) = u_roots x.
Proof.
  intros I L S G. destruct (inv_upd meta s I u x L) as ((c & Lc & Rc) & Hold & Hfold & _).
  destruct (live_rows meta _ _ _ _ _ (inv_t1 meta s I) Lc Rc) as (Hrows & _).
  assert (Hle : nlen (u_old x) <= nsec (dbs s)).
  { pose proof (total_ge _ _ _ Lc) as Hg. rewrite Hrows, <- Hold, nlen_tbl_of in Hg.
    rewrite (inv_nsec meta s I). lia. }
  cbn [step]. rewrite L. unfold g_commit1. rewrite (guarded_pass _ _ _ _ c Lc (G c Lc)). unfold m_commit1.
  rewrite (store_revise1_run _ _ _ _ _ _ _ c (tbl_of (u_roots x))
             (nsec (dbs s) + nlen (u_roots x) - nlen (u_old x)) Lc).
  - cbn [outcome snd fst]. split; [reflexivity|].
    unfold cache_get; cbn [cache set_upds set_cache]. now rewrite alookup_aset_same.
  - rewrite Hrows, <- Hold. now apply replay_refines_list.
Qed.

(* a commit that needs a sector the host does not store is rejected as a whole *)
Lemma commit_missing_rejected s u x nrev nfsize nmroot :
  Inv s -> alookup u (upds s) = Some x ->
  acts_stored (stored (dbs s)) (u_acts x) = false ->
  (forall c, alookup (u_cid x) (t1 (dbs s)) = Some c -> good1 (height s) c = true) ->
  step s (Commit1 u nrev nfsize nmroot None) = (s, ORes (Err EOther)).
Proof.
  intros I L S G. destruct (inv_upd meta s I u x L) as ((c & Lc & Rc) & Hold & Hfold & _).
  destruct (live_rows meta _ _ _ _ _ (inv_t1 meta s I) Lc Rc) as (Hrows & _).
  assert (Hle : nlen (u_old x) <= nsec (dbs s)).
  { pose proof (total_ge _ _ _ Lc) as Hg. rewrite Hrows, <- Hold, nlen_tbl_of in Hg.
    rewrite (inv_nsec meta s I). lia. }
  cbn [step]. rewrite L. unfold g_commit1. rewrite (guarded_pass _ _ _ _ c Lc (G c Lc)). unfold m_commit1.
  assert (E : store_revise1 (dbs s) (u_cid x) nrev nfsize nmroot (u_old x) (u_acts x) None = Err EOther).
  { cbv [store_revise1 transaction mbind stmt ret lift]. rewrite Lc, Hrows, <- Hold.
    now rewrite (replay_missing _ _ _ _ _ Hfold Hle S). }
  now rewrite E.
Qed.

(* a well-formed v2 revision of a live contract (not renewed, not rejected) whose new sectors are stored
   is accepted *)
Lemma revise2_accepted s id e c newroots :
  Inv s -> alookup id (t2 (dbs s)) = Some e -> rto e = None -> mem id (rejd (dbs s)) = false ->
  rk e = r2_rk c -> hk e = r2_hk c -> wstart e = r2_ph c -> expi e = r2_exp c ->
  r2_fsize c = sector_size * nlen newroots -> r2_fsize c <= r2_cap c ->
  r2_mroot c = meta newroots -> all_stored (stored (dbs s)) newroots = true ->
  snd (step s (Revise2 id c newroots (meta newroots) true true None)) = ORes (Ok tt) /\
  cache_get (fst (step s (Revise2 id c newroots (meta newroots) true true None))) id = newroots.
Proof.
  intros I L R Rj K1 K2 K3 K4 Fs Cp Mr St.
  destruct (live_rows meta _ _ _ _ _ (inv_t2 meta s I) L R) as (Hrows & _).
  cbn [step]. unfold m_revise2, mbind. rewrite (store_get_run _ _ _ L), R, Rj. cbn [opt_is_some].
  rewrite K1, K2, K3, K4, !N.eqb_refl. cbn [negb].
  replace (r2_fsize c =? sector_size * nlen newroots) with true by lia.
  replace (r2_cap c <? r2_fsize c) with false by lia.
  replace (r2_mroot c =? meta newroots) with true by lia. cbn [negb].
  assert (Hle : nlen (cache_get s id) <= nsec (dbs s)).
  { pose proof (total_ge _ _ _ L) as Hg. rewrite Hrows, nlen_tbl_of in Hg.
    rewrite (inv_nsec meta s I). lia. }
  rewrite (store_revise2_run _ _ _ _ _ e (tbl_of newroots)
             (nsec (dbs s) + nlen newroots - nlen (cache_get s id)) L).
  - cbn [outcome snd fst]. split; [reflexivity|].
    unfold cache_get; cbn [cache set_cache]. now rewrite alookup_aset_same.
  - rewrite Hrows. now apply v2_diff_correct.
Qed.

(* a live v1 contract far enough from its proof window can be locked *)
Lemma lock1_accepted s id c :
  alookup id (t1 (dbs s)) = Some c -> mem id (locks s) = false -> good1 (height s) c = true ->
  snd (step s (Lock1 id)) = ORes (Ok tt).
Proof. intros L M G. cbn [step]. now rewrite M, L, G. Qed.

(** * the renewal hand-over *)

Record handover (v1 : bool) (s s' : state) (old new : cid) (c0 : ct) : Prop := {
  ho_list_db : exists cn, (if v1 then alookup new (t1 (dbs s')) else alookup new (t2 (dbs s'))) = Some cn /\
      tbl_list (rows cn) = tbl_list (rows c0) /\ fsize cn = fsize c0 /\ mroot cn = mroot c0 /\
      rto cn = None /\ rfrom cn = Some old;
  ho_list_served : cache_get s' new = cache_get s old /\ cache_get s old = tbl_list (rows c0);
  ho_pred : exists co, (if v1 then alookup old (t1 (dbs s')) else alookup old (t2 (dbs s'))) = Some co /\
      rto co = Some new /\ rows co = [] /\ (v1 = true -> rev co = max_rev);
  ho_stored : stored (dbs s') = stored (dbs s) /\ located (dbs s') = located (dbs s) }.

Theorem renew1_handover s old new crev cfsize cmroot nrev nfsize nmroot nws mold fault s' :
  Inv s -> disc s (Renew1 old new crev cfsize cmroot nrev nfsize nmroot nws mold fault) ->
  step s (Renew1 old new crev cfsize cmroot nrev nfsize nmroot nws mold fault) = (s', ORes (Ok tt)) ->
  exists c0, alookup old (t1 (dbs s)) = Some c0 /\ rto c0 = None /\ handover true s s' old new c0.
Proof.
  intros I (_ & _ & _ & (c & Lc & Rv) & Hm) H.
  pose proof (not_max_live meta s old c I Lc Rv) as Rc.
  destruct (renew1_form _ _ _ _ _ _ _ _ _ _ _ _ _ c Lc H) as (Ln1 & Hne & -> & -> & -> & Hfs & Hmr & ->).
  destruct (inv_live s old c I (conj (or_introl Lc) Rc)) as (Hl & Hf & Hmm).
  destruct (renew_lookup (t1 (dbs s)) old new (with_to (with_rev c max_rev 0 0) (Some new))
              (nc1 nrev nfsize nmroot nws) Hne Ln1) as [LK _].
  exists c. repeat split; auto.
  - eexists. cbn [dbs set_cache set_dbs set_t1 t1]. rewrite LK.
    replace (new =? old) with false by lia. rewrite N.eqb_refl. split; [reflexivity|].
    cbn [with_rows with_from with_to with_rev rows fsize mroot rto rfrom nc1]. repeat split; auto; congruence.
  - unfold cache_get at 1; cbn [cache set_cache]. rewrite alookup_cdel.
    replace (new =? old) with false by lia. now rewrite alookup_aset_same.
  - eexists. cbn [dbs set_cache set_dbs set_t1 t1]. rewrite LK, N.eqb_refl. split; [reflexivity|].
    cbn [with_rows with_to with_rev rows rto rev]. auto.
Qed.

Theorem renew2_handover s old new c mold wf fault s' :
  Inv s -> disc s (Renew2 old new c mold wf fault) ->
  step s (Renew2 old new c mold wf fault) = (s', ORes (Ok tt)) ->
  exists c0, alookup old (t2 (dbs s)) = Some c0 /\ rto c0 = None /\ handover false s s' old new c0.
Proof.
  intros I (_ & Hm & Hdet) H.
  destruct (renew2_form _ _ _ _ _ _ _ _ H) as (e & Le & Ln2 & Hne & Hfs & Hcap & Hmr & _ & ->).
  assert (Re : rto e = None).
  { destruct (rto e) as [d|] eqn:Re; [|reflexivity]. exfalso.
    destruct (proj2 (inv_t2 meta s I) old e Le) as [Hx _]. unfold entry_ok in Hx.
    rewrite Re in Hx. destruct Hx as (_ & _ & _ & cd & Ld & _).
    rewrite <- (Hdet e d Le Re) in Ld. congruence. }
  destruct (inv_live s old e I (conj (or_intror Le) Re)) as (Hl & Hf & Hmm).
  destruct (renew_lookup (t2 (dbs s)) old new (with_to e (Some new)) (ct_of_rv2 c) Hne Ln2) as [LK _].
  exists e. repeat split; auto.
  - eexists. cbn [dbs set_cache set_dbs set_t2 t2]. rewrite LK.
    replace (new =? old) with false by lia. rewrite N.eqb_refl. split; [reflexivity|].
    cbn [with_rows with_from with_to rows fsize mroot rto rfrom ct_of_rv2]. repeat split; auto.
  - unfold cache_get at 1; cbn [cache set_cache]. now rewrite alookup_aset_same.
  - eexists. cbn [dbs set_cache set_dbs set_t2 t2]. rewrite LK, N.eqb_refl. split; [reflexivity|].
    cbn [with_rows with_to rows rto]. repeat split; auto. discriminate.
Qed.

(** * a renewed contract refuses *)

Definition renewed1 (s : state) (id d : cid) : Prop :=
  exists c, alookup id (t1 (dbs s)) = Some c /\ rto c = Some d.
Definition renewed2 (s : state) (id d : cid) : Prop :=
  exists c, alookup id (t2 (dbs s)) = Some c /\ rto c = Some d.

Lemma pred1_refuses_lock s id d : Inv s -> renewed1 s id d ->
  step s (Lock1 id) = (s, ORes (Err EInvalid)) \/ step s (Lock1 id) = (s, ORes (Err EInsufficient)).
Proof.
  intros I (c & L & R). cbn [step]. destruct (mem id (locks s)); [now right|]. rewrite L.
  destruct (proj2 (inv_t1 meta s I) id c L) as [H _]. unfold entry_ok in H. rewrite R in H.
  destruct H as (_ & Hm & _). unfold good1. rewrite (Hm eq_refl), N.eqb_refl, andb_false_r. now left.
Qed.

Lemma pred2_refuses_revision s id d c newroots mnew rsig hsig fault : renewed2 s id d ->
  step s (Revise2 id c newroots mnew rsig hsig fault) = (s, ORes (Err EInvalid)) \/
  step s (Revise2 id c newroots mnew rsig hsig fault) = (s, ORes (Err EOther)).
Proof.
  intros (e & L & R).
  assert (H0 : step s (Revise2 id c newroots mnew rsig hsig None) = (s, ORes (Err EInvalid))).
  { cbn [step]. unfold m_revise2, mbind. rewrite (store_get_run _ _ _ L), R. reflexivity. }
  destruct fault as [k|]; [|now left].
  destruct (fault_any_statement s (Revise2 id c newroots mnew rsig hsig None) k) as [E|E]; rewrite E; auto.
Qed.

Lemma pred2_reports_renewed s id d : renewed2 s id d -> mem id (locks s) = false ->
  exists r l, step s (Lock2 id) = (s, OLock2 (Ok (r, true, false, l))).
Proof. intros (e & L & R) M. cbn [step]. rewrite M, L, R. cbn [opt_is_some negb andb]. eauto. Qed.

(* renewing it a second time is refused as well ([new] is its one renewal id) *)
Lemma pred2_refuses_renewal s id d c mold wf fault : Inv s -> renewed2 s id d ->
  exists e, step s (Renew2 id d c mold wf fault) = (s, ORes (Err e)).
Proof.
  intros I (e & L & R).
  assert (H0 : exists x, step s (Renew2 id d c mold wf None) = (s, ORes (Err x))).
  { cbn [step]. unfold m_renew2. destruct (negb wf); [now eexists|].
    unfold mbind. rewrite (store_get_run _ _ _ L).
    destruct (mem _ (rejd (dbs _))); [now eexists|].
    destruct (negb (r2_fsize c =? fsize e)); [now eexists|].
    destruct (negb (r2_cap c =? cap e)); [now eexists|].
    destruct (negb (r2_mroot c =? mroot e)); [now eexists|].
    destruct (negb (r2_mroot c =? mold)); [now eexists|].
    destruct (proj2 (inv_t2 meta s I) id e L) as [H _]. unfold entry_ok in H. rewrite R in H.
    destruct H as (_ & _ & _ & cd & Ld & _).
    cbv [store_renew2 transaction mbind stmt ret lift]. rewrite Ld. now eexists. }
  destruct H0 as (x & H0). destruct fault as [k|]; [|now exists x].
  destruct (fault_any_statement s (Renew2 id d c mold wf None) k) as [E|E]; rewrite E; eauto.
Qed.

(** * ... for ever: links are never undone by a disciplined operation *)

Lemma renewed1_stable s o id d : Inv s -> disc s o -> renewed1 s id d -> renewed1 (fst (step s o)) id d.
Proof.
  intros I D (c & L & R).
  assert (Same : forall s', t1 (dbs s') = t1 (dbs s) -> renewed1 s' id d) by (intros s' E; exists c; now rewrite E).
  destruct o; try (apply Same; reflexivity).
  - (* Form1 *) cbn [step]. unfold outcome.
    match goal with |- context [store_add1 ?dd ?i ?cc None] => destruct (store_add1 dd i cc None) as [[d' k]|e|] eqn:E end;
      try (apply Same; reflexivity).
    apply store_add1_ok in E as [L1 ->]. exists c. cbn [fst dbs set_dbs set_t1 t1].
    rewrite alookup_aset. destruct (id =? id0) eqn:Ei; [apply N.eqb_eq in Ei; subst; congruence|auto].
  - (* Form2 *) cbn [step]. unfold outcome.
    destruct (store_add2 (dbs s) id0 (ct_of_rv2 c0) None) as [[d' k]|e|] eqn:E; try (apply Same; reflexivity).
    apply store_add2_ok in E as [_ ->]. apply Same. reflexivity.
  - (* Lock1 *) cbn [step]. destruct (mem id0 (locks s)); [apply Same; reflexivity|].
    destruct (alookup id0 (t1 (dbs s))); [|apply Same; reflexivity].
    destruct (good1 (height s) c0); apply Same; reflexivity.
  - cbn [step]. destruct (mem id0 (locks s)); apply Same; reflexivity.
  - (* Open1 *) cbn [step]. destruct (revisable1 (height s) (t1 (dbs s)) id0) as [[]| |]; apply Same; reflexivity.
  - cbn [step]. destruct (alookup u (upds s)); [|apply Same; reflexivity].
    destruct (upd_apply (u_roots u0) a); apply Same; reflexivity.
  - (* Commit1 *)
    destruct (step s (Commit1 u nrev nfsize nmroot fault)) as [s' ob] eqn:E. cbn [fst].
    destruct ob as [[[]|e|]| | | | |];
      try (pose proof E as E'; apply step_error_unchanged in E'; [subst s'; now exists c|discriminate]).
    + apply commit1_form in E as (x & c1 & t' & ns' & Lu & Lc1 & _ & ->).
      exists c. cbn [dbs set_upds set_cache set_dbs set_t1 set_nsec t1]. rewrite alookup_aset.
      destruct (id =? u_cid x) eqn:Ei; [|auto]. apply N.eqb_eq in Ei; subst id.
      destruct (inv_upd meta s I u x Lu) as ((c2 & Lc2 & Rc2) & _). congruence.
    + cbn [step] in E. destruct (alookup u (upds s)); [|discriminate]. unfold outcome in E.
      destruct (g_commit1 s u0 nrev nfsize nmroot fault) as [[? ?]| |]; discriminate.
    + cbn [step] in E. destruct (alookup u (upds s)); [|discriminate]. unfold outcome in E.
      destruct (g_commit1 s u0 nrev nfsize nmroot fault) as [[? ?]| |]; discriminate.
    + cbn [step] in E. destruct (alookup u (upds s)); [|discriminate]. unfold outcome in E.
      destruct (g_commit1 s u0 nrev nfsize nmroot fault) as [[? ?]| |]; discriminate.
    + cbn [step] in E. destruct (alookup u (upds s)); [|discriminate]. unfold outcome in E.
      destruct (g_commit1 s u0 nrev nfsize nmroot fault) as [[? ?]| |]; discriminate.
    + cbn [step] in E. destruct (alookup u (upds s)); [|discriminate]. unfold outcome in E.
      destruct (g_commit1 s u0 nrev nfsize nmroot fault) as [[? ?]| |]; discriminate.
  - (* Renew1 *)
    destruct D as (_ & _ & _ & (c1 & Lc1 & Rv1) & _).
    destruct (step s (Renew1 old new crev cfsize cmroot nrev nfsize nmroot nws mold fault)) as [s' ob] eqn:E.
    cbn [fst]. destruct ob as [[[]|e|]| | | | |];
      try (pose proof E as E'; apply step_error_unchanged in E'; [subst s'; now exists c|discriminate]);
      try (cbn [step] in E; unfold outcome in E;
           match type of E with (match ?m with _ => _ end) = _ => destruct m as [[? ?]| |]; discriminate end).
    destruct (renew1_form _ _ _ _ _ _ _ _ _ _ _ _ _ c1 Lc1 E) as (Ln1 & Hne & _ & _ & _ & _ & _ & ->).
    destruct (renew_lookup (t1 (dbs s)) old new (with_to (with_rev c1 crev cfsize cmroot) (Some new))
                (nc1 nrev nfsize nmroot nws) Hne Ln1) as [LK _].
    exists c. cbn [dbs set_cache set_dbs set_t1 t1]. rewrite LK.
    assert (id <> old).
    { intros ->. rewrite Lc1 in L. injection L as <-.
      pose proof (not_max_live meta s old c1 I Lc1 Rv1). congruence. }
    assert (id <> new) by congruence.
    replace (id =? old) with false by lia. replace (id =? new) with false by lia. auto.
  - (* Revise2 *)
    destruct (step s (Revise2 id0 c0 newroots mnew rsig hsig fault)) as [s' ob] eqn:E. cbn [fst].
    destruct ob as [[[]|e|]| | | | |];
      try (pose proof E as E'; apply step_error_unchanged in E'; [subst s'; now exists c|discriminate]);
      try (cbn [step] in E; unfold outcome in E;
           match type of E with (match ?m with _ => _ end) = _ => destruct m as [[? ?]| |]; discriminate end).
    apply revise2_form in E as (e & t' & ns' & _ & _ & _ & _ & _ & ->). apply Same. reflexivity.
  - (* Renew2 *)
    destruct (step s (Renew2 old new c0 mold wf fault)) as [s' ob] eqn:E. cbn [fst].
    destruct ob as [[[]|e|]| | | | |];
      try (pose proof E as E'; apply step_error_unchanged in E'; [subst s'; now exists c|discriminate]);
      try (cbn [step] in E; unfold outcome in E;
           match type of E with (match ?m with _ => _ end) = _ => destruct m as [[? ?]| |]; discriminate end).
    apply renew2_form in E as (e & _ & _ & _ & _ & _ & _ & _ & ->). apply Same. reflexivity.
  - cbn [step]. destruct (mem id0 (locks s)); [apply Same; reflexivity|].
    destruct (alookup id0 (t2 (dbs s))); apply Same; reflexivity.
  - destruct D.
  - destruct D.
Qed.


Lemma renewed2_stable s o id d : Inv s -> disc s o -> renewed2 s id d -> renewed2 (fst (step s o)) id d.
Proof.
  intros I D (c & L & R).
  assert (Same : forall s', t2 (dbs s') = t2 (dbs s) -> renewed2 s' id d) by (intros s' E; exists c; now rewrite E).
  destruct o; try (apply Same; reflexivity).
  - (* Form1 *) cbn [step]. unfold outcome.
    match goal with |- context [store_add1 ?dd ?i ?cc None] => destruct (store_add1 dd i cc None) as [[d' k]|e|] eqn:E end;
      try (apply Same; reflexivity).
    apply store_add1_ok in E as [_ ->]. apply Same. reflexivity.
  - (* Form2 *) cbn [step]. unfold outcome.
    destruct (store_add2 (dbs s) id0 (ct_of_rv2 c0) None) as [[d' k]|e|] eqn:E; try (apply Same; reflexivity).
    apply store_add2_ok in E as [L2 ->]. exists c. cbn [fst dbs set_dbs set_t2 t2].
    rewrite alookup_aset. destruct (id =? id0) eqn:Ei; [apply N.eqb_eq in Ei; subst; congruence|auto].
  - cbn [step]. destruct (mem id0 (locks s)); [apply Same; reflexivity|].
    destruct (alookup id0 (t1 (dbs s))); [|apply Same; reflexivity].
    destruct (good1 (height s) c0); apply Same; reflexivity.
  - cbn [step]. destruct (mem id0 (locks s)); apply Same; reflexivity.
  - (* Open1 *) cbn [step]. destruct (revisable1 (height s) (t1 (dbs s)) id0) as [[]| |]; apply Same; reflexivity.
  - cbn [step]. destruct (alookup u (upds s)); [|apply Same; reflexivity].
    destruct (upd_apply (u_roots u0) a); apply Same; reflexivity.
  - (* Commit1 *)
    destruct (step s (Commit1 u nrev nfsize nmroot fault)) as [s' ob] eqn:E. cbn [fst].
    destruct ob as [[[]|e|]| | | | |];
      try (pose proof E as E'; apply step_error_unchanged in E'; [subst s'; now exists c|discriminate]);
      try (cbn [step] in E; destruct (alookup u (upds s)); [|discriminate]; unfold outcome in E;
           match type of E with (match ?m with _ => _ end) = _ => destruct m as [[? ?]| |]; discriminate end).
    apply commit1_form in E as (x & c1 & t' & ns' & _ & _ & _ & ->). apply Same. reflexivity.
  - (* Renew1 *)
    destruct D as (_ & _ & _ & (c1 & Lc1 & Rv1) & _).
    destruct (step s (Renew1 old new crev cfsize cmroot nrev nfsize nmroot nws mold fault)) as [s' ob] eqn:E.
    cbn [fst]. destruct ob as [[[]|e|]| | | | |];
      try (pose proof E as E'; apply step_error_unchanged in E'; [subst s'; now exists c|discriminate]);
      try (cbn [step] in E; unfold outcome in E;
           match type of E with (match ?m with _ => _ end) = _ => destruct m as [[? ?]| |]; discriminate end).
    destruct (renew1_form _ _ _ _ _ _ _ _ _ _ _ _ _ c1 Lc1 E) as (_ & _ & _ & _ & _ & _ & _ & ->).
    apply Same. reflexivity.
  - (* Revise2 *)
    destruct (step s (Revise2 id0 c0 newroots mnew rsig hsig fault)) as [s' ob] eqn:E. cbn [fst].
    destruct ob as [[[]|e|]| | | | |];
      try (pose proof E as E'; apply step_error_unchanged in E'; [subst s'; now exists c|discriminate]);
      try (cbn [step] in E; unfold outcome in E;
           match type of E with (match ?m with _ => _ end) = _ => destruct m as [[? ?]| |]; discriminate end).
    apply revise2_form in E as (e & t' & ns' & Le & Re & _ & _ & _ & ->).
    exists c. cbn [dbs set_cache set_dbs set_t2 set_nsec t2]. rewrite alookup_aset.
    destruct (id =? id0) eqn:Ei; [|auto]. apply N.eqb_eq in Ei; subst. congruence.
  - (* Renew2 *)
    destruct D as (_ & _ & Hdet).
    destruct (step s (Renew2 old new c0 mold wf fault)) as [s' ob] eqn:E. cbn [fst].
    destruct ob as [[[]|e|]| | | | |];
      try (pose proof E as E'; apply step_error_unchanged in E'; [subst s'; now exists c|discriminate]);
      try (cbn [step] in E; unfold outcome in E;
           match type of E with (match ?m with _ => _ end) = _ => destruct m as [[? ?]| |]; discriminate end).
    apply renew2_form in E as (e & Le & Ln2 & Hne & _ & _ & _ & _ & ->).
    destruct (renew_lookup (t2 (dbs s)) old new (with_to e (Some new)) (ct_of_rv2 c0) Hne Ln2) as [LK _].
    exists c. cbn [dbs set_cache set_dbs set_t2 t2]. rewrite LK.
    assert (id <> new) by congruence.
    assert (id <> old).
    { intros ->. rewrite Le in L. injection L as <-.
      destruct (proj2 (inv_t2 meta s I) old e Le) as [Hx _]. unfold entry_ok in Hx.
      rewrite R in Hx. destruct Hx as (_ & _ & _ & cd & Ld & _).
      rewrite <- (Hdet e d Le R) in Ld. congruence. }
    replace (id =? old) with false by lia. replace (id =? new) with false by lia. auto.
  - cbn [step]. destruct (mem id0 (locks s)); [apply Same; reflexivity|].
    destruct (alookup id0 (t2 (dbs s))); apply Same; reflexivity.
  - destruct D.
  - destruct D.
Qed.

(* over whole histories *)
Theorem renewed_forever : forall ops s id d, Inv s -> disc_run meta s ops ->
  (renewed1 s id d -> renewed1 (runs s ops) id d) /\ (renewed2 s id d -> renewed2 (runs s ops) id d).
Proof.
  induction ops as [|o ops IH]; intros s id d I D; cbn in *; [auto|].
  destruct D as [D1 D2]. pose proof (inv_step meta s o I D1) as I'.
  destruct (IH (fst (step s o)) id d I' D2) as [H1 H2]. split; intros H.
  - apply H1. now apply renewed1_stable.
  - apply H2. now apply renewed2_stable.
Qed.

(** * the sectors stay stored *)

Lemma refd_in_iff t r : NoDup (map fst t) ->
  (refd_in t r = true <-> exists id c, alookup id t = Some c /\ mem r (tbl_list (rows c)) = true).
Proof.
  intros ND. unfold refd_in. rewrite existsb_exists. split.
  - intros ([id c] & Hin & Hm). exists id, c. split; [now apply In_alookup|exact Hm].
  - intros (id & c & L & Hm). exists (id, c). split; [now apply alookup_In|exact Hm].
Qed.

Lemma refd_renew t old new oc nc r : NoDup (map fst t) -> old <> new -> alookup new t = None ->
  alookup old t = Some oc -> refd_in t r = true ->
  forall oc', rows oc' = rows oc ->
  refd_in (move_rows old new (link_from old new (aset old oc' (aset new nc t)))) r = true.
Proof.
  intros ND Hne Ln Lo H oc' Hr.
  destruct (renew_lookup t old new oc' nc Hne Ln) as [LK ND'].
  apply refd_in_iff in H; [|exact ND]. destruct H as (id & c & L & Hm).
  apply refd_in_iff; [now apply ND'|].
  destruct (N.eq_dec id old) as [->|Ho].
  - exists new. eexists. rewrite LK. replace (new =? old) with false by lia. rewrite N.eqb_refl.
    split; [reflexivity|]. cbn [with_rows rows]. rewrite Hr. congruence.
  - exists id, c. rewrite LK. replace (id =? old) with false by lia.
    assert (id <> new) by congruence. replace (id =? new) with false by lia. auto.
Qed.

(* a renewal keeps every referenced sector referenced *)
Lemma renew_keeps_refs s o s' r : Inv s -> disc s o -> step s o = (s', ORes (Ok tt)) ->
  match o with Renew1 _ _ _ _ _ _ _ _ _ _ _ | Renew2 _ _ _ _ _ _ => True | _ => False end ->
  referenced (dbs s) r = true -> referenced (dbs s') r = true.
Proof.
  intros I D H Ho. destruct o; try contradiction; unfold referenced; intros Hr.
  - destruct D as (_ & _ & _ & (c & Lc & Rv) & _).
    destruct (renew1_form _ _ _ _ _ _ _ _ _ _ _ _ _ c Lc H) as (Ln1 & Hne & _ & _ & _ & _ & _ & ->).
    cbn [dbs set_cache set_dbs set_t1 t1 t2]. apply orb_true_iff in Hr as [Hr|Hr]; apply orb_true_iff; [left|now right].
    eapply refd_renew; eauto. exact (proj1 (inv_t1 meta s I)).
  - apply renew2_form in H as (e & Le & Ln2 & Hne & _ & _ & _ & _ & ->).
    cbn [dbs set_cache set_dbs set_t2 t1 t2]. apply orb_true_iff in Hr as [Hr|Hr]; apply orb_true_iff; [now left|right].
    eapply refd_renew; eauto. exact (proj1 (inv_t2 meta s I)).
Qed.

Lemma mem_filter f l r : mem r l = true -> f r = true -> mem r (filter f l) = true.
Proof.
  unfold mem. rewrite !existsb_exists. intros (y & Hy & E) Hf. apply N.eqb_eq in E; subst y.
  exists r. split; [apply filter_In; auto|apply N.eqb_refl].
Qed.

(* pruning never takes the slot of a referenced sector *)
Lemma prune_keeps_referenced s r :
  referenced (dbs s) r = true -> mem r (located (dbs s)) = true ->
  mem r (located (dbs (fst (step s Prune)))) = true /\ referenced (dbs (fst (step s Prune))) r = true.
Proof. intros H M. cbn [step fst dbs set_dbs located]. split; [now apply mem_filter|exact H]. Qed.

(* nothing but pruning ever takes a slot away, and nothing forgets a stored sector *)
Lemma located_kept s o r : o <> Prune ->
  mem r (located (dbs s)) = true -> mem r (located (dbs (fst (step s o)))) = true.
Proof.
  intros Hp Hloc.
  assert (Same : forall s', located (dbs s') = located (dbs s) -> mem r (located (dbs s')) = true)
    by (intros s' E; now rewrite E).
  assert (Out : forall (m : M db) fault f, fok m ->
            (forall d', m None = Ok (d', None) -> located (dbs (f d')) = located (dbs s)) ->
            mem r (located (dbs (fst (outcome s (m fault) f)))) = true).
  { intros m fault f F Hf. unfold outcome. destruct (m fault) as [[d' k]|e|] eqn:E; cbn [fst]; auto.
    apply Same, Hf. eapply ok_any_fault; eauto. }
  destruct o; try (apply Same; reflexivity); try congruence.
  - cbn [step fst dbs set_dbs located]. destruct (mem r0 (located (dbs s))); [exact Hloc|].
    unfold mem in *. cbn [existsb]. now rewrite Hloc, orb_true_r.
  - cbn [step]. apply (Out (store_add1 (dbs s) id _) None); [apply fok_store_add1|].
    intros d' E. apply store_add1_ok in E as [_ ->]. reflexivity.
  - cbn [step]. apply (Out (store_add2 (dbs s) id _) None); [apply fok_store_add2|].
    intros d' E. apply store_add2_ok in E as [_ ->]. reflexivity.
  - cbn [step]. destruct (mem id (locks s)); [apply Same; reflexivity|].
    destruct (alookup id (t1 (dbs s))); [|apply Same; reflexivity].
    destruct (good1 (height s) c); apply Same; reflexivity.
  - cbn [step]. destruct (mem id (locks s)); apply Same; reflexivity.
  - cbn [step]. destruct (revisable1 (height s) (t1 (dbs s)) id) as [[]| |]; apply Same; reflexivity.
  - cbn [step]. destruct (alookup u (upds s)); [|apply Same; reflexivity].
    destruct (upd_apply (u_roots u0) a); apply Same; reflexivity.
  - cbn [step]. destruct (alookup u (upds s)) as [x|]; [|apply Same; reflexivity].
    apply Out; [apply fok_g_commit1|]. intros d' E. apply guarded_ok in E as [_ E]. unfold m_commit1 in E.
    apply store_revise1_ok in E as (c & t' & ns' & _ & _ & ->). reflexivity.
  - cbn [step]. apply Out; [apply fok_g_renew1|]. intros d' E. apply guarded_ok in E as [_ E]. unfold m_renew1 in E.
    repeat match type of E with (if ?b then _ else _) _ = _ => destruct b; [discriminate|] end.
    apply store_renew1_ok in E as (_ & c & _ & ->). reflexivity.
  - cbn [step]. apply Out; [apply fok_m_revise2|]. intros d' E. unfold m_revise2, mbind in E.
    destruct (store_get (t2 (dbs s)) id None) as [[e k0]| |] eqn:Eg; try discriminate.
    apply store_get_ok in Eg as [_ ->].
    repeat match type of E with (if ?b then _ else _) _ = _ => destruct b; [discriminate|] end.
    apply store_revise2_ok in E as (e' & t' & ns' & _ & _ & ->). reflexivity.
  - cbn [step]. apply Out; [apply fok_m_renew2|]. intros d' E. unfold m_renew2 in E.
    destruct (negb wf); [discriminate|]. unfold mbind in E.
    destruct (store_get (t2 (dbs s)) old None) as [[e k0]| |] eqn:Eg; try discriminate.
    apply store_get_ok in Eg as [_ ->].
    repeat match type of E with (if ?b then _ else _) _ = _ => destruct b; [discriminate|] end.
    apply store_renew2_ok in E as (_ & c0 & _ & ->). reflexivity.
  - cbn [step]. destruct (mem id (locks s)); [apply Same; reflexivity|].
    destruct (alookup id (t2 (dbs s))); apply Same; reflexivity.
  - cbn [step]. apply Out; [apply fok_store_revise1|]. intros d' E.
    apply store_revise1_ok in E as (c & t' & ns' & _ & _ & ->). reflexivity.
  - cbn [step]. apply Out; [apply fok_store_revise2|]. intros d' E.
    apply store_revise2_ok in E as (c0 & t' & ns' & _ & _ & ->). reflexivity.
Qed.


(** * no disciplined operation panics (the counter never underflows, no index runs out) *)

Lemma v2_upserts_no_panic stored : forall new done old,
  v2_upserts stored (tbl_of (done ++ old)) (nlen done) old new None <> Panic.
Proof.
  induction new as [|r new IH]; intros done old; [discriminate|].
  rewrite v2_upserts_cons.
  destruct ((match old with o :: _ => o =? r | [] => false end) || mem r stored); [apply IH|discriminate].
Qed.

Definition is_panic_obs (ob : obs) : bool :=
  match ob with ORes Panic => true | OAct Panic _ => true | OLock2 Panic => true | _ => false end.

Lemma none_no_panic_fault s o k :
  (match o with
   | Commit1 u a b c _ => is_panic_obs (snd (step s (Commit1 u a b c None))) = false
   | Renew1 a b c d e f g h i j _ => is_panic_obs (snd (step s (Renew1 a b c d e f g h i j None))) = false
   | Revise2 a b c d e f _ => is_panic_obs (snd (step s (Revise2 a b c d e f None))) = false
   | Renew2 a b c d e _ => is_panic_obs (snd (step s (Renew2 a b c d e None))) = false
   | _ => True
   end) ->
  match o with
  | Commit1 u a b c _ => is_panic_obs (snd (step s (Commit1 u a b c (Some k)))) = false
  | Renew1 a b c d e f g h i j _ => is_panic_obs (snd (step s (Renew1 a b c d e f g h i j (Some k)))) = false
  | Revise2 a b c d e f _ => is_panic_obs (snd (step s (Revise2 a b c d e f (Some k)))) = false
  | Renew2 a b c d e _ => is_panic_obs (snd (step s (Renew2 a b c d e (Some k)))) = false
  | _ => True
  end.
Proof.
  pose proof (fault_any_statement s o k) as F.
  destruct o; auto; intros H; destruct F as [F|F]; rewrite F; auto.
Qed.

Theorem disciplined_never_panics s o : Inv s -> disc s o -> is_panic_obs (snd (step s o)) = false.
Proof.
  intros I D.
  destruct o; try reflexivity.
  - (* Form1 *) cbn [step]. unfold outcome.
    match goal with |- context [store_add1 ?dd ?i ?cc None] => destruct (store_add1 dd i cc None) as [[d' k]|e|] eqn:E end;
      try reflexivity.
    exfalso. revert E. cbv [store_add1 transaction mbind stmt ret lift].
    destruct (alookup id (t1 (dbs s))); discriminate.
  - (* Form2 *) cbn [step]. unfold outcome.
    destruct (store_add2 (dbs s) id (ct_of_rv2 c) None) as [[d' k]|e|] eqn:E; try reflexivity.
    exfalso. revert E. cbv [store_add2 transaction mbind stmt ret lift].
    destruct (alookup id (t2 (dbs s))); discriminate.
  - (* Lock1 *) cbn [step]. destruct (mem id (locks s)); [reflexivity|].
    destruct (alookup id (t1 (dbs s))); [|reflexivity]. destruct (good1 (height s) c); reflexivity.
  - (* Unlock1 *) destruct D as (Hm & _). cbn [step]. now rewrite Hm.
  - (* Open1 *) cbn [step]. unfold revisable1. destruct (alookup id (t1 (dbs s))) as [c0|]; [|reflexivity].
    destruct (good1 (height s) c0); reflexivity.
  - (* Act *) cbn [step]. destruct (alookup u (upds s)); [|reflexivity].
    unfold upd_apply. destruct (upd_check (u_roots u0) a); reflexivity.
  - (* Commit1 *)
    assert (H0 : is_panic_obs (snd (step s (Commit1 u nrev nfsize nmroot None))) = false).
    { destruct (alookup u (upds s)) as [x|] eqn:L; [|cbn [step]; now rewrite L].
      destruct (revisable1_cases (height s) (t1 (dbs s)) (u_cid x)) as [(c0 & Lc0 & G0 & _)|(e & Ee)].
      2:{ cbn [step]. rewrite L. unfold g_commit1. now rewrite (guarded_refused _ _ _ _ _ Ee). }
      assert (G : forall c, alookup (u_cid x) (t1 (dbs s)) = Some c -> good1 (height s) c = true) by (intros c Lc; congruence).
      destruct (acts_stored (stored (dbs s)) (u_acts x)) eqn:S.
      - destruct (commit_accepted s u x nrev nfsize nmroot I L S G) as [-> _]. reflexivity.
      - rewrite (commit_missing_rejected s u x nrev nfsize nmroot I L S G). reflexivity. }
    destruct fault as [k|]; [|exact H0].
    exact (none_no_panic_fault s (Commit1 u nrev nfsize nmroot None) k H0).
  - (* Renew1 *)
    assert (H0 : is_panic_obs (snd (step s (Renew1 old new crev cfsize cmroot nrev nfsize nmroot nws mold None))) = false).
    { cbn [step]. unfold g_renew1.
      destruct (revisable1_cases (height s) (t1 (dbs s)) old) as [(c0 & Lc0 & G0 & _)|(e & Ee)].
      2:{ now rewrite (guarded_refused _ _ _ _ _ Ee). }
      rewrite (guarded_pass _ _ _ _ c0 Lc0 G0). unfold outcome, m_renew1.
      repeat match goal with |- context [if ?b then _ else _] => destruct b; [reflexivity|] end.
      cbv [store_renew1 transaction mbind stmt ret lift].
      destruct (alookup new (t1 (dbs s))); [reflexivity|].
      match goal with |- context [alookup old ?tt] => destruct (alookup old tt) end; reflexivity. }
    destruct fault as [k|]; [|exact H0].
    exact (none_no_panic_fault s (Renew1 old new crev cfsize cmroot nrev nfsize nmroot nws mold None) k H0).
  - (* Revise2 *)
    assert (H0 : is_panic_obs (snd (step s (Revise2 id c newroots mnew rsig hsig None))) = false).
    { cbn [step]. unfold outcome, m_revise2, mbind.
      destruct (store_get (t2 (dbs s)) id None) as [[e k0]|x|] eqn:Eg; [|reflexivity|].
      2:{ exfalso. revert Eg. cbv [store_get transaction mbind stmt ret lift].
          destruct (alookup id (t2 (dbs s))); discriminate. }
      apply store_get_ok in Eg as [Le ->].
      destruct (opt_is_some (rto e)) eqn:Rt; [reflexivity|].
      repeat match goal with |- context [if ?b then _ else _] => destruct b; [reflexivity|] end.
      assert (Re : rto e = None) by (destruct (rto e); [discriminate|reflexivity]).
      destruct (live_rows meta _ _ _ _ _ (inv_t2 meta s I) Le Re) as (Hrows & _).
      assert (Hle : nlen (cache_get s id) <= nsec (dbs s)).
      { pose proof (total_ge _ _ _ Le) as Hg. rewrite Hrows, nlen_tbl_of in Hg.
        rewrite (inv_nsec meta s I). lia. }
      cbv [store_revise2 transaction mbind stmt ret lift]. rewrite Le, Hrows.
      rewrite (v2_diff_char _ _ _ _ Hle).
      pose proof (v2_upserts_no_panic (stored (dbs s)) newroots [] (cache_get s id)) as Hp.
      cbn [app nlen length N.of_nat] in Hp.
      destruct (v2_upserts (stored (dbs s)) (tbl_of (cache_get s id)) 0 (cache_get s id) newroots None)
        as [[? ?]| |]; [reflexivity|reflexivity|now elim Hp]. }
    destruct fault as [k|]; [|exact H0].
    exact (none_no_panic_fault s (Revise2 id c newroots mnew rsig hsig None) k H0).
  - (* Renew2 *)
    assert (H0 : is_panic_obs (snd (step s (Renew2 old new c mold wf None))) = false).
    { cbn [step]. unfold outcome, m_renew2. destruct (negb wf); [reflexivity|]. unfold mbind.
      destruct (store_get (t2 (dbs s)) old None) as [[e k0]|x|] eqn:Eg; [|reflexivity|].
      2:{ exfalso. revert Eg. cbv [store_get transaction mbind stmt ret lift].
          destruct (alookup old (t2 (dbs s))); discriminate. }
      apply store_get_ok in Eg as [Le ->].
      repeat match goal with |- context [if ?b then _ else _] => destruct b; [reflexivity|] end.
      cbv [store_renew2 transaction mbind stmt ret lift].
      destruct (alookup new (t2 (dbs s))); [reflexivity|].
      match goal with |- context [alookup old ?tt] => destruct (alookup old tt) end; reflexivity. }
    destruct fault as [k|]; [|exact H0].
    exact (none_no_panic_fault s (Renew2 old new c mold wf None) k H0).
  - (* Lock2 *) cbn [step]. destruct (mem id (locks s)); [reflexivity|]. destruct (alookup id (t2 (dbs s))); reflexivity.
  - cbn [step]. unfold look. destruct (alookup id (t1 (dbs s))); reflexivity.
  - cbn [step]. unfold look. destruct (alookup id (t2 (dbs s))); reflexivity.
  - destruct D.
  - destruct D.
Qed.

End Renew.
