(* Roots/ProofsStep.v — the invariant is preserved by commits, v2 revisions, renewals and
   restarts, hence by every disciplined history. *)
From Coq Require Import Lia ZifyBool ZifyN ZifyNat.
From HostdBase Require Import Base.
From HostdRoots Require Import Model Lists ProofsReplay ProofsInv.
Open Scope N_scope.

Section Step.
Variable meta : list root -> hash.
Notation Inv := (Inv meta).
Notation disc := (disc meta).

(* the row of a live contract holds exactly the served list *)
Lemma live_rows v1 g t id c :
  tab_ok meta v1 g t -> alookup id t = Some c -> rto c = None -> live_ok meta (g id) c.
Proof.
  intros [_ H] L R. destruct (H id c L) as [H1 _]. unfold entry_ok in H1. now rewrite R in H1.
Qed.

Lemma inv_commit1 s u nrev nfsize nmroot fault :
  Inv s -> disc s (Commit1 u nrev nfsize nmroot fault) ->
  Inv (fst (step s (Commit1 u nrev nfsize nmroot fault))).
Proof.
  intros I D. cbn [step]. destruct (alookup u (upds s)) as [x|] eqn:L; [|exact I].
  destruct (D x L) as (Hfs & Hmr). unfold outcome.
  destruct (g_commit1 s x nrev nfsize nmroot fault) as [[d' k]|e|] eqn:E; cbn [fst]; try exact I.
  apply ok_any_fault in E; [|apply fok_g_commit1]. apply guarded_ok in E as [_ E]. unfold m_commit1 in E.
  apply store_revise1_ok in E as (c & t' & ns' & Lc & R & ->).
  destruct (inv_upd meta s I u x L) as ((c0 & Lc0 & Rc0) & Hold & Hfold & Huniq).
  rewrite Lc in Lc0; injection Lc0 as <-.
  destruct (live_rows _ _ _ _ _ (inv_t1 meta s I) Lc Rc0) as (Hrows & _ & _).
  rewrite Hrows, <- Hold in R.
  assert (Hle : nlen (u_old x) <= nsec (dbs s)).
  { pose proof (total_ge _ _ _ Lc) as Hg. rewrite Hrows, <- Hold, nlen_tbl_of in Hg.
    rewrite (inv_nsec meta s I). lia. }
  apply (replay_ok_inv _ _ _ _ _ _ _ _ Hfold Hle) in R as [-> ->].
  set (cid := u_cid x) in *. set (l := u_roots x) in *.
  set (c' := with_rows (with_rev c nrev nfsize nmroot) (tbl_of l)).
  match goal with |- Inv ?st => set (s' := st) end.
  assert (G : forall y, cache_get s' y = if y =? cid then l else cache_get s y)
    by (apply cache_get_upd; reflexivity).
  assert (Hc2 : alookup cid (t2 (dbs s)) = None) by (apply (inv_disj meta s I); congruence).
  constructor; cbn [s' dbs set_dbs set_cache set_upds set_t1 set_nsec t1 t2 nsec cache upds].
  - eapply tab_ok_ext; [|eapply (tab_ok_update meta true (cache_get s) _ cid c c' l);
      [exact (inv_t1 meta s I)|exact Lc|exact Rc0|exact Rc0|reflexivity|]].
    + intros y cy _ _. unfold gset. now rewrite G.
    + subst c'. repeat split; cbn [rows fsize mroot with_rows with_rev]; auto.
  - eapply tab_ok_ext; [|exact (inv_t2 meta s I)].
    intros y cy Ly _. rewrite G. destruct (y =? cid) eqn:Ey; [|reflexivity].
    apply N.eqb_eq in Ey; subst y. congruence.
  - intros y Hy. rewrite alookup_aset in Hy. destruct (y =? cid) eqn:Ey.
    + apply N.eqb_eq in Ey; now subst y.
    + now apply (inv_disj meta s I).
  - intros y Hy. rewrite alookup_aset in Hy. rewrite alookup_aset.
    destruct (y =? cid) eqn:Ey; [left; discriminate|]. now apply (inv_cdom meta s I).
  - intros u' x' L'. cbn [s' upds set_upds dbs set_dbs set_cache set_t1 set_nsec t1] in *.
    rewrite alookup_aset in L'. rewrite G.
    destruct (u' =? u) eqn:Eu.
    + apply N.eqb_eq in Eu; subst u'. injection L' as <-. cbn [u_cid u_old u_acts u_roots].
      fold cid. rewrite N.eqb_refl. repeat split; auto.
      * exists c'. split; [now rewrite alookup_aset, N.eqb_refl|exact Rc0].
      * intros u2 x2 L2 Ec. rewrite alookup_aset in L2.
        destruct (u2 =? u) eqn:E2; [lia|]. now apply (Huniq u2 x2).
    + destruct (inv_upd meta s I u' x' L') as ((c1 & Lc1 & Rc1) & G2 & G3 & G4).
      assert (Hne : u_cid x' <> cid).
      { intros Ec. assert (u' = u) by now apply (Huniq u' x'). lia. }
      replace (u_cid x' =? cid) with false by lia. repeat split; auto.
      * exists c1. split; [|exact Rc1]. rewrite alookup_aset.
        replace (u_cid x' =? cid) with false by lia. exact Lc1.
      * intros u2 x2 L2 Ec. rewrite alookup_aset in L2.
        destruct (u2 =? u) eqn:E2; [|now apply (G4 u2 x2)].
        injection L2 as <-. cbn [u_cid] in Ec. congruence.
  - apply NoDup_aset. exact (inv_unodup meta s I).
  - pose proof (total_aset_some cid c' c (t1 (dbs s)) Lc) as Ht.
    subst c'. cbn [rows with_rows] in Ht. rewrite Hrows, !nlen_tbl_of in Ht.
    fold l. rewrite <- Hold in Ht. rewrite (inv_nsec meta s I) in *. lia.
Qed.

Lemma inv_revise2 s id c newroots mnew rsig hsig fault :
  Inv s -> disc s (Revise2 id c newroots mnew rsig hsig fault) ->
  Inv (fst (step s (Revise2 id c newroots mnew rsig hsig fault))).
Proof.
  intros I D. cbn [disc] in D. subst mnew. cbn [step]. unfold outcome.
  destruct (m_revise2 s id c newroots (meta newroots) rsig hsig fault) as [[d' k]|e|] eqn:E;
    cbn [fst]; try exact I.
  apply ok_any_fault in E; [|apply fok_m_revise2]. unfold m_revise2, mbind in E.
  destruct (store_get (t2 (dbs s)) id None) as [[e k0]| |] eqn:Eg; try discriminate.
  apply store_get_ok in Eg as [Le ->].
  destruct (opt_is_some (rto e)) eqn:Rto; [discriminate|].
  destruct (mem id (rejd (dbs s))); [discriminate|].
  destruct (negb (rk e =? r2_rk c)); [discriminate|].
  destruct (negb (hk e =? r2_hk c)); [discriminate|].
  destruct (negb (wstart e =? r2_ph c)); [discriminate|].
  destruct (negb (expi e =? r2_exp c)); [discriminate|].
  destruct (negb (r2_fsize c =? sector_size * nlen newroots)) eqn:Efs; [discriminate|].
  destruct (r2_cap c <? r2_fsize c); [discriminate|].
  destruct (negb rsig); [discriminate|]. destruct (negb hsig); [discriminate|].
  destruct (negb (r2_mroot c =? meta newroots)) eqn:Emr; [discriminate|].
  cbn [lift] in E.
  apply store_revise2_ok in E as (e' & t' & ns' & Le' & R & ->).
  rewrite Le in Le'; injection Le' as <-.
  assert (Re : rto e = None) by (destruct (rto e); [discriminate|reflexivity]).
  destruct (live_rows _ _ _ _ _ (inv_t2 meta s I) Le Re) as (Hrows & _ & _).
  rewrite Hrows in R.
  assert (Hle : nlen (cache_get s id) <= nsec (dbs s)).
  { pose proof (total_ge _ _ _ Le) as Hg. rewrite Hrows, nlen_tbl_of in Hg.
    rewrite (inv_nsec meta s I). lia. }
  apply (v2_diff_ok_inv _ _ _ _ _ _ _ Hle) in R as (-> & -> & _).
  set (e' := with_rows (with_rv2 e c) (tbl_of newroots)).
  match goal with |- Inv ?st => set (s' := st) end.
  assert (G : forall y, cache_get s' y = if y =? id then newroots else cache_get s y)
    by (apply cache_get_upd; reflexivity).
  assert (Hc1 : alookup id (t1 (dbs s)) = None).
  { destruct (alookup id (t1 (dbs s))) eqn:L1; [|reflexivity].
    rewrite (inv_disj meta s I id) in Le by congruence. discriminate. }
  constructor; cbn [s' dbs set_dbs set_cache set_t2 set_nsec t1 t2 nsec cache upds].
  - eapply tab_ok_ext; [|exact (inv_t1 meta s I)].
    intros y cy Ly _. rewrite G. destruct (y =? id) eqn:Ey; [|reflexivity].
    apply N.eqb_eq in Ey; subst y. congruence.
  - eapply tab_ok_ext; [|eapply (tab_ok_update meta false (cache_get s) _ id e e' newroots);
      [exact (inv_t2 meta s I)|exact Le|exact Re|exact Re|reflexivity|]].
    + intros y cy _ _. unfold gset. now rewrite G.
    + subst e'. repeat split; cbn [rows fsize mroot with_rows with_rv2]; auto; lia.
  - intros y Hy. rewrite alookup_aset. destruct (y =? id) eqn:Ey.
    + apply N.eqb_eq in Ey; subst y. congruence.
    + now apply (inv_disj meta s I).
  - intros y Hy. rewrite alookup_aset in Hy. rewrite alookup_aset.
    destruct (y =? id) eqn:Ey; [right; discriminate|]. now apply (inv_cdom meta s I).
  - intros u x L. cbn [s' upds dbs set_dbs set_cache set_t2 set_nsec t1] in *. rewrite G.
    destruct (inv_upd meta s I u x L) as ((c1 & Lc1 & Rc1) & G2 & G3 & G4).
    assert (Hne : u_cid x <> id) by congruence.
    replace (u_cid x =? id) with false by lia. repeat split; auto. now exists c1.
  - exact (inv_unodup meta s I).
  - pose proof (total_aset_some id e' e (t2 (dbs s)) Le) as Ht.
    subst e'. cbn [rows with_rows] in Ht. rewrite Hrows, !nlen_tbl_of in Ht.
    rewrite (inv_nsec meta s I) in *. lia.
Qed.

(* both renewals produce the same table shape *)
Lemma inv_renew_tables v1 (s : state) t old new (c oc nc : ct) t' :
  tab_ok meta v1 (cache_get s) t -> old <> new ->
  alookup new t = None -> alookup old t = Some c -> rto c = None ->
  rto oc = Some new -> rfrom oc = rfrom c -> rows oc = rows c -> (v1 = true -> rev oc = max_rev) ->
  rto nc = None -> fsize nc = sector_size * nlen (cache_get s old) -> mroot nc = meta (cache_get s old) ->
  t' = move_rows old new (link_from old new (aset old oc (aset new nc t))) ->
  tab_ok meta v1 (gset (cache_get s) new (cache_get s old)) t'.
Proof.
  intros T Hne Ln Lo Rc Ro Fo Rw Hr Rn Fs Mr ->.
  destruct (renew_lookup t old new oc nc Hne Ln) as [LK ND].
  eapply tab_ok_renew; eauto. apply ND. exact (proj1 T).
Qed.

Lemma inv_renew1 s old new crev cfsize cmroot nrev nfsize nmroot nws mold fault :
  Inv s -> disc s (Renew1 old new crev cfsize cmroot nrev nfsize nmroot nws mold fault) ->
  Inv (fst (step s (Renew1 old new crev cfsize cmroot nrev nfsize nmroot nws mold fault))).
Proof.
  intros I (_ & Hno & Ln2 & (c & Lc & Rv) & ->). cbn [step]. unfold outcome.
  destruct (g_renew1 s old new crev cfsize cmroot nrev nfsize nmroot nws (meta (cache_get s old)) fault)
    as [[d' k]|e|] eqn:E; cbn [fst]; try exact I.
  apply ok_any_fault in E; [|apply fok_g_renew1]. apply guarded_ok in E as [_ E]. unfold m_renew1 in E.
  destruct (negb (cmroot =? 0)); [discriminate|]. destruct (negb (cfsize =? 0)); [discriminate|].
  destruct (negb (crev =? max_rev)) eqn:Ecr; [discriminate|].
  destruct (negb (nfsize =? sector_size * nlen (cache_get s old))) eqn:Efs; [discriminate|].
  destruct (negb (nmroot =? meta (cache_get s old))) eqn:Emr; [discriminate|].
  apply store_renew1_ok in E as (Ln1 & c0 & Lc0 & ->).
  assert (Hne : old <> new) by (intros ->; congruence).
  rewrite alookup_aset_other in Lc0 by exact Hne. rewrite Lc in Lc0; injection Lc0 as <-.
  pose proof (not_max_live meta s old c I Lc Rv) as Rc.
  match goal with |- Inv ?st => set (s' := st) end.
  assert (G : forall y, cache_get s' y =
            if y =? old then [] else if y =? new then cache_get s old else cache_get s y)
    by (apply cache_get_renew1; reflexivity).
  match goal with s' := set_cache (set_dbs s (set_t1 _ ?tt)) _ |- _ => set (t' := tt) in * end.
  destruct (renew_lookup (t1 (dbs s)) old new (with_to (with_rev c crev cfsize cmroot) (Some new))
              {| rev := nrev; fsize := nfsize; cap := 0; mroot := nmroot; wstart := nws; expi := 0;
                 rk := 0; hk := 0; rto := None; rfrom := None; rows := [] |} Hne Ln1) as [LK ND].
  fold t' in LK, ND.
  constructor; cbn [s' dbs set_dbs set_cache set_t1 t1 t2 nsec cache upds].
  - eapply tab_ok_ext; [|eapply (inv_renew_tables true s (t1 (dbs s)) old new c
        (with_to (with_rev c crev cfsize cmroot) (Some new))
        {| rev := nrev; fsize := nfsize; cap := 0; mroot := nmroot; wstart := nws; expi := 0;
           rk := 0; hk := 0; rto := None; rfrom := None; rows := [] |} t');
      [exact (inv_t1 meta s I)|exact Hne|exact Ln1|exact Lc|exact Rc|reflexivity|reflexivity|reflexivity
      |intros _; cbn [with_to with_rev rev]; lia|reflexivity|cbn [fsize]; lia|cbn [mroot]; lia|reflexivity]].
    intros y cy Ly Ry. unfold gset. rewrite G. destruct (y =? old) eqn:Eo; [|reflexivity].
    (* the row of [old] is the renewed one: it is not live *)
    rewrite LK, Eo in Ly. injection Ly as <-. cbn [with_rows with_to rto] in Ry. discriminate.
  - eapply tab_ok_ext; [|exact (inv_t2 meta s I)].
    intros y cy Ly _. rewrite G. destruct (y =? old) eqn:Eo.
    { apply N.eqb_eq in Eo; subst y. rewrite (inv_disj meta s I old) in Ly by congruence. discriminate. }
    destruct (y =? new) eqn:Ey; [|reflexivity].
    apply N.eqb_eq in Ey; subst y. congruence.
  - intros y Hy. rewrite LK in Hy. destruct (y =? old) eqn:E1.
    + apply N.eqb_eq in E1; subst y. apply (inv_disj meta s I). congruence.
    + destruct (y =? new) eqn:E2; [apply N.eqb_eq in E2; now subst y|now apply (inv_disj meta s I)].
  - intros y Hy. rewrite alookup_cdel in Hy. rewrite LK.
    destruct (y =? old) eqn:E1; [left; discriminate|]. rewrite alookup_aset in Hy.
    destruct (y =? new) eqn:E2; [left; discriminate|]. now apply (inv_cdom meta s I).
  - intros u x L. cbn [s' upds dbs set_dbs set_cache set_t1 t1] in *. rewrite G.
    destruct (inv_upd meta s I u x L) as ((c1 & Lc1 & Rc1) & G2 & G3 & G4).
    assert (Hn1 : u_cid x <> old) by now apply (Hno u x).
    assert (Hn2 : u_cid x <> new) by congruence.
    replace (u_cid x =? old) with false by lia.
    replace (u_cid x =? new) with false by lia. repeat split; auto.
    exists c1. split; [|exact Rc1]. rewrite LK.
    replace (u_cid x =? old) with false by lia. replace (u_cid x =? new) with false by lia. exact Lc1.
  - exact (inv_unodup meta s I).
  - cbn [nsec set_t1]. subst t'. rewrite (total_renew _ old new c) by (auto; reflexivity).
    exact (inv_nsec meta s I).
Qed.

Lemma inv_renew2 s old new c mold wf fault :
  Inv s -> disc s (Renew2 old new c mold wf fault) ->
  Inv (fst (step s (Renew2 old new c mold wf fault))).
Proof.
  intros I (Ln1 & -> & Hdet). cbn [step]. unfold outcome.
  destruct (m_renew2 s old new c (meta (cache_get s old)) wf fault) as [[d' k]|e|] eqn:E;
    cbn [fst]; try exact I.
  apply ok_any_fault in E; [|apply fok_m_renew2]. unfold m_renew2 in E.
  destruct (negb wf); [discriminate|]. unfold mbind in E.
  destruct (store_get (t2 (dbs s)) old None) as [[e k0]| |] eqn:Eg; try discriminate.
  apply store_get_ok in Eg as [Le ->].
  destruct (mem old (rejd (dbs s))); [discriminate|].
  destruct (negb (r2_fsize c =? fsize e)) eqn:Efs; [discriminate|].
  destruct (negb (r2_cap c =? cap e)); [discriminate|].
  destruct (negb (r2_mroot c =? mroot e)) eqn:Em1; [discriminate|].
  destruct (negb (r2_mroot c =? meta (cache_get s old))) eqn:Em2; [discriminate|].
  cbn [lift] in E.
  apply store_renew2_ok in E as (Ln2 & c0 & Lc0 & ->).
  assert (Hne : old <> new) by (intros ->; congruence).
  rewrite alookup_aset_other in Lc0 by exact Hne. rewrite Le in Lc0; injection Lc0 as <-.
  assert (Re : rto e = None).
  { destruct (rto e) as [d|] eqn:Re; [|reflexivity]. exfalso.
    destruct (proj2 (inv_t2 meta s I) old e Le) as [H _]. unfold entry_ok in H.
    rewrite Re in H. destruct H as (_ & _ & _ & cd & Ld & _).
    rewrite <- (Hdet e d Le Re) in Ld. congruence. }
  destruct (live_rows _ _ _ _ _ (inv_t2 meta s I) Le Re) as (_ & Hfsz & _).
  match goal with |- Inv ?st => set (s' := st) end.
  assert (G : forall y, cache_get s' y = if y =? new then cache_get s old else cache_get s y)
    by (apply cache_get_upd; reflexivity).
  match goal with s' := set_cache (set_dbs s (set_t2 _ ?tt)) _ |- _ => set (t' := tt) in * end.
  destruct (renew_lookup (t2 (dbs s)) old new (with_to e (Some new)) (ct_of_rv2 c) Hne Ln2) as [LK ND].
  fold t' in LK, ND.
  constructor; cbn [s' dbs set_dbs set_cache set_t2 t1 t2 nsec cache upds].
  - eapply tab_ok_ext; [|exact (inv_t1 meta s I)].
    intros y cy Ly _. rewrite G. destruct (y =? new) eqn:Ey; [|reflexivity].
    apply N.eqb_eq in Ey; subst y. congruence.
  - eapply tab_ok_ext; [|eapply (inv_renew_tables false s (t2 (dbs s)) old new e
        (with_to e (Some new)) (ct_of_rv2 c) t');
      [exact (inv_t2 meta s I)|exact Hne|exact Ln2|exact Le|exact Re|reflexivity|reflexivity|reflexivity
      |discriminate|reflexivity|cbn [fsize ct_of_rv2]; lia|cbn [mroot ct_of_rv2]; lia|reflexivity]].
    intros y cy _ _. unfold gset. now rewrite G.
  - intros y Hy. rewrite LK. destruct (y =? old) eqn:E1.
    + apply N.eqb_eq in E1; subst y. rewrite (inv_disj meta s I old Hy) in Le. discriminate.
    + destruct (y =? new) eqn:E2; [apply N.eqb_eq in E2; subst y; congruence|now apply (inv_disj meta s I)].
  - intros y Hy. rewrite alookup_aset in Hy. rewrite LK.
    destruct (y =? old) eqn:E1; [right; discriminate|].
    destruct (y =? new) eqn:E2; [right; discriminate|]. now apply (inv_cdom meta s I).
  - intros u x L. cbn [s' upds dbs set_dbs set_cache set_t2 t1] in *. rewrite G.
    destruct (inv_upd meta s I u x L) as ((c1 & Lc1 & Rc1) & G2 & G3 & G4).
    assert (Hn2 : u_cid x <> new) by congruence.
    replace (u_cid x =? new) with false by lia. repeat split; auto. now exists c1.
  - exact (inv_unodup meta s I).
  - cbn [nsec set_t2]. subst t'. rewrite (total_renew _ old new e) by (auto; reflexivity).
    exact (inv_nsec meta s I).
Qed.

Lemma inv_restart s : Inv s -> Inv (fst (step s Restart)).
Proof.
  intros I. cbn [step fst].
  match goal with |- Inv ?st => set (s' := st) end.
  assert (G : forall y, cache_get s' y =
     match alookup y (t1 (dbs s)), alookup y (t2 (dbs s)) with
     | Some c, _ => tbl_list (rows c) | None, Some c => tbl_list (rows c) | None, None => [] end)
    by (intros y; apply (cache_get_load meta s y I)).
  constructor; cbn [s' dbs cache upds].
  - eapply tab_ok_ext; [|exact (inv_t1 meta s I)]. intros y cy Ly Ry. rewrite G, Ly.
    destruct (live_rows _ _ _ _ _ (inv_t1 meta s I) Ly Ry) as (-> & _). now rewrite tbl_list_of.
  - eapply tab_ok_ext; [|exact (inv_t2 meta s I)]. intros y cy Ly Ry. rewrite G, Ly.
    destruct (alookup y (t1 (dbs s))) eqn:L1.
    { rewrite (inv_disj meta s I y) in Ly by congruence. discriminate. }
    destruct (live_rows _ _ _ _ _ (inv_t2 meta s I) Ly Ry) as (-> & _). now rewrite tbl_list_of.
  - exact (inv_disj meta s I).
  - intros y Hy. unfold load in Hy.
    rewrite load_tab_lookup in Hy by exact (proj1 (inv_t2 meta s I)).
    destruct (alookup y (t2 (dbs s))) as [c2|] eqn:L2; [right; discriminate|].
    rewrite load_tab_lookup in Hy by exact (proj1 (inv_t1 meta s I)).
    destruct (alookup y (t1 (dbs s))) as [c1|] eqn:L1; [left; discriminate|]. now cbn in Hy.
  - intros u x L. discriminate.
  - constructor.
  - exact (inv_nsec meta s I).
Qed.

(** * every disciplined step, every disciplined history *)

Theorem inv_step s o : Inv s -> disc s o -> Inv (fst (step s o)).
Proof.
  intros I D. destruct o.
  - (* StoreSec *) cbn [step fst]. now apply (inv_simple meta s).
  - (* Prune *) cbn [step fst]. now apply (inv_simple meta s).
  - (* SetHeight *) cbn [step fst]. now apply (inv_simple meta s).
  - now apply inv_form1.
  - now apply inv_form2.
  - (* Lock1 *) cbn [step]. destruct (mem id (locks s)); [exact I|].
    destruct (alookup id (t1 (dbs s))); [|exact I]. destruct (good1 (height s) c); [|exact I].
    cbn [fst]. now apply (inv_simple meta s).
  - (* Unlock1 *) cbn [step]. destruct (mem id (locks s)); [|exact I]. cbn [fst]. now apply (inv_simple meta s).
  - now apply inv_open1.
  - now apply inv_act.
  - now apply inv_commit1.
  - now apply inv_close1.
  - now apply inv_renew1.
  - now apply inv_revise2.
  - now apply inv_renew2.
  - (* Lock2 *) cbn [step]. destruct (mem id (locks s)); [exact I|]. destruct (alookup id (t2 (dbs s))); exact I.
  - exact I.
  - exact I.
  - exact I.
  - exact I.
  - now apply inv_restart.
  - destruct D.
  - destruct D.
  - (* Reject *) cbn [step fst]. now apply (inv_simple meta s).
Qed.

Lemma inv_init : Inv init.
Proof.
  constructor; cbn.
  - split; [constructor|intros; discriminate].
  - split; [constructor|intros; discriminate].
  - intros id H; now elim H.
  - intros id H; now elim H.
  - intros u x L; discriminate.
  - constructor.
  - reflexivity.
Qed.

Theorem inv_runs : forall ops s, Inv s -> disc_run meta s ops -> Inv (runs s ops).
Proof.
  induction ops as [|o ops IH]; intros s I D; cbn in *; [exact I|].
  destruct D as [D1 D2]. apply IH; [now apply inv_step|exact D2].
Qed.

End Step.
