(* C13 — Renewal hands the data over to the successor contract.
   Statements only; every proof is [exact lemma].  Model: Model.v.  Vocabulary as in
   Props_C03.v; additionally
     handover v1 s s' old new c0   (ProofsRenew.v) the successor row exists with the persisted list,
                     file size and Merkle root of the predecessor's row c0 before the renewal, is
                     not renewed itself and points back to old; the list served for new is the one
                     served for old, which is the predecessor's persisted list; the predecessor row
                     points to new, holds no roots and (v1) sits at the maximum revision number;
                     stored sectors and their slots are untouched
     renewed1/renewed2 s id d      contract id (v1/v2) has been renewed to d

   Reading: for v1 "refuses further revisions" is Manager.Lock refusing (isGoodForModification,
   maximum revision number) — every RHP2/RHP3 revision and renewal starts with it; Manager.
   ReviseContract itself never looks at the contract.  For v2 it is ReviseV2Contract,
   LockV2Contract and RenewV2Contract themselves. *)
From HostdBase Require Import Base.
From HostdRoots Require Import Model Lists ProofsReplay ProofsInv ProofsStep ProofsRenew ProofsSpec ProofsTop.
From HostdRoots Require Import Sess SessFrame SessProofs SessTop Chain ChainProofs SessCheck Guard.
Open Scope N_scope.

(* RHP2 renew-and-clear / RHP3 renew (Manager.RenewContract) accepted in a reachable state *)
Theorem c13_renew_v1_hands_over :
  forall meta s old new crev cfsize cmroot nrev nfsize nmroot nws mold fault s',
  reach meta s -> disc meta s (Renew1 old new crev cfsize cmroot nrev nfsize nmroot nws mold fault) ->
  step s (Renew1 old new crev cfsize cmroot nrev nfsize nmroot nws mold fault) = (s', ORes (Ok tt)) ->
  exists c0, alookup old (t1 (dbs s)) = Some c0 /\ rto c0 = None /\ handover true s s' old new c0.
Proof. exact c13_renew1_l. Qed.
Print Assumptions c13_renew_v1_hands_over.

(* RHP4 renew and refresh (Manager.RenewV2Contract) accepted in a reachable state *)
Theorem c13_renew_v2_hands_over : forall meta s old new c mold wf fault s',
  reach meta s -> disc meta s (Renew2 old new c mold wf fault) ->
  step s (Renew2 old new c mold wf fault) = (s', ORes (Ok tt)) ->
  exists c0, alookup old (t2 (dbs s)) = Some c0 /\ rto c0 = None /\ handover false s s' old new c0.
Proof. exact c13_renew2_l. Qed.
Print Assumptions c13_renew_v2_hands_over.

(* In every reachable state (chains of any length): links are mutual, a renewed contract holds no
   roots (they moved on), a renewed v1 contract sits at the maximum revision number. *)
Theorem c13_links_mutual : forall meta s id c d, reach meta s ->
  (alookup id (t1 (dbs s)) = Some c -> rto c = Some d ->
     rows c = [] /\ rev c = max_rev /\ d <> id /\
     exists c', alookup d (t1 (dbs s)) = Some c' /\ rfrom c' = Some id) /\
  (alookup id (t2 (dbs s)) = Some c -> rto c = Some d ->
     rows c = [] /\ d <> id /\
     exists c', alookup d (t2 (dbs s)) = Some c' /\ rfrom c' = Some id) /\
  (alookup id (t1 (dbs s)) = Some c -> rfrom c = Some d ->
     exists c', alookup d (t1 (dbs s)) = Some c' /\ rto c' = Some id) /\
  (alookup id (t2 (dbs s)) = Some c -> rfrom c = Some d ->
     exists c', alookup d (t2 (dbs s)) = Some c' /\ rto c' = Some id).
Proof. exact c13_links_l. Qed.
Print Assumptions c13_links_mutual.

(* By induction over histories with any number of generations: the tip of a renewal chain
   holds the list implied by all accepted modifications of the whole lineage — the
   specification machine hands the list from old to new at every accepted renewal. *)
Theorem c13_chain_of_any_length : forall meta ops id c,
  disc_run meta init ops -> is_live (runs init ops) id c ->
  tbl_list (rows c) = aget (aruns init ainit ops) id /\
  cache_get (runs init ops) id = aget (aruns init ainit ops) id /\
  fsize c = sector_size * nlen (aget (aruns init ainit ops) id) /\
  mroot c = meta (aget (aruns init ainit ops) id).
Proof. exact c03_spec_l. Qed.
Print Assumptions c13_chain_of_any_length.

(* A renewed v1 contract refuses the lock, now and after any disciplined continuation. *)
Theorem c13_v1_predecessor_refuses_forever : forall meta s id d ops,
  reach meta s -> renewed1 s id d -> disc_run meta s ops ->
  let s' := runs s ops in
  renewed1 s' id d /\
  (step s' (Lock1 id) = (s', ORes (Err EInvalid)) \/ step s' (Lock1 id) = (s', ORes (Err EInsufficient))).
Proof. exact c13_pred1_l. Qed.
Print Assumptions c13_v1_predecessor_refuses_forever.

(* A renewed v2 contract refuses every revision (whatever its content, with or without a store
   failure), reports Renewed = true and Revisable = false, and cannot be renewed again — now and
   after any disciplined continuation. *)
Theorem c13_v2_predecessor_refuses_forever : forall meta s id d ops,
  reach meta s -> renewed2 s id d -> disc_run meta s ops ->
  let s' := runs s ops in
  renewed2 s' id d /\
  (forall c newroots mnew rsig hsig fault,
     step s' (Revise2 id c newroots mnew rsig hsig fault) = (s', ORes (Err EInvalid)) \/
     step s' (Revise2 id c newroots mnew rsig hsig fault) = (s', ORes (Err EOther))) /\
  (mem id (locks s') = false -> exists r l, step s' (Lock2 id) = (s', OLock2 (Ok (r, true, false, l)))) /\
  (forall c mold wf fault, exists e, step s' (Renew2 id d c mold wf fault) = (s', ORes (Err e))).
Proof. exact c13_pred2_l. Qed.
Print Assumptions c13_v2_predecessor_refuses_forever.

(* The successor accepts: it can be locked when nobody holds it and its window is far enough,
   and (it is a live contract) c03_commit_accepted / c03_v2_revision_accepted apply to it. *)
Theorem c13_successor_accepts_lock : forall s' new cn,
  alookup new (t1 (dbs s')) = Some cn -> mem new (locks s') = false -> good1 (height s') cn = true ->
  snd (step s' (Lock1 new)) = ORes (Ok tt).
Proof. exact c13_successor_lock_l. Qed.
Print Assumptions c13_successor_accepts_lock.

(* A renewal that fails validation or persistence (at any statement: c03_failure_at_any_statement
   covers Renew1 and Renew2) leaves the predecessor and everything else unchanged. *)
Theorem c13_failed_renewal_unchanged : forall s o s' r,
  step s o = (s', ORes r) -> r <> Ok tt -> s' = s.
Proof. exact step_error_unchanged. Qed.
Print Assumptions c13_failed_renewal_unchanged.

Theorem c13_renewal_failure_at_any_statement : forall s o k,
  match o with
  | Commit1 u a b c _ =>
      step s (Commit1 u a b c (Some k)) = step s (Commit1 u a b c None) \/
      step s (Commit1 u a b c (Some k)) = (s, ORes (Err EOther))
  | Renew1 a b c d e f g h i j _ =>
      step s (Renew1 a b c d e f g h i j (Some k)) = step s (Renew1 a b c d e f g h i j None) \/
      step s (Renew1 a b c d e f g h i j (Some k)) = (s, ORes (Err EOther))
  | Revise2 a b c d e f _ =>
      step s (Revise2 a b c d e f (Some k)) = step s (Revise2 a b c d e f None) \/
      step s (Revise2 a b c d e f (Some k)) = (s, ORes (Err EOther))
  | Renew2 a b c d e _ =>
      step s (Renew2 a b c d e (Some k)) = step s (Renew2 a b c d e None) \/
      step s (Renew2 a b c d e (Some k)) = (s, ORes (Err EOther))
  | _ => True
  end.
Proof. exact fault_any_statement. Qed.
Print Assumptions c13_renewal_failure_at_any_statement.

(* The sectors stay stored: a renewal keeps every referenced sector referenced (and, by
   [handover], touches neither stored_sectors nor the volume slots); pruning never takes the
   slot of a referenced sector; no other operation takes a slot away. *)
Theorem c13_renewal_keeps_sectors_referenced : forall meta s o s' r,
  reach meta s -> disc meta s o -> step s o = (s', ORes (Ok tt)) ->
  match o with Renew1 _ _ _ _ _ _ _ _ _ _ _ | Renew2 _ _ _ _ _ _ => True | _ => False end ->
  referenced (dbs s) r = true -> referenced (dbs s') r = true.
Proof. exact c13_keeps_refs_l. Qed.
Print Assumptions c13_renewal_keeps_sectors_referenced.

Theorem c13_prune_keeps_referenced : forall s r,
  referenced (dbs s) r = true -> mem r (located (dbs s)) = true ->
  mem r (located (dbs (fst (step s Prune)))) = true /\ referenced (dbs (fst (step s Prune))) r = true.
Proof. exact prune_keeps_referenced. Qed.
Print Assumptions c13_prune_keeps_referenced.

Theorem c13_only_prune_frees_slots : forall s o r, o <> Prune ->
  mem r (located (dbs s)) = true -> mem r (located (dbs (fst (step s o)))) = true.
Proof. exact located_kept. Qed.
Print Assumptions c13_only_prune_frees_slots.

(* ------------------------------------------------------------------------------------------------
   WP-N: renewals that fail late, renewals racing with payments, renewals that never confirm
   (Sess.v: sessions over the manager; Chain.v: contract status, expiry, proof).  Vocabulary of the
   sessions as in Props_C03.v; SRenewH t pool_ok o is the tail of a renewal handler (RHP2
   rpcRenewAndClearContract, RHP3 handleRPCRenew, RHP4 renew / refresh): the chain manager validates
   the renewal transaction set, THEN RenewContract / RenewV2Contract [o] is called; SPayDecide /
   SPayPersist are a paying RHP3 RPC's counter-signed payment revision and its write to the store.
   ------------------------------------------------------------------------------------------------ *)

(* A renewal whose transaction set the pool rejects leaves the predecessor — and everything else —
   exactly as it was: RenewContract is never reached. *)
Theorem c13_renewal_rejected_by_pool_leaves_predecessor : forall S t o,
  sstep faithful S (SRenewH t false o) = (S, SO (ORes (Err EInvalid))).
Proof. exact pool_rejected_unchanged. Qed.
Print Assumptions c13_renewal_rejected_by_pool_leaves_predecessor.

(* whatever makes the handler's renewal fail: pool, the manager's sanity checks, the store at any statement *)
Theorem c13_failed_renewal_handler_unchanged : forall S t ok o S' r,
  is_renewal o -> sstep faithful S (SRenewH t ok o) = (S', SO (ORes r)) -> r <> Ok tt -> S' = S.
Proof. exact renewal_handler_error_unchanged. Qed.
Print Assumptions c13_failed_renewal_handler_unchanged.

(* Legacy (seeded change C13-mut8): RenewContract BEFORE the pool validation (variant storefirstv).
   The renter is told the renewal failed; the predecessor is cleared and points to a successor whose
   formation can never confirm. *)
Theorem c13_renewal_stored_before_pool_validation_refuted : exists evs e id d,
  sdisc_run meta0 true storefirstv sinit (evs ++ [e]) /\
  (exists t o, e = SRenewH t false o) /\
  let S := sruns storefirstv sinit evs in
  snd (sstep storefirstv S e) = SO (ORes (Err EInvalid)) /\
  ~ renewed1 (sb S) id d /\ renewed1 (sb (fst (sstep storefirstv S e))) id d.
Proof. exact store_before_pool_refuted. Qed.
Print Assumptions c13_renewal_stored_before_pool_validation_refuted.

(* Renewals racing with revisions of the same contract, paying RPCs included: under every interleaving
   of sessions that respects the lock protocol (a payment revision is decided AND persisted while its
   session holds the lock), a renewed predecessor stays renewed — v1: cleared, at the maximum revision
   number, refusing Manager.Lock; v2: renewed_to set, reporting Renewed — for ever. *)
Theorem c13_predecessor_stays_renewed_under_payments : forall meta evs S id d,
  SInv meta S -> sdisc_run meta true faithful S evs ->
  (renewed1 (sb S) id d -> renewed1 (sb (sruns faithful S evs)) id d) /\
  (renewed2 (sb S) id d -> renewed2 (sb (sruns faithful S evs)) id d).
Proof. exact renewed_predecessor_stays. Qed.
Print Assumptions c13_predecessor_stays_renewed_under_payments.

Theorem c13_renewed_predecessor_refuses_waiters : forall meta S t id d, SInv meta S -> renewed1 (sb S) id d ->
  sstep faithful S (SAcq1 t id) = (S, SOLock1 (Err EInvalid)) \/ sstep faithful S (SAcq1 t id) = (S, SOBusy).
Proof. exact renewed1_refuses_lock. Qed.
Print Assumptions c13_renewed_predecessor_refuses_waiters.

(* WP-G (fixes/C06-revise-guard-at-commit.patch): the manager's revising calls evaluate
   isGoodForModification themselves, so a renewed predecessor refuses ReviseContract and a second
   RenewContract even from a session that still holds its lock (before the patch only Manager.Lock
   refused and rhp/v2 had to forget the stale revision: fixes/C13-rhp2-session-stale-after-renew.patch) *)
Theorem c13_renewed_predecessor_refuses_updater : forall meta s u id d, Inv meta s -> renewed1 s id d ->
  step s (Open1 u id) = (s, ORes (Err EInvalid)).
Proof. exact pred1_refuses_updater. Qed.
Print Assumptions c13_renewed_predecessor_refuses_updater.

Theorem c13_renewed_predecessor_refuses_second_renewal :
  forall meta s id d new crev cfsize cmroot nrev nfsize nmroot nws mold, Inv meta s -> renewed1 s id d ->
  step s (Renew1 id new crev cfsize cmroot nrev nfsize nmroot nws mold None) = (s, ORes (Err EInvalid)).
Proof. exact pred1_refuses_renewal. Qed.
Print Assumptions c13_renewed_predecessor_refuses_second_renewal.

(* the discipline is preserved by the sessions' steps, so the two theorems above apply along any history *)
Theorem c13_sessions_invariant : forall meta evs S, SInv meta S -> sdisc_run meta true faithful S evs ->
  SInv meta (sruns faithful S evs).
Proof. exact sinv_runs. Qed.
Print Assumptions c13_sessions_invariant.

(* Legacy (seeded change C13-mut7): the payment revision is persisted after its session released the
   lock.  A history in which every event respects the discipline but that one: the renewal is accepted
   in the window, the late write puts revision n+1 back on the cleared predecessor, which is then
   renewed AND below the maximum revision number, and Manager.Lock admits it. *)
Theorem c13_payment_persisted_outside_lock_refuted : exists evs id d,
  sdisc_run meta0 false faithful sinit evs /\
  let S := sruns faithful sinit evs in
  (exists c, alookup id (t1 (dbs (sb S))) = Some c /\ rto c = Some d /\ rev c <> max_rev) /\
  exists t S' x, sstep faithful S (SAcq1 t id) = (S', SOLock1 (Ok x)).
Proof. exact payment_outside_lock_refuted. Qed.
Print Assumptions c13_payment_persisted_outside_lock_refuted.

(* The never-confirmed RHP4 renewal (a recorded finding, known_findings.d/C13.json).  C13 hands the roots
   over when the renewal is negotiated; the statement "the sectors stay stored ... the successor accepts
   revisions" presumes that the renewal is confirmed.  Full statement, which the model refutes:
     for every history in which contract id, confirmed on the chain, holds data when its renewal is
     negotiated, id or its successor can prove that data when the proof window comes.
   Witness: StoreSec 1; Form2 7; confirm 7; Revise2 7 [1]; Renew2 7 8; reject 8 (never confirmed);
   expire; Prune — contract 7 is still active, unrevisable, without roots, sector 1 has lost its slot,
   the proof cannot be built, 7 ends failed.  Nothing moves the roots back or clears renewed_to. *)
Theorem c13_unconfirmed_renewal_strands_predecessor_refuted : exists ops0 ops id r,
  xdisc_run meta0 xinit (ops0 ++ ops) /\
  (let X0 := xruns xinit ops0 in
   status X0 id = Some CActive /\ mem r (located (dbs (xb X0))) = true /\
   exists c, alookup id (t2 (dbs (xb X0))) = Some c /\ rto c = None /\ tbl_list (rows c) = [r] /\ mroot c = meta0 [r]) /\
  (let X := xruns xinit (ops0 ++ ops) in
   status X id = Some CActive /\
   (exists c d, alookup id (t2 (dbs (xb X))) = Some c /\ rto c = Some d /\ status X d = Some CRejected /\
                rows c = [] /\ mroot c = meta0 [r]) /\
   mem r (located (dbs (xb X))) = false /\
   snd (xstep X (XProve id (meta0 (cache_get (xb X) id)))) = XO (OBool false) /\
   status (fst (xstep X (XProve id (meta0 (cache_get (xb X) id))))) id = Some CFailed).
Proof. exact unconfirmed_renewal_strands_refuted. Qed.
Print Assumptions c13_unconfirmed_renewal_strands_predecessor_refuted.

(* What does hold: once a contract (a successor whose renewal was confirmed, or any confirmed
   contract) is confirmed it is never rejected; while no manager call names it and sector expiry runs
   at heights up to its expiration, its rows, its served list and the volume slots of its sectors stay
   — through every prune, every expiry of other contracts, every rejection of others. *)
Theorem c13_confirmed_renewal_keeps_data : forall ops X id c,
  alookup id (t2 (dbs (xb X))) = Some c -> confirmed (status X id) -> quiet_run id c X ops ->
  let X' := xruns X ops in
  alookup id (t2 (dbs (xb X'))) = Some c /\ confirmed (status X' id) /\
  cache_get (xb X') id = cache_get (xb X) id /\
  forall r, mem r (tbl_list (rows c)) = true -> mem r (located (dbs (xb X))) = true ->
            mem r (located (dbs (xb X'))) = true.
Proof. exact confirmed_keeps_data. Qed.
Print Assumptions c13_confirmed_renewal_keeps_data.

(* ... and then its storage proof can be built *)
Theorem c13_confirmed_successor_proves : forall X id c m,
  status X id = Some CActive -> alookup id (t2 (dbs (xb X))) = Some c ->
  mroot c = m -> all_located (dbs (xb X)) (cache_get (xb X) id) = true ->
  snd (xstep X (XProve id m)) = XO (OBool true) /\ status (fst (xstep X (XProve id m))) id = Some CSuccessful.
Proof. exact xprove_succeeds. Qed.
Print Assumptions c13_confirmed_successor_proves.


(* (/repo 7f58b1d) a v2 contract that RejectContracts has marked — its formation or the renewal that created
   it was never confirmed — cannot be renewed: RenewV2Contract answers an error, no successor row, the
   predecessor as it was; in any state, for any transaction set, with a store failure at any statement *)
Theorem c13_rejected_v2_contract_is_not_renewed : forall s old, mem old (rejd (dbs s)) = true ->
  forall new c m wf f, exists r, step s (Renew2 old new c m wf f) = (s, ORes r) /\ r <> Ok tt.
Proof. exact (fun s old Rj => proj1 (proj2 (rejected2_refuses_l s old Rj))). Qed.
Print Assumptions c13_rejected_v2_contract_is_not_renewed.

(* non-vacuity: the example history renews contract 7 to 8; 7 then refuses the lock, 8 accepts it
   and was revised *)
Example c13_nonvacuous :
  disc_run meta0 init ex_ops /\
  renewed1 (runs init ex_ops) 7 8 /\
  snd (step (runs init ex_ops) (Lock1 7)) = ORes (Err EInvalid) /\
  snd (step (runs init ex_ops) (Lock1 8)) = ORes (Ok tt).
Proof. exact (conj ex_disc (proj2 (proj2 ex_final))). Qed.

(* non-vacuity of c13_confirmed_renewal_keeps_data: the witness history with the renewal confirmed *)
Example c13_confirmed_nonvacuous :
  let X := xruns xinit (ex_upload ++ [ XOp (Renew2 7 8 (xfc 0 sector_size (meta0 [1])) (meta0 [1]) true None); XConfirm 8 ]) in
  exists c, alookup 8 (t2 (dbs (xb X))) = Some c /\ confirmed (status X 8) /\
            quiet_run 8 c X [XExpire 50; XOp Prune; XReject 7; XExpire 1100] /\ tbl_list (rows c) = [1].
Proof. exact ex_confirmed_quiet. Qed.
