(* Roots/ProofsTop.v — the statements of Props_C03.v / Props_C13.v over every state a
   disciplined history reaches, and the non-vacuity witnesses. *)
From Coq Require Import Lia ZifyBool ZifyN ZifyNat.
From HostdBase Require Import Base.
From HostdRoots Require Import Model Lists ProofsReplay ProofsInv ProofsStep ProofsRenew ProofsSpec.
Open Scope N_scope.

Section Top.
Variable meta : list root -> hash.

(* states reached from the empty host by a disciplined history *)
Definition reach (s : state) : Prop := exists ops, disc_run meta init ops /\ s = runs init ops.

Lemma reach_inv s : reach s -> Inv meta s.
Proof. intros (ops & D & ->). apply inv_runs; [apply inv_init|exact D]. Qed.

Lemma runs_app s ops o : runs s (ops ++ [o]) = fst (step (runs s ops) o).
Proof. unfold runs. now rewrite fold_left_app. Qed.

Lemma disc_run_app : forall ops s o, disc_run meta s ops -> disc meta (runs s ops) o -> disc_run meta s (ops ++ [o]).
Proof.
  induction ops as [|p ops IH]; intros s o D Do; cbn in *; [auto|].
  destruct D as [D1 D2]. split; [exact D1|]. now apply IH.
Qed.

Lemma reach_step s o : reach s -> disc meta s o -> reach (fst (step s o)).
Proof.
  intros (ops & D & ->) Do. exists (ops ++ [o]). split; [now apply disc_run_app|now rewrite runs_app].
Qed.

Lemma disc_run_cat : forall ops1 s ops2, disc_run meta s ops1 -> disc_run meta (runs s ops1) ops2 ->
  disc_run meta s (ops1 ++ ops2).
Proof.
  induction ops1 as [|p ops IH]; intros s ops2 D1 D2; cbn in *; [auto|].
  destruct D1 as [Da Db]. split; [exact Da|]. now apply IH.
Qed.

Lemma reach_runs s ops : reach s -> disc_run meta s ops -> reach (runs s ops).
Proof.
  intros (ops0 & D & ->) D2. exists (ops0 ++ ops). split; [now apply disc_run_cat|].
  unfold runs. now rewrite fold_left_app.
Qed.

(** * C03 *)

Theorem c03_invariant_l s id c : reach s -> is_live s id c ->
  tbl_list (rows c) = cache_get s id /\
  fsize c = sector_size * nlen (cache_get s id) /\
  mroot c = meta (cache_get s id).
Proof. intros H. apply inv_live. now apply reach_inv. Qed.

Theorem c03_spec_l ops id c : disc_run meta init ops -> is_live (runs init ops) id c ->
  tbl_list (rows c) = aget (aruns init ainit ops) id /\
  cache_get (runs init ops) id = aget (aruns init ainit ops) id /\
  fsize c = sector_size * nlen (aget (aruns init ainit ops) id) /\
  mroot c = meta (aget (aruns init ainit ops) id).
Proof. apply lists_are_accepted_modifications. Qed.

Theorem c03_restart_l s id c : reach s -> is_live s id c ->
  dbs (fst (step s Restart)) = dbs s /\
  cache_get (fst (step s Restart)) id = cache_get s id /\
  is_live (fst (step s Restart)) id c.
Proof.
  intros H HL. destruct (restart_same_lists meta s id c (reach_inv s H) HL) as [H1 H2].
  repeat split; auto; exact (proj1 HL) || exact (proj2 HL).
Qed.

Theorem c03_commit_accepted_l s u x nrev nfsize nmroot : reach s ->
  alookup u (upds s) = Some x -> acts_stored (stored (dbs s)) (u_acts x) = true ->
  (forall c, alookup (u_cid x) (t1 (dbs s)) = Some c -> good1 (height s) c = true) ->
  snd (step s (Commit1 u nrev nfsize nmroot None)) = ORes (Ok tt) /\
  cache_get (fst (step s (Commit1 u nrev nfsize nmroot None))) (u_cid x) = u_roots x.
Proof. intros H. apply (commit_accepted meta). now apply reach_inv. Qed.

Theorem c03_commit_missing_l s u x nrev nfsize nmroot : reach s ->
  alookup u (upds s) = Some x -> acts_stored (stored (dbs s)) (u_acts x) = false ->
  (forall c, alookup (u_cid x) (t1 (dbs s)) = Some c -> good1 (height s) c = true) ->
  step s (Commit1 u nrev nfsize nmroot None) = (s, ORes (Err EOther)).
Proof. intros H. apply (commit_missing_rejected meta). now apply reach_inv. Qed.

Theorem c03_revise2_accepted_l s id e c newroots : reach s ->
  alookup id (t2 (dbs s)) = Some e -> rto e = None -> mem id (rejd (dbs s)) = false ->
  rk e = r2_rk c -> hk e = r2_hk c -> wstart e = r2_ph c -> expi e = r2_exp c ->
  r2_fsize c = sector_size * nlen newroots -> r2_fsize c <= r2_cap c ->
  r2_mroot c = meta newroots -> all_stored (stored (dbs s)) newroots = true ->
  snd (step s (Revise2 id c newroots (meta newroots) true true None)) = ORes (Ok tt) /\
  cache_get (fst (step s (Revise2 id c newroots (meta newroots) true true None))) id = newroots.
Proof. intros H. apply (revise2_accepted meta). now apply reach_inv. Qed.

(* what a rejected v2 contract refuses (7f58b1d, fixes/C03-v2-rejected-contract-not-revisable.patch): in ANY
   state in which RejectContracts has marked it, ReviseV2Contract and RenewV2Contract — whatever the revision,
   the roots, the signatures, the transaction set, a store failure at any statement — answer an error and
   change nothing, and LockV2Contract reports it not revisable *)
Theorem rejected2_refuses_l s id : mem id (rejd (dbs s)) = true ->
  (forall c l m a b f, exists r, step s (Revise2 id c l m a b f) = (s, ORes r) /\ r <> Ok tt) /\
  (forall new c m wf f, exists r, step s (Renew2 id new c m wf f) = (s, ORes r) /\ r <> Ok tt) /\
  (forall r rn rv l, snd (step s (Lock2 id)) = OLock2 (Ok (r, rn, rv, l)) -> rv = false).
Proof.
  intros Rj. repeat split.
  - intros c l m a b f. cbn [step]. unfold outcome.
    destruct (m_revise2 s id c l m a b f) as [[d k]|e|] eqn:E.
    + exfalso. unfold m_revise2, mbind in E.
      destruct (store_get (t2 (dbs s)) id f) as [[e0 k0]| |]; try discriminate.
      destruct (opt_is_some (rto e0)); [discriminate|]. rewrite Rj in E. discriminate.
    + exists (Err e). split; [reflexivity|discriminate].
    + exists Panic. split; [reflexivity|discriminate].
  - intros new c m wf f. cbn [step]. unfold outcome.
    destruct (m_renew2 s id new c m wf f) as [[d k]|e|] eqn:E.
    + exfalso. unfold m_renew2 in E. destruct (negb wf); [discriminate|]. unfold mbind in E.
      destruct (store_get (t2 (dbs s)) id f) as [[e0 k0]| |]; try discriminate.
      rewrite Rj in E. discriminate.
    + exists (Err e). split; [reflexivity|discriminate].
    + exists Panic. split; [reflexivity|discriminate].
  - intros r rn rv l. cbn [step]. destruct (mem id (locks s)); [discriminate|].
    destruct (alookup id (t2 (dbs s))); [|discriminate]. cbn [snd]. rewrite Rj. cbn [negb].
    intros [= _ _ <- _]. now rewrite andb_false_r.
Qed.

(* RejectContracts writes the status and nothing else *)
Theorem reject_keeps_lists_l s ids :
  let s' := fst (step s (Reject ids)) in
  t1 (dbs s') = t1 (dbs s) /\ t2 (dbs s') = t2 (dbs s) /\ cache s' = cache s /\ nsec (dbs s') = nsec (dbs s) /\
  stored (dbs s') = stored (dbs s) /\ located (dbs s') = located (dbs s) /\
  forall id, mem id ids = true -> mem id (rejd (dbs s')) = true.
Proof.
  cbn [step fst dbs set_dbs set_rejd t1 t2 cache nsec stored located rejd]. repeat split.
  intros id M. unfold mem in *. rewrite existsb_app. apply orb_true_iff. now left.
Qed.

(* the updater's working list is the fold of the actions it accepted since the last commit *)
Theorem c03_updater_l s u x : reach s -> alookup u (upds s) = Some x ->
  u_old x = cache_get s (u_cid x) /\ fold_upd (u_old x) (u_acts x) = Ok (u_roots x).
Proof. intros H L. destruct (inv_upd meta s (reach_inv s H) u x L) as (_ & H2 & H3 & _). auto. Qed.

(* no disciplined operation panics in a reachable state: the contract-sector counter equals
   the number of root rows, so it never underflows, and no replay index runs out of range *)
Theorem c03_no_panic_l s o : reach s -> disc meta s o -> is_panic_obs (snd (step s o)) = false.
Proof. intros H. apply (disciplined_never_panics meta). now apply reach_inv. Qed.

Theorem c03_counter_l s : reach s -> nsec (dbs s) = total (t1 (dbs s)) + total (t2 (dbs s)).
Proof. intros H. exact (inv_nsec meta s (reach_inv s H)). Qed.

(** * C13 *)

Theorem c13_renew1_l s old new crev cfsize cmroot nrev nfsize nmroot nws mold fault s' :
  reach s -> disc meta s (Renew1 old new crev cfsize cmroot nrev nfsize nmroot nws mold fault) ->
  step s (Renew1 old new crev cfsize cmroot nrev nfsize nmroot nws mold fault) = (s', ORes (Ok tt)) ->
  exists c0, alookup old (t1 (dbs s)) = Some c0 /\ rto c0 = None /\ handover true s s' old new c0.
Proof. intros H. apply renew1_handover. now apply reach_inv. Qed.

Theorem c13_renew2_l s old new c mold wf fault s' :
  reach s -> disc meta s (Renew2 old new c mold wf fault) ->
  step s (Renew2 old new c mold wf fault) = (s', ORes (Ok tt)) ->
  exists c0, alookup old (t2 (dbs s)) = Some c0 /\ rto c0 = None /\ handover false s s' old new c0.
Proof. intros H. apply renew2_handover. now apply reach_inv. Qed.

(* links are mutual, a renewed contract holds no roots, a v1 one sits at the last revision *)
Theorem c13_links_l s id c d : reach s ->
  (alookup id (t1 (dbs s)) = Some c -> rto c = Some d ->
     rows c = [] /\ rev c = max_rev /\ d <> id /\
     exists c', alookup d (t1 (dbs s)) = Some c' /\ rfrom c' = Some id) /\
  (alookup id (t2 (dbs s)) = Some c -> rto c = Some d ->
     rows c = [] /\ d <> id /\
     exists c', alookup d (t2 (dbs s)) = Some c' /\ rfrom c' = Some id) /\
  (alookup id (t1 (dbs s)) = Some c -> rfrom c = Some d ->
     exists c', alookup d (t1 (dbs s)) = Some c' /\ rto c' = Some id) /\
  (alookup id (t2 (dbs s)) = Some c -> rfrom c = Some d ->
     exists c', alookup d (t2 (dbs s)) = Some c' /\ rto c' = Some id).
Proof.
  intros H. pose proof (reach_inv s H) as I. split; [|split; [|split]].
  - intros L Rt. destruct (proj2 (inv_t1 meta s I) id c L) as [Hx _]. unfold entry_ok in Hx.
    rewrite Rt in Hx. destruct Hx as (H1 & H2 & H3 & H4). repeat split; auto.
  - intros L Rt. destruct (proj2 (inv_t2 meta s I) id c L) as [Hx _]. unfold entry_ok in Hx.
    rewrite Rt in Hx. destruct Hx as (H1 & H2 & H3 & H4). repeat split; auto.
  - intros L F. destruct (proj2 (inv_t1 meta s I) id c L) as [_ Hx]. now apply Hx.
  - intros L F. destruct (proj2 (inv_t2 meta s I) id c L) as [_ Hx]. now apply Hx.
Qed.

(* once renewed, for ever refusing: in every disciplined continuation of any length *)
Theorem c13_pred1_l s id d ops : reach s -> renewed1 s id d -> disc_run meta s ops ->
  let s' := runs s ops in
  renewed1 s' id d /\
  (step s' (Lock1 id) = (s', ORes (Err EInvalid)) \/ step s' (Lock1 id) = (s', ORes (Err EInsufficient))).
Proof.
  intros H Hr D s'. pose proof (reach_inv s H) as I.
  destruct (renewed_forever meta ops s id d I D) as [H1 _]. specialize (H1 Hr). split; [exact H1|].
  apply (pred1_refuses_lock meta s' id d); [|exact H1]. apply reach_inv. now apply reach_runs.
Qed.

Theorem c13_pred2_l s id d ops : reach s -> renewed2 s id d -> disc_run meta s ops ->
  let s' := runs s ops in
  renewed2 s' id d /\
  (forall c newroots mnew rsig hsig fault,
     step s' (Revise2 id c newroots mnew rsig hsig fault) = (s', ORes (Err EInvalid)) \/
     step s' (Revise2 id c newroots mnew rsig hsig fault) = (s', ORes (Err EOther))) /\
  (mem id (locks s') = false -> exists r l, step s' (Lock2 id) = (s', OLock2 (Ok (r, true, false, l)))) /\
  (forall c mold wf fault, exists e, step s' (Renew2 id d c mold wf fault) = (s', ORes (Err e))).
Proof.
  intros H Hr D s'. pose proof (reach_inv s H) as I.
  destruct (renewed_forever meta ops s id d I D) as [_ H2]. specialize (H2 Hr).
  assert (I' : Inv meta s') by (apply reach_inv; now apply reach_runs).
  repeat split; auto.
  - intros. now apply (pred2_refuses_revision s' id d).
  - intros. now apply (pred2_reports_renewed s' id d).
  - intros. now apply (pred2_refuses_renewal meta s' id d).
Qed.

(* the successor can be locked (v1) as soon as nobody holds it and its window is far *)
Theorem c13_successor_lock_l s' new cn :
  alookup new (t1 (dbs s')) = Some cn -> mem new (locks s') = false -> good1 (height s') cn = true ->
  snd (step s' (Lock1 new)) = ORes (Ok tt).
Proof. apply lock1_accepted. Qed.

Theorem c13_keeps_refs_l s o s' r : reach s -> disc meta s o -> step s o = (s', ORes (Ok tt)) ->
  match o with Renew1 _ _ _ _ _ _ _ _ _ _ _ | Renew2 _ _ _ _ _ _ => True | _ => False end ->
  referenced (dbs s) r = true -> referenced (dbs s') r = true.
Proof. intros H. apply (renew_keeps_refs meta). now apply reach_inv. Qed.

End Top.

(** * an executable check of the discipline, to exhibit concrete disciplined histories *)

Section Discb.
Variable meta : list root -> hash.

Definition no_upd_onb (s : state) (id : cid) : bool :=
  forallb (fun p => negb (u_cid (snd p) =? id)) (upds s).
Definition is_none {A} (o : option A) : bool := match o with None => true | Some _ => false end.
Definition not_max (t : list (cid * ct)) (id : cid) : bool :=
  match alookup id t with Some c => negb (rev c =? max_rev) | None => false end.

Definition discb (s : state) (o : op) : bool :=
  match o with
  | Form1 id _ ffsize fmroot _ => is_none (alookup id (t2 (dbs s))) && (ffsize =? 0) && (fmroot =? meta [])
  | Form2 id c => is_none (alookup id (t1 (dbs s))) && (r2_fsize c =? 0) && (r2_mroot c =? meta [])
  | Unlock1 id => mem id (locks s) && no_upd_onb s id
  | Open1 u id => mem id (locks s) && no_upd_onb s id && is_none (alookup u (upds s)) && not_max (t1 (dbs s)) id
  | Commit1 u _ nfsize nmroot _ =>
      match alookup u (upds s) with
      | Some x => (nfsize =? sector_size * nlen (u_roots x)) && (nmroot =? meta (u_roots x))
      | None => true
      end
  | Renew1 old new _ _ _ _ _ _ _ mold _ =>
      mem old (locks s) && no_upd_onb s old && is_none (alookup new (t2 (dbs s))) &&
      not_max (t1 (dbs s)) old && (mold =? meta (cache_get s old))
  | Revise2 _ _ newroots mnew _ _ _ => mnew =? meta newroots
  | Renew2 old new _ mold _ _ =>
      is_none (alookup new (t1 (dbs s))) && (mold =? meta (cache_get s old)) &&
      match alookup old (t2 (dbs s)) with
      | Some e => match rto e with Some d => new =? d | None => true end
      | None => true
      end
  | RawRevise1 _ _ _ _ _ _ _ => false
  | RawRevise2 _ _ _ _ _ => false
  | _ => true
  end.

Lemma no_upd_onb_sound s id : no_upd_onb s id = true -> no_upd_on s id.
Proof.
  unfold no_upd_onb, no_upd_on. rewrite forallb_forall. intros H u x L.
  apply alookup_In in L. specialize (H _ L). cbn in H. lia.
Qed.

Lemma not_max_sound t id : not_max t id = true -> exists c, alookup id t = Some c /\ rev c <> max_rev.
Proof. unfold not_max. destruct (alookup id t) as [c|]; [|discriminate]. intros H. exists c. split; [reflexivity|lia]. Qed.

Lemma is_none_sound A (o : option A) : is_none o = true -> o = None.
Proof. now destruct o. Qed.

Lemma discb_sound s o : discb s o = true -> disc meta s o.
Proof.
  destruct o; cbn [discb disc]; intros H; try exact I; try discriminate;
    repeat match type of H with _ && _ = true => apply andb_true_iff in H; destruct H as [H ?] end.
  - repeat split; auto using is_none_sound; lia.
  - repeat split; auto using is_none_sound; lia.
  - split; [assumption|now apply no_upd_onb_sound].
  - repeat split; auto using is_none_sound, no_upd_onb_sound, not_max_sound.
  - intros x L. rewrite L in H. apply andb_true_iff in H. split; lia.
  - repeat split; auto using is_none_sound, no_upd_onb_sound, not_max_sound. lia.
  - lia.
  - repeat split; auto using is_none_sound; try lia.
    intros e d L Rt. rewrite L, Rt in H0. lia.
Qed.

Fixpoint disc_runb (s : state) (ops : list op) : bool :=
  match ops with
  | [] => true
  | o :: rest => discb s o && disc_runb (fst (step s o)) rest
  end.

Lemma disc_runb_sound : forall ops s, disc_runb s ops = true -> disc_run meta s ops.
Proof.
  induction ops as [|o ops IH]; intros s H; cbn in *; [exact I|].
  apply andb_true_iff in H as [H1 H2]. split; [now apply discb_sound|now apply IH].
Qed.

End Discb.

(** * non-vacuity: a concrete disciplined history with two commits on one updater, a
   renewal and a revision of the successor *)

Definition meta0 (l : list root) : hash := fold_left (fun h r => h * 31 + r + 1) l 7.

Definition ex_ops : list op :=
  [ StoreSec 1; StoreSec 2; StoreSec 3;
    Form1 7 1 0 (meta0 []) 1000;
    Lock1 7; Open1 0 7;
    Act 0 (Append 1); Act 0 (Append 2); Act 0 (Append 2); Act 0 (Swap 0 2);
    Commit1 0 2 (3 * sector_size) (meta0 [2; 2; 1]) None;
    Act 0 (Trim 2); Commit1 0 3 sector_size (meta0 [2]) (Some 4%nat);
    Commit1 0 3 sector_size (meta0 [2]) None;
    Act 0 (Append 3); Commit1 0 4 (2 * sector_size) (meta0 [2; 3]) None;
    Close1 0;
    Renew1 7 8 max_rev 0 0 1 (2 * sector_size) (meta0 [2; 3]) 2000 (meta0 [2; 3]) None;
    Unlock1 7;
    Lock1 8; Open1 1 8; Act 1 (Update 1 0); Commit1 1 2 (2 * sector_size) (meta0 [1; 3]) None;
    Close1 1; Unlock1 8; Restart ].

Lemma ex_disc : disc_run meta0 init ex_ops.
Proof. apply disc_runb_sound. vm_compute. reflexivity. Qed.

Lemma ex_final :
  cache_get (runs init ex_ops) 8 = [1; 3] /\
  aget (aruns init ainit ex_ops) 8 = [1; 3] /\
  renewed1 (runs init ex_ops) 7 8 /\
  snd (step (runs init ex_ops) (Lock1 7)) = ORes (Err EInvalid) /\
  snd (step (runs init ex_ops) (Lock1 8)) = ORes (Ok tt).
Proof.
  repeat split; try (vm_compute; reflexivity).
  eexists. split; vm_compute; reflexivity.
Qed.
