(* Roots/SessCheck.v — what [scheck] checks on a recorded history besides the observations is the
   lock-protocol part of the discipline [sdisc] of SessProofs.v. *)
From Coq Require Import Lia ZifyBool ZifyN ZifyNat.
From HostdBase Require Import Base.
From HostdRoots Require Import Model Sess Lists ProofsReplay ProofsInv SessFrame SessProofs.
Open Scope N_scope.

(* who may make the call / release the lock / persist the payment *)
Definition sop_own (S : sstate) (t : sid) (o : op) : Prop :=
  match o with
  | Restart | Lock1 _ => True
  | Unlock1 id => alookup id (owner S) = Some t
  | Lock2 _ => True
  | _ => forall id, In id (touched (sb S) o) -> exists_ct (sb S) id -> alookup id (owner S) = Some t
  end.
Definition sown (S : sstate) (e : sop) : Prop :=
  match e with
  | SOp t o | SRenewH t _ o => sop_own S t o
  | SRel t id => alookup id (owner S) = Some t
  | SPayPersist t _ => forall p, alookup t (pends S) = Some p -> alookup (p_id p) (owner S) = Some t
  | _ => True
  end.
(* the callers' discipline towards the manager (ProofsInv.disc) *)
Definition sbase (meta : list root -> hash) (S : sstate) (e : sop) : Prop :=
  match e with
  | SOp _ o => disc meta (sb S) o
  | SRenewH _ _ o => is_renewal o /\ disc meta (sb S) o
  | _ => True
  end.

Lemma sdisc_split meta S e : sdisc meta true S e <-> sbase meta S e /\ sown S e.
Proof.
  destruct e; cbn [sdisc sbase sown]; unfold sop_disc, sop_own; try tauto.
Qed.

Lemma owned_sound S t id : owned S t id = true -> alookup id (owner S) = Some t.
Proof. unfold owned. destruct (alookup id (owner S)) as [t'|]; [|discriminate]. intros H. f_equal. lia. Qed.

Lemma has_ct_complete s id : exists_ct s id -> has_ct s id = true.
Proof.
  unfold exists_ct, has_ct. intros [H|H].
  - destruct (alookup id (t1 (dbs s))); [reflexivity|now elim H].
  - destruct (alookup id (t2 (dbs s))); [apply Bool.orb_true_r|now elim H].
Qed.

Lemma sop_ownb_sound S t o : sop_ownb S t o = true -> sop_own S t o.
Proof.
  assert (G : forallb (fun id => negb (has_ct (sb S) id) || owned S t id) (touched (sb S) o) = true ->
              forall id, In id (touched (sb S) o) -> exists_ct (sb S) id -> alookup id (owner S) = Some t).
  { intros H id Hin Hex. rewrite forallb_forall in H. specialize (H id Hin).
    rewrite (has_ct_complete _ _ Hex) in H. now apply owned_sound. }
  destruct o; cbn [sop_ownb sop_own]; try exact G; try (intros; exact I).
  apply owned_sound.
Qed.

(* an event [scheck] lets through satisfies the lock-protocol part of [sdisc] *)
Theorem sownb_sound S e : sownb S e = true -> sown S e.
Proof.
  destruct e; cbn [sownb sown]; try (intros; exact I); try apply sop_ownb_sound; try apply owned_sound.
  intros H p Hp. rewrite Hp in H. now apply owned_sound.
Qed.
