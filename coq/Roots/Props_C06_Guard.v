(* C06 (consequence clause) — statements kept in the Roots group, where v1 revisions are accepted.
   Statements only; every proof is [exact lemma].  Model: Model.v / Sess.v with
   fixes/C06-revise-guard-at-commit.patch; lemmas: Guard.v.  Listed under "extra_props" of props/C06.json. *)
From HostdBase Require Import Base.
From HostdRoots Require Import Model Lists ProofsReplay ProofsInv ProofsStep ProofsRenew ProofsSpec ProofsTop.
From HostdRoots Require Import Sess SessFrame SessProofs SessTop SessCheck Guard Confirm.
Open Scope N_scope.

(* ------------------------------------------------------------------------------------------------
   WP-G: a v1 contract is not revised once its latest revision can no longer be confirmed — what C06's
   consequence clause ("a contract whose data the host holds ends successful, never failed") needs from
   the acceptance of revisions.  Guard.v.

   The host builds the storage proof from the stored root list (Manager.SectorRoots: [cache_get],
   = the persisted rows by c03_invariant); the chain checks it against the file Merkle root of the last
   CONFIRMED revision.  The two agree at the proof window iff the last revision that set size and root
   is confirmed by then.  C06's broadcast rule (coq/Actions: c06_revision_exact, "confirmed, revision
   not on chain, window start within [h, h + buffer]") re-broadcasts the latest revision at every tip h
   with WindowStart - buffer <= h; a revision is valid in a block below WindowStart (core
   validation.go:274).  So a revision accepted at a tip h with h + buffer <= WindowStart has the whole
   submission buffer (144 blocks) of re-broadcasts ahead of it, while one accepted at WindowStart - 1
   can never confirm — the audit's execution (tools/wp/A2-report.md §2.1), in which the contract ended
   failed although the host held the data.

     sgruns sinit [] evs   the ghost log kept next to a run of sessions: per v1 contract the last call
                           that set its root list — OForm: the formation (AddContract: the empty list;
                           RenewContract for the successor: the predecessor's list; both are IN the
                           formation transaction), ORev h: an accepted ContractUpdater.Commit /
                           RenewContract (clearing the predecessor) at tip height h
     confirmable h c       h + revisionSubmissionBuffer <= WindowStart of c (the uint64 sum of the code;
                           c06_confirmable_plain for heights below 2^64 - 144)
   RHP3 pay-by-contract / fund-account persist through accounts.Credit under a lock taken for that RPC
   and never change size, root or rows (c06_payment_keeps_roots): they are not in the log and are
   guarded by Manager.Lock of the same RPC.  RHP2 read / sector roots go through Commit with an empty
   action list: guarded and logged like a write, the list unchanged.
   Link to coq/Actions/Liveness.v: its [p_held] ("buildStorageProof succeeds") and its fairness clause
   ("a proof the host broadcast inside the window is confirmed") presuppose that the proof is valid for
   the chain's revision; Liveness.v keeps the host's revision number constant (no revision is accepted
   during the run).  c06_stored_root_is_confirmable is what discharges that premise for runs with
   revisions, given the revision-broadcast rule and the same fairness for revisions: that last step is
   c06_guarded_revision_confirmed_by_window (Confirm.v: one contract seen through its latest revision, the
   host re-broadcasting by C06's selection rule, consensus "a revision is valid below the window start",
   fairness "handed to the pool at k consecutive tips => mined", any k < buffer).
   ------------------------------------------------------------------------------------------------ *)

(* In every state of every run of sessions that respect the lock protocol — any number of sessions, locks
   held across any number of blocks (SetHeight), writes, reads, renewals, payments, restarts —, whatever
   the height is now and in particular at every height inside the proof window: the list the host holds
   for a v1 contract is the list of its log entry, the stored revision commits to it, and if the entry is
   a revision it was accepted at a tip h with h + buffer <= WindowStart. *)
Theorem c06_stored_root_is_confirmable : forall meta evs id c,
  sdisc_run meta true faithful sinit evs ->
  let S := sruns faithful sinit evs in
  alookup id (t1 (dbs (sb S))) = Some c ->
  exists st, alookup id (sgruns sinit [] evs) = Some st /\
    tbl_list (rows c) = st_roots st /\
    (rto c = None -> cache_get (sb S) id = st_roots st /\
                     fsize c = sector_size * nlen (st_roots st) /\ mroot c = meta (st_roots st)) /\
    (forall h, st_origin st = ORev h -> confirmable h c).
Proof. exact stored_roots_confirmable. Qed.
Print Assumptions c06_stored_root_is_confirmable.

Theorem c06_confirmable_plain : forall h c,
  h + rev_buffer < two64 -> (confirmable h c <-> h + rev_buffer <= wstart c).
Proof. exact confirmable_plain. Qed.
Print Assumptions c06_confirmable_plain.

(* call by call: an accepted ReviseContract / Commit / RenewContract found the contract revisable at the
   tip of that moment ... *)
Theorem c06_accepted_revision_was_guarded : forall s u nrev nfsize nmroot fault s',
  step s (Commit1 u nrev nfsize nmroot fault) = (s', ORes (Ok tt)) ->
  exists x c, alookup u (upds s) = Some x /\ alookup (u_cid x) (t1 (dbs s)) = Some c /\
              good1 (height s) c = true.
Proof. exact commit1_guard. Qed.
Print Assumptions c06_accepted_revision_was_guarded.

Theorem c06_accepted_renewal_was_guarded : forall s old new crev cfsize cmroot nrev nfsize nmroot nws mold fault s',
  step s (Renew1 old new crev cfsize cmroot nrev nfsize nmroot nws mold fault) = (s', ORes (Ok tt)) ->
  exists c, alookup old (t1 (dbs s)) = Some c /\ good1 (height s) c = true.
Proof. exact renew1_guard. Qed.
Print Assumptions c06_accepted_renewal_was_guarded.

(* ... and past the last confirmable height the three calls are refused, whoever holds the lock and
   since whenever, and change nothing *)
Theorem c06_late_revision_refused : forall s u x c nrev nfsize nmroot,
  alookup u (upds s) = Some x -> alookup (u_cid x) (t1 (dbs s)) = Some c -> good1 (height s) c = false ->
  step s (Commit1 u nrev nfsize nmroot None) = (s, ORes (Err EInvalid)).
Proof. exact late_commit_refused. Qed.
Print Assumptions c06_late_revision_refused.

Theorem c06_late_updater_refused : forall s u id c,
  alookup id (t1 (dbs s)) = Some c -> good1 (height s) c = false ->
  step s (Open1 u id) = (s, ORes (Err EInvalid)).
Proof. exact late_open_refused. Qed.
Print Assumptions c06_late_updater_refused.

Theorem c06_late_renewal_refused : forall s old new crev cfsize cmroot nrev nfsize nmroot nws mold c,
  alookup old (t1 (dbs s)) = Some c -> good1 (height s) c = false ->
  step s (Renew1 old new crev cfsize cmroot nrev nfsize nmroot nws mold None) = (s, ORes (Err EInvalid)).
Proof. exact late_renewal_refused. Qed.
Print Assumptions c06_late_renewal_refused.

(* a payment revision persisted by the session that holds the lock (RHP3 accounts.Credit) keeps rows,
   size, Merkle root, window and links: the proof the host would build stays the same *)
Theorem c06_payment_keeps_roots : forall meta S t p c,
  SInv meta S -> sdisc meta true S (SPayPersist t true) ->
  alookup t (pends S) = Some p -> alookup (p_id p) (t1 (dbs (sb S))) = Some c ->
  let S' := fst (sstep faithful S (SPayPersist t true)) in
  exists c', alookup (p_id p) (t1 (dbs (sb S'))) = Some c' /\
    rows c' = rows c /\ fsize c' = fsize c /\ mroot c' = mroot c /\ wstart c' = wstart c /\ rto c' = rto c /\
    cache_get (sb S') (p_id p) = cache_get (sb S) (p_id p).
Proof. exact payment_keeps_roots. Qed.
Print Assumptions c06_payment_keeps_roots.

(* From "accepted while confirmable" to "confirmed when the window opens" (Confirm.v).  A world is the tip,
   the revision the host stores, the revision the chain holds, and for how many consecutive tips the host
   has handed the stored revision to the pool.  [crun true ws buf k] admits CAccept only at tips h with
   h + buf <= ws (the theorems above), lets the host re-broadcast by C06's rule (unconfirmed and
   h <= ws <= h + buf), admits a confirmation only in a block below ws (consensus) and forces one after k
   consecutive broadcasts (fairness).  For every such run, every patience k < buf: at every tip from
   ws - 1 on — every tip at which a storage proof is built — the chain holds the stored revision. *)
Theorem c06_guarded_revision_confirmed_by_window : forall ws buf k n r evs w,
  1 <= k -> k + 1 <= buf ->
  crun true ws buf k (cinit n r) evs = Some w ->
  ws <= c_tip w + 1 -> c_chain w = c_stored w.
Proof. exact guarded_revision_confirmed_by_window. Qed.
Print Assumptions c06_guarded_revision_confirmed_by_window.

(* without the guard ([crun false]) the audit's schedule — window start 1000, buffer 144, the revision
   accepted at tip 999 — is enabled under the same consensus and fairness hypotheses and leaves chain and
   host apart at the window and after every further block *)
Theorem c06_unguarded_revision_never_confirmed_refuted :
  exists w, crun false 1000 144 1 (cinit 1 0) ex_unguarded = Some w /\
    1000 <= c_tip w /\ c_chain w <> c_stored w /\
    forall conf w', cstep false 1000 144 1 w (CBlock conf) = Some w' -> c_chain w' <> c_stored w'.
Proof. exact unguarded_revision_never_confirmed. Qed.
Print Assumptions c06_unguarded_revision_never_confirmed_refuted.

(* Legacy (the code before fixes/C06-revise-guard-at-commit.patch, [legacy_step]: the guard is evaluated
   by Manager.Lock only).  The audit's schedule — lock at height 0, keep the lock, append a sector at
   height 999 with window start 1000 — is a disciplined run; the list the host holds was set by a revision
   accepted at a height that is not confirmable. *)
Theorem c06_guard_at_lock_only_refuted : exists ops id c st,
  ldisc_run meta0 init ops /\
  alookup id (t1 (dbs (lruns init ops))) = Some c /\
  alookup id (gruns_with legacy_step init [] ops) = Some st /\
  tbl_list (rows c) = st_roots st /\ st_roots st <> [] /\
  exists h, st_origin st = ORev h /\ ~ confirmable h c.
Proof. exact guard_at_lock_only_refuted. Qed.
Print Assumptions c06_guard_at_lock_only_refuted.

(* non-vacuity: a session writes at the last confirmable height (856 + 144 = 1000), keeps the lock and is
   refused one block later *)
Example c06_guard_nonvacuous :
  sdisc_run meta0 true faithful sinit ex_guard_sessions /\
  let S := sruns faithful sinit ex_guard_sessions in
  (exists c, alookup 7 (t1 (dbs (sb S))) = Some c /\ tbl_list (rows c) = [1]) /\
  alookup 7 (sgruns sinit [] ex_guard_sessions) = Some (mkstamp (ORev 856) [1]) /\
  snd (sstep faithful (sruns faithful sinit (removelast ex_guard_sessions)) (SOp 1 (Open1 1 7))) = SO (ORes (Err EInvalid)).
Proof. exact ex_guard_sessions_ok. Qed.

(* non-vacuity of the confirmation model: accepted at the last confirmable height 856, mined two blocks
   later under patience 2, equal at tip 999 *)
Example c06_confirm_nonvacuous :
  exists w, crun true 1000 144 2 (cinit 1 0)
              (repeat (CBlock false) 856 ++ [CAccept 2 7; CBlock false; CBlock true] ++ repeat (CBlock false) 141) = Some w /\
    c_tip w = 999 /\ c_chain w = (2, 7) /\ c_stored w = (2, 7).
Proof. exact ex_guarded_run. Qed.
