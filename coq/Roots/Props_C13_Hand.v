(* C13 (WP-Y) — renewals over histories that contain handler updater calls and status changes (Hand.v).
   Statements only; every proof is [exact lemma].  Vocabulary: Props_C03_Hand.v.

   The harnesses TestVerifC13PoolRejected (rhp/v3) and TestVerifC13V4 (RHP4) record renewals whose
   transaction set the pool refuses as [HS (SRenewH t false o)]; the statement about them is
   c13_renewal_rejected_by_pool_leaves_predecessor of Props_C13.v, restated here for the layer the
   histories are recorded in. *)
From HostdBase Require Import Base.
From HostdRoots Require Import Model Lists ProofsReplay ProofsInv ProofsStep ProofsRenew ProofsSpec ProofsTop.
From HostdRoots Require Import Sess Chain Hand SessFrame SessProofs SessTop SessCheck HandProofs.
Open Scope N_scope.

(* a renewal the pool refuses (RHP2, RHP3, RHP4 handler tails alike) leaves everything — predecessor,
   successor table, cache, locks, views, statuses — as it was, in every state, whatever the status *)
Theorem c13_pool_rejected_renewal_unchanged_with_status : forall H t o,
  sownb (hS H) (SRenewH t false o) = true ->
  hstep H (HS (SRenewH t false o)) = (H, hs (SO (ORes (Err EInvalid)))).
Proof. exact pool_rejected_hstep. Qed.
Print Assumptions c13_pool_rejected_renewal_unchanged_with_status.

(* a renewed predecessor stays renewed under every disciplined interleaving of sessions, handler edits,
   payments, further renewals and status changes (confirmation of the successor, rejection, resolution) *)
Theorem c13_predecessor_stays_renewed_under_status_changes : forall meta evs H id d,
  SInv meta (hS H) -> hdisc_run meta H evs ->
  (renewed1 (sb (hS H)) id d -> renewed1 (sb (hS (hruns H evs))) id d) /\
  (renewed2 (sb (hS H)) id d -> renewed2 (sb (hS (hruns H evs))) id d).
Proof. exact hand_renewed_stays. Qed.
Print Assumptions c13_predecessor_stays_renewed_under_status_changes.

(* a v1 renewal of a contract that was rejected / resolved while the renewing session held its lock is
   refused and nothing changes: no successor row, the predecessor as it was *)
Theorem c13_unusable_predecessor_is_not_renewed : forall H t ok old new a b c d e1 f g h k,
  sownb (hS H) (SRenewH t ok (Renew1 old new a b c d e1 f g h k)) = true -> unusable H old ->
  exists r, hstep H (HS (SRenewH t ok (Renew1 old new a b c d e1 f g h k))) = (H, hs (SO (ORes r))) /\ r <> Ok tt.
Proof. exact unusable_not_renewed. Qed.
Print Assumptions c13_unusable_predecessor_is_not_renewed.

Example c13_handlers_nonvacuous :
  hdisc_run meta0 hinit ex_rejected /\
  snd (hstep (hruns hinit (firstn 10 ex_rejected))
         (HS (SRenewH 1 false (Renew1 7 8 max_rev 0 0 1 sector_size (meta0 [1]) 2000 (meta0 [1]) None))))
    = hs (SO (ORes (Err EInvalid))).
Proof. exact (conj ex_rejected_disc ex_rejected_pool). Qed.
