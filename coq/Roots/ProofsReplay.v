(* Roots/ProofsReplay.v — the store's replay of an action list and the v2 diff refine the
   plain list semantics; injected store failures. *)
From Coq Require Import Lia ZifyBool ZifyN ZifyNat.
From HostdBase Require Import Base.
From HostdRoots Require Import Model Lists.
Open Scope N_scope.

(** * what an action list needs in stored_sectors *)
Definition act_root (a : action) : option root :=
  match a with Append r => Some r | Update r _ => Some r | _ => None end.
Definition act_stored (stored : list root) (a : action) : bool :=
  match act_root a with Some r => mem r stored | None => true end.
Definition acts_stored (stored : list root) (acts : list action) : bool :=
  forallb (act_stored stored) acts.

(** * one step of the replay on a table that equals the caller's list *)

Lemma replay_append stored l ns r rest :
  store_replay stored (tbl_of l) l ns (Append r :: rest) None =
  if mem r stored then store_replay stored (tbl_of (l ++ [r])) (l ++ [r]) (ns + 1) rest None else Err EOther.
Proof.
  cbn [store_replay mbind stmt]. unfold append_sector.
  destruct (mem r stored); cbn [negb mbind lift]; [|reflexivity].
  rewrite tins_of_end. reflexivity.
Qed.

Lemma dec_stat_ok ns n : n <= ns -> dec_stat ns n = Ok (ns - n).
Proof.
  intros H. unfold dec_stat. destruct (n =? 0) eqn:E; [f_equal; lia|].
  replace (ns <? n) with false by lia. reflexivity.
Qed.

Lemma replay_trim stored l ns n rest : n <= nlen l -> nlen l <= ns ->
  store_replay stored (tbl_of l) l ns (Trim n :: rest) None =
  store_replay stored (tbl_of (trim_roots l n)) (trim_roots l n) (ns - n) rest None.
Proof.
  intros H Hns. cbn [store_replay mbind stmt].
  replace (nlen l <? n) with false by lia.
  rewrite trim_sectors_of by exact H. cbn [mbind lift].
  rewrite dec_stat_ok by lia. cbn [mbind lift].
  rewrite list_eqb_refl. reflexivity.
Qed.

Lemma nlen_set_root l i r : nlen (set_root l i r) = nlen l.
Proof. unfold nlen, set_root; now rewrite length_set_nth. Qed.

Lemma nlen_swap_roots l a b : nlen (swap_roots l a b) = nlen l.
Proof. unfold swap_roots. now rewrite !nlen_set_root. Qed.

Lemma nlen_trim_roots l n : n <= nlen l -> nlen (trim_roots l n) = nlen l - n.
Proof. intros H. unfold trim_roots, nlen in *. rewrite firstn_length. lia. Qed.

Lemma nlen_tbl_of l : nlen (tbl_of l) = nlen l.
Proof.
  unfold tbl_of, nlen. generalize 0. induction l as [|x l IH]; intros i; cbn; [reflexivity|].
  specialize (IH (i + 1)). lia.
Qed.

Lemma replay_update stored l ns r i rest : i < nlen l ->
  store_replay stored (tbl_of l) l ns (Update r i :: rest) None =
  if mem r stored then store_replay stored (tbl_of (set_root l i r)) (set_root l i r) ns rest None
  else Err EOther.
Proof.
  intros H. cbn [store_replay mbind stmt]. unfold update_sector.
  rewrite tget_of by exact H.
  destruct (mem r stored); cbn [negb mbind lift]; [|reflexivity].
  replace (nlen l <=? i) with false by lia.
  rewrite N.eqb_refl; cbn [negb]. rewrite tset_of by exact H. reflexivity.
Qed.

Lemma replay_swap stored l ns a0 b0 rest : a0 < nlen l -> b0 < nlen l ->
  store_replay stored (tbl_of l) l ns (Swap a0 b0 :: rest) None =
  store_replay stored (tbl_of (swap_roots l a0 b0)) (swap_roots l a0 b0) ns rest None.
Proof.
  intros Ha Hb. cbn [store_replay mbind stmt].
  set (a := if b0 <? a0 then b0 else a0). set (b := if b0 <? a0 then a0 else b0).
  assert (Hab : a < nlen l /\ b < nlen l /\ swap_roots l a b = swap_roots l a0 b0).
  { subst a b; destruct (b0 <? a0); repeat split; auto. now apply swap_roots_comm. }
  destruct Hab as (Ha' & Hb' & Hsw).
  unfold swap_sectors. destruct (a =? b) eqn:E.
  - apply N.eqb_eq in E. cbn [mbind lift].
    replace (nlen l <=? a) with false by lia. replace (nlen l <=? b) with false by lia.
    cbn [orb]. rewrite <- Hsw, <- E, swap_roots_same. reflexivity.
  - rewrite !tget_of by assumption. cbn [mbind lift].
    replace (nlen l <=? a) with false by lia. replace (nlen l <=? b) with false by lia.
    cbn [orb]. rewrite !N.eqb_refl. cbn [orb andb]. rewrite ?orb_true_r.
    rewrite tset_of by exact Ha'.
    rewrite tset_of by (rewrite nlen_set_root; exact Hb').
    fold (swap_roots l a b). rewrite Hsw. reflexivity.
Qed.

(** * Store.ReviseContract's replay yields exactly the fold of the accepted actions (and keeps
   the contract-sector counter in step with the list length; no underflow panic as long as
   the counter is at least the length of the list) *)

Lemma replay_char stored : forall acts l l' ns,
  fold_upd l acts = Ok l' -> nlen l <= ns ->
  store_replay stored (tbl_of l) l ns acts None =
  if acts_stored stored acts then Ok ((tbl_of l', ns + nlen l' - nlen l), None) else Err EOther.
Proof.
  induction acts as [|a rest IH]; intros l l' ns H Hns.
  - cbn in H; injection H as <-. cbn [store_replay acts_stored forallb ret].
    replace (ns + nlen l - nlen l) with ns by lia. reflexivity.
  - cbn [fold_upd bind] in H. unfold upd_apply in H.
    destruct (upd_check l a) eqn:C; [|discriminate]. cbn [bind] in H.
    cbn [acts_stored forallb]. fold (acts_stored stored rest).
    destruct a as [r|a0 b0|n|r i]; cbn [upd_check spec_apply] in *.
    + rewrite replay_append. unfold act_stored; cbn [act_root].
      destruct (mem r stored); cbn [andb]; [|reflexivity].
      rewrite (IH _ _ _ H) by (rewrite nlen_app; cbn; lia).
      destruct (acts_stored stored rest); [|reflexivity]. rewrite nlen_app.
      replace (ns + 1 + nlen l' - (nlen l + nlen [r])) with (ns + nlen l' - nlen l) by (cbn; lia). reflexivity.
    + apply andb_true_iff in C as [Ca Cb].
      rewrite replay_swap by lia. unfold act_stored; cbn [act_root andb].
      rewrite (IH _ _ _ H) by (rewrite nlen_swap_roots; lia). now rewrite nlen_swap_roots.
    + rewrite replay_trim by lia. unfold act_stored; cbn [act_root andb].
      rewrite (IH _ _ _ H) by (rewrite nlen_trim_roots; lia).
      destruct (acts_stored stored rest); [|reflexivity]. rewrite nlen_trim_roots by lia.
      replace (ns - n + nlen l' - (nlen l - n)) with (ns + nlen l' - nlen l) by lia. reflexivity.
    + rewrite replay_update by lia. unfold act_stored; cbn [act_root].
      destruct (mem r stored); cbn [andb]; [|reflexivity].
      rewrite (IH _ _ _ H) by (rewrite nlen_set_root; lia). now rewrite nlen_set_root.
Qed.

(* accepted list => the table afterwards is exactly the fold *)
Lemma replay_refines_list stored acts l l' ns :
  fold_upd l acts = Ok l' -> nlen l <= ns -> acts_stored stored acts = true ->
  store_replay stored (tbl_of l) l ns acts None = Ok ((tbl_of l', ns + nlen l' - nlen l), None).
Proof. intros H Hn S; rewrite (replay_char stored acts l l' ns H Hn), S; reflexivity. Qed.

Lemma replay_ok_inv stored acts l l' ns t ns' k :
  fold_upd l acts = Ok l' -> nlen l <= ns ->
  store_replay stored (tbl_of l) l ns acts None = Ok ((t, ns'), k) ->
  t = tbl_of l' /\ ns' = ns + nlen l' - nlen l.
Proof.
  intros H Hn R; rewrite (replay_char stored acts l l' ns H Hn) in R.
  destruct (acts_stored stored acts); [now injection R as <- <- _|discriminate].
Qed.

(* a missing stored sector makes the whole commit fail *)
Lemma replay_missing stored acts l l' ns :
  fold_upd l acts = Ok l' -> nlen l <= ns -> acts_stored stored acts = false ->
  store_replay stored (tbl_of l) l ns acts None = Err EOther.
Proof. intros H Hn S; rewrite (replay_char stored acts l l' ns H Hn), S; reflexivity. Qed.

(** * updateV2ContractSectors yields exactly the new list *)

Definition all_stored (stored : list root) (l : list root) : bool := forallb (fun r => mem r stored) l.

Lemma set_root_mid done o old r :
  set_root (done ++ o :: old) (nlen done) r = (done ++ [r]) ++ old.
Proof.
  unfold set_root, nlen. rewrite Nat2N.id.
  induction done as [|x d IHd]; cbn; [reflexivity|now rewrite IHd].
Qed.

Lemma nlen_snoc {A} (l : list A) x : nlen l + 1 = nlen (l ++ [x]).
Proof. rewrite nlen_app; reflexivity. Qed.

(* one iteration of the loop over newRoots *)
Lemma v2_upserts_cons stored done old r new :
  v2_upserts stored (tbl_of (done ++ old)) (nlen done) old (r :: new) None =
  if (match old with o :: _ => o =? r | [] => false end) || mem r stored
  then v2_upserts stored (tbl_of ((done ++ [r]) ++ tl old)) (nlen (done ++ [r])) (tl old) new None
  else Err EOther.
Proof.
  cbn [v2_upserts]. destruct old as [|o old]; cbn [tl orb].
  - cbn [mbind stmt]. destruct (mem r stored); cbn [negb mbind lift stmt]; [|reflexivity].
    rewrite !app_nil_r, tupsert_of_end, (nlen_snoc done r). reflexivity.
  - destruct (o =? r) eqn:E; cbn [orb].
    + apply N.eqb_eq in E; subst o. rewrite (nlen_snoc done r), <- app_assoc. reflexivity.
    + cbn [mbind stmt]. destruct (mem r stored); cbn [negb mbind lift stmt]; [|reflexivity].
      rewrite tupsert_of_lt by (rewrite nlen_app, nlen_cons; lia).
      rewrite set_root_mid, (nlen_snoc done r). reflexivity.
Qed.

Lemma v2_upserts_char stored : forall new done old t k,
  v2_upserts stored (tbl_of (done ++ old)) (nlen done) old new None = Ok (t, k) ->
  t = tbl_of ((done ++ new) ++ skipn (length new) old) /\ k = None.
Proof.
  induction new as [|r new IH]; intros done old t k H.
  - cbn in H. injection H as <- <-. rewrite app_nil_r. cbn [length skipn]. auto.
  - rewrite v2_upserts_cons in H.
    destruct ((match old with o :: _ => o =? r | [] => false end) || mem r stored); [|discriminate].
    apply IH in H.
    replace (skipn (length (r :: new)) old) with (skipn (length new) (tl old)).
    { replace ((done ++ r :: new) ++ skipn (length new) (tl old))
        with (((done ++ [r]) ++ new) ++ skipn (length new) (tl old)); [exact H|].
      rewrite <- !app_assoc. reflexivity. }
    destruct old; cbn [tl length skipn]; [now rewrite skipn_nil|reflexivity].
Qed.

Lemma v2_upserts_ok stored : forall new done old,
  all_stored stored new = true ->
  exists t, v2_upserts stored (tbl_of (done ++ old)) (nlen done) old new None = Ok (t, None).
Proof.
  induction new as [|r new IH]; intros done old S.
  - eexists; reflexivity.
  - cbn [all_stored forallb] in S. apply andb_true_iff in S as [Sr S].
    rewrite v2_upserts_cons, Sr, orb_true_r. now apply IH.
Qed.

Lemma v2_diff_char stored old new ns : nlen old <= ns ->
  v2_diff stored (tbl_of old) old new ns None =
  match v2_upserts stored (tbl_of old) 0 old new None with
  | Ok _ => Ok ((tbl_of new, ns + nlen new - nlen old), None)
  | Err e => Err e
  | Panic => Panic
  end.
Proof.
  intros Hn. unfold v2_diff, mbind. cbn [stmt].
  destruct (v2_upserts stored (tbl_of old) 0 old new None) as [[t' k']|e|] eqn:E; try reflexivity.
  apply (v2_upserts_char stored new [] old) in E. destruct E as [-> ->]. cbn [app].
  destruct (nlen new <? nlen old) eqn:L; cbn [stmt ret lift].
  - rewrite dec_stat_ok by lia. rewrite tcut_of_app.
    replace (ns - (nlen old - nlen new)) with (ns + nlen new - nlen old) by lia. reflexivity.
  - rewrite skipn_all2 by (unfold nlen in L; lia). rewrite app_nil_r.
    replace (ns + (nlen new - nlen old)) with (ns + nlen new - nlen old) by lia. reflexivity.
Qed.

Lemma v2_diff_ok_inv stored old new ns t ns' k : nlen old <= ns ->
  v2_diff stored (tbl_of old) old new ns None = Ok ((t, ns'), k) ->
  t = tbl_of new /\ ns' = ns + nlen new - nlen old /\ k = None.
Proof.
  intros Hn. rewrite v2_diff_char by exact Hn.
  destruct (v2_upserts stored (tbl_of old) 0 old new None) as [[t' k']| |]; try discriminate.
  now intros [= <- <- <-].
Qed.

Lemma v2_diff_correct stored old new ns : nlen old <= ns ->
  all_stored stored new = true ->
  v2_diff stored (tbl_of old) old new ns None = Ok ((tbl_of new, ns + nlen new - nlen old), None).
Proof.
  intros Hn S. destruct (v2_upserts_ok stored new [] old S) as (t & Ht).
  cbn [app nlen length N.of_nat] in Ht. rewrite v2_diff_char by exact Hn. now rewrite Ht.
Qed.

(** * injected failures *)

Ltac fok_tac :=
  repeat first
    [ assumption
    | apply fok_ret | apply fok_lift | apply fok_stmt | apply fok_transaction
    | apply fok_bind; [|intros ?]
    | match goal with
      | |- fok (let '(_, _) := ?x in _) => destruct x
      | |- fok (if ?b then _ else _) => destruct b
      | |- fok (match ?x with _ => _ end) => destruct x
      end ].

Lemma fok_store_replay stored : forall acts t roots ns, fok (store_replay stored t roots ns acts).
Proof.
  induction acts as [|a rest IH]; intros t roots ns; cbn [store_replay]; [apply fok_ret|].
  apply fok_bind; [apply fok_stmt|intros _].
  destruct a; fok_tac; apply IH.
Qed.

Lemma fok_v2_upserts stored : forall new t i old, fok (v2_upserts stored t i old new).
Proof.
  induction new as [|r new IH]; intros t i old; cbn [v2_upserts]; [apply fok_ret|].
  fok_tac; apply IH.
Qed.

Lemma fok_v2_diff stored t old new ns : fok (v2_diff stored t old new ns).
Proof. unfold v2_diff. pose proof (fok_v2_upserts stored new t 0 old). fok_tac. Qed.

Lemma fok_store_add1 d id c : fok (store_add1 d id c).
Proof. unfold store_add1; fok_tac. Qed.
Lemma fok_store_add2 d id c : fok (store_add2 d id c).
Proof. unfold store_add2; fok_tac. Qed.

Lemma fok_store_revise1 d id nrev nfsize nmroot old acts :
  fok (store_revise1 d id nrev nfsize nmroot old acts).
Proof.
  unfold store_revise1. apply fok_transaction. apply fok_bind; [apply fok_stmt|intros _].
  destruct (alookup id (t1 d)) as [c|]; [|apply fok_lift].
  apply fok_bind; [apply fok_stmt|intros _].
  apply fok_bind; [apply fok_store_replay|intros ?; apply fok_ret].
Qed.

Lemma fok_store_renew1 d old new crev cfsize cmroot nc :
  fok (store_renew1 d old new crev cfsize cmroot nc).
Proof. unfold store_renew1; fok_tac. Qed.

Lemma fok_store_revise2 d id c old new : fok (store_revise2 d id c old new).
Proof.
  unfold store_revise2. apply fok_transaction. apply fok_bind; [apply fok_stmt|intros _].
  destruct (alookup id (t2 d)) as [e|]; [|apply fok_lift].
  apply fok_bind; [apply fok_stmt|intros _].
  apply fok_bind; [apply fok_v2_diff|intros ?; apply fok_ret].
Qed.

Lemma fok_store_renew2 d old new nc : fok (store_renew2 d old new nc).
Proof. unfold store_renew2; fok_tac. Qed.

Lemma fok_store_get t id : fok (store_get t id).
Proof. unfold store_get; fok_tac. Qed.

Ltac fok_tac2 :=
  repeat first
    [ apply fok_store_revise1 | apply fok_store_renew1 | apply fok_store_revise2
    | apply fok_store_renew2 | apply fok_store_get | apply fok_lift | apply fok_ret
    | apply fok_bind; [|intros ?]
    | match goal with
      | |- fok (if ?b then _ else _) => destruct b
      | |- fok (match ?x with _ => _ end) => destruct x
      end ].

Lemma fok_m_commit1 s x nrev nfsize nmroot : fok (m_commit1 s x nrev nfsize nmroot).
Proof. apply fok_store_revise1. Qed.

Lemma fok_m_renew1 s old new crev cfsize cmroot nrev nfsize nmroot nws mold :
  fok (m_renew1 s old new crev cfsize cmroot nrev nfsize nmroot nws mold).
Proof. unfold m_renew1. fok_tac2. Qed.

(* WP-G: the guard in front of Commit / RenewContract *)
Lemma fok_m_revisable1 s id : fok (m_revisable1 s id).
Proof. unfold m_revisable1. fok_tac2. Qed.

Lemma fok_g_commit1 s x nrev nfsize nmroot : fok (g_commit1 s x nrev nfsize nmroot).
Proof. unfold g_commit1. apply fok_bind; [apply fok_m_revisable1|intros _; apply fok_m_commit1]. Qed.

Lemma fok_g_renew1 s old new crev cfsize cmroot nrev nfsize nmroot nws mold :
  fok (g_renew1 s old new crev cfsize cmroot nrev nfsize nmroot nws mold).
Proof. unfold g_renew1. apply fok_bind; [apply fok_m_revisable1|intros _; apply fok_m_renew1]. Qed.

(* without an injected failure the monadic guard is the plain one *)
Lemma m_revisable1_None s id :
  m_revisable1 s id None =
  match revisable1 (height s) (t1 (dbs s)) id with Ok _ => Ok (tt, None) | Err e => Err e | Panic => Panic end.
Proof.
  cbv [m_revisable1 revisable1 store_get transaction mbind stmt ret lift].
  destruct (alookup id (t1 (dbs s))) as [c|]; [|reflexivity]. now destruct (good1 (height s) c).
Qed.

(* an accepted guarded call: the guard held at the current tip, and the call behind it was accepted *)
Lemma guarded_ok A s id (m : M A) a k :
  mbind (m_revisable1 s id) (fun _ => m) None = Ok (a, k) ->
  (exists c, alookup id (t1 (dbs s)) = Some c /\ good1 (height s) c = true) /\ m None = Ok (a, k).
Proof.
  unfold mbind. rewrite m_revisable1_None. unfold revisable1.
  destruct (alookup id (t1 (dbs s))) as [c|]; [|discriminate].
  destruct (good1 (height s) c) eqn:G; [|discriminate]. intros E. split; [now exists c|exact E].
Qed.

(* a guard that fails is the call's answer *)
Lemma guarded_refused A s id (m : M A) e :
  revisable1 (height s) (t1 (dbs s)) id = Err e -> mbind (m_revisable1 s id) (fun _ => m) None = Err e.
Proof. intros H. unfold mbind. now rewrite m_revisable1_None, H. Qed.

Lemma revisable1_cases h t id :
  (exists c, alookup id t = Some c /\ good1 h c = true /\ revisable1 h t id = Ok tt) \/
  (exists e, revisable1 h t id = Err e).
Proof.
  unfold revisable1. destruct (alookup id t) as [c|]; [|right; eauto].
  destruct (good1 h c) eqn:G; [left; exists c; auto|right; eauto].
Qed.

(* ... and a guard that holds is transparent *)
Lemma guarded_pass A s id (m : M A) c :
  alookup id (t1 (dbs s)) = Some c -> good1 (height s) c = true ->
  mbind (m_revisable1 s id) (fun _ => m) None = m None.
Proof.
  intros L G. unfold mbind. rewrite m_revisable1_None. unfold revisable1. now rewrite L, G.
Qed.

Lemma fok_m_revise2 s id c newroots mnew rsig hsig : fok (m_revise2 s id c newroots mnew rsig hsig).
Proof.
  unfold m_revise2. fok_tac2.
Qed.

Lemma fok_m_renew2 s old new c mold wf : fok (m_renew2 s old new c mold wf).
Proof.
  unfold m_renew2. fok_tac2.
Qed.

(* the shape every faulted operation has *)
Lemma outcome_fault A (m : M A) s (f : A -> state) k :
  fok m ->
  outcome s (m (Some k)) f = outcome s (m None) f \/ outcome s (m (Some k)) f = (s, ORes (Err EOther)).
Proof.
  intros [_ H]; specialize (H k); unfold outcome.
  destruct (m (Some k)) as [[a k1]|e|].
  - rewrite H; now left.
  - destruct H as [->|H]; [now right|rewrite H; now left].
  - rewrite H; now left.
Qed.

(* A store failure injected at any statement of a commit, revision or renewal: the
   operation either is not reached by it (same result as without) or fails with the store
   error and leaves every part of the state as it was. *)
Lemma fault_any_statement s o k :
  match o with
  | Commit1 u a b c _ =>
      step s (Commit1 u a b c (Some k)) = step s (Commit1 u a b c None) \/
      step s (Commit1 u a b c (Some k)) = (s, ORes (Err EOther))
  | Renew1 a b c d e f g h i j _ =>
      step s (Renew1 a b c d e f g h i j (Some k)) = step s (Renew1 a b c d e f g h i j None) \/
      step s (Renew1 a b c d e f g h i j (Some k)) = (s, ORes (Err EOther))
  | Revise2 a b c d e f _ =>
      step s (Revise2 a b c d e f (Some k)) = step s (Revise2 a b c d e f None) \/
      step s (Revise2 a b c d e f (Some k)) = (s, ORes (Err EOther))
  | Renew2 a b c d e _ =>
      step s (Renew2 a b c d e (Some k)) = step s (Renew2 a b c d e None) \/
      step s (Renew2 a b c d e (Some k)) = (s, ORes (Err EOther))
  | _ => True
  end.
Proof.
  destruct o; try exact I; cbn [step].
  - destruct (alookup u (upds s)); [|now left]. apply outcome_fault, fok_g_commit1.
  - apply outcome_fault, fok_g_renew1.
  - apply outcome_fault, fok_m_revise2.
  - apply outcome_fault, fok_m_renew2.
Qed.
