(* Roots/SessProofs.v — sessions that follow the lock protocol (WP-N).

   [sdisc]: the discipline of the callers at the level of sessions — a manager call that writes
   contract id (revision, renewal, commit) is made by the session that holds id's lock; Unlock by the
   holder; a payment revision is persisted by the session that decided it, while it still holds the
   lock ([strict]; the relaxed discipline drops exactly that).  Under [sdisc]:
     - what a lock holder was handed stays the contract's current state until it writes itself
       (the invariant [SInv]);
     - the manager invariant of ProofsInv.v holds along the way, including payment revisions;
     - a renewed predecessor stays renewed under every interleaving with paying RPCs. *)
From Coq Require Import Lia ZifyBool ZifyN ZifyNat.
From HostdBase Require Import Base.
From HostdRoots Require Import Model Sess Lists ProofsReplay ProofsInv ProofsStep ProofsRenew SessFrame.
Open Scope N_scope.

(** * small facts *)

Lemma alookup_sdel V t x (l : list (N * V)) : alookup x (sdel t l) = if x =? t then None else alookup x l.
Proof. apply alookup_cdel. Qed.

Lemma mem_cons_true x y l : mem x (y :: l) = (x =? y) || mem x l.
Proof. reflexivity. Qed.

Lemma mem_filter_ne x id l : x <> id -> mem x l = true -> mem x (filter (fun y => negb (y =? id)) l) = true.
Proof.
  intros Hne. induction l as [|y l IH]; cbn; [auto|].
  destruct (x =? y) eqn:E; cbn.
  - apply N.eqb_eq in E; subst y. intros _. replace (x =? id) with false by lia. cbn. now rewrite N.eqb_refl.
  - intros H. destruct (negb (y =? id)); cbn; [rewrite E|]; auto.
Qed.

Section SessP.
Variable meta : list root -> hash.
Notation Inv := (Inv meta).

Lemma inv_set_locks s l : Inv s -> Inv (set_locks s l).
Proof. intros I. now apply (inv_simple meta s). Qed.

(* a payment revision on a live v1 contract: only the revision number changes *)
Lemma inv_payrev s id c nrev :
  Inv s -> alookup id (t1 (dbs s)) = Some c -> rto c = None ->
  Inv (set_dbs s (set_t1 (dbs s) (aset id (with_rev c nrev (fsize c) (mroot c)) (t1 (dbs s))))).
Proof.
  intros I L R. set (c' := with_rev c nrev (fsize c) (mroot c)).
  match goal with |- Inv ?st => set (s' := st) end.
  assert (G : forall y, cache_get s' y = cache_get s y) by reflexivity.
  destruct (live_rows meta _ _ _ _ _ (inv_t1 meta s I) L R) as (Hrows & Hfs & Hmr).
  constructor; cbn [s' dbs set_dbs set_t1 t1 t2 nsec cache upds].
  - eapply tab_ok_ext; [|eapply (tab_ok_update meta true (cache_get s) _ id c c' (cache_get s id));
      [exact (inv_t1 meta s I)|exact L|exact R|exact R|reflexivity|]].
    + intros y cy _ _. unfold gset. destruct (y =? id) eqn:E; [apply N.eqb_eq in E; now subst|reflexivity].
    + subst c'. repeat split; cbn [rows fsize mroot with_rev]; auto.
  - exact (inv_t2 meta s I).
  - intros y Hy. rewrite alookup_aset in Hy. destruct (y =? id) eqn:Ey.
    + apply N.eqb_eq in Ey; subst y. apply (inv_disj meta s I). congruence.
    + now apply (inv_disj meta s I).
  - intros y Hy. rewrite alookup_aset. destruct (y =? id) eqn:Ey; [left; discriminate|].
    now apply (inv_cdom meta s I).
  - intros u x Lu. destruct (inv_upd meta s I u x Lu) as ((c1 & Lc1 & Rc1) & G2 & G3 & G4).
    repeat split; auto. cbn [s' dbs set_dbs set_t1 t1]. rewrite alookup_aset.
    destruct (u_cid x =? id) eqn:E; [exists c'; split; [reflexivity|exact R]|now exists c1].
  - exact (inv_unodup meta s I).
  - pose proof (total_aset_some id c' c (t1 (dbs s)) L) as Ht.
    subst c'. cbn [rows with_rev] in Ht. rewrite (inv_nsec meta s I). lia.
Qed.

(** * the invariant of the sessions *)

(* what a holder was handed is what the contract is *)
Definition view_cur (s : state) (w : view) : Prop :=
  if w_v1 w then
    exists c, alookup (w_id w) (t1 (dbs s)) = Some c /\ rev c = w_rev w /\ fsize c = w_fsize w /\
              mroot c = w_mroot w /\ rto c = None
  else
    exists c, alookup (w_id w) (t2 (dbs s)) = Some c /\ rev c = w_rev w /\ fsize c = w_fsize w /\
              mroot c = w_mroot w /\ w_renewed w = opt_is_some (rto c) /\ cache_get s (w_id w) = w_roots w.

Record SInv (S : sstate) : Prop := {
  si_inv : Inv (sb S);
  si_own : forall id t, alookup id (owner S) = Some t -> mem id (locks (sb S)) = true;
  si_view : forall t w, alookup t (views S) = Some w ->
            alookup (w_id w) (owner S) = Some t /\ view_cur (sb S) w;
  si_pend : forall t p, alookup t (pends S) = Some p -> alookup (p_id p) (owner S) = Some t ->
            exists w, alookup t (views S) = Some w /\ w_id w = p_id p /\ w_v1 w = true /\
                      p_fsize p = w_fsize w /\ p_mroot p = w_mroot w }.

Definition exists_ct (s : state) (id : cid) : Prop :=
  alookup id (t1 (dbs s)) <> None \/ alookup id (t2 (dbs s)) <> None.

Definition is_renewal (o : op) : Prop :=
  match o with Renew1 _ _ _ _ _ _ _ _ _ _ _ | Renew2 _ _ _ _ _ _ => True | _ => False end.

Definition sop_disc (S : sstate) (t : sid) (o : op) : Prop :=
  disc meta (sb S) o /\
  match o with
  | Restart | Lock1 _ => True
  | Unlock1 id => alookup id (owner S) = Some t
  | Lock2 _ => True
  | _ => forall id, In id (touched (sb S) o) -> exists_ct (sb S) id -> alookup id (owner S) = Some t
  end.

Definition sdisc (strict : bool) (S : sstate) (e : sop) : Prop :=
  match e with
  | SOp t o => sop_disc S t o
  | SReq _ _ | SAcq1 _ _ | SAcq2 _ _ | SPayDecide _ _ => True
  | SRel t id => alookup id (owner S) = Some t
  | SRenewH t _ o => is_renewal o /\ sop_disc S t o
  | SPayPersist t _ =>
      strict = true -> forall p, alookup t (pends S) = Some p -> alookup (p_id p) (owner S) = Some t
  end.

Fixpoint sdisc_run (strict : bool) (v : variant) (S : sstate) (evs : list sop) : Prop :=
  match evs with
  | [] => True
  | e :: rest => sdisc strict S e /\ sdisc_run strict v (fst (sstep v S e)) rest
  end.

Lemma sinv_init : SInv sinit.
Proof.
  constructor; cbn; try (intros; discriminate).
  apply inv_init.
Qed.

(* view_cur only looks at rows and cache entry of the view's contract *)
Lemma view_cur_frame s s' w : same_at s s' (w_id w) -> view_cur s w -> view_cur s' w.
Proof.
  intros (E1 & E2 & E3). unfold view_cur. destruct (w_v1 w).
  - intros (c & L & H). exists c. now rewrite E1.
  - intros (c & L & H). exists c. rewrite E2, E3. auto.
Qed.

Lemma view_cur_exists s w : view_cur s w -> exists_ct s (w_id w).
Proof.
  unfold view_cur, exists_ct. destruct (w_v1 w); intros (c & L & _); [left|right]; congruence.
Qed.

Lemma step_locks s o : match o with Lock1 _ | Unlock1 _ | Restart => False | _ => True end ->
  locks (fst (step s o)) = locks s.
Proof.
  destruct o; intros H; try destruct H; cbn [step]; try reflexivity;
    try (unfold outcome; match goal with |- context [match ?m with _ => _ end] => destruct m as [[? ?]| |] end; reflexivity).
  - destruct (revisable1 (height s) (t1 (dbs s)) id) as [[]| |]; reflexivity.
  - destruct (alookup u (upds s)); [|reflexivity]. destruct (upd_apply (u_roots u0) a); reflexivity.
  - destruct (alookup u (upds s)); [|reflexivity]. unfold outcome.
    destruct (g_commit1 s u0 nrev nfsize nmroot fault) as [[? ?]| |]; reflexivity.
  - destruct (mem id (locks s)); [reflexivity|]. destruct (alookup id (t2 (dbs s))); reflexivity.
Qed.

(* taking a free lock *)
Lemma sinv_take S t id : SInv S -> lock_free S id = true -> SInv (take S t id).
Proof.
  intros I F. unfold lock_free in F. apply Bool.negb_true_iff in F.
  assert (Hno : forall t', alookup id (owner S) <> Some t').
  { intros t' H. apply (si_own S I) in H. congruence. }
  constructor; cbn [take sb owner views pends].
  - apply inv_set_locks, (si_inv S I).
  - intros id' t' H. cbn [locks set_locks]. rewrite mem_cons_true. rewrite alookup_aset in H.
    destruct (id' =? id) eqn:E; [reflexivity|]. cbn. now apply (si_own S I id' t').
  - intros t' w H. rewrite alookup_sdel in H. destruct (t' =? t) eqn:Et; [discriminate|].
    destruct (si_view S I t' w H) as [Ho Hc]. split; [|exact Hc].
    rewrite alookup_aset. destruct (w_id w =? id) eqn:E; [|exact Ho].
    apply N.eqb_eq in E. rewrite E in Ho. now elim (Hno t').
  - intros t' p H Ho. rewrite alookup_sdel in H. destruct (t' =? t) eqn:Et; [discriminate|].
    rewrite alookup_aset in Ho. destruct (p_id p =? id) eqn:E; [injection Ho as <-; lia|].
    destruct (si_pend S I t' p H Ho) as (w & Hw & Hrest). exists w. split; [|exact Hrest].
    now rewrite alookup_sdel, Et.
Qed.

Lemma sinv_set_view S t w : SInv S -> alookup (w_id w) (owner S) = Some t -> view_cur (sb S) w ->
  alookup t (pends S) = None -> SInv (set_view S t w).
Proof.
  intros I Ho Hc Hp. constructor; cbn [set_view sb owner views pends].
  - exact (si_inv S I).
  - exact (si_own S I).
  - intros t' w' H. rewrite alookup_aset in H. destruct (t' =? t) eqn:Et.
    + apply N.eqb_eq in Et; subst t'. injection H as <-. now split.
    + now apply (si_view S I).
  - intros t' p H Ho'. destruct (t' =? t) eqn:Et; [apply N.eqb_eq in Et; subst t'; congruence|].
    destruct (si_pend S I t' p H Ho') as (w' & Hw & Hrest). exists w'. split; [|exact Hrest].
    now rewrite alookup_aset, Et.
Qed.

Lemma take_pends_none S t id : alookup t (pends (take S t id)) = None.
Proof. cbn [take pends]. now rewrite alookup_sdel, N.eqb_refl. Qed.

Lemma take_owner S t id : alookup id (owner (take S t id)) = Some t.
Proof. cbn [take owner]. now rewrite alookup_aset, N.eqb_refl. Qed.

(* releasing a lock *)
Lemma sinv_drop S t id : SInv S -> alookup id (owner S) = Some t -> SInv (drop S id).
Proof.
  intros I Ho.
  assert (Hv : forall t' w, alookup t' (drop_view S id) = Some w -> alookup t' (views S) = Some w /\ w_id w <> id).
  { intros t' w. unfold drop_view. rewrite Ho. destruct (alookup t (views S)) as [w0|] eqn:E0.
    - destruct (w_id w0 =? id) eqn:Ew.
      + rewrite alookup_sdel. destruct (t' =? t) eqn:Et; [discriminate|]. intros H. split; [exact H|].
        intros Hid. destruct (si_view S I t' w H) as [Ho' _]. rewrite Hid, Ho in Ho'. injection Ho' as <-. lia.
      + intros H. split; [exact H|]. intros Hid. destruct (si_view S I t' w H) as [Ho' _].
        rewrite Hid, Ho in Ho'. injection Ho' as <-. rewrite E0 in H. injection H as <-. lia.
    - intros H. split; [exact H|]. intros Hid. destruct (si_view S I t' w H) as [Ho' _].
      rewrite Hid, Ho in Ho'. injection Ho' as <-. congruence. }
  assert (Hk : forall t' w, alookup t' (views S) = Some w -> w_id w <> id -> alookup t' (drop_view S id) = Some w).
  { intros t' w H Hne. unfold drop_view. rewrite Ho. destruct (alookup t (views S)) as [w0|] eqn:E0; [|exact H].
    destruct (w_id w0 =? id) eqn:Ew; [|exact H]. rewrite alookup_sdel.
    destruct (t' =? t) eqn:Et; [|exact H]. apply N.eqb_eq in Et; subst t'. rewrite E0 in H. injection H as <-. lia. }
  constructor; cbn [drop sb owner views pends].
  - apply inv_set_locks, (si_inv S I).
  - intros id' t' H. rewrite alookup_cdel in H. destruct (id' =? id) eqn:E; [discriminate|].
    cbn [locks set_locks]. apply mem_filter_ne; [lia|]. now apply (si_own S I id' t').
  - intros t' w H. destruct (Hv t' w H) as [H1 Hne]. destruct (si_view S I t' w H1) as [Ho' Hc].
    split; [|exact Hc]. rewrite alookup_cdel. replace (w_id w =? id) with false by lia. exact Ho'.
  - intros t' p H Ho'. rewrite alookup_cdel in Ho'. destruct (p_id p =? id) eqn:E; [discriminate|].
    destruct (si_pend S I t' p H Ho') as (w & Hw & Hid & Hrest). exists w. split; [|now split].
    apply Hk; [exact Hw|lia].
Qed.

(* a manager call of session t *)
Lemma sinv_forget S t s0 o : SInv S -> SInv (forget S t s0 o).
Proof.
  intros I. unfold forget. destruct (alookup t (views S)) as [w|]; [|exact I].
  destruct (touchesb s0 o (w_id w)); [|exact I].
  constructor; cbn [sb owner views pends].
  - exact (si_inv S I).
  - exact (si_own S I).
  - intros t' w' H. rewrite alookup_sdel in H. destruct (t' =? t); [discriminate|]. now apply (si_view S I).
  - intros t' p H Ho. rewrite alookup_sdel in H. destruct (t' =? t) eqn:Et; [discriminate|].
    destruct (si_pend S I t' p H Ho) as (w' & Hw & Hrest). exists w'. split; [|exact Hrest].
    now rewrite alookup_sdel, Et.
Qed.

(* a state that differs from S in the manager state only, with every surviving view framed *)
Lemma sinv_sb S S1 s' :
  SInv S -> sb S1 = s' -> owner S1 = owner S -> Inv s' -> locks s' = locks (sb S) ->
  (forall t' w', alookup t' (views S1) = Some w' ->
     alookup t' (views S) = Some w' /\ same_at (sb S) s' (w_id w')) ->
  (forall t' p, alookup t' (pends S1) = Some p ->
     alookup t' (pends S) = Some p /\ forall w, alookup t' (views S) = Some w -> alookup t' (views S1) = Some w) ->
  SInv S1.
Proof.
  intros I Hsb How I' Hl Hv Hp. constructor.
  - now rewrite Hsb.
  - intros id' t' H. rewrite Hsb, Hl. rewrite How in H. now apply (si_own S I id' t').
  - intros t' w' H. destruct (Hv t' w' H) as [H0 F]. destruct (si_view S I t' w' H0) as [Ho Hc].
    rewrite How, Hsb. split; [exact Ho|]. now apply (view_cur_frame (sb S)).
  - intros t' p H Ho. rewrite How in Ho. destruct (Hp t' p H) as [H0 Hk].
    destruct (si_pend S I t' p H0 Ho) as (w & Hw & Hrest). exists w. split; [now apply Hk|exact Hrest].
Qed.

(* an accepted call: the caller forgets its view if it wrote that contract *)
Lemma sinv_generic S t o s' :
  SInv S -> s' = fst (step (sb S) o) -> Inv s' -> locks s' = locks (sb S) ->
  (forall id, touchesb (sb S) o id = true -> exists_ct (sb S) id -> alookup id (owner S) = Some t) ->
  SInv (forget (set_sb S s') t (sb S) o).
Proof.
  intros I Es I' Hl Hown.
  set (S1 := forget (set_sb S s') t (sb S) o).
  assert (Hsb : sb S1 = s').
  { subst S1. unfold forget. cbn [set_sb views]. destruct (alookup t (views S)) as [w|]; [|reflexivity].
    destruct (touchesb (sb S) o (w_id w)); reflexivity. }
  assert (How : owner S1 = owner S).
  { subst S1. unfold forget. cbn [set_sb views]. destruct (alookup t (views S)) as [w|]; [|reflexivity].
    destruct (touchesb (sb S) o (w_id w)); reflexivity. }
  apply (sinv_sb S S1 s' I Hsb How I' Hl).
  - (* a view that survives belongs to a contract the call did not write *)
    intros t' w' H.
    assert (H0 : alookup t' (views S) = Some w' /\ (t' = t -> touchesb (sb S) o (w_id w') = false)).
    { subst S1. unfold forget in H. cbn [set_sb views] in H.
      destruct (alookup t (views S)) as [w|] eqn:Ew.
      - destruct (touchesb (sb S) o (w_id w)) eqn:T; cbn [set_sb views] in H.
        + rewrite alookup_sdel in H. destruct (t' =? t) eqn:Et; [discriminate|]. split; [exact H|lia].
        + split; [exact H|]. intros ->. rewrite Ew in H. now injection H as <-.
      - cbn [set_sb views] in H. split; [exact H|]. intros ->. congruence. }
    destruct H0 as [H0 Ht]. split; [exact H0|]. rewrite Es. apply step_frame.
    destruct (touchesb (sb S) o (w_id w')) eqn:T; [|reflexivity].
    destruct (si_view S I t' w' H0) as [Ho Hc].
    pose proof (Hown _ T (view_cur_exists _ _ Hc)) as Ho2. rewrite Ho in Ho2. injection Ho2 as ->.
    now apply Ht.
  - intros t' p H. subst S1. unfold forget in *. cbn [set_sb views pends] in *.
    destruct (alookup t (views S)) as [w0|] eqn:Ew; [|now split].
    destruct (touchesb (sb S) o (w_id w0)) eqn:T; cbn [set_sb views pends] in *; [|now split].
    rewrite alookup_sdel in H. destruct (t' =? t) eqn:Et; [discriminate|]. split; [exact H|].
    intros w Hw. now rewrite alookup_sdel, Et.
Qed.

(* a call that writes a contract answers with ORes *)
Lemma touches_obs s o id : touchesb s o id = true -> exists r, snd (step s o) = ORes r.
Proof.
  destruct o; cbn [touchesb]; try discriminate; intros _; cbn [step];
    try (unfold outcome; match goal with |- context [match ?m with _ => _ end] => destruct m as [[? ?]| |] end; eexists; reflexivity).
  - destruct (alookup u (upds s)); [|eexists; reflexivity]. unfold outcome.
    destruct (g_commit1 s u0 nrev nfsize nmroot fault) as [[? ?]| |]; eexists; reflexivity.
  - eexists; reflexivity.
Qed.

(* a call that was not accepted leaves every contract as it was *)
Lemma step_not_ok_same_at s o id : is_ok (snd (step s o)) = false -> same_at s (fst (step s o)) id.
Proof.
  intros H. destruct (touchesb s o id) eqn:T; [|now apply step_frame].
  destruct (touches_obs s o id T) as (r & Er). destruct (step s o) as [s' ob] eqn:E. cbn [snd fst] in *. subst ob.
  assert (s' = s) as ->; [|apply same_at_refl].
  eapply step_error_unchanged; [exact E|]. intros ->. discriminate.
Qed.

Lemma sinv_sop S t o : SInv S -> sop_disc S t o -> SInv (fst (sop_step S t o)).
Proof.
  intros I [D Hown]. unfold sop_step.
  destruct (step (sb S) o) as [s' ob] eqn:E.
  assert (Es : s' = fst (step (sb S) o)) by now rewrite E.
  assert (Eo : ob = snd (step (sb S) o)) by now rewrite E.
  assert (I' : Inv s') by (rewrite Es; apply inv_step; [exact (si_inv S I)|exact D]).
  assert (Gen : match o with Lock1 _ | Unlock1 _ | Restart => False | _ => True end ->
                (forall id, touchesb (sb S) o id = true -> exists_ct (sb S) id -> alookup id (owner S) = Some t) ->
                SInv (if is_ok ob then forget (set_sb S s') t (sb S) o else set_sb S s')).
  { intros Hk Hown'. assert (Hl : locks s' = locks (sb S)) by (rewrite Es; now apply step_locks).
    destruct (is_ok ob) eqn:Ok; [now apply sinv_generic|].
    apply (sinv_sb S (set_sb S s') s' I eq_refl eq_refl I' Hl).
    - intros t' w' H. split; [exact H|]. rewrite Es. apply step_not_ok_same_at. now rewrite <- Eo.
    - intros t' p H. now split. }
  destruct o; try (cbn [fst]; apply Gen; [exact Logic.I|];
                   intros id0 T; apply Hown; cbn [touchesb] in T; now apply mem_true).
  - (* Lock1 *)
    destruct (is_ok ob) eqn:Ok; cbn [fst]; [|exact I]. apply sinv_take; [exact I|].
    unfold lock_free. cbn [step] in E. destruct (mem id (locks (sb S))); [|reflexivity].
    injection E as _ <-. discriminate.
  - (* Unlock1 *)
    destruct (is_ok ob); cbn [fst]; [|exact I]. now apply (sinv_drop S t).
  - (* Lock2 *)
    cbn [fst]. apply Gen; [exact Logic.I|]. intros id0 T. discriminate.
  - (* Restart *)
    cbn [fst]. constructor; cbn [sb owner views pends]; try (intros; discriminate). exact I'.
Qed.

(* the whole step *)
Theorem sinv_step strict S e : SInv S -> sdisc strict S e -> strict = true -> SInv (fst (sstep faithful S e)).
Proof.
  intros I D St. destruct e; cbn [sstep faithful v_snap v_store_first].
  - now apply sinv_sop.
  - (* SReq *) cbn [fst]. destruct I; constructor; assumption.
  - (* SAcq1 *)
    destruct (lock_free S id) eqn:F; [|exact I].
    destruct (alookup id (t1 (dbs (sb S)))) as [c|] eqn:L; [|exact I].
    destruct (good1 (height (sb S)) c) eqn:G; [|exact I]. cbn [fst].
    apply sinv_set_view; [now apply sinv_take|apply take_owner| |apply take_pends_none].
    unfold view_cur. cbn [w_v1 w_id w_rev w_fsize w_mroot take sb]. exists c.
    unfold good1 in G. apply andb_true_iff in G as [_ G].
    repeat split; [exact L|]. apply (not_max_live meta (sb S) id c (si_inv S I) L). lia.
  - (* SAcq2 *)
    destruct (lock_free S id) eqn:F; [|exact I].
    destruct (alookup id (t2 (dbs (sb S)))) as [c|] eqn:L; [|exact I]. cbn [fst].
    apply sinv_set_view; [now apply sinv_take|apply take_owner| |apply take_pends_none].
    unfold view_cur. cbn [w_v1 w_id w_rev w_fsize w_mroot w_renewed w_roots take sb]. exists c.
    repeat split; exact L.
  - (* SRel *)
    destruct (lock_free S id); [exact I|]. cbn [fst]. now apply (sinv_drop S t).
  - (* SRenewH *)
    destruct D as [_ D]. destruct pool_ok; [now apply sinv_sop|exact I].
  - (* SPayDecide *)
    destruct (alookup t (views S)) as [w|] eqn:Lw; [|exact I].
    destruct (w_v1 w && (w_rev w <? nrev)) eqn:G; [|exact I]. cbn [fst].
    apply andb_true_iff in G as [G1 _].
    constructor; cbn [sb owner views pends]; try apply I.
    intros t' p H Ho. rewrite alookup_aset in H. destruct (t' =? t) eqn:Et.
    + apply N.eqb_eq in Et; subst t'. injection H as <-. exists w. cbn [p_id p_fsize p_mroot]. auto.
    + now apply (si_pend S I).
  - (* SPayPersist *)
    destruct (alookup t (pends S)) as [p|] eqn:Lp; [|exact I].
    specialize (D St p Lp).
    destruct (si_pend S I t p Lp D) as (w & Lw & Hid & Hv1 & Hfs & Hmr).
    destruct (si_view S I t w Lw) as [Ho Hc]. unfold view_cur in Hc. rewrite Hv1 in Hc.
    destruct Hc as (c & Lc & _ & Hf & Hm & Rto). rewrite Hid in Lc.
    (* the session forgets its view and its decision *)
    assert (I0 : SInv {| sb := sb S; owner := owner S; waiting := waiting S; snaps := snaps S;
                         views := sdel t (views S); pends := sdel t (pends S) |}).
    { constructor; cbn [sb owner views pends]; try apply I.
      - intros t' w' H. rewrite alookup_sdel in H. destruct (t' =? t); [discriminate|]. now apply (si_view S I).
      - intros t' p' H Ho'. rewrite alookup_sdel in H. destruct (t' =? t) eqn:Et; [discriminate|].
        destruct (si_pend S I t' p' H Ho') as (w' & Hw' & Hrest). exists w'. split; [|exact Hrest].
        now rewrite alookup_sdel, Et. }
    destruct ok; [|exact I0]. rewrite Lc. cbn [fst].
    rewrite Hfs, Hmr, <- Hf, <- Hm.
    constructor; cbn [set_sb sb owner views pends].
    + apply inv_payrev; [exact (si_inv S I)|exact Lc|exact Rto].
    + exact (si_own S I).
    + intros t' w' H. rewrite alookup_sdel in H. destruct (t' =? t) eqn:Et; [discriminate|].
      destruct (si_view S I t' w' H) as [Ho' Hc']. split; [exact Ho'|].
      assert (Hne : w_id w' <> p_id p).
      { intros Heq. rewrite Heq, D in Ho'. injection Ho' as <-. lia. }
      apply (view_cur_frame (sb S)); [|exact Hc'].
      unfold same_at, cache_get. cbn [dbs set_dbs set_t1 t1 t2 cache]. rewrite alookup_aset_other by exact Hne. auto.
    + exact (si_pend _ I0).
Qed.

Theorem sinv_runs : forall evs S, SInv S -> sdisc_run true faithful S evs -> SInv (sruns faithful S evs).
Proof.
  induction evs as [|e evs IH]; intros S I D; cbn in *; [exact I|].
  destruct D as [D1 D2]. apply IH; [now apply (sinv_step true)|exact D2].
Qed.
End SessP.
