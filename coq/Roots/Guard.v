(* Roots/Guard.v — WP-G: a v1 contract is not revised once its latest revision can no longer be
   confirmed (the consequence clause of C06, stated where the revisions are accepted: C03's model).

   The host builds a storage proof from the stored root list; the chain holds the file Merkle root of the
   last CONFIRMED revision.  They agree iff no size- or root-changing revision was accepted after the
   last height at which a revision can still be confirmed before the proof window opens.  The host's
   guard is isGoodForModification: tip + revisionSubmissionBuffer <= WindowStart.  Before
   fixes/C06-revise-guard-at-commit.patch it was evaluated by Manager.Lock only, i.e. when the contract
   lock is acquired; an RHP2 session holds its lock for as long as the renter keeps sending RPCs.  Since
   the patch every call of the manager that persists a v1 revision evaluates it at the tip of that
   moment ([Open1], [Commit1], [Renew1] of Model.v).

   This file keeps, next to a run, a ghost log: per contract the last acceptance that set its root list —
   the formation (empty list / the predecessor's list, both in the formation transaction itself), or the
   last accepted Commit / RenewContract with the tip height at that moment — and proves

     - the stored (= served) list of every v1 contract is the list of its log entry, in every state of
       every run of sessions that respect the lock protocol, whatever the height is now (in particular
       at every height inside the proof window);
     - an entry that is a revision was accepted at a tip h with h + buffer <= WindowStart;
     - RHP3 payments (accounts.Credit under a lock taken for that RPC: SPayPersist) are not in the log:
       they leave rows, size, Merkle root and window untouched;
     - on the code before the patch ([legacy_step]) the audit's schedule — lock, wait, write one block
       before the window — is a disciplined run whose entry violates the bound. *)
From Coq Require Import Lia ZifyBool ZifyN ZifyNat.
From HostdBase Require Import Base.
From HostdRoots Require Import Model Sess Lists ProofsReplay ProofsInv ProofsStep ProofsRenew ProofsTop.
From HostdRoots Require Import SessFrame SessProofs SessTop SessCheck.
Open Scope N_scope.

(** * the ghost log *)

Inductive origin :=
| OForm (h : N)    (* the list is the one of the formation transaction (negotiated at tip h) *)
| ORev (h : N).    (* the list was set by a revision accepted at tip h *)
Record stamp := mkstamp { st_origin : origin; st_roots : list root }.
Definition glog := list (cid * stamp).

(* [stp] = the step function of the manager (the code with the patch: [step]; before it: [legacy_step]) *)
Definition gstep_with (stp : state -> op -> state * obs) (s : state) (g : glog) (o : op) : glog :=
  if is_ok (snd (stp s o)) then
    match o with
    | Form1 id _ _ _ _ => aset id (mkstamp (OForm (height s)) []) g
    | Commit1 u _ _ _ _ =>
        match alookup u (upds s) with
        | Some x => aset (u_cid x) (mkstamp (ORev (height s)) (u_roots x)) g
        | None => g
        end
    | Renew1 old new _ _ _ _ _ _ _ _ _ =>
        aset new (mkstamp (OForm (height s)) (cache_get s old))
             (aset old (mkstamp (ORev (height s)) []) g)
    | _ => g
    end
  else g.
Definition gstep := gstep_with step.

Fixpoint gruns_with (stp : state -> op -> state * obs) (s : state) (g : glog) (ops : list op) : glog :=
  match ops with
  | [] => g
  | o :: rest => gruns_with stp (fst (stp s o)) (gstep_with stp s g o) rest
  end.

(* sessions: the manager calls of SOp and of the tail of a renewal handler *)
Definition sgstep (S : sstate) (g : glog) (e : sop) : glog :=
  match e with
  | SOp _ o => gstep (sb S) g o
  | SRenewH _ true o => gstep (sb S) g o
  | _ => g
  end.
Fixpoint sgruns (S : sstate) (g : glog) (evs : list sop) : glog :=
  match evs with
  | [] => g
  | e :: rest => sgruns (fst (sstep faithful S e)) (sgstep S g e) rest
  end.

(* the guard as a bound: the uint64 sum of the code *)
Definition confirmable (h : N) (c : ct) : Prop := wadd h rev_buffer <= wstart c.

Lemma good1_window h c : good1 h c = true -> confirmable h c.
Proof. unfold good1, confirmable. intros H. apply andb_true_iff in H as [H _]. lia. Qed.

Lemma confirmable_plain h c : h + rev_buffer < two64 -> (confirmable h c <-> h + rev_buffer <= wstart c).
Proof. intros H. unfold confirmable, wadd. now rewrite N.mod_small by exact H. Qed.

(** * accepted calls were guarded at the tip of that moment *)

Lemma open1_guard s u id s' :
  step s (Open1 u id) = (s', ORes (Ok tt)) ->
  exists c, alookup id (t1 (dbs s)) = Some c /\ good1 (height s) c = true.
Proof.
  cbn [step]. unfold revisable1. destruct (alookup id (t1 (dbs s))) as [c|]; [|discriminate].
  destruct (good1 (height s) c) eqn:G; [|discriminate]. intros _. now exists c.
Qed.

Lemma commit1_guard s u nrev nfsize nmroot fault s' :
  step s (Commit1 u nrev nfsize nmroot fault) = (s', ORes (Ok tt)) ->
  exists x c, alookup u (upds s) = Some x /\ alookup (u_cid x) (t1 (dbs s)) = Some c /\
              good1 (height s) c = true.
Proof.
  cbn [step]. destruct (alookup u (upds s)) as [x|]; [|discriminate]. intros H.
  apply outcome_ok in H as (d' & E & _); [|apply fok_g_commit1].
  apply guarded_ok in E as [(c & Lc & G) _]. now exists x, c.
Qed.

Lemma renew1_guard s old new crev cfsize cmroot nrev nfsize nmroot nws mold fault s' :
  step s (Renew1 old new crev cfsize cmroot nrev nfsize nmroot nws mold fault) = (s', ORes (Ok tt)) ->
  exists c, alookup old (t1 (dbs s)) = Some c /\ good1 (height s) c = true.
Proof.
  cbn [step]. intros H. apply outcome_ok in H as (d' & E & _); [|apply fok_g_renew1].
  now apply guarded_ok in E as [G _].
Qed.

(* ... and a call whose contract is past the last confirmable height is refused, whoever holds the lock
   and since whenever, and changes nothing *)
Lemma late_open_refused s u id c :
  alookup id (t1 (dbs s)) = Some c -> good1 (height s) c = false ->
  step s (Open1 u id) = (s, ORes (Err EInvalid)).
Proof. intros L G. cbn [step]. unfold revisable1. now rewrite L, G. Qed.

Lemma late_commit_refused s u x c nrev nfsize nmroot :
  alookup u (upds s) = Some x -> alookup (u_cid x) (t1 (dbs s)) = Some c -> good1 (height s) c = false ->
  step s (Commit1 u nrev nfsize nmroot None) = (s, ORes (Err EInvalid)).
Proof.
  intros Lu L G. cbn [step]. rewrite Lu. unfold g_commit1.
  rewrite (guarded_refused _ s (u_cid x) _ EInvalid); [reflexivity|]. unfold revisable1. now rewrite L, G.
Qed.

Lemma late_renewal_refused s old new crev cfsize cmroot nrev nfsize nmroot nws mold c :
  alookup old (t1 (dbs s)) = Some c -> good1 (height s) c = false ->
  step s (Renew1 old new crev cfsize cmroot nrev nfsize nmroot nws mold None) = (s, ORes (Err EInvalid)).
Proof.
  intros L G. cbn [step]. unfold g_renew1.
  rewrite (guarded_refused _ s old _ EInvalid); [reflexivity|]. unfold revisable1. now rewrite L, G.
Qed.

Section Guard.
Variable meta : list root -> hash.
Notation Inv := (Inv meta).
Notation disc := (disc meta).

(* the guard includes "below the maximum revision number": since the patch a renewed (cleared)
   predecessor refuses not only Manager.Lock but the revising calls themselves, lock held or not *)
Lemma renewed1_not_good s id d c : Inv s -> alookup id (t1 (dbs s)) = Some c -> rto c = Some d ->
  good1 (height s) c = false.
Proof.
  intros I L R. destruct (proj2 (inv_t1 meta s I) id c L) as [H _]. unfold entry_ok in H. rewrite R in H.
  destruct H as (_ & Hm & _). unfold good1. now rewrite (Hm eq_refl), N.eqb_refl, andb_false_r.
Qed.

Lemma pred1_refuses_updater s u id d : Inv s -> renewed1 s id d ->
  step s (Open1 u id) = (s, ORes (Err EInvalid)).
Proof. intros I (c & L & R). apply (late_open_refused s u id c L). now apply (renewed1_not_good s id d). Qed.

Lemma pred1_refuses_renewal s id d new crev cfsize cmroot nrev nfsize nmroot nws mold : Inv s -> renewed1 s id d ->
  step s (Renew1 id new crev cfsize cmroot nrev nfsize nmroot nws mold None) = (s, ORes (Err EInvalid)).
Proof. intros I (c & L & R). apply (late_renewal_refused _ _ _ _ _ _ _ _ _ _ _ c L). now apply (renewed1_not_good s id d). Qed.

(** * the log describes the tables *)

Definition G (s : state) (g : glog) : Prop :=
  forall id c, alookup id (t1 (dbs s)) = Some c ->
    exists st, alookup id g = Some st /\
      (rto c = None -> cache_get s id = st_roots st) /\
      (rto c <> None -> st_roots st = []) /\
      (forall h, st_origin st = ORev h -> confirmable h c).

Lemma G_init : G init [].
Proof. intros id c L. discriminate. Qed.

Lemma G_same s s' g : (forall id, same_at s s' id) -> G s g -> G s' g.
Proof.
  intros H Gs id c L. destruct (H id) as (E1 & _ & E3). rewrite E1 in L.
  destruct (Gs id c L) as (st & Lg & H1 & H2 & H3). exists st. rewrite E3. auto.
Qed.

Lemma gstep_untouched s g o id : touchesb s o id = false -> alookup id (gstep s g o) = alookup id g.
Proof.
  intros T. unfold gstep, gstep_with. destruct (is_ok (snd (step s o))); [|reflexivity].
  destruct o; try reflexivity; cbn [touchesb touched mem existsb] in T; rewrite ?Bool.orb_false_r in T.
  - rewrite alookup_aset. now rewrite T.
  - destruct (alookup u (upds s)) as [x|]; [|reflexivity]. cbn [mem existsb] in T.
    rewrite Bool.orb_false_r in T. rewrite alookup_aset. now rewrite T.
  - apply Bool.orb_false_iff in T as [T1 T2]. rewrite !alookup_aset. now rewrite T1, T2.
Qed.

Lemma is_ok_form ob : is_ok ob = true -> ob = ORes (Ok tt).
Proof. destruct ob as [[[]| |]| | | | |]; cbn; try discriminate. reflexivity. Qed.

(* one manager call *)
Lemma G_step s g o : Inv s -> disc s o -> G s g -> G (fst (step s o)) (gstep s g o).
Proof.
  intros I D Gs. destruct (is_ok (snd (step s o))) eqn:Ok.
  2:{ (* not accepted: nothing moves *)
      replace (gstep s g o) with g by (unfold gstep, gstep_with; now rewrite Ok).
      apply (G_same s); [|exact Gs]. intros id. now apply step_not_ok_same_at. }
  intros id c' L'.
  destruct (touchesb s o id) eqn:T.
  2:{ (* a contract the call does not name *)
      destruct (step_frame s o id T) as (E1 & _ & E3). rewrite E1 in L'.
      destruct (Gs id c' L') as (st & Lg & H1 & H2 & H3). exists st.
      rewrite gstep_untouched by exact T. rewrite E3. auto. }
  destruct (step s o) as [s' ob] eqn:E. cbn [fst snd] in *. apply is_ok_form in Ok. subst ob.
  unfold gstep, gstep_with. rewrite E. cbn [snd is_ok].
  destruct o; cbn [touchesb touched mem existsb] in T; try discriminate; rewrite ?Bool.orb_false_r in T.
  - (* Form1 *)
    apply N.eqb_eq in T; subst id0. destruct D as (L2 & _ & _).
    cbn [step] in E. unfold outcome in E.
    match type of E with (match ?m with _ => _ end) = _ => destruct m as [[d' k]|e|] eqn:Es end; try discriminate.
    injection E as <-. apply store_add1_ok in Es as [L1 ->].
    cbn [dbs set_dbs set_t1 t1] in L'. rewrite alookup_aset_same in L'. injection L' as <-.
    eexists. rewrite alookup_aset_same. split; [reflexivity|]. cbn [st_roots st_origin rto].
    split; [intros _; rewrite (cache_get_same s (set_dbs s _) eq_refl); now apply (cache_absent meta)|].
    split; [intros H; now elim H|discriminate].
  - (* Form2: the new id is no v1 contract *)
    apply N.eqb_eq in T; subst id0. destruct D as (L1 & _ & _).
    cbn [step] in E. unfold outcome in E.
    destruct (store_add2 (dbs s) id (ct_of_rv2 c) None) as [[d' k]|e|] eqn:Es; try discriminate.
    injection E as <-. apply store_add2_ok in Es as [_ ->].
    cbn [dbs set_dbs set_t2 t1] in L'. congruence.
  - (* Commit1 *)
    destruct (commit1_guard _ _ _ _ _ _ _ E) as (x & c & Lu & Lc & Gd).
    apply commit1_form in E as (x' & c0 & t' & ns' & Lu' & Lc0 & _ & ->).
    rewrite Lu in Lu'; injection Lu' as <-. rewrite Lc in Lc0; injection Lc0 as <-.
    rewrite Lu in *. cbn [mem existsb] in T. rewrite Bool.orb_false_r in T. apply N.eqb_eq in T; subst id.
    cbn [dbs set_upds set_cache set_dbs set_t1 set_nsec t1] in L'. rewrite alookup_aset_same in L'. injection L' as <-.
    destruct (inv_upd meta s I u x Lu) as ((c1 & Lc1 & Rc1) & _). rewrite Lc in Lc1; injection Lc1 as <-.
    eexists. rewrite alookup_aset_same. split; [reflexivity|]. cbn [st_roots st_origin with_rows with_rev rto wstart].
    split; [intros _; unfold cache_get; cbn [cache set_upds set_cache]; now rewrite alookup_aset_same|].
    split; [intros H; now elim H|]. intros h [= <-]. unfold confirmable. cbn [with_rows with_rev wstart].
    now apply good1_window.
  - (* Renew1 *)
    destruct (renew1_guard _ _ _ _ _ _ _ _ _ _ _ _ _ E) as (c & Lc & Gd).
    pose proof D as (_ & _ & _ & (c1 & Lc1 & Rv1) & _). rewrite Lc in Lc1; injection Lc1 as <-.
    pose proof (not_max_live meta s old c I Lc Rv1) as Rc.
    destruct (renew1_form _ _ _ _ _ _ _ _ _ _ _ _ _ c Lc E) as (Ln1 & Hne & _ & _ & _ & _ & _ & ->).
    destruct (renew_lookup (t1 (dbs s)) old new (with_to (with_rev c crev cfsize cmroot) (Some new))
                (nc1 nrev nfsize nmroot nws) Hne Ln1) as [LK _].
    cbn [dbs set_cache set_dbs set_t1 t1] in L'. rewrite LK in L'.
    match goal with |- context [cache_get ?st id] => set (s' := st) end.
    assert (Gc : forall y, cache_get s' y =
              if y =? old then [] else if y =? new then cache_get s old else cache_get s y)
      by (apply cache_get_renew1; reflexivity).
    destruct (id =? old) eqn:E1.
    + (* the predecessor: cleared, linked, its window unchanged *)
      apply N.eqb_eq in E1; subst id. injection L' as <-.
      eexists. rewrite alookup_aset_other by (intros Hx; now apply Hne).
      rewrite alookup_aset_same. split; [reflexivity|]. cbn [st_roots st_origin with_rows with_to with_rev rto wstart].
      split; [discriminate|]. split; [reflexivity|]. intros h [= <-]. unfold confirmable.
      cbn [with_rows with_to with_rev wstart]. now apply good1_window.
    + destruct (id =? new) eqn:E2; [|discriminate T].
      apply N.eqb_eq in E2; subst id. injection L' as <-.
      eexists. rewrite alookup_aset_same. split; [reflexivity|]. cbn [st_roots st_origin with_rows with_from rto nc1].
      split; [intros _; rewrite Gc, E1, N.eqb_refl; reflexivity|]. split; [intros H; now elim H|discriminate].
  - (* Revise2: a v2 contract *)
    pose proof E as E'. apply revise2_form in E' as (e & t' & ns' & Le & _ & _ & _ & _ & ->).
    apply N.eqb_eq in T; subst id0.
    cbn [dbs set_cache set_dbs set_t2 set_nsec t1] in L'.
    rewrite (inv_disj meta s I id) in Le by congruence. discriminate.
  - (* Renew2: v2 contracts *)
    pose proof E as E'. apply renew2_form in E' as (e & Le & _ & _ & _ & _ & _ & _ & ->).
    destruct D as (Ln1 & _ & _).
    cbn [dbs set_cache set_dbs set_t2 t1] in L'.
    apply Bool.orb_true_iff in T as [T|T]; apply N.eqb_eq in T; subst id.
    + rewrite (inv_disj meta s I old) in Le by congruence. discriminate.
    + congruence.
  - (* Restart: the lists of live contracts are loaded as they were *)
    cbn [step] in E. injection E as <-. cbn [dbs t1] in L'.
    destruct (Gs id c' L') as (st & Lg & H1 & H2 & H3). exists st. split; [exact Lg|].
    split; [|auto]. intros Rt. rewrite <- (H1 Rt).
    exact (proj2 (restart_same_lists meta s id c' I (conj (or_introl L') Rt))).
  - destruct D.
  - destruct D.
Qed.

(** * sessions *)

Lemma same_at_trans s1 s2 s3 id : same_at s1 s2 id -> same_at s2 s3 id -> same_at s1 s3 id.
Proof. intros (A1 & A2 & A3) (B1 & B2 & B3). repeat split; congruence. Qed.

(* the manager state a session's call leaves is, table and cache wise, the one of the call *)
Lemma sop_step_sb S t o id : same_at (fst (step (sb S) o)) (sb (fst (sop_step S t o))) id.
Proof.
  unfold sop_step. destruct (step (sb S) o) as [s' ob] eqn:E. cbn [fst].
  assert (Hf : forall S1, sb (forget S1 t (sb S) o) = sb S1).
  { intros S1. unfold forget. destruct (alookup t (views S1)); [|reflexivity].
    destruct (touchesb (sb S) o (w_id v)); reflexivity. }
  destruct o; try (destruct (is_ok ob); cbn [fst]; rewrite ?Hf; apply same_at_refl).
  - (* Lock1 *) cbn [step] in E. destruct (mem id0 (locks (sb S))).
    { injection E as <- <-. apply same_at_refl. }
    destruct (alookup id0 (t1 (dbs (sb S)))); [|injection E as <- <-; apply same_at_refl].
    destruct (good1 (height (sb S)) c); injection E as <- <-; cbn [is_ok fst]; apply same_at_tables; reflexivity.
  - (* Unlock1 *) cbn [step] in E. destruct (mem id0 (locks (sb S))); injection E as <- <-; cbn [is_ok fst];
      apply same_at_tables; reflexivity.
Qed.

Lemma G_sop S t o g : SInv meta S -> sop_disc meta S t o -> G (sb S) g -> G (sb (fst (sop_step S t o))) (gstep (sb S) g o).
Proof.
  intros SI [D _] Gs. apply (G_same (fst (step (sb S) o))); [intros id; apply sop_step_sb|].
  apply G_step; [exact (si_inv meta S SI)|exact D|exact Gs].
Qed.

Lemma G_sstep S e g : SInv meta S -> sdisc meta true S e -> G (sb S) g ->
  G (sb (fst (sstep faithful S e))) (sgstep S g e).
Proof.
  intros SI D Gs. destruct e; cbn [sstep sgstep faithful v_snap v_store_first].
  - now apply G_sop.
  - exact Gs.
  - destruct (lock_free S id); [|exact Gs]. destruct (alookup id (t1 (dbs (sb S)))); [|exact Gs].
    destruct (good1 (height (sb S)) c); [|exact Gs]. cbn [fst]. apply (G_same (sb S)); [|exact Gs].
    intros x. apply same_at_tables; reflexivity.
  - destruct (lock_free S id); [|exact Gs]. destruct (alookup id (t2 (dbs (sb S)))); [|exact Gs].
    cbn [fst]. apply (G_same (sb S)); [|exact Gs]. intros x. apply same_at_tables; reflexivity.
  - destruct (lock_free S id); [exact Gs|]. cbn [fst]. apply (G_same (sb S)); [|exact Gs].
    intros x. apply same_at_tables; reflexivity.
  - destruct D as [_ D]. destruct pool_ok; [now apply G_sop|exact Gs].
  - destruct (alookup t (views S)); [|exact Gs]. destruct (w_v1 v && (w_rev v <? nrev)); exact Gs.
  - (* a payment revision persisted through accounts.Credit: number (and payouts) only *)
    destruct (alookup t (pends S)) as [p|] eqn:Lp; [|exact Gs].
    destruct ok; [|exact Gs]. destruct (alookup (p_id p) (t1 (dbs (sb S)))) as [c|] eqn:Lc; [|exact Gs].
    cbn [fst set_sb sb]. intros id c' L'. cbn [dbs set_dbs set_t1 t1] in L'. rewrite alookup_aset in L'.
    rewrite (cache_get_same (sb S) (set_dbs (sb S) _) eq_refl).
    destruct (id =? p_id p) eqn:Ei; [|now apply Gs].
    apply N.eqb_eq in Ei; subst id. injection L' as <-.
    destruct (Gs (p_id p) c Lc) as (st & Lg & H1 & H2 & H3). exists st. auto.
Qed.

Lemma G_sruns : forall evs S g, SInv meta S -> sdisc_run meta true faithful S evs -> G (sb S) g ->
  G (sb (sruns faithful S evs)) (sgruns S g evs).
Proof.
  induction evs as [|e evs IH]; intros S g SI D Gs; cbn in *; [exact Gs|].
  destruct D as [D1 D2]. apply IH; [now apply (sinv_step meta true)|exact D2|now apply G_sstep].
Qed.

(** * the statements *)

(* In every state a run of sessions that respect the lock protocol reaches — whatever the height is
   now — the list the host holds for a v1 contract (persisted = served: what buildStorageProof reads)
   is the list of the contract's log entry, the revision commits to it, and if the entry is a
   revision it was accepted at a tip h with h + buffer <= WindowStart: it was broadcast with the
   whole submission buffer ahead of it. *)
Theorem stored_roots_confirmable evs id c :
  sdisc_run meta true faithful sinit evs ->
  let S := sruns faithful sinit evs in
  alookup id (t1 (dbs (sb S))) = Some c ->
  exists st, alookup id (sgruns sinit [] evs) = Some st /\
    tbl_list (rows c) = st_roots st /\
    (rto c = None -> cache_get (sb S) id = st_roots st /\
                     fsize c = sector_size * nlen (st_roots st) /\ mroot c = meta (st_roots st)) /\
    (forall h, st_origin st = ORev h -> confirmable h c).
Proof.
  intros D S L.
  assert (SI : SInv meta S) by (apply sinv_runs; [apply sinv_init|exact D]).
  pose proof (si_inv meta S SI) as I.
  destruct (G_sruns evs sinit [] (sinv_init meta) D G_init id c L) as (st & Lg & H1 & H2 & H3).
  exists st. split; [exact Lg|].
  destruct (rto c) as [d|] eqn:Rt.
  - destruct (proj2 (inv_t1 meta (sb S) I) id c L) as [He _]. unfold entry_ok in He. rewrite Rt in He.
    destruct He as (Hr & _). rewrite Hr, H2 by discriminate.
    split; [reflexivity|]. split; [discriminate|exact H3].
  - destruct (live_rows meta _ _ _ _ _ (inv_t1 meta (sb S) I) L Rt) as (Hr & Hf & Hm).
    rewrite <- (H1 eq_refl). rewrite Hr, tbl_list_of.
    split; [reflexivity|]. split; [intros _; auto|exact H3].
Qed.

(* the same for runs of manager calls (no sessions: the store-level histories) *)
Lemma G_runs : forall ops s g, Inv s -> disc_run meta s ops -> G s g ->
  G (runs s ops) (gruns_with step s g ops).
Proof.
  induction ops as [|o ops IH]; intros s g I D Gs; cbn in *; [exact Gs|].
  destruct D as [D1 D2]. apply IH; [now apply inv_step|exact D2|now apply G_step].
Qed.

(* a payment persisted under the lock that was taken for it changes the revision number only *)
Theorem payment_keeps_roots S t p c :
  SInv meta S -> sdisc meta true S (SPayPersist t true) ->
  alookup t (pends S) = Some p -> alookup (p_id p) (t1 (dbs (sb S))) = Some c ->
  let S' := fst (sstep faithful S (SPayPersist t true)) in
  exists c', alookup (p_id p) (t1 (dbs (sb S'))) = Some c' /\
    rows c' = rows c /\ fsize c' = fsize c /\ mroot c' = mroot c /\ wstart c' = wstart c /\ rto c' = rto c /\
    cache_get (sb S') (p_id p) = cache_get (sb S) (p_id p).
Proof.
  intros SI D Lp Lc. cbn [sstep]. rewrite Lp, Lc. cbn [fst set_sb sb dbs set_dbs set_t1 t1].
  specialize (D eq_refl p Lp).
  destruct (si_pend meta S SI t p Lp D) as (w & Lw & Hid & Hv1 & Hfs & Hmr).
  destruct (si_view meta S SI t w Lw) as [_ Hc]. unfold view_cur in Hc. rewrite Hv1, Hid in Hc.
  destruct Hc as (c0 & Lc0 & _ & Hf & Hm & _). rewrite Lc in Lc0; injection Lc0 as <-.
  eexists. rewrite alookup_aset_same. split; [reflexivity|]. cbn [with_rev rows fsize mroot wstart rto].
  repeat split; congruence.
Qed.

End Guard.

(** * Legacy: the guard evaluated when the lock is acquired, and never again (the code before the patch) *)

Definition lruns (s : state) (ops : list op) : state := fold_left (fun s o => fst (legacy_step s o)) ops s.
Fixpoint ldisc_runb (meta : list root -> hash) (s : state) (ops : list op) : bool :=
  match ops with
  | [] => true
  | o :: rest => discb meta s o && ldisc_runb meta (fst (legacy_step s o)) rest
  end.
Fixpoint ldisc_run (meta : list root -> hash) (s : state) (ops : list op) : Prop :=
  match ops with
  | [] => True
  | o :: rest => disc meta s o /\ ldisc_run meta (fst (legacy_step s o)) rest
  end.
Lemma ldisc_runb_sound meta : forall ops s, ldisc_runb meta s ops = true -> ldisc_run meta s ops.
Proof.
  induction ops as [|o ops IH]; intros s H; cbn in *; [exact I|].
  apply andb_true_iff in H as [H1 H2]. split; [now apply discb_sound|now apply IH].
Qed.

(* the audit's schedule (tools/wp/A2-report.md §2.1): a contract with window start 1000 is locked at
   height 0; the session keeps the lock; at height 999 — one block before the window — it appends a
   sector through the held lock *)
Definition ex_held_lock : list op :=
  [ StoreSec 1; Form1 7 1 0 (meta0 []) 1000;
    Lock1 7;                                           (* guard evaluated: 0 + 144 <= 1000 *)
    SetHeight 999 ].
Definition ex_late_write : list op :=
  [ Open1 0 7; Act 0 (Append 1); Commit1 0 2 sector_size (meta0 [1]) None; Close1 0 ].

Lemma ex_late_legacy :
  ldisc_run meta0 init (ex_held_lock ++ ex_late_write) /\
  let s := lruns init (ex_held_lock ++ ex_late_write) in
  exists c st, alookup 7 (t1 (dbs s)) = Some c /\
    alookup 7 (gruns_with legacy_step init [] (ex_held_lock ++ ex_late_write)) = Some st /\
    tbl_list (rows c) = st_roots st /\ st_roots st = [1] /\ st_origin st = ORev 999 /\
    wstart c < wadd 999 rev_buffer /\ wstart c <= height s + 1 /\
    (* a caller that asks for the lock at that height is refused *)
    snd (step (lruns init ex_held_lock) (Unlock1 7)) = ORes (Ok tt) /\
    snd (step (fst (step (lruns init ex_held_lock) (Unlock1 7))) (Lock1 7)) = ORes (Err EInvalid).
Proof.
  split; [apply ldisc_runb_sound; vm_compute; reflexivity|].
  cbn zeta. eexists. eexists. vm_compute. repeat split; try reflexivity; try (intro; discriminate).
Qed.

(* the same history on the code with the patch: the prefix is the same run, the late write is refused
   call by call and the contract keeps the list of its formation *)
Lemma ex_late_faithful :
  disc_run meta0 init ex_held_lock /\ runs init ex_held_lock = lruns init ex_held_lock /\
  let s := runs init ex_held_lock in
  step s (Open1 0 7) = (s, ORes (Err EInvalid)) /\
  exists c, alookup 7 (t1 (dbs s)) = Some c /\ tbl_list (rows c) = [] /\
            alookup 7 (gruns_with step init [] ex_held_lock) = Some (mkstamp (OForm 0) []).
Proof.
  split; [apply disc_runb_sound; vm_compute; reflexivity|]. split; [vm_compute; reflexivity|].
  cbn zeta. split; [vm_compute; reflexivity|]. eexists. vm_compute. repeat split; reflexivity.
Qed.

Theorem guard_at_lock_only_refuted : exists ops id c st,
  ldisc_run meta0 init ops /\
  alookup id (t1 (dbs (lruns init ops))) = Some c /\
  alookup id (gruns_with legacy_step init [] ops) = Some st /\
  tbl_list (rows c) = st_roots st /\ st_roots st <> [] /\
  exists h, st_origin st = ORev h /\ ~ confirmable h c.
Proof.
  destruct ex_late_legacy as (D & c & st & Lc & Lg & Hr & Hl & Ho & Hw & _).
  exists (ex_held_lock ++ ex_late_write), 7, c, st.
  split; [exact D|]. split; [exact Lc|]. split; [exact Lg|]. split; [exact Hr|].
  split; [rewrite Hl; discriminate|].
  exists 999. split; [exact Ho|]. unfold confirmable. lia.
Qed.

(** * an executable check of the sessions' discipline, to exhibit concrete disciplined runs *)

Definition is_renewalb (o : op) : bool :=
  match o with Renew1 _ _ _ _ _ _ _ _ _ _ _ | Renew2 _ _ _ _ _ _ => true | _ => false end.
Definition sbaseb (meta : list root -> hash) (S : sstate) (e : sop) : bool :=
  match e with
  | SOp _ o => discb meta (sb S) o
  | SRenewH _ _ o => is_renewalb o && discb meta (sb S) o
  | _ => true
  end.
Fixpoint sdisc_runb (meta : list root -> hash) (S : sstate) (evs : list sop) : bool :=
  match evs with
  | [] => true
  | e :: rest => sbaseb meta S e && sownb S e && sdisc_runb meta (fst (sstep faithful S e)) rest
  end.

Lemma sbaseb_sound meta S e : sbaseb meta S e = true -> sbase meta S e.
Proof.
  destruct e; cbn [sbaseb sbase]; try (intros; exact I); [apply discb_sound|].
  intros H. apply andb_true_iff in H as [H1 H2]. split; [|now apply discb_sound].
  destruct o; try discriminate; exact I.
Qed.

Lemma sdisc_runb_sound meta : forall evs S, sdisc_runb meta S evs = true -> sdisc_run meta true faithful S evs.
Proof.
  induction evs as [|e evs IH]; intros S H; cbn in *; [exact I|].
  apply andb_true_iff in H as [H H3]. apply andb_true_iff in H as [H1 H2].
  split; [|now apply IH]. apply sdisc_split. split; [now apply sbaseb_sound|now apply sownb_sound].
Qed.

(** * non-vacuity of the sessions statement: a session locks, writes at the last allowed height, keeps
   the lock and is refused one block later *)
Definition ex_guard_sessions : list sop :=
  [ SOp 1 (StoreSec 1); SOp 1 (StoreSec 2); SOp 1 (Form1 7 1 0 (meta0 []) 1000);
    SAcq1 1 7;
    SOp 1 (SetHeight 856);                                            (* 856 + 144 = 1000: the last height *)
    SOp 1 (Open1 0 7); SOp 1 (Act 0 (Append 1)); SOp 1 (Commit1 0 2 sector_size (meta0 [1]) None); SOp 1 (Close1 0);
    SOp 1 (SetHeight 857);                                            (* one block later, same lock *)
    SOp 1 (Open1 1 7) ].

Lemma ex_guard_sessions_ok :
  sdisc_run meta0 true faithful sinit ex_guard_sessions /\
  let S := sruns faithful sinit ex_guard_sessions in
  (exists c, alookup 7 (t1 (dbs (sb S))) = Some c /\ tbl_list (rows c) = [1]) /\
  alookup 7 (sgruns sinit [] ex_guard_sessions) = Some (mkstamp (ORev 856) [1]) /\
  snd (sstep faithful (sruns faithful sinit (removelast ex_guard_sessions)) (SOp 1 (Open1 1 7))) = SO (ORes (Err EInvalid)).
Proof.
  split; [apply sdisc_runb_sound; vm_compute; reflexivity|]. cbn zeta.
  split; [eexists; vm_compute; split; reflexivity|].
  split; vm_compute; reflexivity.
Qed.
