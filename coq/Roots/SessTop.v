(* Roots/SessTop.v — the session-level statements of C03 / C13 (WP-N) and the Legacy witnesses. *)
From Coq Require Import Lia ZifyBool ZifyN ZifyNat.
From HostdBase Require Import Base.
From HostdRoots Require Import Model Sess Lists ProofsReplay ProofsInv ProofsStep ProofsRenew ProofsTop SessFrame SessProofs.
Open Scope N_scope.

Section STop.
Variable meta : list root -> hash.
Notation Inv := (Inv meta).

Definition sreach (S : sstate) : Prop :=
  exists evs, sdisc_run meta true faithful sinit evs /\ S = sruns faithful sinit evs.

Lemma sreach_sinv S : sreach S -> SInv meta S.
Proof. intros (evs & D & ->). apply sinv_runs; [apply sinv_init|exact D]. Qed.

(** * C03: what a caller is handed when it gets the lock *)

(* LockV2Contract at the moment it returns: the revision and the list agree (read under the lock, in
   any state the sessions can reach, whoever held the lock before and whatever it committed) *)
Theorem acquire2_view_agrees S t id S' r rv l :
  sreach S -> sstep faithful S (SAcq2 t id) = (S', SO (OLock2 (Ok (r, false, rv, l)))) ->
  exists c, alookup id (t2 (dbs (sb S))) = Some c /\ rto c = None /\ r = rev c /\
    l = tbl_list (rows c) /\ l = cache_get (sb S) id /\
    fsize c = sector_size * nlen l /\ mroot c = meta l.
Proof.
  intros R. pose proof (si_inv meta S (sreach_sinv S R)) as I.
  cbn [sstep faithful v_snap]. destruct (lock_free S id); [|discriminate].
  destruct (alookup id (t2 (dbs (sb S)))) as [c|] eqn:L; [|discriminate].
  intros [= _ <- Hr _ <-]. exists c.
  assert (Rt : rto c = None) by (destruct (rto c); [discriminate|reflexivity]).
  destruct (live_rows meta _ _ _ _ _ (inv_t2 meta (sb S) I) L Rt) as (Hrows & Hfs & Hmr).
  repeat split; auto. now rewrite Hrows, tbl_list_of.
Qed.

(* Manager.Lock at the moment it returns: the revision is the stored one and commits to the list the
   manager serves to the holder *)
Theorem acquire1_view_agrees S t id S' r f m :
  sreach S -> sstep faithful S (SAcq1 t id) = (S', SOLock1 (Ok (r, f, m))) ->
  exists c, alookup id (t1 (dbs (sb S))) = Some c /\ rto c = None /\ r = rev c /\
    tbl_list (rows c) = cache_get (sb S) id /\
    f = sector_size * nlen (cache_get (sb S) id) /\ m = meta (cache_get (sb S) id).
Proof.
  intros R. pose proof (si_inv meta S (sreach_sinv S R)) as I.
  cbn [sstep]. destruct (lock_free S id); [|discriminate].
  destruct (alookup id (t1 (dbs (sb S)))) as [c|] eqn:L; [|discriminate].
  destruct (good1 (height (sb S)) c) eqn:G; [|discriminate].
  intros [= _ <- <- <-]. exists c.
  unfold good1 in G. apply andb_true_iff in G as [_ G].
  assert (Rt : rto c = None) by (apply (not_max_live meta (sb S) id c I L); lia).
  destruct (live_rows meta _ _ _ _ _ (inv_t1 meta (sb S) I) L Rt) as (Hrows & Hfs & Hmr).
  repeat split; auto. now rewrite Hrows, tbl_list_of.
Qed.

(* ... and it stays so while the lock is held: after any disciplined continuation (other sessions
   queueing, committing on other contracts, renewing, paying), what a holder was handed is still the
   contract's current state, until the holder writes the contract itself *)
Theorem locked_view_is_current S t w :
  sreach S -> alookup t (views S) = Some w ->
  alookup (w_id w) (owner S) = Some t /\
  if w_v1 w then
    exists c, alookup (w_id w) (t1 (dbs (sb S))) = Some c /\ rto c = None /\
      rev c = w_rev w /\ fsize c = w_fsize w /\ mroot c = w_mroot w /\
      tbl_list (rows c) = cache_get (sb S) (w_id w) /\
      w_fsize w = sector_size * nlen (cache_get (sb S) (w_id w)) /\ w_mroot w = meta (cache_get (sb S) (w_id w))
  else
    exists c, alookup (w_id w) (t2 (dbs (sb S))) = Some c /\ w_renewed w = opt_is_some (rto c) /\
      rev c = w_rev w /\ fsize c = w_fsize w /\ mroot c = w_mroot w /\
      cache_get (sb S) (w_id w) = w_roots w /\
      (w_renewed w = false ->
         tbl_list (rows c) = w_roots w /\ w_fsize w = sector_size * nlen (w_roots w) /\ w_mroot w = meta (w_roots w)).
Proof.
  intros R L. pose proof (sreach_sinv S R) as SI. pose proof (si_inv meta S SI) as I.
  destruct (si_view meta S SI t w L) as [Ho Hc]. split; [exact Ho|].
  unfold view_cur in Hc. destruct (w_v1 w).
  - destruct Hc as (c & Lc & Hr & Hf & Hm & Rt). exists c.
    destruct (live_rows meta _ _ _ _ _ (inv_t1 meta (sb S) I) Lc Rt) as (Hrows & Hfs & Hmr).
    repeat split; auto; try congruence. now rewrite Hrows, tbl_list_of.
  - destruct Hc as (c & Lc & Hr & Hf & Hm & Hrn & Hl). exists c.
    split; [exact Lc|]. split; [exact Hrn|]. split; [exact Hr|]. split; [exact Hf|]. split; [exact Hm|].
    split; [exact Hl|]. intros Hn. rewrite Hn in Hrn.
    assert (Rt : rto c = None) by (destruct (rto c); [discriminate|reflexivity]).
    destruct (live_rows meta _ _ _ _ _ (inv_t2 meta (sb S) I) Lc Rt) as (Hrows & Hfs & Hmr).
    rewrite <- Hl. repeat split; [now rewrite Hrows, tbl_list_of|congruence|congruence].
Qed.

(** * C13: a renewal the pool rejects *)

(* the handler validates the transaction set before it calls RenewContract / RenewV2Contract: a set
   the pool rejects leaves everything — predecessor, successor table, cache, locks, views — as it was *)
Theorem pool_rejected_unchanged S t o :
  sstep faithful S (SRenewH t false o) = (S, SO (ORes (Err EInvalid))).
Proof. reflexivity. Qed.

Lemma set_sb_same S : set_sb S (sb S) = S.
Proof. now destruct S. Qed.

(* whatever makes the renewal fail (pool, sanity checks of the manager, the store at any statement) *)
Theorem renewal_handler_error_unchanged S t ok o S' r :
  is_renewal o -> sstep faithful S (SRenewH t ok o) = (S', SO (ORes r)) -> r <> Ok tt -> S' = S.
Proof.
  intros Ho. cbn [sstep faithful v_store_first]. destruct ok; [|now intros [= <- _]].
  unfold sop_step. destruct (step (sb S) o) as [s' ob] eqn:E.
  destruct o; try (now elim Ho); intros [= <- ->] Hr;
    (assert (s' = sb S) as -> by (eapply step_error_unchanged; eauto));
    (destruct r as [[]| |]; [now elim Hr| |]; cbn [is_ok]; apply set_sb_same).
Qed.

(** * C13: renewed predecessors under paying RPCs *)

Lemma renewed1_sstable S e id d :
  SInv meta S -> sdisc meta true S e -> renewed1 (sb S) id d -> renewed1 (sb (fst (sstep faithful S e))) id d.
Proof.
  intros SI D Rn. pose proof (si_inv meta S SI) as I.
  assert (Same : forall S1, t1 (dbs (sb S1)) = t1 (dbs (sb S)) -> renewed1 (sb S1) id d).
  { intros S1 E. destruct Rn as (c & L & R). exists c. now rewrite E. }
  assert (Sop : forall t o, sop_disc meta S t o -> renewed1 (sb (fst (sop_step S t o))) id d).
  { intros t o [Do _]. unfold sop_step. destruct (step (sb S) o) as [s' ob] eqn:E.
    assert (Rs : renewed1 s' id d).
    { replace s' with (fst (step (sb S) o)) by now rewrite E. now apply (renewed1_stable meta). }
    assert (Hf : forall S1, sb S1 = s' -> renewed1 (sb (forget S1 t (sb S) o)) id d).
    { intros S1 <-. unfold forget. destruct (alookup t (views S1)); [|exact Rs].
      destruct (touchesb (sb S) o (w_id v)); exact Rs. }
    destruct o; try (cbn [fst]; destruct (is_ok ob); [now apply Hf|exact Rs]).
    - destruct (is_ok ob); cbn [fst]; [|exact Rn]. apply Same. reflexivity.
    - destruct (is_ok ob); cbn [fst]; [|exact Rn]. apply Same. reflexivity.
    - exact Rs. }
  destruct e; cbn [sstep faithful v_snap v_store_first].
  - now apply Sop.
  - apply Same. reflexivity.
  - destruct (lock_free S id0); [|exact Rn]. destruct (alookup id0 (t1 (dbs (sb S)))); [|exact Rn].
    destruct (good1 (height (sb S)) c); [|exact Rn]. apply Same. reflexivity.
  - destruct (lock_free S id0); [|exact Rn]. destruct (alookup id0 (t2 (dbs (sb S)))); [|exact Rn].
    apply Same. reflexivity.
  - destruct (lock_free S id0); [exact Rn|]. apply Same. reflexivity.
  - destruct D as [_ D]. destruct pool_ok; [now apply Sop|exact Rn].
  - destruct (alookup t (views S)); [|exact Rn]. destruct (w_v1 v && (w_rev v <? nrev)); [|exact Rn]. apply Same. reflexivity.
  - (* the payment is persisted: on a contract its session still holds, which is therefore not renewed *)
    destruct (alookup t (pends S)) as [p|] eqn:Lp; [|exact Rn].
    specialize (D eq_refl p Lp).
    destruct (si_pend meta S SI t p Lp D) as (w & Lw & Hid & Hv1 & _).
    destruct (si_view meta S SI t w Lw) as [_ Hc]. unfold view_cur in Hc. rewrite Hv1, Hid in Hc.
    destruct Hc as (c & Lc & _ & _ & _ & Rt).
    destruct ok; [|apply Same; reflexivity]. rewrite Lc. cbn [fst set_sb sb].
    destruct Rn as (c0 & L0 & R0). exists c0. cbn [dbs set_dbs set_t1 t1]. rewrite alookup_aset.
    destruct (id =? p_id p) eqn:E; [|now split]. apply N.eqb_eq in E; subst id. congruence.
Qed.

Lemma renewed2_sstable S e id d :
  SInv meta S -> sdisc meta true S e -> renewed2 (sb S) id d -> renewed2 (sb (fst (sstep faithful S e))) id d.
Proof.
  intros SI D Rn. pose proof (si_inv meta S SI) as I.
  assert (Same : forall S1, t2 (dbs (sb S1)) = t2 (dbs (sb S)) -> renewed2 (sb S1) id d).
  { intros S1 E. destruct Rn as (c & L & R). exists c. now rewrite E. }
  assert (Sop : forall t o, sop_disc meta S t o -> renewed2 (sb (fst (sop_step S t o))) id d).
  { intros t o [Do _]. unfold sop_step. destruct (step (sb S) o) as [s' ob] eqn:E.
    assert (Rs : renewed2 s' id d).
    { replace s' with (fst (step (sb S) o)) by now rewrite E. now apply (renewed2_stable meta). }
    assert (Hf : forall S1, sb S1 = s' -> renewed2 (sb (forget S1 t (sb S) o)) id d).
    { intros S1 <-. unfold forget. destruct (alookup t (views S1)); [|exact Rs].
      destruct (touchesb (sb S) o (w_id v)); exact Rs. }
    destruct o; try (cbn [fst]; destruct (is_ok ob); [now apply Hf|exact Rs]).
    - destruct (is_ok ob); cbn [fst]; [|exact Rn]. apply Same. reflexivity.
    - destruct (is_ok ob); cbn [fst]; [|exact Rn]. apply Same. reflexivity.
    - exact Rs. }
  destruct e; cbn [sstep faithful v_snap v_store_first].
  - now apply Sop.
  - apply Same. reflexivity.
  - destruct (lock_free S id0); [|exact Rn]. destruct (alookup id0 (t1 (dbs (sb S)))); [|exact Rn].
    destruct (good1 (height (sb S)) c); [|exact Rn]. apply Same. reflexivity.
  - destruct (lock_free S id0); [|exact Rn]. destruct (alookup id0 (t2 (dbs (sb S)))); [|exact Rn].
    apply Same. reflexivity.
  - destruct (lock_free S id0); [exact Rn|]. apply Same. reflexivity.
  - destruct D as [_ D]. destruct pool_ok; [now apply Sop|exact Rn].
  - destruct (alookup t (views S)); [|exact Rn]. destruct (w_v1 v && (w_rev v <? nrev)); [|exact Rn]. apply Same. reflexivity.
  - destruct (alookup t (pends S)) as [p|]; [|exact Rn].
    destruct ok; [|apply Same; reflexivity].
    destruct (alookup (p_id p) (t1 (dbs (sb S)))); apply Same; reflexivity.
Qed.

(* a renewed contract refuses the lock *)
Lemma renewed1_refuses_lock S t id d : SInv meta S -> renewed1 (sb S) id d ->
  sstep faithful S (SAcq1 t id) = (S, SOLock1 (Err EInvalid)) \/ sstep faithful S (SAcq1 t id) = (S, SOBusy).
Proof.
  intros SI (c & L & R). cbn [sstep]. destruct (lock_free S id); [|now right]. rewrite L.
  destruct (proj2 (inv_t1 meta (sb S) (si_inv meta S SI)) id c L) as [H _]. unfold entry_ok in H. rewrite R in H.
  destruct H as (_ & Hm & _). unfold good1. rewrite (Hm eq_refl), N.eqb_refl, andb_false_r. now left.
Qed.

Lemma renewed2_reports S t id d : renewed2 (sb S) id d -> lock_free S id = true ->
  exists S' r l, sstep faithful S (SAcq2 t id) = (S', SO (OLock2 (Ok (r, true, false, l)))).
Proof.
  intros (c & L & R) F. cbn [sstep faithful v_snap]. rewrite F, L, R. cbn [opt_is_some negb andb]. eauto.
Qed.

(* for ever, under every disciplined interleaving of sessions: queueing, revisions, payments decided
   and persisted under the lock, further renewals, restarts *)
Theorem renewed_predecessor_stays : forall evs S id d,
  SInv meta S -> sdisc_run meta true faithful S evs ->
  (renewed1 (sb S) id d -> renewed1 (sb (sruns faithful S evs)) id d) /\
  (renewed2 (sb S) id d -> renewed2 (sb (sruns faithful S evs)) id d).
Proof.
  induction evs as [|e evs IH]; intros S id d SI D; cbn in *; [tauto|].
  destruct D as [D1 D2]. specialize (IH (fst (sstep faithful S e)) id d (sinv_step meta true S e SI D1 eq_refl) D2).
  split; intros Rn; apply IH; [now apply renewed1_sstable|now apply renewed2_sstable].
Qed.

End STop.

(** * Legacy: the orders the seeded changes introduce *)

(* C03-mut7: LockV2Contract copies the cached roots before it waits for the lock *)
Definition snapv : variant := mkvar true false.
Definition fc (r f m : N) : rv2 := mkrv2 r f f m 1000 1100 1 2.
Definition ex_snap : list sop :=
  [ SOp 1 (StoreSec 1); SOp 1 (Form2 7 (fc 0 0 (meta0 [])));
    SAcq2 1 7;                                                   (* session 1 holds contract 7 *)
    SReq 2 7;                                                    (* session 2 queues (and copies the roots: none) *)
    SOp 1 (Revise2 7 (fc 1 sector_size (meta0 [1])) [1] (meta0 [1]) true true None);
    SRel 1 7;
    SAcq2 2 7 ].                                                 (* handed revision 1 with the old list *)

(* C13-mut8: the RHP2 handler calls RenewContract before the pool has validated the set *)
Definition storefirstv : variant := mkvar false true.
Definition ex_storefirst : list sop :=
  [ SOp 1 (Form1 7 1 0 (meta0 []) 1000); SAcq1 1 7 ].
Definition ex_storefirst_renew : sop :=
  SRenewH 1 false (Renew1 7 8 max_rev 0 0 1 0 (meta0 []) 2000 (meta0 []) None).

(* C13-mut7: the payment revision is persisted after its session released the lock, a renewal in between *)
Definition ex_late_pay : list sop :=
  [ SOp 1 (Form1 7 1 0 (meta0 []) 1000);
    SAcq1 1 7; SPayDecide 1 2; SRel 1 7;                          (* signed, lock released *)
    SAcq1 2 7; SRenewH 2 true (Renew1 7 8 max_rev 0 0 1 0 (meta0 []) 2000 (meta0 []) None); SRel 2 7;
    SPayPersist 1 true ].                                         (* the late write *)

Ltac own_solve :=
  try (intros ? [<-|[<-|[]]] ?); try (intros ? [<-|[]] ?); try (intros ? [] ?);
  try reflexivity;
  try match goal with H : _ \/ _ |- _ => destruct H as [H|H]; now elim H end;
  try (eexists; split; [reflexivity|cbn; discriminate]).

Ltac sdisc_solve :=
  cbn [sdisc_run]; repeat (split; [vm_compute; repeat split; try reflexivity; try discriminate;
                                   try (intros; discriminate); own_solve|]);
  try exact I.

Lemma ex_snap_disc : sdisc_run meta0 true snapv sinit ex_snap.
Proof. sdisc_solve. Qed.

(* the waiter is handed revision 1 (file size of one sector, root of [1]) with the list from before *)
Lemma ex_snap_final :
  exists w, alookup 2 (views (sruns snapv sinit ex_snap)) = Some w /\
    w_id w = 7 /\ w_renewed w = false /\ w_rev w = 1 /\ w_roots w = [] /\
    w_fsize w <> sector_size * nlen (w_roots w) /\ w_mroot w <> meta0 (w_roots w) /\
    cache_get (sb (sruns snapv sinit ex_snap)) 7 = [1].
Proof. eexists. vm_compute. repeat split; discriminate. Qed.

Lemma ex_storefirst_disc :
  sdisc_run meta0 true storefirstv sinit (ex_storefirst ++ [ex_storefirst_renew]).
Proof. sdisc_solve. Qed.

(* the renter is told the renewal failed; the predecessor is cleared and renewed to a successor *)
Lemma ex_storefirst_final :
  let S := sruns storefirstv sinit ex_storefirst in
  snd (sstep storefirstv S ex_storefirst_renew) = SO (ORes (Err EInvalid)) /\
  renewed1 (sb (fst (sstep storefirstv S ex_storefirst_renew))) 7 8 /\
  fst (sstep storefirstv S ex_storefirst_renew) <> S /\
  (* the faithful order on the same state: nothing happens *)
  sstep faithful S ex_storefirst_renew = (S, SO (ORes (Err EInvalid))).
Proof.
  cbn zeta. split; [reflexivity|]. split; [eexists; split; vm_compute; reflexivity|].
  split; [|reflexivity]. vm_compute. discriminate.
Qed.

(* every event of the history respects the relaxed discipline (all of [sdisc] except "persist while
   holding the lock"); the strict discipline refuses its last event *)
Lemma ex_late_pay_relaxed : sdisc_run meta0 false faithful sinit ex_late_pay.
Proof. sdisc_solve. Qed.

Lemma ex_late_pay_final :
  let S := sruns faithful sinit ex_late_pay in
  (exists c, alookup 7 (t1 (dbs (sb S))) = Some c /\ rto c = Some 8 /\ rev c = 2 /\ rev c <> max_rev) /\
  (exists S' x, sstep faithful S (SAcq1 3 7) = (S', SOLock1 (Ok x))) /\
  ~ sdisc meta0 true (sruns faithful sinit (removelast ex_late_pay)) (SPayPersist 1 true).
Proof.
  cbn zeta. split; [eexists; vm_compute; repeat split; discriminate|].
  split; [eexists; eexists; vm_compute; reflexivity|].
  intros H. specialize (H eq_refl (mkpend 7 2 0 (meta0 [])) eq_refl). vm_compute in H. discriminate.
Qed.

(** * the statements of the Legacy witnesses *)

(* read-before-lock: a schedule that respects the lock protocol hands a caller a revision together
   with a list that revision does not commit to and the host does not hold *)
Lemma snap_before_lock_refuted : exists evs t w,
  sdisc_run meta0 true snapv sinit evs /\
  alookup t (views (sruns snapv sinit evs)) = Some w /\ w_renewed w = false /\
  w_fsize w <> sector_size * nlen (w_roots w) /\ w_mroot w <> meta0 (w_roots w) /\
  w_roots w <> cache_get (sb (sruns snapv sinit evs)) (w_id w).
Proof.
  exists ex_snap, 2. destruct ex_snap_final as (w & L & Hid & Hr & _ & Hl & Hf & Hm & Hc).
  exists w. repeat split; auto; try apply ex_snap_disc. rewrite Hid, Hc, Hl. discriminate.
Qed.

(* store-before-pool: the renter is told the renewal failed, yet the predecessor is renewed *)
Lemma store_before_pool_refuted : exists evs e id d,
  sdisc_run meta0 true storefirstv sinit (evs ++ [e]) /\
  (exists t o, e = SRenewH t false o) /\
  let S := sruns storefirstv sinit evs in
  snd (sstep storefirstv S e) = SO (ORes (Err EInvalid)) /\
  ~ renewed1 (sb S) id d /\ renewed1 (sb (fst (sstep storefirstv S e))) id d.
Proof.
  exists ex_storefirst, ex_storefirst_renew, 7, 8. split; [apply ex_storefirst_disc|].
  split; [eexists; eexists; reflexivity|]. destruct ex_storefirst_final as (H1 & H2 & _ & _).
  cbn zeta. split; [exact H1|]. split; [|exact H2].
  intros (c & L & R). vm_compute in L. injection L as <-. discriminate R.
Qed.

(* persist-outside-lock: every event respects the discipline except that the payment is persisted
   after its session let go of the lock; the renewed predecessor is back at a revisable revision *)
Lemma payment_outside_lock_refuted : exists evs id d,
  sdisc_run meta0 false faithful sinit evs /\
  let S := sruns faithful sinit evs in
  (exists c, alookup id (t1 (dbs (sb S))) = Some c /\ rto c = Some d /\ rev c <> max_rev) /\
  exists t S' x, sstep faithful S (SAcq1 t id) = (S', SOLock1 (Ok x)).
Proof.
  exists ex_late_pay, 7, 8. split; [apply ex_late_pay_relaxed|].
  destruct ex_late_pay_final as ((c & L & R & _ & Hm) & (S' & x & E) & _). cbn zeta.
  split; [exists c; split; [exact L|split; [exact R|exact Hm]]|]. exists 3, S', x. exact E.
Qed.

(* non-vacuity: the same history on the faithful model is disciplined, and the waiter is handed the new list *)
Lemma ex_snap_faithful :
  sdisc_run meta0 true faithful sinit ex_snap /\
  exists w, alookup 2 (views (sruns faithful sinit ex_snap)) = Some w /\ w_rev w = 1 /\ w_roots w = [1] /\
            w_fsize w = sector_size * nlen (w_roots w).
Proof. split; [sdisc_solve|]. eexists. vm_compute. repeat split. Qed.
