(* Roots/Chain.v — what the chain does to a negotiated RHP4 renewal (WP-N).  No proofs here.

   Model.v hands the predecessor's roots to the successor when the renewal is NEGOTIATED
   (Store.RenewV2Contract moves the contract_v2_sector_roots rows and sets renewed_to inside the RPC).
   Whether the renewal transaction is ever confirmed is decided later, by the chain.  This layer adds
   the contract status as far as the roots depend on it, mirroring /repo at 41b4fa3 (unchanged since ce5ac33):

     persist/sqlite/consensus.go   applyV2ContractFormation (pending -> active), applySuccessfulV2Contracts
                                   with status renewed (the renewal transaction resolves the
                                   predecessor in the block that creates the successor),
                                   RejectContracts / rejectV2Contracts (still unconfirmed past the
                                   reject buffer: pending -> rejected), applySuccessful/FailedV2Contracts
     persist/sqlite/contracts.go   ExpireV2ContractSectors / deleteExpiredV2ContractSectors: DELETE the
                                   root rows of every contract that is rejected or past its expiration
                                   height (run by Manager.ProcessActions at every block); nothing ever
                                   moves rows back to a predecessor or clears renewed_to
     host/contracts/update.go      buildV2StorageProof: the cached roots must hash to the revision's
                                   Merkle root and the chosen sector must be readable
     persist/sqlite/sectors.go     PruneSectors (Model.v's Prune): slots of unreferenced sectors go

   Abstractions: one XConfirm for "the block holding the formation / renewal transaction of id is
   applied"; XProve for "the proof window of id comes": the proof is built or the window is missed
   (the model asks for every cached root to be readable: the leaf the chain picks is arbitrary). *)
From HostdBase Require Import Base.
From HostdRoots Require Import Model.
Open Scope N_scope.

Inductive cstatus := CPending | CActive | CRenewed | CRejected | CSuccessful | CFailed.

Definition cstatus_eqb (a b : cstatus) : bool :=
  match a, b with
  | CPending, CPending | CActive, CActive | CRenewed, CRenewed | CRejected, CRejected
  | CSuccessful, CSuccessful | CFailed, CFailed => true
  | _, _ => false
  end.

Record xstate := mkx { xb : state; xst : list (cid * cstatus) }.
Definition xinit : xstate := {| xb := init; xst := [] |}.

Inductive xop :=
| XOp (o : op)                       (* a manager / store call of Model.v *)
| XConfirm (id : cid)                (* the block with id's formation (or renewal) transaction is applied *)
| XReject (id : cid)                 (* RejectContracts finds id still unconfirmed past the reject buffer *)
| XExpire (h : N)                    (* ExpireV2ContractSectors(h) *)
  (* the proof window of id: [mcache] = rhp2.MetaRoot of the roots the manager serves for id *)
| XProve (id : cid) (mcache : hash)
| XStatus (id : cid).

Inductive xobs :=
| XO (o : obs)
| XOStatus (s : option cstatus).

Definition status (X : xstate) (id : cid) : option cstatus := alookup id (xst X).
Definition set_status (X : xstate) (id : cid) (s : cstatus) : xstate :=
  {| xb := xb X; xst := aset id s (xst X) |}.

Definition is_rejected (st : list (cid * cstatus)) (id : cid) : bool :=
  match alookup id st with Some CRejected => true | _ => false end.

(* DELETE FROM contract_v2_sector_roots WHERE the contract is past its expiration height or rejected;
   the metric follows (incrementNumericStat with -n) *)
Fixpoint expire_rows (st : list (cid * cstatus)) (h : N) (t : list (cid * ct)) : list (cid * ct) * N :=
  match t with
  | [] => ([], 0)
  | (id, c) :: k =>
      let '(k', n) := expire_rows st h k in
      if (expi c <? h) || is_rejected st id
      then ((id, with_rows c []) :: k', n + nlen (rows c))
      else ((id, c) :: k', n)
  end.

Definition all_located (d : db) (l : list root) : bool := forallb (fun r => mem r (located d)) l.

Definition xstep (X : xstate) (e : xop) : xstate * xobs :=
  match e with
  | XOp o =>
      let '(s', ob) := step (xb X) o in
      let st' := match o, ob with
                 | Form2 id _, ORes (Ok _) => aset id CPending (xst X)
                 | Renew2 _ new _ _ _ _, ORes (Ok _) => aset new CPending (xst X)
                 | _, _ => xst X
                 end in
      ({| xb := s'; xst := st' |}, XO ob)
  | XConfirm id =>
      match status X id with
      | Some CPending =>
          let X1 := set_status X id CActive in
          (* a renewal's transaction resolves the predecessor in the same block *)
          match alookup id (t2 (dbs (xb X))) with
          | Some c =>
              match rfrom c with
              | Some p => match status X p with
                          | Some CActive => (set_status X1 p CRenewed, XO (ORes (Ok tt)))
                          | _ => (X1, XO (ORes (Ok tt)))
                          end
              | None => (X1, XO (ORes (Ok tt)))
              end
          | None => (X1, XO (ORes (Ok tt)))
          end
      | _ => (X, XO (ORes (Err EInvalid)))
      end
  | XReject id =>
      match status X id with
      | Some CPending => (set_status X id CRejected, XO (ORes (Ok tt)))
      | _ => (X, XO (ORes (Err EInvalid)))
      end
  | XExpire h =>
      let d := dbs (xb X) in
      let '(t', n) := expire_rows (xst X) h (t2 d) in
      match dec_stat (nsec d) n with
      | Ok ns => ({| xb := set_dbs (xb X) (set_nsec (set_t2 d t') ns); xst := xst X |}, XO (ORes (Ok tt)))
      | Err e => (X, XO (ORes (Err e)))
      | Panic => (X, XO (ORes Panic))
      end
  | XProve id mcache =>
      match status X id, alookup id (t2 (dbs (xb X))) with
      | Some CActive, Some c =>
          let l := cache_get (xb X) id in
          let ok := (fsize c =? 0) || ((mroot c =? mcache) && all_located (dbs (xb X)) l) in
          (set_status X id (if ok then CSuccessful else CFailed), XO (OBool ok))
      | _, _ => (X, XO (ORes (Err EInvalid)))
      end
  | XStatus id => (X, XOStatus (status X id))
  end.

Definition xruns (X : xstate) (ops : list xop) : xstate := fold_left (fun X e => fst (xstep X e)) ops X.

(** * Correspondence entry point *)
Definition xobs_eqb (a b : xobs) : bool :=
  match a, b with
  | XO x, XO y => obs_eqb x y
  | XOStatus x, XOStatus y => option_eqb cstatus_eqb x y
  | _, _ => false
  end.

Definition xcase := (N * list (xop * xobs))%type.
Definition xcheck (cs : list xcase) := mismatches xinit xstep xobs_eqb cs.
