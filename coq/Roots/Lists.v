From HostdBase Require Import Base.
