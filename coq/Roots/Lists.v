(* Roots/Lists.v — library lemmas: lists indexed by N, the sorted root table, association
   lists, the statement-counting monad. *)
From Coq Require Import Lia ZifyBool ZifyN ZifyNat.
From HostdBase Require Import Base.
From HostdRoots Require Import Model.
Open Scope N_scope.

(** * small helpers *)

Lemma nlen_app {A} (l m : list A) : nlen (l ++ m) = nlen l + nlen m.
Proof. unfold nlen; rewrite app_length; lia. Qed.

Lemma nlen_cons {A} (x : A) l : nlen (x :: l) = nlen l + 1.
Proof. unfold nlen; cbn [length]; lia. Qed.

Lemma nlen_nil {A} : nlen (@nil A) = 0.
Proof. reflexivity. Qed.

Lemma mem_true x l : mem x l = true <-> In x l.
Proof.
  unfold mem; rewrite existsb_exists; split.
  - intros (y & Hy & E); apply N.eqb_eq in E; now subst.
  - intros H; exists x; split; [exact H|apply N.eqb_refl].
Qed.

Lemma list_eqb_refl (l : list N) : list_eqb N.eqb l l = true.
Proof. induction l; cbn; [reflexivity|now rewrite N.eqb_refl]. Qed.

Lemma list_eqb_eq (l m : list N) : list_eqb N.eqb l m = true -> l = m.
Proof.
  revert m; induction l as [|x l IH]; intros [|y m]; cbn; try discriminate; [reflexivity|].
  intros H; apply andb_true_iff in H as [E H]; apply N.eqb_eq in E; subst; f_equal; auto.
Qed.

(** * set_nth / nth *)

Lemma length_set_nth i r l : length (set_nth i r l) = length l.
Proof. revert i; induction l as [|x l IH]; intros [|i]; cbn; auto. Qed.

Lemma nth_set_nth_same i r l d : (i < length l)%nat -> nth i (set_nth i r l) d = r.
Proof. revert i; induction l as [|x l IH]; intros [|i] H; cbn in *; try lia; auto; try (apply IH; lia). Qed.

Lemma nth_set_nth_other i j r l d : i <> j -> nth j (set_nth i r l) d = nth j l d.
Proof.
  revert i j; induction l as [|x l IH]; intros [|i] [|j] H; cbn; auto; try congruence; try (apply IH; congruence).
Qed.

Lemma set_nth_nth i l d : set_nth i (nth i l d) l = l.
Proof. revert i; induction l as [|x l IH]; intros [|i]; cbn; auto; try (now rewrite IH). Qed.

Lemma set_nth_app_l i r l m : (i < length l)%nat -> set_nth i r (l ++ m) = set_nth i r l ++ m.
Proof. revert i; induction l as [|x l IH]; intros [|i] H; cbn in *; try lia; auto; try (rewrite IH; auto; lia). Qed.

Lemma swap_roots_same l a : swap_roots l a a = l.
Proof.
  unfold swap_roots, set_root, nth_root.
  apply nth_ext with (d := 0) (d' := 0); [now rewrite !length_set_nth|].
  intros n Hn; rewrite !length_set_nth in Hn.
  destruct (Nat.eq_dec (N.to_nat a) n) as [E|E].
  - subst n; rewrite nth_set_nth_same; [reflexivity|now rewrite length_set_nth].
  - rewrite !nth_set_nth_other by exact E; reflexivity.
Qed.

Lemma swap_roots_comm l a b : a < nlen l -> b < nlen l -> swap_roots l a b = swap_roots l b a.
Proof.
  unfold swap_roots, set_root, nth_root, nlen; intros Ha Hb.
  apply nth_ext with (d := 0) (d' := 0); [now rewrite !length_set_nth|].
  intros n Hn; rewrite !length_set_nth in Hn.
  destruct (Nat.eq_dec (N.to_nat a) (N.to_nat b)) as [Eab|Eab].
  { rewrite Eab; reflexivity. }
  destruct (Nat.eq_dec (N.to_nat b) n) as [E|E]; [subst n|].
  - rewrite nth_set_nth_same by (rewrite length_set_nth; lia).
    rewrite nth_set_nth_other by (intro; apply Eab; congruence).
    rewrite nth_set_nth_same by lia; reflexivity.
  - rewrite (nth_set_nth_other (N.to_nat b) n) by exact E.
    destruct (Nat.eq_dec (N.to_nat a) n) as [E2|E2]; [subst n|].
    + rewrite nth_set_nth_same by lia.
      rewrite nth_set_nth_same by (rewrite length_set_nth; lia); reflexivity.
    + rewrite !nth_set_nth_other by assumption; reflexivity.
Qed.

(** * the root table *)

Lemma tbl_list_from i l : tbl_list (tbl_from i l) = l.
Proof. revert i; induction l as [|r l IH]; intros i; cbn; [reflexivity|now rewrite IH]. Qed.

Lemma tbl_list_of l : tbl_list (tbl_of l) = l.
Proof. apply tbl_list_from. Qed.

Lemma tbl_of_inj l m : tbl_of l = tbl_of m -> l = m.
Proof. intros H; rewrite <- (tbl_list_of l), <- (tbl_list_of m); now rewrite H. Qed.

Lemma tbl_from_app i l m : tbl_from i (l ++ m) = tbl_from i l ++ tbl_from (i + nlen l) m.
Proof.
  revert i; induction l as [|r l IH]; intros i; cbn [app tbl_from].
  - rewrite nlen_nil, N.add_0_r; reflexivity.
  - rewrite IH, nlen_cons. replace (i + (nlen l + 1)) with (i + 1 + nlen l) by lia. reflexivity.
Qed.

Lemma tget_from_lt j i l : j < i -> tget j (tbl_from i l) = None.
Proof.
  revert i; induction l as [|r l IH]; intros i H; cbn; [reflexivity|].
  destruct (j =? i) eqn:E; [lia|apply IH; lia].
Qed.

Lemma tget_from i l k : (k < length l)%nat ->
  tget (i + N.of_nat k) (tbl_from i l) = Some (nth k l 0).
Proof.
  revert i k; induction l as [|r l IH]; intros i k H; cbn in *; [lia|].
  destruct k as [|k]; cbn.
  - replace (i + 0 =? i) with true by lia; reflexivity.
  - destruct (i + N.pos (Pos.of_succ_nat k) =? i) eqn:E; [lia|].
    replace (i + N.pos (Pos.of_succ_nat k)) with (i + 1 + N.of_nat k) by lia.
    apply IH; lia.
Qed.

Lemma tget_from_ge i l j : i + nlen l <= j -> tget j (tbl_from i l) = None.
Proof.
  revert i; induction l as [|r l IH]; intros i H; cbn; [reflexivity|].
  rewrite nlen_cons in H.
  destruct (j =? i) eqn:E; [lia|apply IH; lia].
Qed.

Lemma tget_of l j : j < nlen l -> tget j (tbl_of l) = Some (nth_root l j).
Proof.
  intros H; unfold tbl_of, nth_root.
  replace j with (0 + N.of_nat (N.to_nat j)) at 1 by lia.
  apply tget_from; unfold nlen in H; lia.
Qed.

Lemma tget_of_ge l j : nlen l <= j -> tget j (tbl_of l) = None.
Proof. intros H; apply tget_from_ge; lia. Qed.

Lemma tins_from_end i l r : tins (i + nlen l) r (tbl_from i l) = Some (tbl_from i (l ++ [r])).
Proof.
  revert i; induction l as [|x l IH]; intros i.
  - cbn; rewrite N.add_0_r; reflexivity.
  - cbn [tbl_from app tins]; rewrite nlen_cons.
    destruct (i + (nlen l + 1) <? i) eqn:E1; [lia|].
    destruct (i + (nlen l + 1) =? i) eqn:E2; [lia|].
    replace (i + (nlen l + 1)) with (i + 1 + nlen l) by lia.
    rewrite IH; reflexivity.
Qed.

Lemma tins_of_end l r : tins (nlen l) r (tbl_of l) = Some (tbl_of (l ++ [r])).
Proof. exact (tins_from_end 0 l r). Qed.

Lemma tins_from_dup i l k r : (k < length l)%nat -> tins (i + N.of_nat k) r (tbl_from i l) = None.
Proof.
  revert i k; induction l as [|x l IH]; intros i k H; cbn in *; [lia|].
  destruct k as [|k].
  - replace (i + N.of_nat 0 <? i) with false by lia.
    replace (i + N.of_nat 0 =? i) with true by lia; reflexivity.
  - destruct (i + N.of_nat (S k) <? i) eqn:E1; [lia|].
    destruct (i + N.of_nat (S k) =? i) eqn:E2; [lia|].
    replace (i + N.of_nat (S k)) with (i + 1 + N.of_nat k) by lia.
    rewrite IH by lia; reflexivity.
Qed.

Lemma tset_from i l k r : (k < length l)%nat ->
  tset (i + N.of_nat k) r (tbl_from i l) = tbl_from i (set_nth k r l).
Proof.
  revert i k; induction l as [|x l IH]; intros i k H; cbn in *; [lia|].
  destruct k as [|k]; cbn.
  - replace (i + 0 =? i) with true by lia; reflexivity.
  - destruct (i + N.pos (Pos.of_succ_nat k) =? i) eqn:E; [lia|].
    replace (i + N.pos (Pos.of_succ_nat k)) with (i + 1 + N.of_nat k) by lia.
    rewrite IH by lia; reflexivity.
Qed.

Lemma tset_of l j r : j < nlen l -> tset j r (tbl_of l) = tbl_of (set_root l j r).
Proof.
  intros H; unfold tbl_of, set_root.
  replace j with (0 + N.of_nat (N.to_nat j)) at 1 by lia.
  apply tset_from; unfold nlen in H; lia.
Qed.

Lemma tupsert_of_lt l j r : j < nlen l -> tupsert j r (tbl_of l) = tbl_of (set_root l j r).
Proof.
  intros H; unfold tupsert, tbl_of.
  replace j with (0 + N.of_nat (N.to_nat j)) at 1 by lia.
  rewrite tins_from_dup by (unfold nlen in H; lia).
  replace (0 + N.of_nat (N.to_nat j)) with j by lia.
  now apply tset_of.
Qed.

Lemma tupsert_of_end l r : tupsert (nlen l) r (tbl_of l) = tbl_of (l ++ [r]).
Proof. unfold tupsert; now rewrite tins_of_end. Qed.

Lemma tpop_from_snoc i l r : tpop (tbl_from i (l ++ [r])) = Some (tbl_from i l, r).
Proof.
  revert i; induction l as [|x l IH]; intros i; [reflexivity|].
  cbn [app tbl_from]; specialize (IH (i + 1)).
  cbn [tpop]; rewrite IH.
  destruct (tbl_from (i + 1) (l ++ [r])) eqn:E; [|reflexivity].
  destruct l; discriminate.
Qed.

Lemma tpop_nil : tpop [] = None.
Proof. reflexivity. Qed.

Lemma firstn_snoc_skipn {A} (l : list A) n d : (S n <= length l)%nat ->
  firstn (S n) l = firstn n l ++ [nth n l d].
Proof.
  revert n; induction l as [|x l IH]; intros n H; cbn in *; [lia|].
  destruct n as [|n]; cbn; [reflexivity|]. rewrite <- IH by lia; reflexivity.
Qed.

Lemma trim_rows_from i l n acc : (n <= length l)%nat ->
  trim_rows n (tbl_from i l) acc =
  Ok (tbl_from i (firstn (length l - n) l), skipn (length l - n) l ++ acc).
Proof.
  revert l acc; induction n as [|n IH]; intros l acc H.
  - cbn; rewrite Nat.sub_0_r, firstn_all, skipn_all; reflexivity.
  - cbn [trim_rows].
    destruct (@exists_last _ l) as (l' & r & ->); [intro; subst; cbn in H; lia|].
    rewrite tpop_from_snoc.
    rewrite app_length in *; cbn [length] in *.
    rewrite IH by lia.
    replace (length l' + 1 - S n)%nat with (length l' - n)%nat by lia.
    rewrite firstn_app, skipn_app.
    replace (length l' - n - length l')%nat with 0%nat by lia.
    cbn [firstn skipn]; rewrite app_nil_r, <- app_assoc; reflexivity.
Qed.

Lemma trim_sectors_of l n : n <= nlen l ->
  trim_sectors (tbl_of l) n = Ok (tbl_of (trim_roots l n), skipn (length l - N.to_nat n) l).
Proof.
  intros H; unfold trim_sectors, tbl_of, trim_roots.
  rewrite trim_rows_from by (unfold nlen in H; lia).
  now rewrite app_nil_r.
Qed.

Lemma tcut_from_all i l n : i + nlen l <= n -> tcut n (tbl_from i l) = tbl_from i l.
Proof.
  revert i; induction l as [|x l IH]; intros i H; cbn; [reflexivity|].
  rewrite nlen_cons in H.
  replace (i <? n) with true by lia. unfold tcut in IH; rewrite IH by lia; reflexivity.
Qed.

Lemma tcut_from_none i l n : n <= i -> tcut n (tbl_from i l) = [].
Proof.
  revert i; induction l as [|x l IH]; intros i H; cbn; [reflexivity|].
  replace (i <? n) with false by lia. apply IH; lia.
Qed.

Lemma tcut_of_app l m : tcut (nlen l) (tbl_of (l ++ m)) = tbl_of l.
Proof.
  unfold tbl_of; rewrite tbl_from_app.
  unfold tcut; rewrite filter_app.
  fold (tcut (nlen l) (tbl_from 0 l)); fold (tcut (nlen l) (tbl_from (0 + nlen l) m)).
  rewrite tcut_from_all by lia. rewrite tcut_from_none by lia. apply app_nil_r.
Qed.

(** * association lists *)

Lemma alookup_aset_same V k (v : V) l : alookup k (aset k v l) = Some v.
Proof.
  induction l as [|[k' v'] t IH]; cbn; [now rewrite N.eqb_refl|].
  destruct (k =? k') eqn:E; cbn; [now rewrite N.eqb_refl|now rewrite E].
Qed.

Lemma alookup_aset_other V k k' (v : V) l : k <> k' -> alookup k (aset k' v l) = alookup k l.
Proof.
  intros Hne; induction l as [|[k2 v2] t IH]; cbn.
  - destruct (k =? k') eqn:E; [apply N.eqb_eq in E; contradiction|reflexivity].
  - destruct (k' =? k2) eqn:E2; cbn.
    + apply N.eqb_eq in E2; subst k2.
      destruct (k =? k') eqn:E; [apply N.eqb_eq in E; contradiction|reflexivity].
    + destruct (k =? k2); [reflexivity|exact IH].
Qed.

Lemma alookup_aset V k k' (v : V) l :
  alookup k (aset k' v l) = if k =? k' then Some v else alookup k l.
Proof.
  destruct (k =? k') eqn:E.
  - apply N.eqb_eq in E; subst; apply alookup_aset_same.
  - apply alookup_aset_other; intro; subst; now rewrite N.eqb_refl in E.
Qed.

Lemma alookup_aremove_same V k (l : list (N * V)) :
  NoDup (map fst l) -> alookup k (aremove k l) = None.
Proof.
  induction l as [|[k' v'] t IH]; cbn; [reflexivity|]; intros ND.
  inversion ND as [|? ? Hn ND']; subst.
  destruct (k =? k') eqn:E.
  - apply N.eqb_eq in E; subst k'.
    clear IH ND ND'. induction t as [|[k2 v2] t IH]; cbn; [reflexivity|].
    destruct (k =? k2) eqn:E2.
    + apply N.eqb_eq in E2; subst; exfalso; apply Hn; now left.
    + apply IH; intro; apply Hn; now right.
  - cbn; rewrite E; now apply IH.
Qed.

Lemma alookup_aremove_other V k k' (l : list (N * V)) :
  k <> k' -> alookup k (aremove k' l) = alookup k l.
Proof.
  intros Hne; induction l as [|[k2 v2] t IH]; cbn; [reflexivity|].
  destruct (k' =? k2) eqn:E2.
  - apply N.eqb_eq in E2; subst k2.
    destruct (k =? k') eqn:E; [apply N.eqb_eq in E; contradiction|reflexivity].
  - cbn; destruct (k =? k2); [reflexivity|exact IH].
Qed.

Lemma alookup_In V k (v : V) l : alookup k l = Some v -> In (k, v) l.
Proof.
  induction l as [|[k' v'] t IH]; cbn; [discriminate|].
  destruct (k =? k') eqn:E.
  - apply N.eqb_eq in E; subst; intros [= ->]; now left.
  - intros H; right; auto.
Qed.

Lemma alookup_None_notin V k (l : list (N * V)) : alookup k l = None -> ~ In k (map fst l).
Proof.
  induction l as [|[k' v'] t IH]; cbn; [tauto|].
  destruct (k =? k') eqn:E; [discriminate|].
  intros H [H1|H1]; [subst; now rewrite N.eqb_refl in E|now apply IH].
Qed.

Lemma In_alookup V k (v : V) l : NoDup (map fst l) -> In (k, v) l -> alookup k l = Some v.
Proof.
  induction l as [|[k' v'] t IH]; cbn; [tauto|]; intros ND [H|H].
  - injection H as -> ->; now rewrite N.eqb_refl.
  - inversion ND as [|? ? Hn ND']; subst.
    destruct (k =? k') eqn:E.
    + apply N.eqb_eq in E; subst; exfalso; apply Hn.
      change k' with (fst (k', v)); now apply in_map.
    + now apply IH.
Qed.

Lemma map_fst_aset V k (v : V) l :
  map fst (aset k v l) = match alookup k l with Some _ => map fst l | None => map fst l ++ [k] end.
Proof.
  induction l as [|[k' v'] t IH]; cbn; [reflexivity|].
  destruct (k =? k') eqn:E; cbn.
  - apply N.eqb_eq in E; now subst.
  - rewrite IH; destruct (alookup k t); reflexivity.
Qed.

Lemma NoDup_app_snoc {A} (l : list A) k : NoDup l -> ~ In k l -> NoDup (l ++ [k]).
Proof.
  induction l as [|x l IH]; cbn; intros ND Hn.
  - constructor; [tauto|constructor].
  - inversion ND as [|? ? Hx ND']; subst. constructor.
    + rewrite in_app_iff; cbn; intros [H|[H|[]]]; [tauto|subst; tauto].
    + apply IH; tauto.
Qed.

Lemma NoDup_aset V k (v : V) l : NoDup (map fst l) -> NoDup (map fst (aset k v l)).
Proof.
  intros ND; rewrite map_fst_aset.
  destruct (alookup k l) eqn:E; [exact ND|].
  apply alookup_None_notin in E.
  apply NoDup_app_snoc; assumption.
Qed.

Lemma alookup_cdel V k x (l : list (N * V)) :
  alookup x (cdel k l) = if x =? k then None else alookup x l.
Proof.
  unfold cdel. induction l as [|[k' v] t IH]; cbn [filter alookup fst]; [now destruct (x =? k)|].
  destruct (k' =? k) eqn:E; cbn [negb].
  - rewrite IH. destruct (x =? k) eqn:Ex; [reflexivity|].
    replace (x =? k') with false by lia. reflexivity.
  - cbn [alookup]. destruct (x =? k') eqn:Ex'; [|exact IH].
    replace (x =? k) with false by lia. reflexivity.
Qed.

(** * the statement-counting monad *)

(* [fok m]: without a fault the counter stays [None]; with a fault the computation either
   fails with the injected error or behaves exactly as without one. *)
Definition fok {A} (m : M A) : Prop :=
  (forall a k', m None = Ok (a, k') -> k' = None) /\
  (forall k, match m (Some k) with
             | Ok (a, _) => m None = Ok (a, None)
             | Err e => e = EOther \/ m None = Err e
             | Panic => m None = Panic
             end).

Lemma fok_ret A (a : A) : fok (ret a).
Proof. split; [now intros ? ? [= <- <-]|intros k; reflexivity]. Qed.

Lemma fok_lift A (r : res A) : fok (lift r).
Proof.
  split; [destruct r; cbn; now intros ? ? [= <- <-] || discriminate|].
  intros k; destruct r; cbn; auto.
Qed.

Lemma fok_stmt : fok stmt.
Proof.
  split; [now intros ? ? [= <- <-]|].
  intros [|k]; cbn; [now left|reflexivity].
Qed.

Lemma fok_bind A B (m : M A) (f : A -> M B) : fok m -> (forall a, fok (f a)) -> fok (mbind m f).
Proof.
  intros [Hm1 Hm2] Hf; split.
  - intros b k'; unfold mbind.
    remember (m None) as r eqn:E; symmetry in E.
    destruct r as [[a k1]| |]; try discriminate.
    rewrite (Hm1 _ _ eq_refl); apply (proj1 (Hf a)).
  - intros k; unfold mbind; specialize (Hm2 k).
    remember (m (Some k)) as r eqn:E; symmetry in E.
    destruct r as [[a k1]|e|].
    + rewrite Hm2. destruct k1 as [k1|].
      * apply (proj2 (Hf a) k1).
      * remember (f a None) as r2 eqn:E2; symmetry in E2.
        destruct r2 as [[b k2]|e|]; auto.
        pose proof (proj1 (Hf a) b k2) as Hk. rewrite E2 in Hk. now rewrite (Hk eq_refl).
    + destruct Hm2 as [-> | ->]; auto.
    + now rewrite Hm2.
Qed.

Lemma fok_if A (b : bool) (m1 m2 : M A) : fok m1 -> fok m2 -> fok (if b then m1 else m2).
Proof. now destruct b. Qed.

Lemma fok_transaction A (m : M A) : fok m -> fok (transaction m).
Proof.
  intros H; unfold transaction.
  apply fok_bind; [apply fok_stmt|intros _].
  apply fok_bind; [exact H|intros a].
  apply fok_bind; [apply fok_stmt|intros _; apply fok_ret].
Qed.

(* running without faults: the plain value *)
Definition pure_of {A} (m : M A) : res A :=
  match m None with Ok (a, _) => Ok a | Err e => Err e | Panic => Panic end.

Lemma bind_None A B (m : M A) (f : A -> M B) a :
  m None = Ok (a, None) -> mbind m f None = f a None.
Proof. intros H; unfold mbind; now rewrite H. Qed.

Lemma stmt_None : stmt None = Ok (tt, None).
Proof. reflexivity. Qed.
