(* Roots/Model.v — the sector-root lists of contracts (properties C03 and C13).

   Mirrors, as they are in /repo at 41b4fa3 (the mirrored functions are unchanged since 13cd476; it contains fixes/C03-updater-stale-oldroots.patch
   as 5090bdc — the model's Commit1 rebases u_old — and fixes/C13-rhp2-session-stale-after-renew.patch
   as ba53b85, which is what makes the RHP2 handler honour the callers' discipline of ProofsInv.v):
     host/contracts/contracts.go   ContractUpdater: AppendSector, SwapSectors, TrimSectors,
                                   UpdateSector, Commit, Close
     host/contracts/manager.go     sectorRoots cache (get/setSectorRoots), AddContract,
                                   RenewContract, ReviseV2Contract, AddV2Contract, RenewV2Contract,
                                   SectorRoots, ReviseContract, isGoodForModification, NewManager
     host/contracts/lock.go        Manager.Lock / Unlock / LockV2Contract (wrappers only; the
                                   locker itself is property C15)
     persist/sqlite/contracts.go   ReviseContract (replay of SectorActions: appendSector,
                                   updateSector, swapSectors, trimSectors and the old-root cross
                                   checks), ReviseV2Contract / updateV2ContractSectors,
                                   RenewContract / clearContract, RenewV2Contract /
                                   updateResolvedV2Contract, AddContract, AddV2Contract,
                                   SectorRoots, V2SectorRoots, Contract, V2Contract
     persist/sqlite/sectors.go     StoreSector / PruneSectors / SectorLocation as far as
                                   "a root is stored" and "a root has a volume slot" go
     persist/sqlite/metrics.go     incrementNumericStat for metricContractSectors only (its
                                   "negative stat value" panic is reachable from the replay code)
   WP-Y: contains /repo 7f58b1d (fixes/C03-v2-rejected-contract-not-revisable.patch): Manager.ReviseV2Contract and
   RenewV2Contract refuse a contract whose status is rejected, LockV2Contract reports it not revisable.  The
   status enters as [rejd] (the ids RejectContracts has marked, op [Reject]); of isGoodForModification's status
   clause (v1) this layer has nothing — Hand.v has it.
   No proofs here.  The callers of these calls as sessions that take the contract lock: Sess.v; what the
   chain does to a negotiated renewal: Chain.v (WP-N).

   WP-G: the model contains fixes/C06-revise-guard-at-commit.patch — Manager.revisable (Store.Contract, then
   isGoodForModification at the CURRENT tip) is evaluated by ReviseContract ([Open1]), by
   ContractUpdater.Commit ([Commit1]) and by RenewContract ([Renew1], on the existing contract), not only by
   Manager.Lock ([Lock1]).  The code before the patch (guard at lock acquisition only) is [legacy_step].

   Conventions
   - roots, contract ids and hashes are numbered by the harness (injectively); hash id 0 is
     the all-zero types.Hash256.
   - errors: ENotFound = contracts.ErrNotFound; EInvalid = refused by a check of the
     manager / updater (errors.New in manager.go, contracts.go, lock.go);
     EOther = the store call failed (SQL error, constraint violation, missing stored sector,
     inconsistent cross check, injected fault); EInsufficient = the contract lock was not
     acquired before the caller's deadline (contract busy).
   - contract_sector_roots / contract_v2_sector_roots for one contract are a finite map
     root_index -> root (UNIQUE(contract_id, root_index)); the model keeps it as an
     association list sorted by root_index, so "ORDER BY root_index" is [map snd].
   - every store method runs in one Store.transaction; statements are counted by [stmt] so
     that a failure can be injected at any of them ([fault : option nat] = index of the
     failing statement, [None] = no failure). *)
From HostdBase Require Import Base.
Open Scope N_scope.

Definition root := N.
Definition cid := N.
Definition hash := N.

Definition sector_size : N := 4194304.      (* rhp2.SectorSize *)
Definition max_rev : N := max64.            (* types.MaxRevisionNumber = math.MaxUint64 *)
Definition rev_buffer : N := 144.           (* Manager.revisionSubmissionBuffer *)

Definition nlen {A} (l : list A) : N := N.of_nat (length l).
Definition mem (x : N) (l : list N) : bool := existsb (N.eqb x) l.

(** * ContractUpdater (host/contracts/contracts.go:340-395) *)

Inductive action :=
| Append (r : root)
| Swap (a b : N)
| Trim (n : N)
| Update (r : root) (i : N).

(* list access with N indices; every caller checks the bound first *)
Definition nth_root (l : list root) (i : N) : root := nth (N.to_nat i) l 0.
Fixpoint set_nth (i : nat) (r : root) (l : list root) : list root :=
  match l, i with
  | [], _ => []
  | _ :: t, O => r :: t
  | x :: t, S j => x :: set_nth j r t
  end.
Definition set_root (l : list root) (i : N) (r : root) : list root := set_nth (N.to_nat i) r l.
Definition swap_roots (l : list root) (a b : N) : list root :=
  set_root (set_root l a (nth_root l b)) b (nth_root l a).
Definition trim_roots (l : list root) (n : N) : list root := firstn (length l - N.to_nat n) l.

(* what an accepted modification means for the list *)
Definition spec_apply (l : list root) (a : action) : list root :=
  match a with
  | Append r => l ++ [r]
  | Swap a b => swap_roots l a b
  | Trim n => trim_roots l n
  | Update r i => set_root l i r
  end.

(* the bounds checks of SwapSectors / TrimSectors / UpdateSector (AppendSector has none) *)
Definition upd_check (l : list root) (a : action) : bool :=
  match a with
  | Append _ => true
  | Swap a b => (a <? nlen l) && (b <? nlen l)
  | Trim n => n <=? nlen l
  | Update _ i => i <? nlen l
  end.

Definition upd_apply (l : list root) (a : action) : res (list root) :=
  if upd_check l a then Ok (spec_apply l a) else Err EInvalid.

Fixpoint fold_upd (l : list root) (acts : list action) : res (list root) :=
  match acts with
  | [] => Ok l
  | a :: t => do l' <- upd_apply l a; fold_upd l' t
  end.

(** * Statement counting and fault injection *)

Definition M (A : Type) := option nat -> res (A * option nat).
Definition ret {A} (a : A) : M A := fun k => Ok (a, k).
Definition mbind {A B} (m : M A) (f : A -> M B) : M B :=
  fun k => match m k with Ok (a, k') => f a k' | Err e => Err e | Panic => Panic end.
Definition lift {A} (r : res A) : M A :=
  fun k => match r with Ok a => Ok (a, k) | Err e => Err e | Panic => Panic end.
(* one SQL statement reaches the database: it fails if it is the chosen one *)
Definition stmt : M unit :=
  fun k => match k with
           | None => Ok (tt, None)
           | Some O => Err EOther
           | Some (S n) => Ok (tt, Some n)
           end.
Notation "'mdo' x <- m ; k" := (mbind m (fun x => k)) (at level 200, x pattern, m at level 100, k at level 200).

(** * The root table of one contract *)

Definition tbl := list (N * root).          (* sorted by root_index *)

Fixpoint tbl_from (i : N) (l : list root) : tbl :=
  match l with [] => [] | r :: t => (i, r) :: tbl_from (i + 1) t end.
Definition tbl_of (l : list root) : tbl := tbl_from 0 l.
(* SELECT ... ORDER BY root_index *)
Definition tbl_list (t : tbl) : list root := map snd t.

(* INSERT (contract_id, sector_id, root_index); None = UNIQUE constraint failed *)
Fixpoint tins (i : N) (r : root) (t : tbl) : option tbl :=
  match t with
  | [] => Some [(i, r)]
  | (j, x) :: k =>
      if i <? j then Some ((i, r) :: t)
      else if i =? j then None
      else match tins i r k with Some k' => Some ((j, x) :: k') | None => None end
  end.
Definition tget (i : N) (t : tbl) : option root := alookup i t.
(* UPDATE ... SET sector_id WHERE the row of index i *)
Fixpoint tset (i : N) (r : root) (t : tbl) : tbl :=
  match t with
  | [] => []
  | (j, x) :: k => if i =? j then (j, r) :: k else (j, x) :: tset i r k
  end.
(* INSERT ... ON CONFLICT (contract_id, root_index) DO UPDATE *)
Definition tupsert (i : N) (r : root) (t : tbl) : tbl :=
  match tins i r t with Some t' => t' | None => tset i r t end.
(* SELECT ... ORDER BY root_index DESC LIMIT 1; DELETE that row *)
Fixpoint tpop (t : tbl) : option (tbl * root) :=
  match t with
  | [] => None
  | [(_, r)] => Some ([], r)
  | x :: k => match tpop k with Some (k', r) => Some (x :: k', r) | None => None end
  end.
(* DELETE ... WHERE root_index >= n *)
Definition tcut (n : N) (t : tbl) : tbl := filter (fun p => fst p <? n) t.

(** ** persist/sqlite/contracts.go:589-726 *)

(* appendSector: INSERT ... SELECT id FROM stored_sectors WHERE sector_root=? RETURNING —
   no stored sector gives sql.ErrNoRows *)
Definition append_sector (stored : list root) (t : tbl) (r : root) (idx : N) : res tbl :=
  if negb (mem r stored) then Err EOther
  else match tins idx r t with Some t' => Ok t' | None => Err EOther end.

(* updateSector: returns the old root *)
Definition update_sector (stored : list root) (t : tbl) (r : root) (idx : N) : res (tbl * root) :=
  match tget idx t with
  | None => Err EOther
  | Some old => if negb (mem r stored) then Err EOther else Ok (tset idx r t, old)
  end.

(* swapSectors: i = j returns (nil, nil) before touching the table *)
Definition swap_sectors (t : tbl) (i j : N) : res (tbl * option (root * root)) :=
  if i =? j then Ok (t, None)
  else match tget i t, tget j t with
       | Some x, Some y => Ok (tset j x (tset i y t), Some (x, y))
       | _, _ => Err EOther           (* "failed to find both sectors" *)
       end.

(* trimSectors: n times delete the row with the largest index; roots in list order *)
Fixpoint trim_rows (n : nat) (t : tbl) (acc : list root) : res (tbl * list root) :=
  match n with
  | O => Ok (t, acc)
  | S m => match tpop t with
           | None => Err EOther
           | Some (t', r) => trim_rows m t' (r :: acc)
           end
  end.
Definition trim_sectors (t : tbl) (n : N) : res (tbl * list root) := trim_rows (N.to_nat n) t [].

(* incrementNumericStat(metricContractSectors, -n): a zero delta returns at once; a value that
   would go negative is a panic ("negative stat value") *)
Definition dec_stat (cur n : N) : res N :=
  if n =? 0 then Ok cur else if cur <? n then Panic else Ok (cur - n).

(** ** Store.ReviseContract, the loop over sectorChanges (contracts.go:373-425).
   [roots] is the caller's copy of the list before the changes (the updater's oldRoots);
   the Go variable [sectors] is [nlen roots] throughout. *)
Fixpoint store_replay (stored : list root) (t : tbl) (roots : list root) (ns : N)
         (acts : list action) : M (tbl * N) :=
  match acts with
  | [] => ret (t, ns)
  | a :: rest =>
      mdo _ <- stmt;
      match a with
      | Append r =>
          mdo t' <- lift (append_sector stored t r (nlen roots));
          store_replay stored t' (roots ++ [r]) (ns + 1) rest           (* appendSector: metric +1 *)
      | Trim n =>
          if nlen roots <? n then lift (Err EOther)
          else
            mdo tr <- lift (trim_sectors t n);
            let '(t', trimmed) := tr in
            mdo ns' <- lift (dec_stat ns n);                             (* trimSectors: metric -n *)
            if list_eqb N.eqb trimmed (skipn (length roots - N.to_nat n) roots)
            then store_replay stored t' (trim_roots roots n) ns' rest
            else lift (Err EOther)                 (* "inconsistent sector trim" *)
      | Update r i =>
          mdo ur <- lift (update_sector stored t r i);
          let '(t', old) := ur in
          if nlen roots <=? i then lift Panic      (* roots[change.A]: index out of range *)
          else if negb (nth_root roots i =? old) then lift (Err EOther)
          else store_replay stored t' (set_root roots i r) ns rest
      | Swap a0 b0 =>
          let a := if b0 <? a0 then b0 else a0 in
          let b := if b0 <? a0 then a0 else b0 in
          mdo sr <- lift (swap_sectors t a b);
          let '(t', sw) := sr in
          if (nlen roots <=? a) || (nlen roots <=? b) then lift Panic   (* roots[change.A], roots[change.B] *)
          else
            let oa := nth_root roots a in
            let ob := nth_root roots b in
            let okc := match sw with
                       | None => true
                       | Some (x, y) => ((x =? oa) || (x =? ob)) && ((y =? oa) || (y =? ob))
                       end in
            if okc then store_replay stored t' (swap_roots roots a b) ns rest
            else lift (Err EOther)                 (* "inconsistent sector swap" *)
      end
  end.

(** ** updateV2ContractSectors (contracts.go:1208-1246) *)
Fixpoint v2_upserts (stored : list root) (t : tbl) (i : N) (old new : list root) : M tbl :=
  match new with
  | [] => ret t
  | r :: new' =>
      (* i < len(oldRoots) && oldRoots[i] == root *)
      let same := match old with o :: _ => o =? r | [] => false end in
      if same then v2_upserts stored t (i + 1) (tl old) new'
      else
        mdo _ <- stmt;                                   (* SELECT id FROM stored_sectors *)
        if negb (mem r stored) then lift (Err EOther)
        else mdo _ <- stmt;                              (* INSERT ... ON CONFLICT DO UPDATE *)
             v2_upserts stored (tupsert i r t) (i + 1) (tl old) new'
  end.

Definition v2_diff (stored : list root) (t : tbl) (old new : list root) (ns : N) : M (tbl * N) :=
  mdo _ <- stmt;                                         (* prepare *)
  mdo t' <- v2_upserts stored t 0 old new;
  mdo t'' <- (if nlen new <? nlen old then mdo _ <- stmt; ret (tcut (nlen new) t') else ret t');
  mdo _ <- stmt;                                         (* contract sector metric: delta = len(new) - len(old) *)
  mdo ns' <- lift (if nlen new <? nlen old then dec_stat ns (nlen old - nlen new)
                   else Ok (ns + (nlen new - nlen old)));
  ret (t'', ns').

(** * Contracts and the database *)

(* one row of contracts / contracts_v2 as far as these properties observe it.  v1 uses
   [wstart] for Revision.WindowStart; v2 uses [wstart] for ProofHeight, [expi] for
   ExpirationHeight, [cap], [rk]/[hk] (renter and host public key). *)
Record ct := mkct {
  rev : N; fsize : N; cap : N; mroot : hash; wstart : N; expi : N; rk : N; hk : N;
  rto : option cid; rfrom : option cid; rows : tbl }.

Record db := mkdb {
  stored : list root;             (* stored_sectors (rows are never deleted) *)
  located : list root;            (* stored sectors that have a volume_sectors slot *)
  t1 : list (cid * ct);           (* contracts + contract_sector_roots *)
  t2 : list (cid * ct);           (* contracts_v2 + contract_v2_sector_roots *)
  nsec : N;                       (* host_stats: metricContractSectors (latest value) *)
  rejd : list cid }.              (* contract_status = rejected (RejectContracts), as far as the v2 guard reads it *)

Definition set_t1 (d : db) (t : list (cid * ct)) : db :=
  {| stored := stored d; located := located d; t1 := t; t2 := t2 d; nsec := nsec d; rejd := rejd d |}.
Definition set_t2 (d : db) (t : list (cid * ct)) : db :=
  {| stored := stored d; located := located d; t1 := t1 d; t2 := t; nsec := nsec d; rejd := rejd d |}.
Definition set_nsec (d : db) (n : N) : db :=
  {| stored := stored d; located := located d; t1 := t1 d; t2 := t2 d; nsec := n; rejd := rejd d |}.
Definition set_rejd (d : db) (l : list cid) : db :=
  {| stored := stored d; located := located d; t1 := t1 d; t2 := t2 d; nsec := nsec d; rejd := l |}.

Definition with_rev (c : ct) (r f : N) (m : hash) : ct :=
  {| rev := r; fsize := f; cap := cap c; mroot := m; wstart := wstart c; expi := expi c;
     rk := rk c; hk := hk c; rto := rto c; rfrom := rfrom c; rows := rows c |}.
Definition with_rows (c : ct) (t : tbl) : ct :=
  {| rev := rev c; fsize := fsize c; cap := cap c; mroot := mroot c; wstart := wstart c;
     expi := expi c; rk := rk c; hk := hk c; rto := rto c; rfrom := rfrom c; rows := t |}.
Definition with_to (c : ct) (x : option cid) : ct :=
  {| rev := rev c; fsize := fsize c; cap := cap c; mroot := mroot c; wstart := wstart c;
     expi := expi c; rk := rk c; hk := hk c; rto := x; rfrom := rfrom c; rows := rows c |}.
Definition with_from (c : ct) (x : option cid) : ct :=
  {| rev := rev c; fsize := fsize c; cap := cap c; mroot := mroot c; wstart := wstart c;
     expi := expi c; rk := rk c; hk := hk c; rto := rto c; rfrom := x; rows := rows c |}.

(* the v2 revision as the RHP4 layer hands it over (types.V2FileContract) *)
Record rv2 := mkrv2 { r2_rev : N; r2_fsize : N; r2_cap : N; r2_mroot : hash;
                      r2_ph : N; r2_exp : N; r2_rk : N; r2_hk : N }.
Definition ct_of_rv2 (c : rv2) : ct :=
  {| rev := r2_rev c; fsize := r2_fsize c; cap := r2_cap c; mroot := r2_mroot c;
     wstart := r2_ph c; expi := r2_exp c; rk := r2_rk c; hk := r2_hk c;
     rto := None; rfrom := None; rows := [] |}.
(* raw_revision := the new V2FileContract; links and rows stay *)
Definition with_rv2 (e : ct) (c : rv2) : ct :=
  {| rev := r2_rev c; fsize := r2_fsize c; cap := r2_cap c; mroot := r2_mroot c;
     wstart := r2_ph c; expi := r2_exp c; rk := r2_rk c; hk := r2_hk c;
     rto := rto e; rfrom := rfrom e; rows := rows e |}.

(* Store.transaction: BEGIN, body, COMMIT.  A failure anywhere rolls back, which the
   callers below express by keeping the database they started from. *)
Definition transaction {A} (body : M A) : M A :=
  mdo _ <- stmt; mdo a <- body; mdo _ <- stmt; ret a.

(* Store.AddContract / insertContract (UNIQUE contract_id) *)
Definition store_add1 (d : db) (id : cid) (c : ct) : M db :=
  transaction (mdo _ <- stmt;
               match alookup id (t1 d) with
               | Some _ => lift (Err EOther)
               | None => ret (set_t1 d (aset id c (t1 d)))
               end).
(* Store.AddV2Contract / insertV2Contract *)
Definition store_add2 (d : db) (id : cid) (c : ct) : M db :=
  transaction (mdo _ <- stmt;
               match alookup id (t2 d) with
               | Some _ => lift (Err EOther)
               | None => ret (set_t2 d (aset id c (t2 d)))
               end).

(* Store.ReviseContract: reviseContract (UPDATE ... WHERE contract_id RETURNING id; no row =
   sql.ErrNoRows), usage update, then the replay *)
Definition store_revise1 (d : db) (id : cid) (nrev nfsize : N) (nmroot : hash)
           (old : list root) (acts : list action) : M db :=
  transaction (mdo _ <- stmt;
               match alookup id (t1 d) with
               | None => lift (Err EOther)
               | Some c =>
                   mdo _ <- stmt;                                  (* updateContractUsage *)
                   mdo tn <- store_replay (stored d) (rows c) old (nsec d) acts;
                   ret (set_nsec (set_t1 d (aset id (with_rows (with_rev c nrev nfsize nmroot) (fst tn)) (t1 d)))
                                 (snd tn))
               end).

(* the three link / move statements shared by RenewContract and RenewV2Contract *)
Definition link_from (old new : cid) (t : list (cid * ct)) : list (cid * ct) :=
  match alookup new t with Some n => aset new (with_from n (Some old)) t | None => t end.
(* UPDATE contract_sector_roots SET contract_id=new WHERE contract_id=old; [new] was inserted
   in this transaction and has no rows *)
Definition move_rows (old new : cid) (t : list (cid * ct)) : list (cid * ct) :=
  if old =? new then t
  else match alookup old t, alookup new t with
       | Some o, Some n => aset old (with_rows o []) (aset new (with_rows n (rows o)) t)
       | _, _ => t
       end.

(* Store.RenewContract (contracts.go:289-314) *)
Definition store_renew1 (d : db) (old new : cid) (crev cfsize : N) (cmroot : hash) (nc : ct) : M db :=
  transaction (mdo _ <- stmt;                                      (* insertContract *)
               match alookup new (t1 d) with
               | Some _ => lift (Err EOther)
               | None =>
                   let ta := aset new nc (t1 d) in
                   mdo _ <- stmt;                                  (* clearContract *)
                   match alookup old ta with
                   | None => lift (Err EOther)
                   | Some c =>
                       let tb := aset old (with_to (with_rev c crev cfsize cmroot) (Some new)) ta in
                       mdo _ <- stmt;                              (* usage *)
                       mdo _ <- stmt;                              (* renewed_from *)
                       mdo _ <- stmt;                              (* move the root rows *)
                       ret (set_t1 d (move_rows old new (link_from old new tb)))
                   end
               end).

(* Store.ReviseV2Contract *)
Definition store_revise2 (d : db) (id : cid) (c : rv2) (old new : list root) : M db :=
  transaction (mdo _ <- stmt;                                      (* reviseV2Contract *)
               match alookup id (t2 d) with
               | None => lift (Err EOther)
               | Some e =>
                   mdo _ <- stmt;                                  (* usage *)
                   mdo tn <- v2_diff (stored d) (rows e) old new (nsec d);
                   ret (set_nsec (set_t2 d (aset id (with_rows (with_rv2 e c) (fst tn)) (t2 d))) (snd tn))
               end).

(* Store.RenewV2Contract (contracts.go:247-273) *)
Definition store_renew2 (d : db) (old new : cid) (nc : ct) : M db :=
  transaction (mdo _ <- stmt;                                      (* insertV2Contract *)
               match alookup new (t2 d) with
               | Some _ => lift (Err EOther)
               | None =>
                   let ta := aset new nc (t2 d) in
                   mdo _ <- stmt;                                  (* updateResolvedV2Contract *)
                   match alookup old ta with
                   | None => lift (Err EOther)
                   | Some c =>
                       let tb := aset old (with_to c (Some new)) ta in
                       mdo _ <- stmt;                              (* renewed_from *)
                       mdo _ <- stmt;                              (* move the root rows *)
                       ret (set_t2 d (move_rows old new (link_from old new tb)))
                   end
               end).

(* Store.Contract / Store.V2Contract (one read transaction) *)
Definition store_get (t : list (cid * ct)) (id : cid) : M ct :=
  transaction (mdo _ <- stmt;
               match alookup id t with Some c => ret c | None => lift (Err ENotFound) end).

(* is some contract's table holding root r? *)
Definition refd_in (t : list (cid * ct)) (r : root) : bool :=
  existsb (fun p => mem r (tbl_list (rows (snd p)))) t.
Definition referenced (d : db) (r : root) : bool := refd_in (t1 d) r || refd_in (t2 d) r.

(* Store.SectorRoots / V2SectorRoots: only contracts that have rows appear in the map *)
Fixpoint load_tab (t : list (cid * ct)) (acc : list (cid * list root)) : list (cid * list root) :=
  match t with
  | [] => acc
  | (id, c) :: k =>
      load_tab k (match rows c with [] => acc | _ => aset id (tbl_list (rows c)) acc end)
  end.
(* NewManager: v1 map, then every v2 entry written over it *)
Definition load (d : db) : list (cid * list root) := load_tab (t2 d) (load_tab (t1 d) []).

(** * The manager *)

Record updater := mkupd { u_cid : cid; u_roots : list root; u_old : list root; u_acts : list action }.

Record state := mkstate {
  dbs : db;
  cache : list (cid * list root);       (* Manager.sectorRoots *)
  upds : list (N * updater);            (* open ContractUpdaters, by the harness' slot number *)
  locks : list cid;                     (* held contract locks *)
  height : N }.                         (* chain tip height *)

Definition init : state :=
  {| dbs := {| stored := []; located := []; t1 := []; t2 := []; nsec := 0; rejd := [] |};
     cache := []; upds := []; locks := []; height := 0 |}.

Definition set_dbs (s : state) (d : db) : state :=
  {| dbs := d; cache := cache s; upds := upds s; locks := locks s; height := height s |}.
Definition set_cache (s : state) (c : list (cid * list root)) : state :=
  {| dbs := dbs s; cache := c; upds := upds s; locks := locks s; height := height s |}.
Definition set_upds (s : state) (u : list (N * updater)) : state :=
  {| dbs := dbs s; cache := cache s; upds := u; locks := locks s; height := height s |}.
Definition set_locks (s : state) (l : list cid) : state :=
  {| dbs := dbs s; cache := cache s; upds := upds s; locks := l; height := height s |}.

(* delete(cm.sectorRoots, id) *)
Definition cdel {V} (k : N) (l : list (N * V)) : list (N * V) := filter (fun p => negb (fst p =? k)) l.

(* getSectorRoots: a missing entry is nil *)
Definition cache_get (s : state) (id : cid) : list root :=
  match alookup id (cache s) with Some l => l | None => [] end.

(* isGoodForModification at tip height h (status is Pending or Active throughout: no chain events here) *)
Definition good1 (h : N) (c : ct) : bool :=
  negb (wstart c <? wadd h rev_buffer) && negb (rev c =? max_rev).

(* Manager.revisable (WP-G patch): Store.Contract (one read transaction), then isGoodForModification
   at the tip as it is NOW — the contract lock may have been acquired many blocks ago *)
Definition revisable1 (h : N) (t : list (cid * ct)) (id : cid) : res unit :=
  match alookup id t with
  | None => Err ENotFound
  | Some c => if good1 h c then Ok tt else Err EInvalid
  end.

Inductive op :=
| StoreSec (r : root)                            (* Store.StoreSector *)
| Prune                                          (* Store.PruneSectors, cut-off in the future *)
| SetHeight (h : N)                              (* the chain tip moves *)
| Form1 (id : cid) (frev ffsize : N) (fmroot : hash) (ws : N)   (* Manager.AddContract *)
| Form2 (id : cid) (c : rv2)                     (* Manager.AddV2Contract *)
| Lock1 (id : cid)                               (* Manager.Lock *)
| Unlock1 (id : cid)                             (* Manager.Unlock *)
| Open1 (u : N) (id : cid)                       (* Manager.ReviseContract *)
| Act (u : N) (a : action)                       (* ContractUpdater.Append/Swap/Trim/UpdateSector *)
| Commit1 (u : N) (nrev nfsize : N) (nmroot : hash) (fault : option nat)   (* ContractUpdater.Commit *)
| Close1 (u : N)                                 (* ContractUpdater.Close *)
  (* Manager.RenewContract: clearing revision (crev cfsize cmroot) of [old], first revision of
     [new]; [mold] = rhp2.MetaRoot of the cached roots of [old], computed by the caller *)
| Renew1 (old new : cid) (crev cfsize : N) (cmroot : hash) (nrev nfsize : N) (nmroot : hash)
         (nws : N) (mold : hash) (fault : option nat)
  (* Manager.ReviseV2Contract: [mnew] = rhp2.MetaRoot newroots, [rsig]/[hsig] = the renter /
     host signature verifies *)
| Revise2 (id : cid) (c : rv2) (newroots : list root) (mnew : hash) (rsig hsig : bool) (fault : option nat)
  (* Manager.RenewV2Contract: [wf] = the transaction set ends in one V2FileContractRenewal of
     [old]; [new] = old.V2RenewalID(); [mold] = MetaRoot of the cached roots of [old] *)
| Renew2 (old new : cid) (c : rv2) (mold : hash) (wf : bool) (fault : option nat)
| Lock2 (id : cid)                               (* Manager.LockV2Contract, then unlock *)
| Look1 (id : cid)                               (* Store.SectorRoots, Manager.SectorRoots, Store.Contract *)
| Look2 (id : cid)                               (* Store.V2SectorRoots, Manager.SectorRoots, Store.V2Contract *)
| Located (r : root)                             (* Store.SectorLocation succeeds *)
| CountSectors                                   (* Store.Metrics(now).Storage.ContractSectors *)
| Restart                                        (* reopen the database, NewManager *)
  (* the store methods called directly, past the manager and its cache (used to tie the
     replay / diff code on stale [old] lists; never part of a disciplined history) *)
| RawRevise1 (id : cid) (nrev nfsize : N) (nmroot : hash) (old : list root) (acts : list action) (fault : option nat)
| RawRevise2 (id : cid) (c : rv2) (old new : list root) (fault : option nat)
  (* UpdateChainState -> RejectContracts: [ids] = the v1 and v2 contracts it reports as rejected (pending past
     the reject buffer); the status is written, nothing else *)
| Reject (ids : list cid).

Inductive obs :=
| ORes (r : res unit)
| OAct (r : res unit) (cur : list root)          (* and ContractUpdater.SectorRoots() *)
| OLook (found : bool) (dbl cachel : list root) (orev ofsize : N) (omroot : hash) (oto ofrom : option cid)
| OLock2 (r : res (N * bool * bool * list root)) (* revision number, Renewed, Revisable, Roots *)
| OBool (b : bool)
| ONum (n : N).

Definition outcome {A} (s : state) (r : res (A * option nat)) (f : A -> state) : state * obs :=
  match r with
  | Ok (a, _) => (f a, ORes (Ok tt))
  | Err e => (s, ORes (Err e))
  | Panic => (s, ORes Panic)
  end.

(* the same inside the statement-counting monad: the read transaction of Store.Contract can be hit by an
   injected store failure like any other *)
Definition m_revisable1 (s : state) (id : cid) : M unit :=
  mdo c <- store_get (t1 (dbs s)) id;
  if good1 (height s) c then ret tt else lift (Err EInvalid).

(* ContractUpdater.Commit after its guard *)
Definition m_commit1 (s : state) (x : updater) (nrev nfsize : N) (nmroot : hash) : M db :=
  store_revise1 (dbs s) (u_cid x) nrev nfsize nmroot (u_old x) (u_acts x).
(* ContractUpdater.Commit: revisable, then Store.ReviseContract *)
Definition g_commit1 (s : state) (x : updater) (nrev nfsize : N) (nmroot : hash) : M db :=
  mdo _ <- m_revisable1 s (u_cid x); m_commit1 s x nrev nfsize nmroot.

Definition m_renew1 (s : state) (old new : cid) (crev cfsize : N) (cmroot : hash)
           (nrev nfsize : N) (nmroot : hash) (nws : N) (mold : hash) : M db :=
  let ex := cache_get s old in
  if negb (cmroot =? 0) then lift (Err EInvalid)
  else if negb (cfsize =? 0) then lift (Err EInvalid)
  else if negb (crev =? max_rev) then lift (Err EInvalid)
  else if negb (nfsize =? sector_size * nlen ex) then lift (Err EInvalid)
  else if negb (nmroot =? mold) then lift (Err EInvalid)
  else store_renew1 (dbs s) old new crev cfsize cmroot
         {| rev := nrev; fsize := nfsize; cap := 0; mroot := nmroot; wstart := nws; expi := 0;
            rk := 0; hk := 0; rto := None; rfrom := None; rows := [] |}.

(* Manager.RenewContract: revisable(existing), then the sanity checks and Store.RenewContract *)
Definition g_renew1 (s : state) (old new : cid) (crev cfsize : N) (cmroot : hash)
           (nrev nfsize : N) (nmroot : hash) (nws : N) (mold : hash) : M db :=
  mdo _ <- m_revisable1 s old; m_renew1 s old new crev cfsize cmroot nrev nfsize nmroot nws mold.

Definition opt_is_some {A} (o : option A) : bool := match o with Some _ => true | None => false end.

Definition m_revise2 (s : state) (id : cid) (c : rv2) (newroots : list root) (mnew : hash)
           (rsig hsig : bool) : M db :=
  mdo e <- store_get (t2 (dbs s)) id;
  if opt_is_some (rto e) then lift (Err EInvalid)
  else if mem id (rejd (dbs s)) then lift (Err EInvalid)      (* "rejected contracts cannot be revised" (7f58b1d) *)
  else if negb (rk e =? r2_rk c) then lift (Err EInvalid)
  else if negb (hk e =? r2_hk c) then lift (Err EInvalid)
  else if negb (wstart e =? r2_ph c) then lift (Err EInvalid)
  else if negb (expi e =? r2_exp c) then lift (Err EInvalid)
  else if negb (r2_fsize c =? sector_size * nlen newroots) then lift (Err EInvalid)
  else if r2_cap c <? r2_fsize c then lift (Err EInvalid)
  else if negb rsig then lift (Err EInvalid)
  else if negb hsig then lift (Err EInvalid)
  else if negb (r2_mroot c =? mnew) then lift (Err EInvalid)
  else store_revise2 (dbs s) id c (cache_get s id) newroots.

Definition m_renew2 (s : state) (old new : cid) (c : rv2) (mold : hash) (wf : bool) : M db :=
  if negb wf then lift (Err EInvalid)
  else
    mdo e <- store_get (t2 (dbs s)) old;
    if mem old (rejd (dbs s)) then lift (Err EInvalid)        (* "rejected contracts cannot be renewed" (7f58b1d) *)
    else if negb (r2_fsize c =? fsize e) then lift (Err EInvalid)
    else if negb (r2_cap c =? cap e) then lift (Err EInvalid)
    else if negb (r2_mroot c =? mroot e) then lift (Err EInvalid)
    else if negb (r2_mroot c =? mold) then lift (Err EInvalid)
    else store_renew2 (dbs s) old new (ct_of_rv2 c).

Definition look (t : list (cid * ct)) (s : state) (id : cid) : obs :=
  match alookup id t with
  | None => OLook false [] (cache_get s id) 0 0 0 None None
  | Some c => OLook true (tbl_list (rows c)) (cache_get s id) (rev c) (fsize c) (mroot c) (rto c) (rfrom c)
  end.

Definition step (s : state) (o : op) : state * obs :=
  match o with
  | StoreSec r =>
      let d := dbs s in
      (set_dbs s {| stored := if mem r (stored d) then stored d else r :: stored d;
                    located := if mem r (located d) then located d else r :: located d;
                    t1 := t1 d; t2 := t2 d; nsec := nsec d; rejd := rejd d |}, ORes (Ok tt))
  | Prune =>
      let d := dbs s in
      (set_dbs s {| stored := stored d; located := filter (referenced d) (located d);
                    t1 := t1 d; t2 := t2 d; nsec := nsec d; rejd := rejd d |}, ORes (Ok tt))
  | SetHeight h =>
      ({| dbs := dbs s; cache := cache s; upds := upds s; locks := locks s; height := h |}, ORes (Ok tt))
  | Form1 id frev ffsize fmroot ws =>
      outcome s (store_add1 (dbs s) id
                   {| rev := frev; fsize := ffsize; cap := 0; mroot := fmroot; wstart := ws; expi := 0;
                      rk := 0; hk := 0; rto := None; rfrom := None; rows := [] |} None)
              (set_dbs s)
  | Form2 id c => outcome s (store_add2 (dbs s) id (ct_of_rv2 c) None) (set_dbs s)
  | Lock1 id =>
      if mem id (locks s) then (s, ORes (Err EInsufficient))
      else match alookup id (t1 (dbs s)) with
           | None => (s, ORes (Err ENotFound))
           | Some c => if good1 (height s) c then (set_locks s (id :: locks s), ORes (Ok tt))
                       else (s, ORes (Err EInvalid))
           end
  | Unlock1 id =>
      if mem id (locks s) then (set_locks s (filter (fun x => negb (x =? id)) (locks s)), ORes (Ok tt))
      else (s, ORes Panic)                       (* "unlocking unheld lock" *)
  | Open1 u id =>
      match revisable1 (height s) (t1 (dbs s)) id with
      | Ok _ =>
          let l := cache_get s id in
          (set_upds s (aset u {| u_cid := id; u_roots := l; u_old := l; u_acts := [] |} (upds s)), ORes (Ok tt))
      | Err e => (s, ORes (Err e))
      | Panic => (s, ORes Panic)
      end
  | Act u a =>
      match alookup u (upds s) with
      | None => (s, OAct (Err ENotFound) [])
      | Some x =>
          match upd_apply (u_roots x) a with
          | Ok l' => (set_upds s (aset u {| u_cid := u_cid x; u_roots := l'; u_old := u_old x;
                                           u_acts := u_acts x ++ [a] |} (upds s)), OAct (Ok tt) l')
          | Err e => (s, OAct (Err e) (u_roots x))
          | Panic => (s, OAct Panic (u_roots x))
          end
      end
  | Commit1 u nrev nfsize nmroot fault =>
      match alookup u (upds s) with
      | None => (s, ORes (Err ENotFound))
      | Some x =>
          outcome s (g_commit1 s x nrev nfsize nmroot fault)
            (fun d => set_upds (set_cache (set_dbs s d) (aset (u_cid x) (u_roots x) (cache s)))
                        (* sectorActions cleared; oldRoots := sectorRoots (C03 patch) *)
                        (aset u {| u_cid := u_cid x; u_roots := u_roots x; u_old := u_roots x;
                                   u_acts := [] |} (upds s)))
      end
  | Close1 u => (set_upds s (aremove u (upds s)), ORes (Ok tt))
  | Renew1 old new crev cfsize cmroot nrev nfsize nmroot nws mold fault =>
      outcome s (g_renew1 s old new crev cfsize cmroot nrev nfsize nmroot nws mold fault)
        (* setSectorRoots(renewal), then deleteSectorRoots(existing) (13cd476) *)
        (fun d => set_cache (set_dbs s d) (cdel old (aset new (cache_get s old) (cache s))))
  | Revise2 id c newroots mnew rsig hsig fault =>
      outcome s (m_revise2 s id c newroots mnew rsig hsig fault)
        (fun d => set_cache (set_dbs s d) (aset id newroots (cache s)))
  | Renew2 old new c mold wf fault =>
      outcome s (m_renew2 s old new c mold wf fault)
        (fun d => set_cache (set_dbs s d) (aset new (cache_get s old) (cache s)))
  | Lock2 id =>
      if mem id (locks s) then (s, OLock2 (Err EInsufficient))       (* would block *)
      else match alookup id (t2 (dbs s)) with
           | None => (s, OLock2 (Err ENotFound))
           | Some c =>
               let renewed := opt_is_some (rto c) in
               let maxh := if rev_buffer <? wstart c then wstart c - rev_buffer else 0 in
               (s, OLock2 (Ok (rev c, renewed, negb renewed && negb (mem id (rejd (dbs s))) && (height s <? maxh), cache_get s id)))
           end
  | Look1 id => (s, look (t1 (dbs s)) s id)
  | Look2 id => (s, look (t2 (dbs s)) s id)
  | Located r => (s, OBool (mem r (located (dbs s))))
  | CountSectors => (s, ONum (nsec (dbs s)))
  | Restart =>
      ({| dbs := dbs s; cache := load (dbs s); upds := []; locks := []; height := height s |}, ORes (Ok tt))
  | RawRevise1 id nrev nfsize nmroot old acts fault =>
      outcome s (store_revise1 (dbs s) id nrev nfsize nmroot old acts fault) (set_dbs s)
  | RawRevise2 id c old new fault =>
      outcome s (store_revise2 (dbs s) id c old new fault) (set_dbs s)
  | Reject ids => (set_dbs s (set_rejd (dbs s) (ids ++ rejd (dbs s))), ORes (Ok tt))
  end.

(* the three calls as they were before the WP-G patch: isGoodForModification is evaluated by Manager.Lock
   only (Legacy: never the code the model corresponds to; the witness of c06_guard_at_lock_only_refuted) *)
Definition legacy_step (s : state) (o : op) : state * obs :=
  match o with
  | Open1 u id =>
      let l := cache_get s id in
      (set_upds s (aset u {| u_cid := id; u_roots := l; u_old := l; u_acts := [] |} (upds s)), ORes (Ok tt))
  | Commit1 u nrev nfsize nmroot fault =>
      match alookup u (upds s) with
      | None => (s, ORes (Err ENotFound))
      | Some x =>
          outcome s (m_commit1 s x nrev nfsize nmroot fault)
            (fun d => set_upds (set_cache (set_dbs s d) (aset (u_cid x) (u_roots x) (cache s)))
                        (aset u {| u_cid := u_cid x; u_roots := u_roots x; u_old := u_roots x;
                                   u_acts := [] |} (upds s)))
      end
  | Renew1 old new crev cfsize cmroot nrev nfsize nmroot nws mold fault =>
      outcome s (m_renew1 s old new crev cfsize cmroot nrev nfsize nmroot nws mold fault)
        (fun d => set_cache (set_dbs s d) (cdel old (aset new (cache_get s old) (cache s))))
  | _ => step s o
  end.

(** * Correspondence entry point *)

Definition unit_eqb (_ _ : unit) : bool := true.
Definition lock2_eqb (a b : N * bool * bool * list root) : bool :=
  let '(r, x, y, l) := a in let '(r', x', y', l') := b in
  (r =? r') && Bool.eqb x x' && Bool.eqb y y' && list_eqb N.eqb l l'.

Definition obs_eqb (a b : obs) : bool :=
  match a, b with
  | ORes x, ORes y => res_eqb unit_eqb x y
  | OAct x l, OAct y m => res_eqb unit_eqb x y && list_eqb N.eqb l m
  | OLook f d c r z m t fr, OLook f' d' c' r' z' m' t' fr' =>
      Bool.eqb f f' && list_eqb N.eqb d d' && list_eqb N.eqb c c' && (r =? r') && (z =? z') && (m =? m')
      && option_eqb N.eqb t t' && option_eqb N.eqb fr fr'
  | OLock2 x, OLock2 y => res_eqb lock2_eqb x y
  | OBool x, OBool y => Bool.eqb x y
  | ONum x, ONum y => x =? y
  | _, _ => false
  end.

Definition case := (N * list (op * obs))%type.
Definition check (cs : list case) := mismatches init step obs_eqb cs.
