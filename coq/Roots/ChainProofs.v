(* Roots/ChainProofs.v — what holds and what does not once the chain has decided about a
   negotiated renewal (WP-N, model Chain.v). *)
From Coq Require Import Lia ZifyBool ZifyN ZifyNat.
From HostdBase Require Import Base.
From HostdRoots Require Import Model Sess Chain Lists ProofsReplay ProofsInv ProofsStep ProofsRenew ProofsTop SessFrame.

(* a v2 revision with fixed heights and keys *)
Definition xfc (r f m : N) : rv2 := mkrv2 r f f m 1000 1100 1 2.
Open Scope N_scope.

(** * expiry touches only rejected contracts and contracts past their expiration height *)

Lemma expire_rows_lookup st h id : forall t,
  alookup id (fst (expire_rows st h t)) =
  match alookup id t with
  | Some c => Some (if (expi c <? h) || is_rejected st id then with_rows c [] else c)
  | None => None
  end.
Proof.
  induction t as [|[k c] t IH]; cbn [expire_rows alookup]; [reflexivity|].
  destruct (expire_rows st h t) as [k' n] eqn:E. cbn [fst] in IH.
  destruct (id =? k) eqn:Ek.
  - apply N.eqb_eq in Ek; subst k.
    destruct ((expi c <? h) || is_rejected st id); cbn [fst alookup]; now rewrite N.eqb_refl.
  - destruct ((expi c <? h) || is_rejected st k); cbn [fst alookup]; rewrite Ek; exact IH.
Qed.

Definition confirmed (s : option cstatus) : Prop :=
  s = Some CActive \/ s = Some CRenewed \/ s = Some CSuccessful \/ s = Some CFailed.

(* the operations that leave a confirmed contract [id] (row [c]) to itself: no manager call names
   it (no revision, no further renewal of it), sector expiry runs at heights up to its expiration *)
Definition quiet (id : cid) (c : ct) (X : xstate) (e : xop) : Prop :=
  match e with
  | XOp o => touchesb (xb X) o id = false
  | XExpire h => h <= expi c
  | _ => True
  end.

Fixpoint quiet_run (id : cid) (c : ct) (X : xstate) (ops : list xop) : Prop :=
  match ops with
  | [] => True
  | e :: rest => quiet id c X e /\ quiet_run id c (fst (xstep X e)) rest
  end.

Lemma status_set_other X id id' s : id <> id' -> status (set_status X id' s) id = status X id.
Proof. intros H. unfold status, set_status. cbn [xst]. now rewrite alookup_aset_other. Qed.

Lemma status_set_same X id s : status (set_status X id s) id = Some s.
Proof. unfold status, set_status. cbn [xst]. now rewrite alookup_aset, N.eqb_refl. Qed.

Lemma refd_in_intro (t : list (cid * ct)) id c r :
  alookup id t = Some c -> mem r (tbl_list (rows c)) = true -> refd_in t r = true.
Proof.
  intros L M. unfold refd_in. apply existsb_exists. exists (id, c). split; [now apply alookup_In|exact M].
Qed.

(* one step: the row, the served list, the confirmation and the slots of its sectors stay *)
Lemma quiet_step X e id c :
  alookup id (t2 (dbs (xb X))) = Some c -> confirmed (status X id) -> quiet id c X e ->
  let X' := fst (xstep X e) in
  alookup id (t2 (dbs (xb X'))) = Some c /\ confirmed (status X' id) /\
  cache_get (xb X') id = cache_get (xb X) id /\
  forall r, mem r (tbl_list (rows c)) = true -> mem r (located (dbs (xb X))) = true ->
            mem r (located (dbs (xb X'))) = true.
Proof.
  intros L C Q. destruct e; cbn [xstep quiet] in *.
  - (* a manager call that does not name id *)
    destruct (step (xb X) o) as [s' ob] eqn:E. cbn [fst xb].
    assert (Es : s' = fst (step (xb X) o)) by now rewrite E.
    destruct (step_frame (xb X) o id Q) as (_ & F2 & F3). rewrite <- Es in F2, F3.
    split; [now rewrite F2|]. split; [|split; [exact F3|]].
    + (* the status of id is not reset: Form2 id / Renew2 _ id would name id *)
      unfold status in *. cbn [xst].
      destruct o; try exact C.
      * destruct ob as [[[]| |]| | | | |]; try exact C. cbn [touchesb touched mem existsb] in Q.
        rewrite alookup_aset_other by lia. exact C.
      * destruct ob as [[[]| |]| | | | |]; try exact C. cbn [touchesb touched mem existsb] in Q.
        rewrite alookup_aset_other by lia. exact C.
    + intros r Mr Ml. rewrite Es. destruct o; try (apply located_kept; [discriminate|exact Ml]).
      apply prune_keeps_referenced; [|exact Ml].
      unfold referenced. rewrite (refd_in_intro _ id c r L Mr). apply Bool.orb_true_r.
  - (* XConfirm *)
    destruct (status X id0) as [[]|] eqn:S0; try solve [cbn [fst]; repeat split; auto].
    assert (Hne : id0 <> id) by (intros ->; destruct C as [C|[C|[C|C]]]; congruence).
    assert (C1 : confirmed (status (set_status X id0 CActive) id)) by (rewrite status_set_other by lia; exact C).
    destruct (alookup id0 (t2 (dbs (xb X)))) as [c0|].
    2:{ cbn [fst set_status xb]. repeat split; auto. }
    destruct (rfrom c0) as [p|].
    2:{ cbn [fst set_status xb]. repeat split; auto. }
    destruct (status X p) as [[]|] eqn:Sp; cbn [fst set_status xb]; repeat split; auto.
    destruct (N.eq_dec p id) as [->|Hp].
    + rewrite status_set_same. right; now left.
    + rewrite status_set_other by lia. exact C1.
  - (* XReject *)
    destruct (status X id0) as [[]|] eqn:S0; try solve [cbn [fst]; repeat split; auto].
    cbn [fst set_status xb]. repeat split; auto.
    assert (Hne : id0 <> id) by (intros ->; destruct C as [C|[C|[C|C]]]; congruence).
    rewrite status_set_other by lia. exact C.
  - (* XExpire *)
    destruct (expire_rows (xst X) h (t2 (dbs (xb X)))) as [t' n] eqn:E.
    assert (Lt : alookup id t' = Some c).
    { replace t' with (fst (expire_rows (xst X) h (t2 (dbs (xb X))))) by now rewrite E.
      rewrite expire_rows_lookup, L. replace (expi c <? h) with false by lia.
      unfold is_rejected. unfold status in C. destruct C as [C|[C|[C|C]]]; rewrite C; reflexivity. }
    destruct (dec_stat (nsec (dbs (xb X))) n); cbn [fst xb]; repeat split; auto.
  - (* XProve *)
    destruct (status X id0) as [[]|] eqn:S0; try solve [cbn [fst]; repeat split; auto].
    destruct (alookup id0 (t2 (dbs (xb X)))) as [c0|]; cbn [fst set_status xb]; repeat split; auto.
    destruct (N.eq_dec id0 id) as [->|Hne].
    + rewrite status_set_same. destruct ((fsize c0 =? 0) || ((mroot c0 =? mcache) && all_located (dbs (xb X)) (cache_get (xb X) id)));
        unfold confirmed; auto.
    + rewrite status_set_other by lia. exact C.
  - cbn [fst]. repeat split; auto.
Qed.

Theorem confirmed_keeps_data : forall ops X id c,
  alookup id (t2 (dbs (xb X))) = Some c -> confirmed (status X id) -> quiet_run id c X ops ->
  let X' := xruns X ops in
  alookup id (t2 (dbs (xb X'))) = Some c /\ confirmed (status X' id) /\
  cache_get (xb X') id = cache_get (xb X) id /\
  forall r, mem r (tbl_list (rows c)) = true -> mem r (located (dbs (xb X))) = true ->
            mem r (located (dbs (xb X'))) = true.
Proof.
  induction ops as [|e ops IH]; intros X id c L C Q; cbn [xruns fold_left quiet_run] in *.
  - repeat split; auto.
  - destruct Q as [Q1 Q2]. destruct (quiet_step X e id c L C Q1) as (L1 & C1 & G1 & M1).
    destruct (IH (fst (xstep X e)) id c L1 C1 Q2) as (L2 & C2 & G2 & M2).
    split; [exact L2|]. split; [exact C2|]. split; [etransitivity; [exact G2|exact G1]|].
    intros r Mr Ml. apply M2; [exact Mr|]. now apply M1.
Qed.

(* ... and then its proof can be built *)
Lemma xprove_succeeds X id c m :
  status X id = Some CActive -> alookup id (t2 (dbs (xb X))) = Some c ->
  mroot c = m -> all_located (dbs (xb X)) (cache_get (xb X) id) = true ->
  snd (xstep X (XProve id m)) = XO (OBool true) /\ status (fst (xstep X (XProve id m))) id = Some CSuccessful.
Proof.
  intros S L Hm Hl. cbn [xstep]. rewrite S, L, Hl, Hm, N.eqb_refl, Bool.orb_true_r. cbn [snd fst].
  split; [reflexivity|apply status_set_same].
Qed.

(** * the never-confirmed renewal *)

Definition xdisc (meta : list root -> hash) (X : xstate) (e : xop) : Prop :=
  match e with XOp o => disc meta (xb X) o | _ => True end.
Fixpoint xdisc_run (meta : list root -> hash) (X : xstate) (ops : list xop) : Prop :=
  match ops with [] => True | e :: rest => xdisc meta X e /\ xdisc_run meta (fst (xstep X e)) rest end.

(* contract 7 holds sector 1, is renewed to 8; the renewal is never confirmed *)
Definition ex_upload : list xop :=
  [ XOp (StoreSec 1); XOp (Form2 7 (xfc 0 0 (meta0 []))); XConfirm 7;
    XOp (Revise2 7 (xfc 1 sector_size (meta0 [1])) [1] (meta0 [1]) true true None) ].
Definition ex_strand : list xop :=
  ex_upload ++
  [ XOp (Renew2 7 8 (xfc 0 sector_size (meta0 [1])) (meta0 [1]) true None);
    XReject 8; XExpire 50; XOp Prune ].

Lemma ex_strand_disc : xdisc_run meta0 xinit ex_strand.
Proof.
  cbn [xdisc_run ex_strand ex_upload app]. repeat (split; [vm_compute; repeat split; try reflexivity; try discriminate; try (intros; discriminate);
    try (intros ? ? [= <-] H; discriminate H)|]).
  exact I.
Qed.

Lemma ex_strand_final :
  (* when the renewal was negotiated the host held the data its revision commits to *)
  (let X0 := xruns xinit ex_upload in
   status X0 7 = Some CActive /\ mem 1 (located (dbs (xb X0))) = true /\
   exists c, alookup 7 (t2 (dbs (xb X0))) = Some c /\ tbl_list (rows c) = [1] /\ mroot c = meta0 [1]) /\
  (* afterwards: the predecessor is still active and must be proven, cannot be revised, has no roots;
     the sector has lost its slot; the proof fails and the contract ends failed *)
  (let X := xruns xinit ex_strand in
   status X 7 = Some CActive /\ status X 8 = Some CRejected /\
   (exists c, alookup 7 (t2 (dbs (xb X))) = Some c /\ rto c = Some 8 /\ rows c = [] /\
              fsize c = sector_size /\ mroot c = meta0 [1]) /\
   (exists c, alookup 8 (t2 (dbs (xb X))) = Some c /\ rows c = []) /\
   mem 1 (located (dbs (xb X))) = false /\
   snd (xstep X (XProve 7 (meta0 (cache_get (xb X) 7)))) = XO (OBool false) /\
   status (fst (xstep X (XProve 7 (meta0 (cache_get (xb X) 7))))) 7 = Some CFailed).
Proof.
  split; cbn zeta.
  - split; [reflexivity|]. split; [reflexivity|]. eexists. vm_compute. repeat split.
  - split; [reflexivity|]. split; [reflexivity|]. split; [eexists; vm_compute; repeat split|].
    split; [eexists; vm_compute; repeat split|]. repeat split; reflexivity.
Qed.

(* the same history with the renewal confirmed: the successor keeps the data *)
Definition ex_confirmed : list xop :=
  ex_upload ++
  [ XOp (Renew2 7 8 (xfc 0 sector_size (meta0 [1])) (meta0 [1]) true None);
    XConfirm 8; XExpire 50; XOp Prune ].

Lemma ex_confirmed_final :
  let X := xruns xinit ex_confirmed in
  status X 7 = Some CRenewed /\ status X 8 = Some CActive /\ mem 1 (located (dbs (xb X))) = true /\
  snd (xstep X (XProve 8 (meta0 (cache_get (xb X) 8)))) = XO (OBool true).
Proof. cbn zeta. repeat split; reflexivity. Qed.

(** * the statement of the never-confirmed renewal *)
Lemma unconfirmed_renewal_strands_refuted : exists ops0 ops id r,
  xdisc_run meta0 xinit (ops0 ++ ops) /\
  (* before the renewal: id is confirmed, holds r, r is stored and the revision commits to it *)
  (let X0 := xruns xinit ops0 in
   status X0 id = Some CActive /\ mem r (located (dbs (xb X0))) = true /\
   exists c, alookup id (t2 (dbs (xb X0))) = Some c /\ rto c = None /\ tbl_list (rows c) = [r] /\ mroot c = meta0 [r]) /\
  (* after it: still active, renewed_to set, no roots, sector gone, proof fails, contract failed *)
  (let X := xruns xinit (ops0 ++ ops) in
   status X id = Some CActive /\
   (exists c d, alookup id (t2 (dbs (xb X))) = Some c /\ rto c = Some d /\ status X d = Some CRejected /\
                rows c = [] /\ mroot c = meta0 [r]) /\
   mem r (located (dbs (xb X))) = false /\
   snd (xstep X (XProve id (meta0 (cache_get (xb X) id)))) = XO (OBool false) /\
   status (fst (xstep X (XProve id (meta0 (cache_get (xb X) id))))) id = Some CFailed).
Proof.
  exists ex_upload, [ XOp (Renew2 7 8 (xfc 0 sector_size (meta0 [1])) (meta0 [1]) true None); XReject 8; XExpire 50; XOp Prune ], 7, 1.
  split; [exact ex_strand_disc|]. destruct ex_strand_final as (H0 & H1). split.
  - cbn zeta in *. destruct H0 as (A & B & c & Lc & Hl & Hm). repeat split; auto. exists c. repeat split; auto.
    vm_compute in Lc. injection Lc as <-. reflexivity.
  - cbn zeta in *. destruct H1 as (A & B & (c & Lc & Rt & Hr & _ & Hm) & _ & Ml & Hp & Hs).
    repeat split; auto. exists c, 8. repeat split; auto.
Qed.

(* non-vacuity of [quiet_run]: after the confirmation, expiry and prune leave successor 8 to itself *)
Lemma ex_confirmed_quiet :
  let X := xruns xinit (ex_upload ++ [ XOp (Renew2 7 8 (xfc 0 sector_size (meta0 [1])) (meta0 [1]) true None); XConfirm 8 ]) in
  exists c, alookup 8 (t2 (dbs (xb X))) = Some c /\ confirmed (status X 8) /\
            quiet_run 8 c X [XExpire 50; XOp Prune; XReject 7; XExpire 1100] /\ tbl_list (rows c) = [1].
Proof.
  cbn zeta. eexists. split; [vm_compute; reflexivity|]. split; [left; reflexivity|].
  split; [|reflexivity]. cbn [quiet_run quiet]. repeat split; try reflexivity; vm_compute; discriminate.
Qed.
