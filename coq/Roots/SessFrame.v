(* Roots/SessFrame.v — a manager call writes only the contracts it names ([touchesb]): rows, links
   and cache entry of every other contract stay as they are; a payment revision written on a
   live contract keeps the invariant of ProofsInv.v. *)
From Coq Require Import Lia ZifyBool ZifyN ZifyNat.
From HostdBase Require Import Base.
From HostdRoots Require Import Model Sess Lists ProofsReplay ProofsInv ProofsStep ProofsRenew.
Open Scope N_scope.

Lemma outcome_cases A s (m : M A) fault f : fok m ->
  fst (outcome s (m fault) f) = s \/
  exists a, m None = Ok (a, None) /\ outcome s (m fault) f = (f a, ORes (Ok tt)).
Proof.
  intros F. unfold outcome. destruct (m fault) as [[a k]|e|] eqn:E; [right|now left|now left].
  exists a. split; [eapply ok_any_fault; eauto|reflexivity].
Qed.

Lemma move_rows_frame (T : list (cid * ct)) old new id :
  id <> old -> id <> new -> alookup id (move_rows old new T) = alookup id T.
Proof.
  intros H1 H2. unfold move_rows. destruct (old =? new); [reflexivity|].
  destruct (alookup old T); [|reflexivity]. destruct (alookup new T); [|reflexivity].
  now rewrite !alookup_aset_other.
Qed.

Lemma link_from_frame (T : list (cid * ct)) old new id :
  id <> new -> alookup id (link_from old new T) = alookup id T.
Proof.
  intros H. unfold link_from. destruct (alookup new T); [|reflexivity]. now rewrite alookup_aset_other.
Qed.

Lemma renew_tables_frame (t : list (cid * ct)) old new oc nc id :
  id <> old -> id <> new ->
  alookup id (move_rows old new (link_from old new (aset old oc (aset new nc t)))) = alookup id t.
Proof.
  intros H1 H2. rewrite move_rows_frame, link_from_frame by assumption. now rewrite !alookup_aset_other.
Qed.

Definition same_at (s s' : state) (id : cid) : Prop :=
  alookup id (t1 (dbs s')) = alookup id (t1 (dbs s)) /\
  alookup id (t2 (dbs s')) = alookup id (t2 (dbs s)) /\
  cache_get s' id = cache_get s id.

Lemma same_at_refl s id : same_at s s id.
Proof. repeat split. Qed.

Lemma same_at_tables s s' id :
  t1 (dbs s') = t1 (dbs s) -> t2 (dbs s') = t2 (dbs s) -> cache s' = cache s -> same_at s s' id.
Proof. intros E1 E2 E3. unfold same_at, cache_get. now rewrite E1, E2, E3. Qed.

(* the frame: a call that does not name [id] leaves id's rows, links and cache entry alone *)
Lemma step_frame s o id : touchesb s o id = false -> same_at s (fst (step s o)) id.
Proof.
  intros T. destruct o; cbn [touchesb touched mem existsb] in T; try discriminate;
    rewrite ?Bool.orb_false_r in T;
    try (apply same_at_tables; reflexivity).
  - (* Form1 *) cbn [step].
    match goal with |- context [outcome s (store_add1 ?d ?i ?c ?f) ?g] =>
      destruct (outcome_cases _ s (store_add1 d i c) f g (fok_store_add1 _ _ _)) as [E|(d' & E & ->)] end.
    + rewrite E. apply same_at_refl.
    + apply store_add1_ok in E as [_ ->]. cbn [fst]. unfold same_at, cache_get.
      cbn [dbs set_dbs set_t1 t1 t2 cache]. rewrite alookup_aset_other by lia. auto.
  - (* Form2 *) cbn [step].
    destruct (outcome_cases _ s (store_add2 (dbs s) id0 (ct_of_rv2 c)) None (set_dbs s) (fok_store_add2 _ _ _)) as [E|(d' & E & ->)].
    + rewrite E. apply same_at_refl.
    + apply store_add2_ok in E as [_ ->]. cbn [fst]. unfold same_at, cache_get.
      cbn [dbs set_dbs set_t2 t1 t2 cache]. rewrite alookup_aset_other by lia. auto.
  - (* Lock1 *) cbn [step]. destruct (mem id0 (locks s)); [apply same_at_refl|].
    destruct (alookup id0 (t1 (dbs s))); [|apply same_at_refl].
    destruct (good1 (height s) c); apply same_at_tables; reflexivity.
  - (* Unlock1 *) cbn [step]. destruct (mem id0 (locks s)); apply same_at_tables; reflexivity.
  - (* Open1 *) cbn [step]. destruct (revisable1 (height s) (t1 (dbs s)) id0) as [[]| |];
      apply same_at_tables; reflexivity.
  - (* Act *) cbn [step]. destruct (alookup u (upds s)); [|apply same_at_refl].
    destruct (upd_apply (u_roots u0) a); apply same_at_tables; reflexivity.
  - (* Commit1 *)
    destruct (step s (Commit1 u nrev nfsize nmroot fault)) as [s' ob] eqn:E. cbn [fst].
    destruct (alookup u (upds s)) as [x|] eqn:Lu.
    2:{ cbn [step] in E. rewrite Lu in E. injection E as <- _. apply same_at_refl. }
    cbn [step] in E. rewrite Lu in E. cbn [mem existsb] in T. rewrite Bool.orb_false_r in T.
    destruct (outcome_cases _ s (g_commit1 s x nrev nfsize nmroot) fault
               (fun d => set_upds (set_cache (set_dbs s d) (aset (u_cid x) (u_roots x) (cache s)))
                  (aset u {| u_cid := u_cid x; u_roots := u_roots x; u_old := u_roots x; u_acts := [] |} (upds s)))
               (fok_g_commit1 _ _ _ _ _)) as [E0|(d' & E0 & E1)].
    + rewrite E in E0. cbn [fst] in E0. subst s'. apply same_at_refl.
    + rewrite E in E1. injection E1 as -> _. apply guarded_ok in E0 as [_ E0]. unfold m_commit1 in E0.
      apply store_revise1_ok in E0 as (c & t' & ns' & Lc & _ & ->).
      unfold same_at, cache_get. cbn [dbs set_upds set_cache set_dbs set_t1 set_nsec t1 t2 cache].
      rewrite !alookup_aset_other by lia. auto.
  - (* Renew1 *)
    apply Bool.orb_false_iff in T as [T1 T2]. cbn [step].
    match goal with |- context [outcome s (g_renew1 ?a ?b ?c ?d ?e ?f ?g ?h ?i ?j ?k ?fl) ?fn] =>
      destruct (outcome_cases _ s (g_renew1 a b c d e f g h i j k) fl fn (fok_g_renew1 _ _ _ _ _ _ _ _ _ _ _)) as [E|(d' & E & ->)] end.
    + rewrite E. apply same_at_refl.
    + apply guarded_ok in E as [_ E]. unfold m_renew1 in E.
      destruct (negb (cmroot =? 0)); [discriminate|]. destruct (negb (cfsize =? 0)); [discriminate|].
      destruct (negb (crev =? max_rev)); [discriminate|].
      destruct (negb (nfsize =? sector_size * nlen (cache_get s old))); [discriminate|].
      destruct (negb (nmroot =? mold)); [discriminate|].
      apply store_renew1_ok in E as (_ & c0 & _ & ->). cbn [fst].
      unfold same_at. cbn [dbs set_cache set_dbs set_t1 t1 t2].
      rewrite renew_tables_frame by lia. repeat split.
      rewrite (cache_get_renew1 s _ old new (cache_get s old)) by reflexivity.
      replace (id =? old) with false by lia. replace (id =? new) with false by lia. reflexivity.
  - (* Revise2 *) cbn [step].
    match goal with |- context [outcome s (m_revise2 ?a ?b ?c ?d ?e ?f ?g ?fl) ?fn] =>
      destruct (outcome_cases _ s (m_revise2 a b c d e f g) fl fn (fok_m_revise2 _ _ _ _ _ _ _)) as [E|(d' & E & E1)] end.
    + rewrite E. apply same_at_refl.
    + pose proof E1 as E1'. rewrite E1. cbn [fst].
      apply revise2_form in E1' as (e & t' & ns' & _ & _ & _ & _ & _ & E2). rewrite E2.
      unfold same_at, cache_get. cbn [dbs set_cache set_dbs set_t2 set_nsec t1 t2 cache].
      rewrite !alookup_aset_other by lia. auto.
  - (* Renew2 *)
    apply Bool.orb_false_iff in T as [T1 T2]. cbn [step].
    match goal with |- context [outcome s (m_renew2 ?a ?b ?c ?d ?e ?f ?fl) ?fn] =>
      destruct (outcome_cases _ s (m_renew2 a b c d e f) fl fn (fok_m_renew2 _ _ _ _ _ _)) as [E|(d' & E & E1)] end.
    + rewrite E. apply same_at_refl.
    + pose proof E1 as E1'. rewrite E1. cbn [fst].
      apply renew2_form in E1' as (e & _ & _ & _ & _ & _ & _ & _ & E2). rewrite E2.
      unfold same_at. cbn [dbs set_cache set_dbs set_t2 t1 t2].
      rewrite renew_tables_frame by lia. repeat split.
      unfold cache_get. cbn [cache set_cache]. rewrite alookup_aset_other by lia. reflexivity.
  - (* Lock2 *) cbn [step]. destruct (mem id0 (locks s)); [apply same_at_refl|].
    destruct (alookup id0 (t2 (dbs s))); apply same_at_refl.
  - (* RawRevise1 *) cbn [step].
    destruct (outcome_cases _ s (store_revise1 (dbs s) id0 nrev nfsize nmroot old acts) fault (set_dbs s)
               (fok_store_revise1 _ _ _ _ _ _ _)) as [E|(d' & E & ->)].
    + rewrite E. apply same_at_refl.
    + apply store_revise1_ok in E as (c & t' & ns' & _ & _ & ->). cbn [fst].
      unfold same_at, cache_get. cbn [dbs set_dbs set_t1 set_nsec t1 t2 cache].
      rewrite alookup_aset_other by lia. auto.
  - (* RawRevise2 *) cbn [step].
    destruct (outcome_cases _ s (store_revise2 (dbs s) id0 c old new) fault (set_dbs s)
               (fok_store_revise2 _ _ _ _ _)) as [E|(d' & E & ->)].
    + rewrite E. apply same_at_refl.
    + apply store_revise2_ok in E as (e & t' & ns' & _ & _ & ->). cbn [fst].
      unfold same_at, cache_get. cbn [dbs set_dbs set_t2 set_nsec t1 t2 cache].
      rewrite alookup_aset_other by lia. auto.
Qed.
