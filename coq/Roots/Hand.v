(* Roots/Hand.v — the RHP handlers as they are seen from outside, with the chain's verdict on a contract
   (WP-Y: list edits made by real RHP2 / RHP3 handlers while a second caller is queued; a contract that is
   rejected or resolved while a session holds or waits for its lock).  No proofs here.

   Sess.v describes who makes the manager calls; two things are missing there and are added on top of it
   without touching its steps:

   1. Contract.Status.  Every place of /repo (HEAD 8fe98f6) that decides whether a v1 contract may still be
      modified goes through host/contracts/manager.go isGoodForModification, whose FIRST clause is
          contract.Status != ContractStatusActive && contract.Status != ContractStatusPending  ->  refuse
      It is evaluated by Manager.Lock (lock.go:98, after the lock was acquired and Store.Contract read the
      row: the lock is released again) and by Manager.Revisable (manager.go:400, fixes/C06-revise-guard-at-
      commit.patch), which Manager.ReviseContract, ContractUpdater.Commit and Manager.RenewContract call.
      The status is written by the chain subscriber (persist/sqlite/consensus.go: applyContractFormation
      pending -> active, RejectContracts pending -> rejected, applySuccessfulContracts / applyFailedContracts
      and their reverts) in transactions of its own that take no contract lock: a status can change while a
      session holds the lock or waits for it.  Those writers touch neither contract_sector_roots nor the
      revision columns nor Manager.sectorRoots ([HStatus] changes the status and nothing else; the deletion
      of the root rows of rejected / expired contracts is a later, separate step: Chain.v XExpire).
      What is NOT guarded by the status, in the code and therefore here: accounts.Credit ->
      Store.CreditAccountWithContract -> reviseContract (UPDATE contracts SET revision_number ...:
      [SPayPersist]) of a paying RHP3 RPC that got its lock before the status changed; and everything v2 —
      Manager.LockV2Contract, ReviseV2Contract, RenewV2Contract read renewed_to and the proof height, never
      the status ("not checking status here since that is only changed after the renewal is confirmed",
      manager.go:207).

   2. The updater calls of a handler.  rhp/v2/rpc.go rpcWrite and rhp/v3/execute.go (AppendSector,
      AppendSectorRoot, SwapSector, DropSectors, UpdateSector) call ContractUpdater.AppendSector /
      SwapSectors / TrimSectors / UpdateSector; the peer learns whether the action was accepted, not the
      updater's list.  [HAct] is Model.v's [Act] with the observation cut down to that.

   3. (round 2) The expiry of root rows and the v2 status guard.  Manager.ProcessActions ends with
      Store.ExpireContractSectors / ExpireV2ContractSectors (persist/sqlite/contracts.go
      deleteExpired(V2)ContractSectors): DELETE the root rows of every contract that is REJECTED (or past
      its window / expiration height: not reached in the histories of this layer).  The manager's cache
      entry stays.  [HExpire] records the contracts whose rows are gone in [hexp]; the manager / session
      state [hS] keeps the rows as a ghost and what the database holds is [hreal] = the ghost with the rows
      of the [hexp] contracts erased — [Look1] / [Look2] answer from it.  This is sound for the code WITH
      fixes/C03-v2-rejected-contract-not-revisable.patch, which the model contains: a rejected contract
      refuses every call that would read or write its rows (v1: isGoodForModification as above; v2, the
      patch: LockV2Contract reports Revisable = false, ReviseV2Contract and RenewV2Contract refuse), so the
      ghost rows of a contract in [hexp] are never looked at again.  Without the patch the v2 path reads no
      status: Model.v's [Revise2] run on [hreal] is what the code does then, and it breaks C03
      (HandProofs.v rejected_v2_revised_refuted).  Not modelled after an expiry: Prune / Located /
      CountSectors (they see the erased rows) and the cache entry of an [hexp] contract after a restart.

   A missing entry of the status table stands for "as formed" (pending): Form1 / Form2 / an accepted renewal
   need no step of their own here. *)
From HostdBase Require Import Base.
From HostdRoots Require Import Model Sess Chain.
Open Scope N_scope.

Record hstate := mkh { hS : sstate; hst : list (cid * cstatus); hexp : list cid }.
Definition hinit : hstate := {| hS := sinit; hst := []; hexp := [] |}.
Definition set_hS (H : hstate) (S : sstate) : hstate := {| hS := S; hst := hst H; hexp := hexp H |}.

Inductive hop :=
| HS (e : sop)                          (* an event of Sess.v *)
| HAct (t : sid) (u : N) (a : action)   (* an updater action of session t's handler *)
| HStatus (id : cid) (st : cstatus)     (* the chain subscriber writes the status of contract id *)
| HExpire.                              (* ExpireContractSectors + ExpireV2ContractSectors: the rows of rejected contracts *)

Inductive hobs :=
| HSeen (o : sobs')
| HORes (r : res unit).
Definition hs (o : sobs) : hobs := HSeen (SSeen o).

(* ContractStatusPending / ContractStatusActive *)
Definition usable (st : option cstatus) : bool :=
  match st with
  | None | Some CPending | Some CActive => true
  | _ => false
  end.
Definition hstatus (H : hstate) (id : cid) : option cstatus := alookup id (hst H).
Definition is_rej (H : hstate) (id : cid) : bool :=
  match hstatus H id with Some CRejected => true | _ => false end.

(* what the database holds: the root rows of the contracts in [dead] are deleted *)
Definition erase_rows (dead : list cid) (t : list (cid * ct)) : list (cid * ct) :=
  map (fun p => if mem (fst p) dead then (fst p, with_rows (snd p) []) else p) t.
Definition hreal (H : hstate) : state :=
  let s := sb (hS H) in
  set_dbs s (set_t2 (set_t1 (dbs s) (erase_rows (hexp H) (t1 (dbs s)))) (erase_rows (hexp H) (t2 (dbs s)))).

(* Manager.Revisable on a contract whose status is neither pending nor active: Store.Contract (one read
   transaction, which an injected store failure can hit), then the refusal *)
Definition refused_m (s : state) (id : cid) : M unit :=
  mdo _ <- store_get (t1 (dbs s)) id; lift (Err EInvalid).
Definition refused_res (s : state) (id : cid) (fault : option nat) : res unit :=
  match refused_m s id fault with
  | Ok _ => Err EInvalid
  | Err e => Err e
  | Panic => Panic
  end.

(* the same for the v2 calls of the patch: Store.V2Contract, then "rejected contracts cannot be revised / renewed" *)
Definition refused_res2 (s : state) (id : cid) (fault : option nat) : res unit :=
  match (mdo _ <- store_get (t2 (dbs s)) id; lift (Err EInvalid) : M unit) fault with
  | Ok _ => Err EInvalid
  | Err e => Err e
  | Panic => Panic
  end.

(* the answer of an event that isGoodForModification stops on the status; None = the status has no say
   (the event does not read it, the contract does not exist, the lock is busy, the status is fine) *)
Definition status_stop (H : hstate) (e : sop) : option sobs :=
  let S := hS H in
  let s := sb S in
  let bad id := opt_is_some (alookup id (t1 (dbs s))) && negb (usable (hstatus H id)) in
  let bad2 id := opt_is_some (alookup id (t2 (dbs s))) && is_rej H id in
  match e with
  | SOp _ (Revise2 id _ _ _ _ _ fault) =>
      if bad2 id then Some (SO (ORes (refused_res2 s id fault))) else None
  | SOp _ (Renew2 old _ _ _ true fault) | SRenewH _ true (Renew2 old _ _ _ true fault) =>
      if bad2 old then Some (SO (ORes (refused_res2 s old fault))) else None
  | SAcq1 _ id =>
      if lock_free S id && bad id then Some (SOLock1 (Err EInvalid)) else None
  | SOp _ (Lock1 id) =>
      if negb (mem id (locks s)) && bad id then Some (SO (ORes (Err EInvalid))) else None
  | SOp _ (Open1 _ id) =>
      if bad id then Some (SO (ORes (Err EInvalid))) else None
  | SOp _ (Commit1 u _ _ _ fault) =>
      match alookup u (upds s) with
      | Some x => if bad (u_cid x) then Some (SO (ORes (refused_res s (u_cid x) fault))) else None
      | None => None
      end
  | SOp _ (Renew1 old _ _ _ _ _ _ _ _ _ fault) | SRenewH _ true (Renew1 old _ _ _ _ _ _ _ _ _ fault) =>
      if bad old then Some (SO (ORes (refused_res s old fault))) else None
  | _ => None
  end.

(* LockV2Contract of the patch: Revisable = not renewed, not REJECTED, below the last revisable height *)
Definition patch_lock2 (H : hstate) (e : sop) (o : sobs) : sobs :=
  match e, o with
  | SAcq2 _ id, SO (OLock2 (Ok (r, rn, rv, l))) | SOp _ (Lock2 id), SO (OLock2 (Ok (r, rn, rv, l))) =>
      SO (OLock2 (Ok (r, rn, rv && negb (is_rej H id), l)))
  | _, _ => o
  end.
(* Store.SectorRoots / V2SectorRoots read what the database holds *)
Definition patch_look (H : hstate) (e : sop) (o : sobs) : sobs :=
  match e, o with
  | SOp _ (Look1 id), SO (OLook f d c r z m t fr) | SOp _ (Look2 id), SO (OLook f d c r z m t fr) =>
      if mem id (hexp H) then SO (OLook f [] c r z m t fr) else o
  | _, _ => o
  end.

Definition act_res (o : sobs) : hobs :=
  match o with
  | SO (OAct r _) => HORes r
  | _ => hs o
  end.

Definition hstep (H : hstate) (e : hop) : hstate * hobs :=
  match e with
  | HS e0 =>
      if sownb (hS H) e0 then
        match status_stop H e0 with
        | Some ob => (H, hs ob)
        | None => let '(S', ob) := sstep faithful (hS H) e0 in
                  (set_hS H S', hs (patch_look H e0 (patch_lock2 H e0 ob)))
        end
      else (H, HSeen SOutsideLock)
  | HAct t u a =>
      let '(S', ob) := sstep faithful (hS H) (SOp t (Act u a)) in (set_hS H S', act_res ob)
  | HStatus id st =>
      ({| hS := hS H; hst := aset id st (hst H); hexp := hexp H |}, HORes (Ok tt))
  | HExpire =>
      let s := sb (hS H) in
      let rej := filter (fun id => is_rej H id && negb (mem id (hexp H))) (map fst (t1 (dbs s)) ++ map fst (t2 (dbs s))) in
      ({| hS := hS H; hst := hst H; hexp := hexp H ++ rej |}, HORes (Ok tt))
  end.

Definition hruns (H : hstate) (evs : list hop) : hstate := fold_left (fun H e => fst (hstep H e)) evs H.

(** * Correspondence entry point *)

Definition hobs_eqb (a b : hobs) : bool :=
  match a, b with
  | HSeen (SSeen x), HSeen (SSeen y) => sobs_eqb x y
  | HORes x, HORes y => res_eqb unit_eqb x y
  | _, _ => false
  end.

Definition hcase := (N * list (hop * hobs))%type.
Definition hcheck (cs : list hcase) := mismatches hinit hstep hobs_eqb cs.
