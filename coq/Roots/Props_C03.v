(* C03 — Contract sector list equals what the signed revision commits to.
   Statements only; every proof is [exact lemma].  Model: Model.v (the code with
   fixes/C03-updater-stale-oldroots.patch and, WP-G, with fixes/C06-revise-guard-at-commit.patch:
   ReviseContract / ContractUpdater.Commit / RenewContract evaluate isGoodForModification at the tip of
   that moment; the statements that serve C06's consequence clause are in Props_C06_Guard.v).

   Vocabulary
     meta            rhp2.MetaRoot as an arbitrary function of the root list (the operations carry
                     its values as oracle fields; [disc] says what each oracle field is)
     disc meta s o   the discipline of the callers (ProofsInv.v): the RHP handlers revise / renew a
                     v1 contract only under Manager.Lock, with one updater per contract at a time,
                     only while its revision number is below the maximum, and sign revisions whose
                     file size and Merkle root are those of the updater's list; contract ids are
                     unique; a v2 contract has one renewal id.  Never the raw store calls.
     reach meta s    s is reached from the empty host by a disciplined history (any length, any
                     number of contracts and updaters, store failures injected at any statement)
     is_live s id c  c is the row of contract id (v1 or v2) and has not been superseded by a renewal
     tbl_list (rows c)   the persisted list in root_index order (Store.SectorRoots / V2SectorRoots)
     cache_get s id      the list served from memory (Manager.SectorRoots) *)
From HostdBase Require Import Base.
From HostdRoots Require Import Model Lists ProofsReplay ProofsInv ProofsStep ProofsRenew ProofsSpec ProofsTop.
From HostdRoots Require Import Sess SessFrame SessProofs SessTop SessCheck.
Open Scope N_scope.

(* Store.ReviseContract's replay of an action list the updater accepted, on a table that
   equals the updater's old list: exactly the fold of the actions if every sector it needs
   is stored, a store error (and nothing else) otherwise.  [ns] is the contract-sector counter
   (metricContractSectors); it follows the list length and cannot underflow while it is at
   least the length of the list. *)
Theorem c03_replay_is_fold : forall stored acts l l' ns,
  fold_upd l acts = Ok l' -> nlen l <= ns ->
  store_replay stored (tbl_of l) l ns acts None =
  if acts_stored stored acts then Ok ((tbl_of l', ns + nlen l' - nlen l), None) else Err EOther.
Proof. exact replay_char. Qed.
Print Assumptions c03_replay_is_fold.

Theorem c03_replay_refines_list : forall stored acts l l' ns,
  fold_upd l acts = Ok l' -> nlen l <= ns -> acts_stored stored acts = true ->
  store_replay stored (tbl_of l) l ns acts None = Ok ((tbl_of l', ns + nlen l' - nlen l), None).
Proof. exact replay_refines_list. Qed.
Print Assumptions c03_replay_refines_list.

(* updateV2ContractSectors: the diff against the old list leaves exactly the new list *)
Theorem c03_v2_replacement_exact : forall stored old new ns,
  nlen old <= ns -> all_stored stored new = true ->
  v2_diff stored (tbl_of old) old new ns None = Ok ((tbl_of new, ns + nlen new - nlen old), None).
Proof. exact v2_diff_correct. Qed.
Print Assumptions c03_v2_replacement_exact.

Theorem c03_v2_replacement_exact_or_rejected : forall stored old new ns t ns' k,
  nlen old <= ns ->
  v2_diff stored (tbl_of old) old new ns None = Ok ((t, ns'), k) ->
  t = tbl_of new /\ ns' = ns + nlen new - nlen old /\ k = None.
Proof. exact v2_diff_ok_inv. Qed.
Print Assumptions c03_v2_replacement_exact_or_rejected.

(* The invariant: in every reachable state, for every contract that has not been superseded,
   persisted list = served list, file size = length x sector size and Merkle root = meta of
   that list, of the latest revision the host signed. *)
Theorem c03_invariant : forall meta s id c, reach meta s -> is_live s id c ->
  tbl_list (rows c) = cache_get s id /\
  fsize c = sector_size * nlen (cache_get s id) /\
  mroot c = meta (cache_get s id).
Proof. exact c03_invariant_l. Qed.
Print Assumptions c03_invariant.

(* ... and that list is the one implied by the accepted modifications: the specification
   machine [astep] sees only the operations and whether the host accepted them (append, swap,
   trim, update through updaters committed once or many times; v2 replacement; renewal
   hand-over) and keeps one plain list per contract. *)
Theorem c03_lists_are_accepted_modifications : forall meta ops id c,
  disc_run meta init ops -> is_live (runs init ops) id c ->
  tbl_list (rows c) = aget (aruns init ainit ops) id /\
  cache_get (runs init ops) id = aget (aruns init ainit ops) id /\
  fsize c = sector_size * nlen (aget (aruns init ainit ops) id) /\
  mroot c = meta (aget (aruns init ainit ops) id).
Proof. exact c03_spec_l. Qed.
Print Assumptions c03_lists_are_accepted_modifications.

(* an open updater's working list is the fold of the actions it accepted over the served list *)
Theorem c03_updater_is_fold : forall meta s u x, reach meta s -> alookup u (upds s) = Some x ->
  u_old x = cache_get s (u_cid x) /\ fold_upd (u_old x) (u_acts x) = Ok (u_roots x).
Proof. exact c03_updater_l. Qed.
Print Assumptions c03_updater_is_fold.

(* A rejected or failed operation (validation error, missing stored sector, store failure)
   leaves the whole state — lists, revisions, links, cache, updaters — as it was. *)
Theorem c03_rejected_unchanged : forall s o s' r,
  step s o = (s', ORes r) -> r <> Ok tt -> s' = s.
Proof. exact step_error_unchanged. Qed.
Print Assumptions c03_rejected_unchanged.

Theorem c03_rejected_action_unchanged : forall s u a s' r l,
  step s (Act u a) = (s', OAct r l) -> r <> Ok tt -> s' = s.
Proof. exact act_error_unchanged. Qed.
Print Assumptions c03_rejected_action_unchanged.

(* A store failure injected at any statement k of a commit, v2 revision or renewal: either
   the statement is never reached (same result as without the failure) or the operation
   reports the store error and the state is unchanged. *)
Theorem c03_failure_at_any_statement : forall s o k,
  match o with
  | Commit1 u a b c _ =>
      step s (Commit1 u a b c (Some k)) = step s (Commit1 u a b c None) \/
      step s (Commit1 u a b c (Some k)) = (s, ORes (Err EOther))
  | Renew1 a b c d e f g h i j _ =>
      step s (Renew1 a b c d e f g h i j (Some k)) = step s (Renew1 a b c d e f g h i j None) \/
      step s (Renew1 a b c d e f g h i j (Some k)) = (s, ORes (Err EOther))
  | Revise2 a b c d e f _ =>
      step s (Revise2 a b c d e f (Some k)) = step s (Revise2 a b c d e f None) \/
      step s (Revise2 a b c d e f (Some k)) = (s, ORes (Err EOther))
  | Renew2 a b c d e _ =>
      step s (Renew2 a b c d e (Some k)) = step s (Renew2 a b c d e None) \/
      step s (Renew2 a b c d e (Some k)) = (s, ORes (Err EOther))
  | _ => True
  end.
Proof. exact fault_any_statement. Qed.
Print Assumptions c03_failure_at_any_statement.

(* a commit that needs a sector the host does not store is rejected as a whole (the contract still
   revisable at the current tip: otherwise the commit is refused before the store is asked,
   c06_late_revision_refused) *)
Theorem c03_missing_sector_rejected : forall meta s u x nrev nfsize nmroot, reach meta s ->
  alookup u (upds s) = Some x -> acts_stored (stored (dbs s)) (u_acts x) = false ->
  (forall c, alookup (u_cid x) (t1 (dbs s)) = Some c -> good1 (height s) c = true) ->
  step s (Commit1 u nrev nfsize nmroot None) = (s, ORes (Err EOther)).
Proof. exact c03_commit_missing_l. Qed.
Print Assumptions c03_missing_sector_rejected.

(* the modifications the updater accepted are accepted by the store when their sectors are
   stored and the contract is still revisable at the current tip (so "accepted" is not vacuous), and
   the served list becomes the updater's *)
Theorem c03_commit_accepted : forall meta s u x nrev nfsize nmroot, reach meta s ->
  alookup u (upds s) = Some x -> acts_stored (stored (dbs s)) (u_acts x) = true ->
  (forall c, alookup (u_cid x) (t1 (dbs s)) = Some c -> good1 (height s) c = true) ->
  snd (step s (Commit1 u nrev nfsize nmroot None)) = ORes (Ok tt) /\
  cache_get (fst (step s (Commit1 u nrev nfsize nmroot None))) (u_cid x) = u_roots x.
Proof. exact c03_commit_accepted_l. Qed.
Print Assumptions c03_commit_accepted.

Theorem c03_v2_revision_accepted : forall meta s id e c newroots, reach meta s ->
  alookup id (t2 (dbs s)) = Some e -> rto e = None -> mem id (rejd (dbs s)) = false ->
  rk e = r2_rk c -> hk e = r2_hk c -> wstart e = r2_ph c -> expi e = r2_exp c ->
  r2_fsize c = sector_size * nlen newroots -> r2_fsize c <= r2_cap c ->
  r2_mroot c = meta newroots -> all_stored (stored (dbs s)) newroots = true ->
  snd (step s (Revise2 id c newroots (meta newroots) true true None)) = ORes (Ok tt) /\
  cache_get (fst (step s (Revise2 id c newroots (meta newroots) true true None))) id = newroots.
Proof. exact c03_revise2_accepted_l. Qed.
Print Assumptions c03_v2_revision_accepted.

(* What a rejected v2 contract refuses (/repo 7f58b1d): in ANY state in which RejectContracts has marked the
   contract, ReviseV2Contract and RenewV2Contract answer an error and change nothing — whatever the revision,
   roots, signatures, transaction set, and with a store failure at any statement — and LockV2Contract reports
   it not revisable.  (Its root rows are deleted by the next expiry: Props_C03_Hand.v.)  The v1 guard of this
   layer has the height and revision-number clauses; its status clause is in Hand.v. *)
Theorem c03_rejected_v2_contract_refuses : forall s id, mem id (rejd (dbs s)) = true ->
  (forall c l m a b f, exists r, step s (Revise2 id c l m a b f) = (s, ORes r) /\ r <> Ok tt) /\
  (forall new c m wf f, exists r, step s (Renew2 id new c m wf f) = (s, ORes r) /\ r <> Ok tt) /\
  (forall r rn rv l, snd (step s (Lock2 id)) = OLock2 (Ok (r, rn, rv, l)) -> rv = false).
Proof. exact rejected2_refuses_l. Qed.
Print Assumptions c03_rejected_v2_contract_refuses.

(* RejectContracts writes the status of the contracts it reports and nothing else *)
Theorem c03_reject_keeps_lists : forall s ids,
  let s' := fst (step s (Reject ids)) in
  t1 (dbs s') = t1 (dbs s) /\ t2 (dbs s') = t2 (dbs s) /\ cache s' = cache s /\ nsec (dbs s') = nsec (dbs s) /\
  stored (dbs s') = stored (dbs s) /\ located (dbs s') = located (dbs s) /\
  forall id, mem id ids = true -> mem id (rejd (dbs s')) = true.
Proof. exact reject_keeps_lists_l. Qed.
Print Assumptions c03_reject_keeps_lists.

(* no disciplined operation panics in a reachable state (no counter underflow, no index out
   of range in the replay), so "rejected or failed" really is an error return *)
Theorem c03_disciplined_never_panics : forall meta s o, reach meta s -> disc meta s o ->
  is_panic_obs (snd (step s o)) = false.
Proof. exact c03_no_panic_l. Qed.
Print Assumptions c03_disciplined_never_panics.

(* Restart (reopen the database, NewManager): the database is untouched and every contract that
   has not been superseded is served the same list. *)
Theorem c03_restart_same_lists : forall meta s id c, reach meta s -> is_live s id c ->
  dbs (fst (step s Restart)) = dbs s /\
  cache_get (fst (step s Restart)) id = cache_get s id /\
  is_live (fst (step s Restart)) id c.
Proof. exact c03_restart_l. Qed.
Print Assumptions c03_restart_same_lists.

(* ------------------------------------------------------------------------------------------------
   WP-N: the list a caller is handed under the contract lock (Sess.v: sessions over the manager).

     sstep faithful S e     sessions queue on a contract lock (SReq), get it (SAcq1 = Manager.Lock returns,
                            SAcq2 = LockV2Contract returns: contract row and cached roots are read at
                            that moment, after the lock is acquired), make manager calls (SOp), release
     sdisc meta true S e    the lock protocol: a call that writes contract id is made by the holder of
                            id's lock, Unlock by the holder (rhp/v2, rhp/v3, coreutils rhp/v4 handlers;
                            the bracket itself is C15's c15_users_mutual_exclusion)
     sreach meta S          S is reached from the empty host by a history of sessions that respects it:
                            any number of sessions, any interleaving with other sessions' commits
     views S                what each current lock holder was handed
   ------------------------------------------------------------------------------------------------ *)

(* LockV2Contract, whoever held the lock before and whatever it committed: the revision and the list
   handed to the caller agree — |l| x SectorSize = file size, meta l = Merkle root, l = the persisted
   list = the list served from memory *)
Theorem c03_lock_returns_current_list : forall meta S t id S' r rv l,
  sreach meta S -> sstep faithful S (SAcq2 t id) = (S', SO (OLock2 (Ok (r, false, rv, l)))) ->
  exists c, alookup id (t2 (dbs (sb S))) = Some c /\ rto c = None /\ r = rev c /\
    l = tbl_list (rows c) /\ l = cache_get (sb S) id /\
    fsize c = sector_size * nlen l /\ mroot c = meta l.
Proof. exact acquire2_view_agrees. Qed.
Print Assumptions c03_lock_returns_current_list.

(* Manager.Lock: the returned revision is the stored one and commits to the list the manager serves *)
Theorem c03_v1_lock_returns_current_revision : forall meta S t id S' r f m,
  sreach meta S -> sstep faithful S (SAcq1 t id) = (S', SOLock1 (Ok (r, f, m))) ->
  exists c, alookup id (t1 (dbs (sb S))) = Some c /\ rto c = None /\ r = rev c /\
    tbl_list (rows c) = cache_get (sb S) id /\
    f = sector_size * nlen (cache_get (sb S) id) /\ m = meta (cache_get (sb S) id).
Proof. exact acquire1_view_agrees. Qed.
Print Assumptions c03_v1_lock_returns_current_revision.

(* ... and while the lock is held, over any continuation of the other sessions: what the holder was
   handed is still the contract — same revision, same list, persisted = served = handed, file size and
   Merkle root of that list — until the holder writes the contract itself *)
Theorem c03_locked_view_is_current : forall meta S t w,
  sreach meta S -> alookup t (views S) = Some w ->
  alookup (w_id w) (owner S) = Some t /\
  if w_v1 w then
    exists c, alookup (w_id w) (t1 (dbs (sb S))) = Some c /\ rto c = None /\
      rev c = w_rev w /\ fsize c = w_fsize w /\ mroot c = w_mroot w /\
      tbl_list (rows c) = cache_get (sb S) (w_id w) /\
      w_fsize w = sector_size * nlen (cache_get (sb S) (w_id w)) /\ w_mroot w = meta (cache_get (sb S) (w_id w))
  else
    exists c, alookup (w_id w) (t2 (dbs (sb S))) = Some c /\ w_renewed w = opt_is_some (rto c) /\
      rev c = w_rev w /\ fsize c = w_fsize w /\ mroot c = w_mroot w /\
      cache_get (sb S) (w_id w) = w_roots w /\
      (w_renewed w = false ->
         tbl_list (rows c) = w_roots w /\ w_fsize w = sector_size * nlen (w_roots w) /\ w_mroot w = meta (w_roots w)).
Proof. exact locked_view_is_current. Qed.
Print Assumptions c03_locked_view_is_current.

(* the invariant of ProofsInv.v holds in every state the sessions reach (payment revisions included),
   so every theorem above stated for [reach] holds there *)
Theorem c03_invariant_under_sessions : forall meta S, sreach meta S -> Inv meta (sb S).
Proof. exact (fun meta S R => si_inv meta S (sreach_sinv meta S R)). Qed.
Print Assumptions c03_invariant_under_sessions.

(* the discipline splits into the callers' discipline towards the manager (disc) and the lock protocol
   (sown); the latter is what scheck checks, event by event, on every history a sessions harness records:
   an event it lets through satisfies it (otherwise the check reports SOutsideLock) *)
Theorem c03_discipline_is_base_and_lock_protocol : forall meta S e,
  sdisc meta true S e <-> sbase meta S e /\ sown S e.
Proof. exact sdisc_split. Qed.
Print Assumptions c03_discipline_is_base_and_lock_protocol.

Theorem c03_checked_histories_respect_lock_protocol : forall S e, sownb S e = true -> sown S e.
Proof. exact sownb_sound. Qed.
Print Assumptions c03_checked_histories_respect_lock_protocol.

(* Legacy (seeded change C03-mut7, never the code at HEAD): LockV2Contract copies the cached roots
   BEFORE it waits for the lock (variant snapv).  A history that respects the lock protocol — session 1
   holds contract 7, session 2 queues, 1 appends a root and releases — hands session 2 revision 1 with
   the list from before: file size and Merkle root do not match it, the host persists another list. *)
Theorem c03_locked_view_read_before_lock_refuted : exists evs t w,
  sdisc_run meta0 true snapv sinit evs /\
  alookup t (views (sruns snapv sinit evs)) = Some w /\ w_renewed w = false /\
  w_fsize w <> sector_size * nlen (w_roots w) /\ w_mroot w <> meta0 (w_roots w) /\
  w_roots w <> cache_get (sb (sruns snapv sinit evs)) (w_id w).
Proof. exact snap_before_lock_refuted. Qed.
Print Assumptions c03_locked_view_read_before_lock_refuted.


(* non-vacuity: a disciplined history with three commits on one updater (one of them hit by
   a store failure), a renewal, a revision of the successor and a restart *)
Example c03_nonvacuous :
  disc_run meta0 init ex_ops /\
  cache_get (runs init ex_ops) 8 = [1; 3] /\
  aget (aruns init ainit ex_ops) 8 = [1; 3].
Proof. exact (conj ex_disc (conj (proj1 ex_final) (proj1 (proj2 ex_final)))). Qed.

(* non-vacuity of the sessions' discipline: holder 1, waiter 2 queued through an append; on the faithful
   model the waiter is handed revision 1 with the new list *)
Example c03_sessions_nonvacuous :
  sdisc_run meta0 true faithful sinit ex_snap /\
  exists w, alookup 2 (views (sruns faithful sinit ex_snap)) = Some w /\ w_rev w = 1 /\ w_roots w = [1] /\
            w_fsize w = sector_size * nlen (w_roots w).
Proof. exact ex_snap_faithful. Qed.
