From HostdBase Require Import Base.
From HostdRoots Require Import Model.
Example c03_nonvacuous : fold_upd [1;2]%N [Append 3%N] = Ok [1;2;3]%N.
Proof. vm_compute; reflexivity. Qed.
