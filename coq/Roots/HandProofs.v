(* Roots/HandProofs.v — histories of Hand.v (session events, handler updater calls, status changes made by
   the chain subscriber) are histories of Sess.v with some events refused; the session statements of
   C03 / C13 hold in every state such a history reaches (WP-Y). *)
From Coq Require Import Lia ZifyBool ZifyN ZifyNat.
From HostdBase Require Import Base.
From HostdRoots Require Import Model Sess Chain Hand Lists ProofsReplay ProofsInv ProofsStep ProofsRenew ProofsTop
  SessFrame SessProofs SessTop.
Open Scope N_scope.

Section HTop.
Variable meta : list root -> hash.
Notation Inv := (Inv meta).
Notation SInv := (SInv meta).

(** * runs of Sess.v can be extended at the end *)

Lemma sruns_app v S l1 l2 : sruns v S (l1 ++ l2) = sruns v (sruns v S l1) l2.
Proof. unfold sruns. apply fold_left_app. Qed.

Lemma sdisc_run_app strict v : forall l1 S l2,
  sdisc_run meta strict v S (l1 ++ l2) <-> sdisc_run meta strict v S l1 /\ sdisc_run meta strict v (sruns v S l1) l2.
Proof.
  induction l1 as [|e l1 IH]; intros S l2; cbn [app sdisc_run sruns fold_left]; [tauto|].
  rewrite IH. unfold sruns. tauto.
Qed.

Lemma sreach_step S e : sreach meta S -> sdisc meta true S e -> sreach meta (fst (sstep faithful S e)).
Proof.
  intros (evs & D & ->) De. exists (evs ++ [e]). split.
  - apply sdisc_run_app. split; [exact D|]. cbn [sdisc_run]. split; [exact De|exact I].
  - now rewrite sruns_app.
Qed.

Lemma sreach_init : sreach meta sinit.
Proof. exists []. split; [exact I|reflexivity]. Qed.

(** * the discipline of a history of Hand.v: that of Sess.v; a status change is the chain's business *)

Definition hdisc (H : hstate) (e : hop) : Prop :=
  match e with
  | HS e0 => sdisc meta true (hS H) e0
  | HAct t u a => sdisc meta true (hS H) (SOp t (Act u a))
    (* a contract whose rows the host has deleted stays rejected (a formation that confirms after the host
       gave the contract up leaves a confirmed contract without data: not a matter of this layer) *)
  | HStatus id st => mem id (hexp H) = true -> st = CRejected
  | HExpire => True
  end.

Fixpoint hdisc_run (H : hstate) (evs : list hop) : Prop :=
  match evs with
  | [] => True
  | e :: rest => hdisc H e /\ hdisc_run (fst (hstep H e)) rest
  end.

Inductive hreach : hstate -> Prop :=
| hreach_init : hreach hinit
| hreach_step H e : hreach H -> hdisc H e -> hreach (fst (hstep H e)).

Lemma hreach_runs : forall evs H, hreach H -> hdisc_run H evs -> hreach (hruns H evs).
Proof.
  induction evs as [|e evs IH]; intros H R D; cbn in *; [exact R|].
  destruct D as [D1 D2]. apply IH; [now apply hreach_step|exact D2].
Qed.

(* a step of Hand.v leaves the sessions as they are or is a disciplined step of Sess.v *)
Lemma hstep_cases H e : hdisc H e ->
  hS (fst (hstep H e)) = hS H \/
  exists e0, sdisc meta true (hS H) e0 /\ hS (fst (hstep H e)) = fst (sstep faithful (hS H) e0).
Proof.
  intros D. destruct e as [e0|t u a|id st|]; cbn [hstep hdisc] in *.
  - destruct (sownb (hS H) e0); [|now left].
    destruct (status_stop H e0); [now left|].
    right. exists e0. split; [exact D|]. now destruct (sstep faithful (hS H) e0).
  - right. exists (SOp t (Act u a)). split; [exact D|]. now destruct (sstep faithful (hS H) (SOp t (Act u a))).
  - now left.
  - now left.
Qed.

Theorem hreach_sreach H : hreach H -> sreach meta (hS H).
Proof.
  induction 1 as [|H e R IH D]; [exact sreach_init|].
  destruct (hstep_cases H e D) as [-> | (e0 & D0 & ->)]; [exact IH|now apply sreach_step].
Qed.

Theorem hreach_sinv H : hreach H -> SInv (hS H).
Proof. intros R. apply sreach_sinv. now apply hreach_sreach. Qed.

(** * what a caller is handed when it gets the lock, with the chain changing statuses meanwhile *)

Lemma hstep_HS_ok H e H' ob :
  hstep H (HS e) = (H', hs ob) -> status_stop H e = None ->
  exists ob', sstep faithful (hS H) e = (hS H', ob') /\ ob = patch_look H e (patch_lock2 H e ob').
Proof.
  cbn [hstep]. intros E St. rewrite St in E. destruct (sownb (hS H) e); [|discriminate].
  destruct (sstep faithful (hS H) e) as [S' ob']. exists ob'. now inversion E.
Qed.

Theorem hand_acquire1 H t id H' r f m :
  hreach H -> hstep H (HS (SAcq1 t id)) = (H', hs (SOLock1 (Ok (r, f, m)))) ->
  usable (hstatus H id) = true /\
  exists c, alookup id (t1 (dbs (sb (hS H)))) = Some c /\ rto c = None /\ r = rev c /\
    tbl_list (rows c) = cache_get (sb (hS H)) id /\
    f = sector_size * nlen (cache_get (sb (hS H)) id) /\ m = meta (cache_get (sb (hS H)) id).
Proof.
  intros R E.
  assert (St : status_stop H (SAcq1 t id) = None).
  { cbn [hstep sownb] in E. destruct (status_stop H (SAcq1 t id)) as [ob|] eqn:St; [|reflexivity].
    cbn [status_stop] in St. destruct (lock_free (hS H) id && _); [|discriminate]. inversion St; subst ob. discriminate. }
  destruct (hstep_HS_ok _ _ _ _ E St) as (ob' & E1 & Eo). cbn [patch_lock2 patch_look] in Eo. subst ob'.
  destruct (acquire1_view_agrees meta _ _ _ _ _ _ _ (hreach_sreach H R) E1) as (c & L & Hc).
  split; [|exists c; split; [exact L|exact Hc]].
  cbn [status_stop] in St. cbn [sstep] in E1.
  destruct (lock_free (hS H) id); [|discriminate]. rewrite L in St. cbn [opt_is_some andb] in St.
  destruct (usable (hstatus H id)); [reflexivity|discriminate].
Qed.

Theorem hand_acquire2 H t id H' r rv l :
  hreach H -> hstep H (HS (SAcq2 t id)) = (H', hs (SO (OLock2 (Ok (r, false, rv, l))))) ->
  exists c, alookup id (t2 (dbs (sb (hS H)))) = Some c /\ rto c = None /\ r = rev c /\
    l = tbl_list (rows c) /\ l = cache_get (sb (hS H)) id /\
    fsize c = sector_size * nlen l /\ mroot c = meta l.
Proof.
  intros R E. destruct (hstep_HS_ok _ _ _ _ E eq_refl) as (ob' & E1 & Eo).
  assert (exists rv', ob' = SO (OLock2 (Ok (r, false, rv', l)))) as (rv' & ->).
  { cbn [patch_lock2 patch_look] in Eo. destruct ob' as [[ | | |[[[[r0 rn0] rv0] l0]| |]| | ]| |]; try discriminate.
    inversion Eo; subst. eauto. }
  exact (acquire2_view_agrees meta _ _ _ _ _ _ _ (hreach_sreach H R) E1).
Qed.

Theorem hand_locked_view_is_current H t w :
  hreach H -> alookup t (views (hS H)) = Some w ->
  alookup (w_id w) (owner (hS H)) = Some t /\ view_cur (sb (hS H)) w.
Proof.
  intros R L. exact (si_view meta _ (hreach_sinv H R) t w L).
Qed.

(** * a status change changes nothing else; an unusable contract refuses, and nothing changes *)

Theorem status_change_keeps_everything H id st :
  hS (fst (hstep H (HStatus id st))) = hS H /\ hstatus (fst (hstep H (HStatus id st))) id = Some st.
Proof. cbn [hstep fst hS]. split; [reflexivity|]. unfold hstatus. cbn [hst]. rewrite alookup_aset, N.eqb_refl. reflexivity. Qed.

Definition unusable (H : hstate) (id : cid) : Prop :=
  alookup id (t1 (dbs (sb (hS H)))) <> None /\ usable (hstatus H id) = false.

Lemma unusable_bad H id : unusable H id ->
  opt_is_some (alookup id (t1 (dbs (sb (hS H))))) && negb (usable (hstatus H id)) = true.
Proof. intros [L U]. rewrite U. destruct (alookup id _); [reflexivity|now elim L]. Qed.

Lemma refused_res_not_ok s id fault : refused_res s id fault <> Ok tt.
Proof. unfold refused_res. destruct (refused_m s id fault); discriminate. Qed.

(* Manager.Lock of a caller that waited or not: refused, the lock stays free, nothing changes *)
Theorem unusable_refuses_lock H t id : unusable H id ->
  hstep H (HS (SAcq1 t id)) = (H, hs (SOLock1 (Err EInvalid))) \/ hstep H (HS (SAcq1 t id)) = (H, hs SOBusy).
Proof.
  intros U. cbn [hstep sownb status_stop]. rewrite (unusable_bad H id U), andb_true_r.
  destruct (lock_free (hS H) id) eqn:F; [now left|right].
  cbn [sstep]. rewrite F. now destruct H.
Qed.

(* the holder of the lock (it got it while the contract was still usable): ReviseContract, Commit — with a
   store failure at any statement —, RenewContract with any pool answer refuse and change nothing *)
Theorem unusable_refuses_holder H t e : sownb (hS H) e = true ->
  (exists u id, e = SOp t (Open1 u id) /\ unusable H id) \/
  (exists u x a b c f, e = SOp t (Commit1 u a b c f) /\ alookup u (upds (sb (hS H))) = Some x /\ unusable H (u_cid x)) \/
  (exists old new a b c d e1 f g h k, (e = SOp t (Renew1 old new a b c d e1 f g h k) \/
                                       e = SRenewH t true (Renew1 old new a b c d e1 f g h k)) /\ unusable H old) ->
  exists r, hstep H (HS e) = (H, hs (SO (ORes r))) /\ r <> Ok tt.
Proof.
  intros Ow [(u & id & -> & U) | [(u & x & a & b & c & f & -> & Lx & U) | (old & new & a & b & c & d & e1 & f & g & h & k & [-> | ->] & U)]];
    cbn [hstep]; rewrite Ow; cbn [status_stop].
  - rewrite (unusable_bad H id U). exists (Err EInvalid). split; [reflexivity|discriminate].
  - rewrite Lx, (unusable_bad H _ U). eexists. split; [reflexivity|apply refused_res_not_ok].
  - rewrite (unusable_bad H old U). eexists. split; [reflexivity|apply refused_res_not_ok].
  - rewrite (unusable_bad H old U). eexists. split; [reflexivity|apply refused_res_not_ok].
Qed.

(* whatever answer a step gives other than Ok leaves the sessions' state (lists, revisions, cache, locks,
   views) unchanged when it is one of the calls that write a contract *)
Theorem refused_on_status_unchanged H e ob : status_stop H e = Some ob -> fst (hstep H (HS e)) = H.
Proof. intros St. cbn [hstep]. rewrite St. now destruct (sownb (hS H) e). Qed.

(** * C13 under status changes: a renewed predecessor stays renewed *)

Theorem hand_renewed_stays : forall evs H id d,
  SInv (hS H) -> hdisc_run H evs ->
  (renewed1 (sb (hS H)) id d -> renewed1 (sb (hS (hruns H evs))) id d) /\
  (renewed2 (sb (hS H)) id d -> renewed2 (sb (hS (hruns H evs))) id d).
Proof.
  induction evs as [|e evs IH]; intros H id d SI D; cbn [hruns fold_left hdisc_run] in *; [tauto|].
  destruct D as [D1 D2].
  assert (SI' : SInv (hS (fst (hstep H e)))).
  { destruct (hstep_cases H e D1) as [-> | (e0 & D0 & ->)]; [exact SI|exact (sinv_step meta true _ e0 SI D0 eq_refl)]. }
  specialize (IH (fst (hstep H e)) id d SI' D2). fold (hruns (fst (hstep H e)) evs) in IH.
  split; intros Rn; apply IH;
    (destruct (hstep_cases H e D1) as [-> | (e0 & D0 & ->)]; [exact Rn|]);
    [now apply (renewed1_sstable meta)|now apply (renewed2_sstable meta)].
Qed.

(** * round 2: the rows of rejected contracts are deleted; the v2 path refuses rejected contracts *)

Lemma mem_app x l1 l2 : mem x (l1 ++ l2) = mem x l1 || mem x l2.
Proof. unfold mem. apply existsb_app. Qed.

Lemma mem_filter_true x f l : mem x (filter f l) = true -> f x = true.
Proof.
  unfold mem. rewrite existsb_exists. intros (y & Hy & E). apply N.eqb_eq in E; subst y.
  apply filter_In in Hy. tauto.
Qed.

Lemma hstep_keeps_tables H e : match e with HS _ | HAct _ _ _ => True | _ => False end ->
  hst (fst (hstep H e)) = hst H /\ hexp (fst (hstep H e)) = hexp H.
Proof.
  destruct e as [e0|t u a|id st|]; try tauto; intros _; cbn [hstep].
  - destruct (sownb (hS H) e0); [|now split]. destruct (status_stop H e0); [now split|].
    now destruct (sstep faithful (hS H) e0).
  - now destruct (sstep faithful (hS H) (SOp t (Act u a))).
Qed.

(* a contract whose rows are gone is a rejected contract, in every reachable state *)
Theorem expired_is_rejected H id : hreach H -> mem id (hexp H) = true -> is_rej H id = true.
Proof.
  induction 1 as [|H e R IH D]; [discriminate|].
  destruct e as [e0|t u a|id' st|].
  - destruct (hstep_keeps_tables H (HS e0) I) as [E1 E2]. unfold is_rej, hstatus. now rewrite E1, E2.
  - destruct (hstep_keeps_tables H (HAct t u a) I) as [E1 E2]. unfold is_rej, hstatus. now rewrite E1, E2.
  - cbn [hstep fst hexp hdisc] in *. intros M. unfold is_rej, hstatus. cbn [hst]. rewrite alookup_aset.
    destruct (id =? id') eqn:E; [|exact (IH M)]. apply N.eqb_eq in E; subst id'. now rewrite (D M).
  - cbn [hstep fst hexp]. rewrite mem_app. intros M. apply orb_true_iff in M as [M|M]; [exact (IH M)|].
    apply mem_filter_true in M. apply andb_true_iff in M as [M _]. exact M.
Qed.

Lemma alookup_erase_rows dead id : forall t,
  alookup id (erase_rows dead t) =
  if mem id dead then option_map (fun c => with_rows c []) (alookup id t) else alookup id t.
Proof.
  induction t as [|[k c] t IH]; cbn [erase_rows map alookup fst snd]; [now destruct (mem id dead)|].
  fold (erase_rows dead t). destruct (mem k dead) eqn:Mk; cbn [alookup]; destruct (id =? k) eqn:E.
  - apply N.eqb_eq in E; subst k. now rewrite Mk.
  - exact IH.
  - apply N.eqb_eq in E; subst k. now rewrite Mk.
  - exact IH.
Qed.

(* C03 on what the database holds: for every contract the host has not given up (its rows were never
   expired) and that is not superseded by a renewal, persisted list = served list, and the stored revision
   commits to it — whatever handlers, waiters, payments, renewals, status changes and expiries came before *)
Theorem live_lists_identical H id c :
  hreach H -> mem id (hexp H) = false ->
  alookup id (t1 (dbs (hreal H))) = Some c \/ alookup id (t2 (dbs (hreal H))) = Some c ->
  rto c = None ->
  tbl_list (rows c) = cache_get (sb (hS H)) id /\
  fsize c = sector_size * nlen (cache_get (sb (hS H)) id) /\ mroot c = meta (cache_get (sb (hS H)) id).
Proof.
  intros R M L Rt. pose proof (si_inv meta _ (hreach_sinv H R)) as I.
  unfold hreal in L. cbn [dbs set_dbs t1 t2 set_t1 set_t2] in L. rewrite !alookup_erase_rows, M in L.
  destruct L as [L|L].
  - destruct (live_rows meta _ _ _ _ _ (inv_t1 meta _ I) L Rt) as (Hr & Hf & Hm).
    repeat split; auto. now rewrite Hr, tbl_list_of.
  - destruct (live_rows meta _ _ _ _ _ (inv_t2 meta _ I) L Rt) as (Hr & Hf & Hm).
    repeat split; auto. now rewrite Hr, tbl_list_of.
Qed.

(* an expiry deletes rows of rejected contracts only, and nothing else changes *)
Theorem expire_only_rejected H id :
  hS (fst (hstep H HExpire)) = hS H /\ hst (fst (hstep H HExpire)) = hst H /\
  (mem id (hexp (fst (hstep H HExpire))) = true -> mem id (hexp H) = true \/ is_rej H id = true).
Proof.
  cbn [hstep fst hS hst hexp]. repeat split. rewrite mem_app. intros M.
  apply orb_true_iff in M as [M|M]; [now left|right].
  apply mem_filter_true in M. now apply andb_true_iff in M as [M _].
Qed.

Definition unusable2 (H : hstate) (id : cid) : Prop :=
  alookup id (t2 (dbs (sb (hS H)))) <> None /\ is_rej H id = true.

Lemma unusable2_bad H id : unusable2 H id ->
  opt_is_some (alookup id (t2 (dbs (sb (hS H))))) && is_rej H id = true.
Proof. intros [L U]. rewrite U. destruct (alookup id _); [reflexivity|now elim L]. Qed.

Lemma refused_res2_not_ok s id fault : refused_res2 s id fault <> Ok tt.
Proof. unfold refused_res2. match goal with |- match ?m with _ => _ end <> _ => destruct m end; discriminate. Qed.

(* the patch: ReviseV2Contract and RenewV2Contract refuse a rejected contract and change nothing *)
Theorem rejected2_refuses H t e : sownb (hS H) e = true ->
  (exists id c l m a b f, e = SOp t (Revise2 id c l m a b f) /\ unusable2 H id) \/
  (exists old new c m f, (e = SOp t (Renew2 old new c m true f) \/ e = SRenewH t true (Renew2 old new c m true f)) /\
                         unusable2 H old) ->
  exists r, hstep H (HS e) = (H, hs (SO (ORes r))) /\ r <> Ok tt.
Proof.
  intros Ow [(id & c & l & m & a & b & f & -> & U) | (old & new & c & m & f & [-> | ->] & U)];
    cbn [hstep]; rewrite Ow; cbn [status_stop]; rewrite (unusable2_bad H _ U);
    eexists; (split; [reflexivity|apply refused_res2_not_ok]).
Qed.

(* the patch: LockV2Contract reports a rejected contract as not revisable (the RHP4 server then answers
   "contract is not revisable" to every revising RPC) *)
Theorem rejected2_not_revisable H t id H' r rn rv l :
  hstep H (HS (SAcq2 t id)) = (H', hs (SO (OLock2 (Ok (r, rn, rv, l))))) -> is_rej H id = true -> rv = false.
Proof.
  intros E Rj. destruct (hstep_HS_ok _ _ _ _ E eq_refl) as (ob' & _ & Eo).
  cbn [patch_lock2 patch_look] in Eo. destruct ob' as [[ | | |[[[[r0 rn0] rv0] l0]| |]| | ]| |]; try discriminate.
  inversion Eo; subst. rewrite Rj. apply andb_false_r.
Qed.

End HTop.

(** * non-vacuity: a contract rejected while one session holds its lock and another one waits *)

Definition ex_rejected : list hop :=
  [ HS (SOp 0 (StoreSec 1)); HS (SOp 0 (Form1 7 1 0 (meta0 []) 1000));
    HS (SAcq1 1 7);                          (* session 1 gets the lock while 7 is pending *)
    HS (SOp 1 (Open1 0 7)); HAct 1 0 (Append 1);
    HS (SOp 1 (Commit1 0 2 sector_size (meta0 [1]) None)); HS (SOp 1 (Close1 0));
    HS (SReq 2 7);                           (* session 2 queues *)
    HStatus 7 CRejected;                     (* the formation was never confirmed *)
    HS (SOp 1 (Open1 1 7));                  (* the holder: refused *)
    HS (SRel 1 7);
    HS (SAcq1 2 7) ].                        (* the waiter: refused *)

Lemma ex_rejected_disc : hdisc_run meta0 hinit ex_rejected.
Proof.
  cbn [hdisc_run ex_rejected];
    repeat (split; [vm_compute; repeat split; try reflexivity; try discriminate; try (intros; discriminate);
                    try (match goal with E : Some _ = Some _ |- _ => injection E as <-; reflexivity end); own_solve|]);
    try exact I.
Qed.

Lemma ex_rejected_obs :
  snd (hstep (hruns hinit (firstn 9 ex_rejected)) (HS (SOp 1 (Open1 1 7)))) = hs (SO (ORes (Err EInvalid))) /\
  snd (hstep (hruns hinit (firstn 11 ex_rejected)) (HS (SAcq1 2 7))) = hs (SOLock1 (Err EInvalid)) /\
  look (t1 (dbs (sb (hS (hruns hinit ex_rejected))))) (sb (hS (hruns hinit ex_rejected))) 7
    = OLook true [1] [1] 2 sector_size (meta0 [1]) None None.
Proof. vm_compute. repeat split. Qed.

Lemma ex_rejected_pool :
  snd (hstep (hruns hinit (firstn 10 ex_rejected))
         (HS (SRenewH 1 false (Renew1 7 8 max_rev 0 0 1 sector_size (meta0 [1]) 2000 (meta0 [1]) None))))
    = hs (SO (ORes (Err EInvalid))).
Proof. vm_compute. reflexivity. Qed.

(* the pool refuses: the status is not even looked at, nothing changes *)
Lemma pool_rejected_hstep H t o :
  sownb (hS H) (SRenewH t false o) = true ->
  hstep H (HS (SRenewH t false o)) = (H, hs (SO (ORes (Err EInvalid)))).
Proof.
  intros Ow. cbn [hstep]. rewrite Ow. cbn [status_stop sstep faithful v_store_first].
  destruct o; cbn; now destruct H.
Qed.

Lemma unusable_not_renewed H t ok old new a b c d e1 f g h k :
  sownb (hS H) (SRenewH t ok (Renew1 old new a b c d e1 f g h k)) = true -> unusable H old ->
  exists r, hstep H (HS (SRenewH t ok (Renew1 old new a b c d e1 f g h k))) = (H, hs (SO (ORes r))) /\ r <> Ok tt.
Proof.
  intros Ow U. destruct ok.
  - apply (unusable_refuses_holder H t _ Ow). right. right.
    exists old, new, a, b, c, d, e1, f, g, h, k. split; [now right|exact U].
  - exists (Err EInvalid). split; [now apply pool_rejected_hstep|discriminate].
Qed.

(** * round 2: the v2 path WITHOUT the status guard (the code before
   fixes/C03-v2-rejected-contract-not-revisable.patch) *)

Definition ex_rej2 : list hop :=
  [ HS (SOp 0 (StoreSec 1)); HS (SOp 0 (StoreSec 2)); HS (SOp 0 (StoreSec 3));
    HS (SOp 0 (Form2 7 (fc 0 0 (meta0 []))));
    HS (SAcq2 1 7);
    HS (SOp 1 (Revise2 7 (fc 1 (2 * sector_size) (meta0 [1; 2])) [1; 2] (meta0 [1; 2]) true true None));
    HS (SRel 1 7);
    HStatus 7 CRejected;               (* the formation was never confirmed *)
    HExpire ].                         (* ExpireV2ContractSectors: the two rows are deleted *)

Definition ex_rej2_append : op :=
  Revise2 7 (fc 2 (3 * sector_size) (meta0 [1; 2; 3])) [1; 2; 3] (meta0 [1; 2; 3]) true true None.

Lemma ex_rej2_disc : hdisc_run meta0 hinit ex_rej2.
Proof.
  cbn [hdisc_run ex_rej2];
    repeat (split; [vm_compute; repeat split; try reflexivity; try discriminate; try (intros; discriminate);
                    try (match goal with E : Some _ = Some _ |- _ => injection E as <-; reflexivity end); own_solve|]);
    try exact I.
Qed.

(* Model.v's Revise2 (no status read, as ReviseV2Contract was) on what the database holds after the expiry:
   accepted; the host now persists [3] for a contract whose revision commits to three sectors and for which
   it serves [1; 2; 3] *)
Lemma rejected_v2_revised_refuted :
  exists evs id o c,
    hdisc_run meta0 hinit evs /\ is_rej (hruns hinit evs) id = true /\ mem id (hexp (hruns hinit evs)) = true /\
    snd (step (hreal (hruns hinit evs)) o) = ORes (Ok tt) /\
    alookup id (t2 (dbs (fst (step (hreal (hruns hinit evs)) o)))) = Some c /\ rto c = None /\
    tbl_list (rows c) <> cache_get (fst (step (hreal (hruns hinit evs)) o)) id /\
    fsize c <> sector_size * nlen (tbl_list (rows c)) /\
    mroot c <> meta0 (tbl_list (rows c)).
Proof.
  exists ex_rej2, 7, ex_rej2_append. eexists. split; [exact ex_rej2_disc|].
  vm_compute. repeat split; discriminate.
Qed.

(* with the guard: not revisable, refused, nothing changes *)
Lemma ex_rej2_patched :
  let H := hruns hinit ex_rej2 in
  snd (hstep H (HS (SAcq2 1 7))) = hs (SO (OLock2 (Ok (1, false, false, [1; 2])))) /\
  hstep (fst (hstep H (HS (SAcq2 1 7)))) (HS (SOp 1 ex_rej2_append))
    = (fst (hstep H (HS (SAcq2 1 7))), hs (SO (ORes (Err EInvalid)))) /\
  snd (hstep H (HS (SOp 0 (Look2 7)))) = hs (SO (OLook true [] [1; 2] 1 (2 * sector_size) (meta0 [1; 2]) None None)).
Proof. vm_compute. repeat split. Qed.
