(* Roots/Confirm.v — WP-G: from "every accepted revision was accepted while confirmable" (Guard.v) to "when
   the proof window opens the chain holds the revision the host stores" — the premise coq/Actions/Liveness.v
   takes for granted ([p_held]: the proof the host builds is a proof of the chain's revision).

   One contract, seen through its latest revision.  The host stores a revision (number, root); the chain
   holds the last confirmed one.  Events:
     CAccept n r    the host accepts revision n with root r (ContractUpdater.Commit, RenewContract, a payment).
                    With the guard ([g = true]: the code with fixes/C06-revise-guard-at-commit.patch) only at
                    a tip h with h + buffer <= window start — c06_accepted_revision_was_guarded /
                    c06_accepted_renewal_was_guarded of Props_C06_Guard.v; RHP3 payments take the lock, and
                    with it the guard, for the RPC that persists them.
     CBlock conf    the host processes its tip h (ProcessActions: it hands the stored revision to the pool iff
                    it is not the confirmed one and h <= window start <= h + buffer — C06's selection rule,
                    coq/Actions c06_revision_exact, proved for the SQL text) and block h+1 is mined;
                    [conf]: that block holds the host's stored revision.
   Hypotheses on the environment, explicit in [cstep]:
     consensus   a revision is valid only in a block below the window start (core validation.go:274);
     fairness    a revision the host has handed to the pool at [k] consecutive tips is mined in the block
                 after the k-th, if it is still valid there ("k blocks of patience": the fairness clause of
                 Liveness.v for revisions).
   Result: with the guard, for every patience k < buffer (143 blocks of the production buffer), from the tip
   window start - 1 on — that is at every tip at which the host builds a storage proof — chain = stored.
   Without the guard the audit's schedule (accept at window start - 1) is enabled and leaves them apart
   for good. *)
From Coq Require Import Lia ZifyBool ZifyN ZifyNat List.
From HostdBase Require Import Base.
Import ListNotations.
Open Scope N_scope.

Record cworld := mkcw {
  c_tip : N;
  c_stored : N * N;      (* revision number, root *)
  c_chain : N * N;
  c_wait : N }.          (* consecutive tips at which the host handed the stored revision to the pool *)

Inductive cev := CAccept (n r : N) | CBlock (conf : bool).

Definition pair_eqb (a b : N * N) : bool := (fst a =? fst b) && (snd a =? snd b).

Lemma pair_eqb_eq a b : pair_eqb a b = true <-> a = b.
Proof.
  destruct a as [a1 a2], b as [b1 b2]. unfold pair_eqb. cbn [fst snd]. split.
  - intros H. apply andb_true_iff in H as [H1 H2]. apply N.eqb_eq in H1, H2. congruence.
  - intros [= -> ->]. now rewrite !N.eqb_refl.
Qed.

(* ProcessActions at tip h: the revision selection of C06 *)
Definition rebroadcasts (ws buf : N) (w : cworld) : bool :=
  negb (pair_eqb (c_stored w) (c_chain w)) && (c_tip w <=? ws) && (ws <=? c_tip w + buf).

Definition cstep (g : bool) (ws buf k : N) (w : cworld) (e : cev) : option cworld :=
  match e with
  | CAccept n r =>
      if (fst (c_stored w) <? n) && (negb g || (c_tip w + buf <=? ws))
      then Some (mkcw (c_tip w) (n, r) (c_chain w) 0)
      else None
  | CBlock conf =>
      let H := c_tip w + 1 in
      let wait' := if rebroadcasts ws buf w then c_wait w + 1 else 0 in
      if implb conf (H <? ws)                           (* consensus *)
         && implb ((k <=? wait') && (H <? ws)) conf     (* fairness *)
      then Some (mkcw H (c_stored w) (if conf then c_stored w else c_chain w) (if conf then 0 else wait'))
      else None
  end.

Fixpoint crun (g : bool) (ws buf k : N) (w : cworld) (evs : list cev) : option cworld :=
  match evs with
  | [] => Some w
  | e :: rest => match cstep g ws buf k w e with Some w' => crun g ws buf k w' rest | None => None end
  end.

(* the formation: the chain holds what the host stores *)
Definition cinit (n r : N) : cworld := mkcw 0 (n, r) (n, r) 0.

Definition cinv (ws buf k : N) (w : cworld) : Prop :=
  c_stored w = c_chain w \/
  (c_tip w + buf <= ws /\ c_wait w = 0) \/
  (ws < c_tip w + buf /\ c_wait w = c_tip w + buf - ws /\ c_wait w < k).

Lemma cinv_step ws buf k w e w' :
  1 <= k -> k + 1 <= buf -> cinv ws buf k w -> cstep true ws buf k w e = Some w' -> cinv ws buf k w'.
Proof.
  intros Hk Hb I E. destruct e as [n r|conf]; cbn [cstep] in E.
  - destruct ((fst (c_stored w) <? n) && (negb true || (c_tip w + buf <=? ws))) eqn:G; [|discriminate].
    injection E as <-. unfold cinv; cbn [c_tip c_stored c_chain c_wait]. right; left.
    apply andb_true_iff in G as [_ G]. cbn [negb orb] in G. split; [lia|reflexivity].
  - match type of E with (if ?c then _ else _) = _ => destruct c eqn:G; [|discriminate] end.
    injection E as <-. apply andb_true_iff in G as [G1 G2].
    unfold cinv in *; cbn [c_tip c_stored c_chain c_wait].
    destruct conf; [now left|]. cbn [implb] in G2.
    destruct I as [I|[[I1 I2]|(I1 & I2 & I3)]]; [now left| |].
    + unfold rebroadcasts in *. assert (P : pair_eqb (c_stored w) (c_chain w) = false \/ c_stored w = c_chain w).
      { destruct (pair_eqb (c_stored w) (c_chain w)) eqn:P; [right; now apply pair_eqb_eq|now left]. }
      destruct P as [P|P]; [|now left]. rewrite P in *. cbn [negb andb] in *.
      destruct (N.eq_dec (c_tip w + buf) ws) as [Heq|Hne].
      * replace (c_tip w <=? ws) with true in * by lia. replace (ws <=? c_tip w + buf) with true in * by lia.
        cbn [andb] in *. rewrite I2 in *. right; right.
        replace (c_tip w + 1 <? ws) with true in G2 by lia. rewrite Bool.andb_true_r in G2. cbn [implb] in G2.
        split; [lia|]. split; [lia|]. destruct (k <=? 0 + 1) eqn:Ek; [discriminate|]. lia.
      * replace (ws <=? c_tip w + buf) with false in * by lia. rewrite Bool.andb_false_r in *.
        right; left. split; [lia|reflexivity].
    + unfold rebroadcasts in *. assert (P : pair_eqb (c_stored w) (c_chain w) = false \/ c_stored w = c_chain w).
      { destruct (pair_eqb (c_stored w) (c_chain w)) eqn:P; [right; now apply pair_eqb_eq|now left]. }
      destruct P as [P|P]; [|now left]. rewrite P in *. cbn [negb andb] in *.
      replace (c_tip w <=? ws) with true in * by lia. replace (ws <=? c_tip w + buf) with true in * by lia.
      cbn [andb] in *. right; right.
      destruct (c_tip w + 1 <? ws) eqn:Hv.
      * rewrite Bool.andb_true_r in G2. destruct (k <=? c_wait w + 1) eqn:Ek; [discriminate|].
        split; [lia|]. split; lia.
      * exfalso. lia.
Qed.

Lemma cinv_run ws buf k : 1 <= k -> k + 1 <= buf -> forall evs w w',
  cinv ws buf k w -> crun true ws buf k w evs = Some w' -> cinv ws buf k w'.
Proof.
  intros Hk Hb. induction evs as [|e evs IH]; intros w w' I R; cbn [crun] in R; [now injection R as <-|].
  destruct (cstep true ws buf k w e) as [w1|] eqn:E; [|discriminate].
  apply (IH w1 w'); [now apply (cinv_step ws buf k w e)|exact R].
Qed.

(* with the guard: from the last block below the window on, the chain holds the stored revision *)
Theorem guarded_revision_confirmed_by_window ws buf k n r evs w :
  1 <= k -> k + 1 <= buf ->
  crun true ws buf k (cinit n r) evs = Some w ->
  ws <= c_tip w + 1 -> c_chain w = c_stored w.
Proof.
  intros Hk Hb R Ht.
  assert (I : cinv ws buf k w).
  { apply (cinv_run ws buf k Hk Hb evs (cinit n r) w); [now left|exact R]. }
  destruct I as [I|[[I1 _]|(I1 & I2 & I3)]]; [now symmetry|lia|lia].
Qed.

(* without it: the audit's schedule, window start 1000, buffer 144, patience 1 *)
Definition ex_unguarded : list cev := repeat (CBlock false) 999 ++ [CAccept 2 7; CBlock false; CBlock false].

Theorem unguarded_revision_never_confirmed :
  exists w, crun false 1000 144 1 (cinit 1 0) ex_unguarded = Some w /\
    1000 <= c_tip w /\ c_chain w <> c_stored w /\
    (* and it stays so: no later block can hold the revision *)
    forall conf w', cstep false 1000 144 1 w (CBlock conf) = Some w' -> c_chain w' <> c_stored w'.
Proof.
  eexists. split; [vm_compute; reflexivity|]. split; [vm_compute; discriminate|]. split; [discriminate|].
  intros conf w'. destruct conf; vm_compute; [discriminate|]. intros [= <-]. discriminate.
Qed.

(* the same schedule is not enabled with the guard *)
Lemma ex_unguarded_refused : crun true 1000 144 1 (cinit 1 0) ex_unguarded = None.
Proof. vm_compute. reflexivity. Qed.

(* non-vacuity: a revision accepted at the last confirmable height 856 is mined two blocks later *)
Lemma ex_guarded_run :
  exists w, crun true 1000 144 2 (cinit 1 0)
              (repeat (CBlock false) 856 ++ [CAccept 2 7; CBlock false; CBlock true] ++ repeat (CBlock false) 141) = Some w /\
    c_tip w = 999 /\ c_chain w = (2, 7) /\ c_stored w = (2, 7).
Proof. eexists. vm_compute. repeat split. Qed.
