(* Roots/Sess.v — the callers of the contract manager as sessions that take the contract lock
   (WP-N: lists handed out under the lock, renewals that fail late).  No proofs here.

   Model.v describes the manager and the store one call at a time.  This layer adds who makes
   the calls: sessions (RHP2 sessions, RHP3 handlers, RHP4 handlers) that queue on the contract
   lock, are handed a view of the contract when they get it, decide on that view, persist and
   unlock — interleaved in any order.  Mirrors, as they are in /repo at 41b4fa3 (unchanged since ce5ac33):

     host/contracts/lock.go   locker.Lock / Unlock (a caller that finds the lock held registers
                              as a waiter and is handed the lock by the holder's Unlock),
                              Manager.Lock (acquire, THEN Store.Contract + isGoodForModification),
                              Manager.LockV2Contract (acquire, THEN Store.V2Contract, THEN the
                              copy of the cached roots)
     rhp/v2/rpc.go            rpcRenewAndClearContract   \  the tail of the three renewal handlers:
     rhp/v3/rpc.go            handleRPCRenew              > chain.AddPoolTransactions (validation of the
     coreutils rhp/v4/server  handleRPCRenewContract /   /  renewal set), THEN RenewContract /
                              handleRPCRefreshContract      RenewV2Contract, THEN broadcast
     rhp/v3/payments.go       processContractPayment / processFundAccountPayment: Lock, build and
                              validate the payment revision on the revision Lock returned, sign,
                              accounts.Credit (-> Store.CreditAccountWithContract -> reviseContract:
                              UPDATE contracts SET revision_number, raw_revision, signatures),
                              deferred Unlock

   WP-G (fixes/C06-revise-guard-at-commit.patch, contained in the model): Manager.Lock evaluates
   isGoodForModification when the lock is ACQUIRED ([SAcq1]); a session may then keep the lock across any
   number of blocks ([SOp t (SetHeight h)] between its calls).  The manager calls of a session that persist a
   v1 revision — [Open1], [Commit1], [Renew1] of Model.v — evaluate the guard again at the tip of that
   moment; rpcRenewAndClearContract asks Manager.Revisable once more before the pool step, which [SRenewH]
   does not show as a step of its own: a guard that fails answers EInvalid and changes nothing whether the
   pool is asked first or not.  RHP3 payments ([SPayPersist]) persist through accounts.Credit under the
   lock taken for that RPC and are guarded by that Lock only.  Statements: Guard.v, Props_C06_Guard.v.

   [variant] switches on the two orders the seeded changes C03-mut7 / C13-mut8 introduce (Legacy:
   never the code at HEAD); the faithful model is [faithful].  A payment persisted after its
   session released the lock (C13-mut7) is not a variant of a step but a schedule: the
   discipline [sdisc] of SessProofs.v forbids it, the relaxed discipline allows it. *)
From HostdBase Require Import Base.
From HostdRoots Require Import Model.
Open Scope N_scope.

Definition sid := N.

Record variant := mkvar {
  v_snap : bool;          (* LockV2Contract copies the cached roots before it waits for the lock *)
  v_store_first : bool }. (* a renewal handler calls RenewContract before the pool validated the set *)
Definition faithful : variant := mkvar false false.

(* what a caller is handed when Lock / LockV2Contract returns *)
Record view := mkview {
  w_id : cid; w_v1 : bool; w_rev : N; w_fsize : N; w_mroot : hash;
  w_renewed : bool; w_revisable : bool; w_roots : list root }.

(* a payment revision that is validated and signed but not yet persisted *)
Record pend := mkpend { p_id : cid; p_rev : N; p_fsize : N; p_mroot : hash }.

Record sstate := mksst {
  sb : state;
  owner : list (cid * sid);         (* which session holds which contract lock *)
  waiting : list (sid * cid);       (* callers registered as waiters inside locker.Lock *)
  snaps : list (sid * list root);   (* Legacy (v_snap): the roots a waiter copied before waiting *)
  views : list (sid * view);        (* what the current lock holders were handed *)
  pends : list (sid * pend) }.

Definition sinit : sstate :=
  {| sb := init; owner := []; waiting := []; snaps := []; views := []; pends := [] |}.

Definition set_sb (S : sstate) (s : state) : sstate :=
  {| sb := s; owner := owner S; waiting := waiting S; snaps := snaps S; views := views S; pends := pends S |}.

Inductive sop :=
| SOp (t : sid) (o : op)            (* a manager call made by session t (Lock1 / Unlock1 are its
                                       Manager.Lock / Unlock) *)
| SReq (t : sid) (id : cid)         (* t entered Manager.Lock / LockV2Contract, found the lock held
                                       and registered as a waiter *)
| SAcq1 (t : sid) (id : cid)        (* Manager.Lock returns to t *)
| SAcq2 (t : sid) (id : cid)        (* Manager.LockV2Contract returns to t *)
| SRel (t : sid) (id : cid)         (* Manager.Unlock / the unlock function *)
  (* the tail of a renewal handler: [pool_ok] = AddPoolTransactions / AddV2PoolTransactions accepted
     the renewal set; [o] = the RenewContract / RenewV2Contract call *)
| SRenewH (t : sid) (pool_ok : bool) (o : op)
  (* a paying RHP3 RPC: the payment revision [nrev] is validated against the revision Lock returned
     and counter-signed ... *)
| SPayDecide (t : sid) (nrev : N)
  (* ... and persisted (accounts.Credit; [ok] = the account manager and the store accepted it) *)
| SPayPersist (t : sid) (ok : bool).

Inductive sobs :=
| SO (o : obs)
| SOLock1 (r : res (N * N * hash))   (* revision number, file size, Merkle root of the returned revision *)
| SOBusy.                            (* the call would still be waiting *)

Definition sdel {V} (t : N) (l : list (N * V)) : list (N * V) := cdel t l.

(* the lock table *)
Definition lock_free (S : sstate) (id : cid) : bool := negb (mem id (locks (sb S))).
Definition take (S : sstate) (t : sid) (id : cid) : sstate :=
  {| sb := set_locks (sb S) (id :: locks (sb S)); owner := aset id t (owner S);
     waiting := filter (fun p => negb ((fst p =? t) && (snd p =? id))) (waiting S);
     snaps := sdel t (snaps S); views := sdel t (views S); pends := sdel t (pends S) |}.
(* releasing id: its holder no longer has a view of it *)
Definition drop_view (S : sstate) (id : cid) : list (sid * view) :=
  match alookup id (owner S) with
  | Some t0 => match alookup t0 (views S) with
               | Some w => if w_id w =? id then sdel t0 (views S) else views S
               | None => views S
               end
  | None => views S
  end.
Definition drop (S : sstate) (id : cid) : sstate :=
  {| sb := set_locks (sb S) (filter (fun x => negb (x =? id)) (locks (sb S))); owner := cdel id (owner S);
     waiting := waiting S; snaps := snaps S; views := drop_view S id; pends := pends S |}.
Definition set_view (S : sstate) (t : sid) (w : view) : sstate :=
  {| sb := sb S; owner := owner S; waiting := waiting S; snaps := snaps S;
     views := aset t w (views S); pends := pends S |}.

(* which contracts a manager call may write (rows or cache entry) *)
Definition touched (s : state) (o : op) : list cid :=
  match o with
  | Form1 i _ _ _ _ | Form2 i _ => [i]
  | Commit1 u _ _ _ _ => match alookup u (upds s) with Some x => [u_cid x] | None => [] end
  | Renew1 old new _ _ _ _ _ _ _ _ _ | Renew2 old new _ _ _ _ => [old; new]
  | Revise2 i _ _ _ _ _ _ | RawRevise1 i _ _ _ _ _ _ | RawRevise2 i _ _ _ _ => [i]
  | _ => []
  end.
Definition touchesb (s : state) (o : op) (id : cid) : bool :=
  match o with Restart => true | _ => mem id (touched s o) end.

(* a holder that writes the contract itself (an accepted call) no longer holds a current view *)
Definition forget (S : sstate) (t : sid) (s0 : state) (o : op) : sstate :=
  match alookup t (views S) with
  | Some w => if touchesb s0 o (w_id w)
              then {| sb := sb S; owner := owner S; waiting := waiting S; snaps := snaps S;
                      views := sdel t (views S); pends := sdel t (pends S) |}
              else S
  | None => S
  end.

Definition is_ok (ob : obs) : bool := match ob with ORes (Ok _) => true | _ => false end.

Definition sop_step (S : sstate) (t : sid) (o : op) : sstate * sobs :=
  let '(s', ob) := step (sb S) o in
  match o with
  | Lock1 id =>
      if is_ok ob then (take S t id, SO ob) else (S, SO ob)
  | Unlock1 id =>
      if is_ok ob then (drop S id, SO ob) else (S, SO ob)
  | Restart =>
      ({| sb := s'; owner := []; waiting := []; snaps := []; views := []; pends := [] |}, SO ob)
  | _ => (if is_ok ob then forget (set_sb S s') t (sb S) o else set_sb S s', SO ob)
  end.

Definition sstep (v : variant) (S : sstate) (e : sop) : sstate * sobs :=
  match e with
  | SOp t o => sop_step S t o
  | SReq t id =>
      ({| sb := sb S; owner := owner S; waiting := (t, id) :: waiting S;
          snaps := if v_snap v then aset t (cache_get (sb S) id) (snaps S) else snaps S;
          views := views S; pends := pends S |}, SO (ORes (Ok tt)))
  | SAcq1 t id =>
      if lock_free S id then
        match alookup id (t1 (dbs (sb S))) with
        | None => (S, SOLock1 (Err ENotFound))
        | Some c =>
            if good1 (height (sb S)) c
            then (set_view (take S t id) t (mkview id true (rev c) (fsize c) (mroot c) false true []),
                  SOLock1 (Ok (rev c, fsize c, mroot c)))
            else (S, SOLock1 (Err EInvalid))
        end
      else (S, SOBusy)
  | SAcq2 t id =>
      if lock_free S id then
        match alookup id (t2 (dbs (sb S))) with
        | None => (S, SO (OLock2 (Err ENotFound)))
        | Some c =>
            let renewed := opt_is_some (rto c) in
            let maxh := if rev_buffer <? wstart c then wstart c - rev_buffer else 0 in
            let revisable := negb renewed && (height (sb S) <? maxh) in
            let cur := cache_get (sb S) id in
            let l := if v_snap v then match alookup t (snaps S) with Some l0 => l0 | None => cur end else cur in
            (set_view (take S t id) t (mkview id false (rev c) (fsize c) (mroot c) renewed revisable l),
             SO (OLock2 (Ok (rev c, renewed, revisable, l))))
        end
      else (S, SOBusy)
  | SRel t id =>
      if lock_free S id then (S, SO (ORes Panic))       (* "unlocking unheld lock" *)
      else (drop S id, SO (ORes (Ok tt)))
  | SRenewH t pool_ok o =>
      if v_store_first v then
        let '(S', ob) := sop_step S t o in
        match ob with
        | SO (ORes (Ok _)) => if pool_ok then (S', ob) else (S', SO (ORes (Err EInvalid)))
        | _ => (S', ob)
        end
      else if pool_ok then sop_step S t o else (S, SO (ORes (Err EInvalid)))
  | SPayDecide t nrev =>
      match alookup t (views S) with
      | Some w =>
          if w_v1 w && (w_rev w <? nrev)
          then ({| sb := sb S; owner := owner S; waiting := waiting S; snaps := snaps S; views := views S;
                   pends := aset t (mkpend (w_id w) nrev (w_fsize w) (w_mroot w)) (pends S) |},
                SO (ORes (Ok tt)))
          else (S, SO (ORes (Err EInvalid)))
      | None => (S, SO (ORes (Err ENotFound)))
      end
  | SPayPersist t ok =>
      match alookup t (pends S) with
      | Some p =>
          let S0 := {| sb := sb S; owner := owner S; waiting := waiting S; snaps := snaps S;
                       views := sdel t (views S); pends := sdel t (pends S) |} in
          if ok then
            match alookup (p_id p) (t1 (dbs (sb S))) with
            | Some c =>
                (set_sb S0 (set_dbs (sb S) (set_t1 (dbs (sb S))
                   (aset (p_id p) (with_rev c (p_rev p) (p_fsize p) (p_mroot p)) (t1 (dbs (sb S)))))),
                 SO (ORes (Ok tt)))
            | None => (S0, SO (ORes (Err EOther)))       (* UPDATE ... RETURNING id: no row *)
            end
          else (S0, SO (ORes (Err EOther)))
      | None => (S, SO (ORes (Err ENotFound)))
      end
  end.

Definition sruns (v : variant) (S : sstate) (evs : list sop) : sstate :=
  fold_left (fun S e => fst (sstep v S e)) evs S.

(** * Correspondence entry point *)

Definition lock1_eqb (a b : N * N * hash) : bool :=
  let '(r, f, m) := a in let '(r', f', m') := b in (r =? r') && (f =? f') && (m =? m').

Definition sobs_eqb (a b : sobs) : bool :=
  match a, b with
  | SO x, SO y => obs_eqb x y
  | SOLock1 x, SOLock1 y => res_eqb lock1_eqb x y
  | SOBusy, SOBusy => true
  | _, _ => false
  end.

(* the recorded histories must respect the lock protocol (the boolean face of SessProofs.sdisc, as far
   as the lock table goes): a manager call that writes an existing contract is made by the holder of
   its lock, Unlock by the holder, a payment revision is persisted by a session that holds the lock *)
Definition has_ct (s : state) (id : cid) : bool :=
  opt_is_some (alookup id (t1 (dbs s))) || opt_is_some (alookup id (t2 (dbs s))).
Definition owned (S : sstate) (t : sid) (id : cid) : bool :=
  match alookup id (owner S) with Some t' => t' =? t | None => false end.
Definition sop_ownb (S : sstate) (t : sid) (o : op) : bool :=
  match o with
  | Unlock1 id => owned S t id
  | _ => forallb (fun id => negb (has_ct (sb S) id) || owned S t id) (touched (sb S) o)
  end.
Definition sownb (S : sstate) (e : sop) : bool :=
  match e with
  | SOp t o | SRenewH t _ o => sop_ownb S t o
  | SRel t id => owned S t id
  | SPayPersist t _ => match alookup t (pends S) with Some p => owned S t (p_id p) | None => true end
  | _ => true
  end.

Inductive sobs' := SSeen (o : sobs) | SOutsideLock.
Definition sstepc (S : sstate) (e : sop) : sstate * sobs' :=
  if sownb S e then let '(S', ob) := sstep faithful S e in (S', SSeen ob) else (S, SOutsideLock).
Definition sobsc_eqb (a : sobs') (b : sobs) : bool :=
  match a with SSeen x => sobs_eqb x b | SOutsideLock => false end.

Fixpoint sfirst_mismatch (S : sstate) (i : nat) (l : list (sop * sobs)) : option (nat * sobs') :=
  match l with
  | [] => None
  | (e, seen) :: t =>
      let '(S', m) := sstepc S e in
      if sobsc_eqb m seen then sfirst_mismatch S' (Datatypes.S i) t else Some (i, m)
  end.

Definition scase := (N * list (sop * sobs))%type.
Fixpoint scheck (cs : list scase) : list (N * nat * sobs') :=
  match cs with
  | [] => []
  | (id, l) :: t => match sfirst_mismatch sinit 0 l with
                    | None => scheck t
                    | Some (i, m) => (id, i, m) :: scheck t
                    end
  end.
