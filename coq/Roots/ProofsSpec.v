(* Roots/ProofsSpec.v — refinement: what host and store hold is the list implied by the
   history of accepted modifications, computed by a machine that knows nothing of tables,
   caches, old-root copies or cross checks. *)
From Coq Require Import Lia ZifyBool ZifyN ZifyNat.
From HostdBase Require Import Base.
From HostdRoots Require Import Model Lists ProofsReplay ProofsInv ProofsStep ProofsRenew.
Open Scope N_scope.

(** * the specification machine: one list per contract, one working list per open updater;
   it looks at an operation and at whether the host accepted it, nothing else *)

Record astate := mka { alists : list (cid * list root); apend : list (N * (cid * list root)) }.
Definition ainit : astate := {| alists := []; apend := [] |}.
Definition aget (a : astate) (id : cid) : list root :=
  match alookup id (alists a) with Some l => l | None => [] end.
Notation adel := cdel.

Definition accepted (ob : obs) : bool :=
  match ob with ORes (Ok _) => true | OAct (Ok _) _ => true | _ => false end.

Definition astep (a : astate) (o : op) (ob : obs) : astate :=
  if negb (accepted ob) then a else
  match o with
  | Form1 id _ _ _ _ => {| alists := aset id [] (alists a); apend := apend a |}
  | Form2 id _ => {| alists := aset id [] (alists a); apend := apend a |}
  | Open1 u id => {| alists := alists a; apend := aset u (id, aget a id) (apend a) |}
  | Act u act =>
      match alookup u (apend a) with
      | Some (id, l) => {| alists := alists a; apend := aset u (id, spec_apply l act) (apend a) |}
      | None => a
      end
  | Commit1 u _ _ _ _ =>
      match alookup u (apend a) with
      | Some (id, l) => {| alists := aset id l (alists a); apend := apend a |}
      | None => a
      end
  | Close1 u => {| alists := alists a; apend := adel u (apend a) |}
  | Renew1 old new _ _ _ _ _ _ _ _ _ => {| alists := aset new (aget a old) (alists a); apend := apend a |}
  | Renew2 old new _ _ _ _ => {| alists := aset new (aget a old) (alists a); apend := apend a |}
  | Revise2 id _ nr _ _ _ _ => {| alists := aset id nr (alists a); apend := apend a |}
  | Restart => {| alists := alists a; apend := [] |}
  | _ => a
  end.

(* run the host and the specification side by side *)
Fixpoint aruns (s : state) (a : astate) (ops : list op) : astate :=
  match ops with
  | [] => a
  | o :: rest => aruns (fst (step s o)) (astep a o (snd (step s o))) rest
  end.

Lemma alookup_adel_same V k (l : list (N * V)) : alookup k (adel k l) = None.
Proof. rewrite alookup_cdel. now rewrite N.eqb_refl. Qed.

Lemma alookup_adel_other V k k' (l : list (N * V)) : k <> k' -> alookup k (adel k' l) = alookup k l.
Proof. intros H. rewrite alookup_cdel. now replace (k =? k') with false by lia. Qed.

Lemma not_accepted_unchanged s o s' ob : step s o = (s', ob) -> accepted ob = false -> s' = s.
Proof.
  intros E Acc. destruct o; cbn [step] in E; unfold outcome, look in E;
  repeat match type of E with
  | (if ?b then _ else _) = _ => destruct b
  | (match ?x with _ => _ end) = _ => destruct x
  end; injection E as <- <-; cbn in Acc; try discriminate; reflexivity.
Qed.

Section Spec.
Variable meta : list root -> hash.
Notation Inv := (Inv meta).
Notation disc := (disc meta).

Definition upd_view (x : option updater) : option (cid * list root) :=
  match x with Some x => Some (u_cid x, u_roots x) | None => None end.

Definition R (s : state) (a : astate) : Prop :=
  (forall id c, is_live s id c -> aget a id = cache_get s id) /\
  (forall u, alookup u (apend a) = upd_view (alookup u (upds s))).

Lemma R_frame s s' a :
  t1 (dbs s') = t1 (dbs s) -> t2 (dbs s') = t2 (dbs s) -> cache s' = cache s -> upds s' = upds s ->
  R s a -> R s' a.
Proof.
  intros E1 E2 Ec Eu [H1 H2]. split.
  - intros id c [HL HR]. rewrite E1, E2 in HL. rewrite (cache_get_same s s' Ec). apply (H1 id c). now split.
  - intros u. rewrite Eu. apply H2.
Qed.

Lemma aget_aset a k l x ap :
  aget {| alists := aset k l (alists a); apend := ap |} x = if x =? k then l else aget a x.
Proof. unfold aget; cbn [alists]. rewrite alookup_aset. now destruct (x =? k). Qed.

Lemma R_init : R init ainit.
Proof. split; [intros id c [[H|H] _]; discriminate|reflexivity]. Qed.

Theorem refine_step s a o : Inv s -> disc s o -> R s a ->
  R (fst (step s o)) (astep a o (snd (step s o))).
Proof.
  intros I D [RL RU].
  destruct (step s o) as [s' ob] eqn:E. cbn [fst snd].
  (* rejected, failed or purely observing: nothing moves on either side *)
  destruct (accepted ob) eqn:Acc.
  2:{ unfold astep; rewrite Acc; cbn [negb].
      apply not_accepted_unchanged in E; [subst s'; now split|exact Acc]. }
  unfold astep; rewrite Acc; cbn [negb].
  assert (Frame : forall s1, t1 (dbs s1) = t1 (dbs s) -> t2 (dbs s1) = t2 (dbs s) ->
            cache s1 = cache s -> upds s1 = upds s -> R s1 a)
    by (intros; apply (R_frame s); auto; now split).
  destruct o.
  - (* StoreSec *) cbn [step] in E. injection E as <- _. apply Frame; reflexivity.
  - (* Prune *) cbn [step] in E. injection E as <- _. apply Frame; reflexivity.
  - (* SetHeight *) cbn [step] in E. injection E as <- _. apply Frame; reflexivity.
  - (* Form1 *) destruct D as (L2 & _ & _). cbn [step] in E. unfold outcome in E.
    match type of E with (match ?m with _ => _ end) = _ => destruct m as [[d' k]|e|] eqn:Es end;
      injection E as <- <-; try discriminate.
    apply store_add1_ok in Es as [L1 ->]. split; [|exact RU].
    intros id0 c0 [HL HR]. cbn [dbs set_dbs set_t1 t1 t2] in HL. rewrite aget_aset.
    rewrite (cache_get_same s (set_dbs s _) eq_refl).
    destruct (id0 =? id) eqn:Ei.
    + apply N.eqb_eq in Ei; subst id0. symmetry. now apply (cache_absent meta).
    + rewrite alookup_aset, Ei in HL. apply (RL id0 c0). now split.
  - (* Form2 *) destruct D as (L1 & _ & _). cbn [step] in E. unfold outcome in E.
    match type of E with (match ?m with _ => _ end) = _ => destruct m as [[d' k]|e|] eqn:Es end;
      injection E as <- <-; try discriminate.
    apply store_add2_ok in Es as [L2 ->]. split; [|exact RU].
    intros id0 c0 [HL HR]. cbn [dbs set_dbs set_t2 t1 t2] in HL. rewrite aget_aset.
    rewrite (cache_get_same s (set_dbs s _) eq_refl).
    destruct (id0 =? id) eqn:Ei.
    + apply N.eqb_eq in Ei; subst id0. symmetry. now apply (cache_absent meta).
    + rewrite alookup_aset, Ei in HL. apply (RL id0 c0). now split.
  - (* Lock1 *) cbn [step] in E.
    repeat match type of E with (if ?b then _ else _) = _ => destruct b
                              | (match ?x with _ => _ end) = _ => destruct x end;
      injection E as <- <-; try discriminate. apply Frame; reflexivity.
  - (* Unlock1 *) cbn [step] in E. destruct (mem id (locks s)); injection E as <- <-; try discriminate.
    apply Frame; reflexivity.
  - (* Open1 *) destruct D as (_ & _ & _ & c & Lc & Rv). cbn [step] in E.
    destruct (revisable1 (height s) (t1 (dbs s)) id) as [[]| |]; injection E as <- <-; try discriminate.
    split.
    + intros id0 c0 HL. apply (RL id0 c0 HL).
    + intros u'. cbn [apend upds set_upds]. rewrite !alookup_aset. destruct (u' =? u); [|apply RU].
      cbn [upd_view u_cid u_roots]. f_equal. f_equal. apply (RL id c). split; [now left|].
      now apply (not_max_live meta s id c).
  - (* Act *) cbn [step] in E. destruct (alookup u (upds s)) as [x|] eqn:Lu.
    2:{ injection E as <- <-. discriminate. }
    destruct (upd_apply (u_roots x) a0) as [l'|e|] eqn:A; injection E as <- <-; try discriminate.
    pose proof (RU u) as Hu. rewrite Lu in Hu. cbn [upd_view] in Hu. rewrite Hu.
    assert (l' = spec_apply (u_roots x) a0).
    { unfold upd_apply in A. destruct (upd_check (u_roots x) a0); [now injection A|discriminate]. }
    subst l'. split.
    + intros id0 c0 HL. apply (RL id0 c0 HL).
    + intros u'. cbn [apend upds set_upds]. rewrite !alookup_aset. destruct (u' =? u); [reflexivity|apply RU].
  - (* Commit1 *)
    assert (ob = ORes (Ok tt)).
    { cbn [step] in E. destruct (alookup u (upds s)); [|injection E as _ <-; discriminate].
      unfold outcome in E. match type of E with (match ?m with _ => _ end) = _ => destruct m as [[? ?]| |] end;
        injection E as _ <-; try discriminate. reflexivity. }
    subst ob. apply commit1_form in E as (x & c & t' & ns' & Lu & Lc & _ & ->).
    pose proof (RU u) as Hu. rewrite Lu in Hu. cbn [upd_view] in Hu. rewrite Hu.
    match goal with |- R ?st _ => set (s' := st) end.
    assert (G : forall y, cache_get s' y = if y =? u_cid x then u_roots x else cache_get s y)
      by (apply cache_get_upd; reflexivity).
    split.
    + intros id0 c0 [HL HR]. cbn [s' dbs set_upds set_cache set_dbs set_t1 set_nsec t1 t2] in HL.
      rewrite aget_aset, G. destruct (id0 =? u_cid x) eqn:Ei; [reflexivity|].
      rewrite alookup_aset, Ei in HL. apply (RL id0 c0). now split.
    + intros u'. cbn [s' apend upds set_upds]. rewrite alookup_aset. destruct (u' =? u) eqn:Eu.
      * apply N.eqb_eq in Eu; subst u'. rewrite Hu. reflexivity.
      * apply RU.
  - (* Close1 *) cbn [step] in E. injection E as <- _. split.
    + intros id0 c0 HL. apply (RL id0 c0 HL).
    + intros u'. cbn [apend upds set_upds]. destruct (N.eq_dec u' u) as [->|Hne].
      * rewrite alookup_adel_same, alookup_aremove_same; [reflexivity|exact (inv_unodup meta s I)].
      * rewrite alookup_adel_other, alookup_aremove_other by exact Hne. apply RU.
  - (* Renew1 *)
    assert (ob = ORes (Ok tt)).
    { cbn [step] in E. unfold outcome in E.
      match type of E with (match ?m with _ => _ end) = _ => destruct m as [[? ?]| |] end;
        injection E as _ <-; try discriminate. reflexivity. }
    subst ob. destruct D as (_ & _ & Ln2 & (c & Lc & Rv) & _).
    pose proof (not_max_live meta s old c I Lc Rv) as Rc.
    destruct (renew1_form _ _ _ _ _ _ _ _ _ _ _ _ _ c Lc E) as (Ln1 & Hne & _ & _ & _ & _ & _ & ->).
    destruct (renew_lookup (t1 (dbs s)) old new (with_to (with_rev c crev cfsize cmroot) (Some new))
                (nc1 nrev nfsize nmroot nws) Hne Ln1) as [LK _].
    match goal with |- R ?st _ => set (s' := st) end.
    assert (G : forall y, cache_get s' y =
              if y =? old then [] else if y =? new then cache_get s old else cache_get s y)
      by (apply cache_get_renew1; reflexivity).
    split; [|exact RU].
    intros id0 c0 [HL HR]. cbn [s' dbs set_cache set_dbs set_t1 t1 t2] in HL. rewrite aget_aset, G.
    destruct HL as [HL|HL].
    + rewrite LK in HL. destruct (id0 =? old) eqn:E1.
      { injection HL as <-. cbn [with_rows with_to rto] in HR. discriminate. }
      destruct (id0 =? new) eqn:E2; [|apply (RL id0 c0); split; auto].
      apply (RL old c). split; auto.
    + assert (id0 <> new) by congruence. replace (id0 =? new) with false by lia.
      assert (id0 <> old).
      { intros ->. rewrite (inv_disj meta s I old) in HL by congruence. discriminate. }
      replace (id0 =? old) with false by lia.
      apply (RL id0 c0). split; auto.
  - (* Revise2 *)
    assert (ob = ORes (Ok tt)).
    { cbn [step] in E. unfold outcome in E.
      match type of E with (match ?m with _ => _ end) = _ => destruct m as [[? ?]| |] end;
        injection E as _ <-; try discriminate. reflexivity. }
    subst ob. apply revise2_form in E as (e & t' & ns' & Le & Re & _ & _ & _ & ->).
    match goal with |- R ?st _ => set (s' := st) end.
    assert (G : forall y, cache_get s' y = if y =? id then newroots else cache_get s y)
      by (apply cache_get_upd; reflexivity).
    split; [|exact RU].
    intros id0 c0 [HL HR]. cbn [s' dbs set_cache set_dbs set_t2 set_nsec t1 t2] in HL. rewrite aget_aset, G.
    destruct (id0 =? id) eqn:Ei; [reflexivity|].
    rewrite alookup_aset, Ei in HL. apply (RL id0 c0). now split.
  - (* Renew2 *)
    assert (ob = ORes (Ok tt)).
    { cbn [step] in E. unfold outcome in E.
      match type of E with (match ?m with _ => _ end) = _ => destruct m as [[? ?]| |] end;
        injection E as _ <-; try discriminate. reflexivity. }
    subst ob. destruct (renew2_handover meta s old new c mold wf fault s' I D E) as (e0 & Le0 & Re0 & _).
    destruct D as (Ln1 & _ & _).
    apply renew2_form in E as (e & Le & Ln2 & Hne & _ & _ & _ & _ & ->).
    rewrite Le in Le0; injection Le0 as <-.
    destruct (renew_lookup (t2 (dbs s)) old new (with_to e (Some new)) (ct_of_rv2 c) Hne Ln2) as [LK _].
    match goal with |- R ?st _ => set (s' := st) end.
    assert (G : forall y, cache_get s' y = if y =? new then cache_get s old else cache_get s y)
      by (apply cache_get_upd; reflexivity).
    split; [|exact RU].
    intros id0 c0 [HL HR]. cbn [s' dbs set_cache set_dbs set_t2 t1 t2] in HL. rewrite aget_aset, G.
    destruct HL as [HL|HL].
    + assert (id0 <> new) by congruence. replace (id0 =? new) with false by lia.
      apply (RL id0 c0). split; auto.
    + rewrite LK in HL. destruct (id0 =? old) eqn:E1.
      { injection HL as <-. cbn [with_rows with_to rto] in HR. discriminate. }
      destruct (id0 =? new) eqn:E2; [|apply (RL id0 c0); split; auto].
      apply (RL old e). split; auto.
  - (* Lock2 *) cbn [step] in E.
    repeat match type of E with (if ?b then _ else _) = _ => destruct b
                              | (match ?x with _ => _ end) = _ => destruct x end;
      injection E as <- <-; discriminate.
  - cbn [step] in E. unfold look in E. destruct (alookup id (t1 (dbs s))); injection E as <- <-; discriminate.
  - cbn [step] in E. unfold look in E. destruct (alookup id (t2 (dbs s))); injection E as <- <-; discriminate.
  - cbn [step] in E. injection E as <- <-. discriminate.
  - cbn [step] in E. injection E as <- <-. discriminate.
  - (* Restart *) cbn [step] in E. injection E as <- _. split; [|reflexivity].
    intros id0 c0 HL.
    assert (HL' : is_live s id0 c0) by exact HL.
    destruct (restart_same_lists meta s id0 c0 I HL') as [_ Hc]. cbn [step fst] in Hc.
    rewrite Hc. apply (RL id0 c0 HL').
  - destruct D.
  - destruct D.
  - (* Reject *) cbn [step] in E. injection E as <- _. apply Frame; reflexivity.
Qed.

(* every disciplined history: host, store and specification agree on every contract that
   has not been superseded *)
Theorem refine_runs : forall ops s a, Inv s -> disc_run meta s ops -> R s a ->
  R (runs s ops) (aruns s a ops).
Proof.
  induction ops as [|o ops IH]; intros s a I D HR; cbn in *; [exact HR|].
  destruct D as [D1 D2]. apply IH; [now apply inv_step|exact D2|now apply refine_step].
Qed.

Theorem lists_are_accepted_modifications ops id c :
  disc_run meta init ops -> is_live (runs init ops) id c ->
  tbl_list (rows c) = aget (aruns init ainit ops) id /\
  cache_get (runs init ops) id = aget (aruns init ainit ops) id /\
  fsize c = sector_size * nlen (aget (aruns init ainit ops) id) /\
  mroot c = meta (aget (aruns init ainit ops) id).
Proof.
  intros D HL.
  pose proof (inv_runs meta ops init (inv_init meta) D) as I.
  destruct (refine_runs ops init ainit (inv_init meta) D R_init) as [RL _].
  rewrite (RL id c HL). destruct (inv_live meta _ id c I HL) as (H1 & H2 & H3). auto.
Qed.

End Spec.
