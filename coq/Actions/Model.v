(* Actions/Model.v — Store.ContractActions (persist/sqlite/contracts.go) and the part of
   Manager.ProcessActions (host/contracts/update.go) that decides what is handed to the
   transaction pool, over the rows of Rows.v.  The seven selection predicates are the
   *generated* definitions of gen/Queries.v (tools/sqlgen, regenerated from the repository's
   current source on every check run).  No proofs here. *)
From HostdBase Require Import Base.
From HostdActions Require Import Rows SqlSem.
From HostdActions Require Import Queries.

Record store := { v1s : list v1row; v2s : list v2row }.
Definition init : store := {| v1s := []; v2s := [] |}.

(* contracts.LifecycleActions, projected to contract ids *)
Record actions := {
  aRebroadcast : list N;   (* RebroadcastFormation *)
  aRevision : list N;      (* BroadcastRevision *)
  aProof : list N;         (* BroadcastProof *)
  aRebroadcast2 : list N;  (* RebroadcastV2Formation *)
  aRevision2 : list N;     (* BroadcastV2Revision *)
  aProof2 : list N;        (* BroadcastV2Proof *)
  aExpire2 : list N        (* BroadcastV2Expiration *)
}.

Definition sel1 (p : v1row -> bool) (s : store) : list N := map c1_contract_id (filter p (v1s s)).
Definition sel2 (p : v2row -> bool) (s : store) : list N := map c2_contract_id (filter p (v2s s)).

(* Store.ContractActions(index, revisionBroadcastHeight): one transaction, seven queries;
   an argument database/sql cannot bind fails the call *)
Definition contract_actions (s : store) (h hb : N) : res actions :=
  if negb (q_rebroadcastContracts_bindable && q_broadcastRevision_bindable h hb
           && q_proofContracts_bindable h && q_rebroadcastV2Contracts_bindable
           && q_broadcastV2Revision_bindable h hb && q_proofV2Contracts_bindable h
           && q_expireV2Contracts_bindable h)
  then Err EOther
  else Ok {| aRebroadcast := sel1 q_rebroadcastContracts s;
             aRevision := sel1 (fun c => q_broadcastRevision c h hb) s;
             aProof := sel1 (fun c => q_proofContracts c h) s;
             aRebroadcast2 := sel2 q_rebroadcastV2Contracts s;
             aRevision2 := sel2 (fun c => q_broadcastV2Revision c h hb) s;
             aProof2 := sel2 (fun c => q_proofV2Contracts c h) s;
             aExpire2 := sel2 (fun c => q_expireV2Contracts c h) s |}.

(* Manager.ProcessActions(index): revisionBroadcastHeight := index.Height + buffer (uint64),
   then per action list what reaches the pool/syncer when funding and pool acceptance
   succeed (they are the wallet's and the chain manager's; the harness stubs them to
   succeed): every formation set, every revision, a v1 storage proof unless the missed host
   payout is not below the valid one, every v2 formation, revision, proof and expiration. *)
Definition process_actions (s : store) (buf h : N) : res actions :=
  do a <- contract_actions s h (wadd h buf);
  Ok {| aRebroadcast := aRebroadcast a;
        aRevision := aRevision a;
        aProof := sel1 (fun c => q_proofContracts c h && c1_proof_benefit c) s;
        aRebroadcast2 := aRebroadcast2 a;
        aRevision2 := aRevision2 a;
        aProof2 := aProof2 a;
        aExpire2 := aExpire2 a |}.

(** correspondence *)
Inductive op :=
| SetRows (r1 : list v1row) (r2 : list v2row)   (* snapshot of the tables, in contract-id order *)
| Actions (h hb : N)                            (* Store.ContractActions *)
| Process (buf h : N).                          (* Manager.ProcessActions: ids broadcast per kind *)

Inductive obs := ODone | OActs (r : res actions).

Definition step (s : store) (o : op) : store * obs :=
  match o with
  | SetRows r1 r2 => ({| v1s := r1; v2s := r2 |}, ODone)
  | Actions h hb => (s, OActs (contract_actions s h hb))
  | Process buf h => (s, OActs (process_actions s buf h))
  end.

Definition ids_eqb := list_eqb N.eqb.
Definition actions_eqb (a b : actions) : bool :=
  ids_eqb (aRebroadcast a) (aRebroadcast b) && ids_eqb (aRevision a) (aRevision b)
  && ids_eqb (aProof a) (aProof b) && ids_eqb (aRebroadcast2 a) (aRebroadcast2 b)
  && ids_eqb (aRevision2 a) (aRevision2 b) && ids_eqb (aProof2 a) (aProof2 b)
  && ids_eqb (aExpire2 a) (aExpire2 b).

Definition obs_eqb (a b : obs) : bool :=
  match a, b with
  | ODone, ODone => true
  | OActs x, OActs y => res_eqb actions_eqb x y
  | _, _ => false
  end.

Definition case := (N * list (op * obs))%type.
Definition check (cs : list case) := mismatches init step obs_eqb cs.
