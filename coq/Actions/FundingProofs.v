(* Actions/FundingProofs.v — lemmas about the funding step of Funding.v: what one pass of
   ProcessActions gets into the pool as a function of the wallet's confirmed outputs. *)
From Coq Require Import Lia ZifyBool ZifyN ZifyNat.
From HostdBase Require Import Base.
From HostdActions Require Import Rows SqlSem Queries Model Proofs Liveness2 Funding.

(** * Sorting keeps lengths and pointwise properties *)
Lemma insert_desc_length : forall u l, List.length (insert_desc u l) = S (List.length l).
Proof.
  intros u l. induction l as [|x r IH]; cbn [insert_desc List.length]; [reflexivity|].
  destruct (u_value x <? u_value u)%N; cbn [List.length]; [reflexivity|]. rewrite IH. reflexivity.
Qed.

Lemma sort_desc_length : forall l, List.length (sort_desc l) = List.length l.
Proof.
  induction l as [|x r IH]; [reflexivity|].
  cbn [sort_desc fold_right]. fold (sort_desc r). rewrite insert_desc_length, IH. reflexivity.
Qed.

Lemma insert_desc_Forall : forall (P : utxo -> Prop) u l, P u -> Forall P l -> Forall P (insert_desc u l).
Proof.
  intros P u l Hu Hl. induction Hl as [|x r Hx Hr IH]; cbn [insert_desc].
  - constructor; [exact Hu|constructor].
  - destruct (u_value x <? u_value u)%N.
    + constructor; [exact Hu|]. constructor; assumption.
    + constructor; assumption.
Qed.

Lemma sort_desc_Forall : forall (P : utxo -> Prop) l, Forall P l -> Forall P (sort_desc l).
Proof.
  intros P l Hl. induction Hl as [|x r Hx Hr IH]; [constructor|].
  cbn [sort_desc fold_right]. fold (sort_desc r). apply insert_desc_Forall; assumption.
Qed.

Lemma insert_desc_sum : forall u l, sum_values (insert_desc u l) = (u_value u + sum_values l)%N.
Proof.
  intros u l. induction l as [|x r IH]; cbn [insert_desc sum_values fold_right]; [reflexivity|].
  destruct (u_value x <? u_value u)%N; cbn [sum_values fold_right]; [reflexivity|].
  fold (sum_values (insert_desc u r)). fold (sum_values r). rewrite IH. lia.
Qed.

Lemma sort_desc_sum : forall l, sum_values (sort_desc l) = sum_values l.
Proof.
  induction l as [|x r IH]; [reflexivity|].
  cbn [sort_desc fold_right]. fold (sort_desc r). rewrite insert_desc_sum, IH. reflexivity.
Qed.

Lemma filter_Forall_true : forall (f : utxo -> bool) l, Forall (fun u => f u = true) (filter f l).
Proof.
  intros f l. apply Forall_forall. intros u Hu. apply filter_In in Hu. tauto.
Qed.

Lemma filter_Forall_keep : forall (P : utxo -> Prop) (f : utxo -> bool) l, Forall P l -> Forall P (filter f l).
Proof.
  intros P f l Hl. apply Forall_forall. intros u Hu. apply filter_In in Hu.
  rewrite Forall_forall in Hl. apply Hl. tauto.
Qed.

Lemma confirmed_length : forall w, List.length (confirmed w) = nconf w.
Proof. intros. unfold confirmed, nconf. apply sort_desc_length. Qed.

Lemma confirmed_all_conf : forall w, Forall (fun u => u_conf u = true) (confirmed w).
Proof. intros. unfold confirmed. apply sort_desc_Forall. apply (filter_Forall_true is_conf). Qed.

Lemma unconfirmed_all_unconf : forall w, Forall (fun u => u_conf u = false) (unconfirmed w).
Proof.
  intros. unfold unconfirmed. apply sort_desc_Forall.
  pose proof (filter_Forall_true is_unconf w) as H. eapply Forall_impl; [|exact H].
  intros u Hu. unfold is_unconf in Hu. destruct (u_conf u); [discriminate|reflexivity].
Qed.

Lemma nconf_app : forall a b, nconf (a ++ b) = nconf a + nconf b.
Proof. intros. unfold nconf. rewrite filter_app, app_length. reflexivity. Qed.

Lemma nconf_all_conf : forall l, Forall (fun u => u_conf u = true) l -> nconf l = List.length l.
Proof.
  intros l H. induction H as [|x r Hx Hr IH]; [reflexivity|].
  unfold nconf in *. cbn [filter]. unfold is_conf at 1. rewrite Hx. cbn [List.length]. rewrite IH. reflexivity.
Qed.

Lemma nconf_all_unconf : forall l, Forall (fun u => u_conf u = false) l -> nconf l = 0.
Proof.
  intros l H. induction H as [|x r Hx Hr IH]; [reflexivity|].
  unfold nconf in *. cbn [filter]. unfold is_conf at 1. rewrite Hx. exact IH.
Qed.

Lemma Forall_app_l : forall (P : utxo -> Prop) a b, Forall P (a ++ b) -> Forall P a.
Proof. intros P a b H. apply Forall_app in H. tauto. Qed.
Lemma Forall_app_r : forall (P : utxo -> Prop) a b, Forall P (a ++ b) -> Forall P b.
Proof. intros P a b H. apply Forall_app in H. tauto. Qed.

Lemma Forall_firstn : forall (P : utxo -> Prop) n l, Forall P l -> Forall P (firstn n l).
Proof.
  intros P n l H. rewrite <- (firstn_skipn n l) in H. eapply Forall_app_l; exact H.
Qed.

(** * The two selection loops *)
Lemma take_conf_split : forall amt l acc s rest sum,
  take_conf amt acc l = (s, rest, sum) ->
  sum = (acc + sum_values s)%N /\
  match rest with
  | Some r => l = s ++ r /\ (amt <= sum)%N /\ r <> []
  | None => l = s
  end.
Proof.
  intros amt l. induction l as [|u r IH]; intros acc s rest sum H; cbn [take_conf] in H.
  - injection H as <- <- <-. cbn [sum_values fold_right]. split; [lia|reflexivity].
  - destruct (amt <=? acc)%N eqn:E.
    + injection H as <- <- <-. cbn [sum_values fold_right app]. split; [lia|].
      split; [reflexivity|]. split; [lia|discriminate].
    + destruct (take_conf amt (acc + u_value u) r) as [[s1 rest1] sum1] eqn:Er.
      injection H as <- <- <-. destruct (IH _ _ _ _ Er) as [Hs Hr].
      cbn [sum_values fold_right]. fold (sum_values s1). split; [lia|].
      destruct rest1 as [r1|].
      * destruct Hr as [Hl [Ha Hn]]. cbn [app]. rewrite <- Hl. repeat split; assumption.
      * cbn [app]. rewrite <- Hr. reflexivity.
Qed.

(* something is selected whenever something is there and the amount is not covered yet *)
Lemma take_conf_nonempty : forall amt l acc s rest sum,
  take_conf amt acc l = (s, rest, sum) -> (acc < amt)%N -> l <> [] -> s <> [].
Proof.
  intros amt l acc s rest sum H Ha Hl. destruct l as [|u r]; [congruence|].
  cbn [take_conf] in H. replace (amt <=? acc)%N with false in H by lia.
  destruct (take_conf amt (acc + u_value u) r) as [[s1 rest1] sum1].
  injection H as <- <- <-. discriminate.
Qed.

Lemma take_unconf_split : forall amt l acc s rest sum,
  take_unconf amt acc l = (s, rest, sum) -> l = s ++ rest /\ sum = (acc + sum_values s)%N.
Proof.
  intros amt l. induction l as [|u r IH]; intros acc s rest sum H; cbn [take_unconf] in H.
  - injection H as <- <- <-. cbn. split; [reflexivity|lia].
  - destruct (amt <=? acc + u_value u)%N.
    + injection H as <- <- <-. cbn [app sum_values fold_right]. split; [reflexivity|lia].
    + destruct (take_unconf amt (acc + u_value u) r) as [[s1 rest1] sum1] eqn:Er.
      injection H as <- <- <-. destruct (IH _ _ _ _ Er) as [Hl Hs].
      cbn [app sum_values fold_right]. fold (sum_values s1). rewrite <- Hl. split; [reflexivity|lia].
Qed.

(** * One funding *)
Lemma with_change_nconf : forall f,
  (match fd_change f with Some c => u_conf c = false | None => True end) ->
  nconf (with_change f) = nconf (fd_wallet f).
Proof.
  intros f H. unfold with_change. rewrite nconf_app. destruct (fd_change f) as [c|].
  - unfold nconf at 2. cbn [filter]. unfold is_conf. rewrite H. cbn. lia.
  - cbn. lia.
Qed.

(* the shape of a successful funding with a positive amount *)
Lemma fund_shape : forall g uu i amt w f,
  (0 < amt)%N -> fund g uu i amt w = Some f ->
  exists sel rest sum usel urest sum2 remaining,
    take_conf amt 0 (confirmed w) = (sel, rest, sum) /\
    (if (sum <? amt)%N && uu then take_unconf amt sum (unconfirmed w) else ([], unconfirmed w, sum)) = (usel, urest, sum2) /\
    (amt <= sum2)%N /\
    fd_wallet f = remaining ++ urest /\
    (match rest with
     | Some r => exists j, remaining = firstn j r
     | None => remaining = []
     end) /\
    (match fd_change f with Some c => u_conf c = false | None => True end).
Proof.
  intros g uu i amt w f Hpos H. unfold fund in H.
  replace (amt =? 0)%N with false in H by lia.
  destruct (take_conf amt 0 (confirmed w)) as [[sel rest] sum] eqn:Et.
  destruct (if (sum <? amt)%N && uu then take_unconf amt sum (unconfirmed w) else ([], unconfirmed w, sum))
    as [[usel urest] sum2] eqn:Eu.
  destruct (sum2 <? amt)%N eqn:El; [discriminate|].
  injection H as <-. cbn [fd_wallet fd_change].
  exists sel, rest, sum, usel, urest, sum2.
  eexists. split; [reflexivity|]. split; [exact Eu|]. split; [lia|]. split; [reflexivity|].
  split.
  - destruct rest as [r|]; [eexists; reflexivity|reflexivity].
  - match goal with |- context [if ?b then _ else _] => destruct b end; [reflexivity|exact I].
Qed.

Lemma fund_wallet_nconf : forall g uu i amt w f,
  (0 < amt)%N -> fund g uu i amt w = Some f ->
  nconf (with_change f) = nconf (fd_wallet f) /\
  nconf (fd_wallet f) <= nconf w /\
  (uu = false -> nconf (fd_wallet f) < nconf w).
Proof.
  intros g uu i amt w f Hpos H.
  destruct (fund_shape g uu i amt w f Hpos H) as [sel [rest [sum [usel [urest [sum2 [remaining
    [Et [Eu [Hcov [Hw [Hrem Hch]]]]]]]]]]]].
  split; [apply with_change_nconf; exact Hch|].
  destruct (take_conf_split _ _ _ _ _ _ Et) as [Hsum Hsplit].
  pose proof (confirmed_all_conf w) as Hcs. pose proof (unconfirmed_all_unconf w) as Hus.
  assert (Hur : Forall (fun u => u_conf u = false) urest).
  { destruct ((sum <? amt)%N && uu).
    - destruct (take_unconf_split _ _ _ _ _ _ Eu) as [Hl _]. rewrite Hl in Hus. eapply Forall_app_r; exact Hus.
    - injection Eu as _ <- _. exact Hus. }
  rewrite Hw, nconf_app, (nconf_all_unconf urest Hur), Nat.add_0_r.
  rewrite <- (confirmed_length w).
  destruct rest as [r|].
  - destruct Hsplit as [Hl [_ _]]. destruct Hrem as [j Hj]. subst remaining.
    assert (Hr : Forall (fun u => u_conf u = true) r) by (rewrite Hl in Hcs; eapply Forall_app_r; exact Hcs).
    rewrite (nconf_all_conf _ (Forall_firstn _ j r Hr)).
    rewrite Hl, app_length. pose proof (firstn_length j r) as Hle.
    split; [lia|]. intro Huu. subst uu. rewrite andb_false_r in Eu. injection Eu as _ _ <-.
    assert (sel <> []).
    { destruct sel; [|discriminate]. cbn [sum_values fold_right] in Hsum. lia. }
    destruct sel; [congruence|]. cbn [List.length]. lia.
  - subst remaining. cbn. split; [lia|]. intro Huu. subst uu. rewrite andb_false_r in Eu. injection Eu as _ _ <-.
    rewrite Hsplit. destruct sel; [cbn [sum_values fold_right] in Hsum; lia|]. cbn [List.length]. lia.
Qed.

Lemma fund_zero : forall g uu i w, fund g uu i 0 w = Some {| fd_inputs := []; fd_change := None; fd_wallet := w |}.
Proof. reflexivity. Qed.

(* no confirmed output, useUnconfirmed = false: ErrNotEnoughFunds *)
Lemma fund_no_conf : forall g i amt w, (0 < amt)%N -> nconf w = 0 -> fund g false i amt w = None.
Proof.
  intros g i amt w Hpos Hn. unfold fund. replace (amt =? 0)%N with false by lia.
  assert (Hc : confirmed w = []).
  { pose proof (confirmed_length w) as Hl. rewrite Hn in Hl. destruct (confirmed w); [reflexivity|discriminate]. }
  rewrite Hc. cbn [take_conf]. rewrite andb_false_r. replace (0 <? amt)%N with true by lia. reflexivity.
Qed.

(** * The bound: a pass gets at most as many v2 actions into the pool as the wallet has
      confirmed outputs *)
Lemma pass_bound : forall g acts w w' fl,
  (forall a, In a acts -> is_v2 (a_kind a) = true -> (0 < a_fee a)%N) ->
  pass g false w acts = (w', fl) ->
  reached2 acts fl + nconf w' <= nconf w /\ List.length fl = List.length acts.
Proof.
  intros g acts. induction acts as [|a r IH]; intros w w' fl Hfee H; cbn [pass] in H.
  - injection H as <- <-. cbn. lia.
  - assert (Hfee' : forall a0, In a0 r -> is_v2 (a_kind a0) = true -> (0 < a_fee a0)%N)
      by (intros; apply Hfee; [right; assumption|assumption]).
    destruct (fund g (k_uu false (a_kind a)) 0 (a_fee a) w) as [f|] eqn:Ef.
    + set (w1 := if a_pool_ok a then with_change f else if k_release (a_kind a) then w else fd_wallet f) in H.
      destruct (pass g false w1 r) as [w2 fl2] eqn:Ep. injection H as <- <-.
      destruct (IH _ _ _ Hfee' Ep) as [Hb Hl]. cbn [reached2 List.length]. split; [|lia].
      destruct (N.eq_dec (a_fee a) 0) as [Hz|Hnz].
      * (* a zero fee needs no input *)
        assert (Hv : is_v2 (a_kind a) = false).
        { destruct (is_v2 (a_kind a)) eqn:Ev; [|reflexivity].
          pose proof (Hfee a (or_introl eq_refl) Ev). lia. }
        rewrite Hv. cbn [andb]. rewrite Hz, fund_zero in Ef. injection Ef as <-.
        assert (w1 = w).
        { unfold w1, with_change. cbn [fd_wallet fd_change]. rewrite app_nil_r.
          destruct (a_pool_ok a), (k_release (a_kind a)); reflexivity. }
        subst w1. rewrite H in Hb. lia.
      * destruct (fund_wallet_nconf g _ 0 (a_fee a) w f ltac:(lia) Ef) as [Hc [Hle Hlt]].
        unfold w1 in Hb. destruct (a_pool_ok a).
        -- rewrite Hc in Hb. destruct (is_v2 (a_kind a)) eqn:Ev; cbn [andb].
           ++ unfold k_uu in Hlt. rewrite Ev in Hlt. specialize (Hlt eq_refl). lia.
           ++ lia.
        -- rewrite andb_false_r. destruct (k_release (a_kind a)); lia.
    + destruct (pass g false w r) as [w2 fl2] eqn:Ep. injection H as <- <-.
      destruct (IH _ _ _ Hfee' Ep) as [Hb Hl]. cbn [reached2 List.length]. rewrite andb_false_r. lia.
Qed.

(** * Exactness: confirmed outputs that each cover a fee, no defragmentation *)
(* every confirmed output is worth at least B *)
Definition rich (B : N) (w : wallet) : Prop := Forall (fun u => u_conf u = true -> (B <= u_value u)%N) w.

Definition plain_v2 (B : N) (a : action) : Prop :=
  is_v2 (a_kind a) = true /\ a_pool_ok a = true /\ (0 < a_fee a)%N /\ (a_fee a <= B)%N.

Lemma rich_confirmed : forall B w, rich B w -> Forall (fun u => (B <= u_value u)%N) (confirmed w).
Proof.
  intros B w H. unfold confirmed. apply sort_desc_Forall.
  apply Forall_forall. intros u Hu. apply filter_In in Hu. destruct Hu as [Hin Hc].
  unfold rich in H. rewrite Forall_forall in H. apply H; assumption.
Qed.

Lemma rich_of_unconf : forall B l, Forall (fun u => u_conf u = false) l -> rich B l.
Proof.
  intros B l H. unfold rich. eapply Forall_impl; [|exact H]. intros u Hu Hc. congruence.
Qed.

(* funding from a wallet whose largest confirmed output covers the amount: exactly that
   output is spent, the change is unconfirmed *)
Lemma fund_rich : forall g i amt B w,
  (0 < amt)%N -> (amt <= B)%N -> rich B w -> 0 < nconf w -> nconf w <= g_threshold g ->
  exists f u r, fund g false i amt w = Some f /\ confirmed w = u :: r /\
    fd_wallet f = r ++ unconfirmed w /\ fd_inputs f = [u] /\
    fd_change f = (if (amt <? u_value u)%N then Some {| u_value := u_value u - amt; u_conf := false |} else None).
Proof.
  intros g i amt B w Hpos HB Hrich Hn Ht.
  pose proof (rich_confirmed B w Hrich) as Hcs. pose proof (confirmed_length w) as Hlen.
  destruct (confirmed w) as [|u r] eqn:Ec; [cbn in Hlen; lia|].
  assert (Hu : (B <= u_value u)%N) by (inversion Hcs; assumption).
  unfold fund. replace (amt =? 0)%N with false by lia. rewrite Ec.
  cbn [take_conf]. replace (amt <=? 0)%N with false by lia.
  assert (Hdef : forall rest, List.length rest <= S (List.length r) -> defrag g (i + 1 + 0) rest = []).
  { intros rest Hr. unfold defrag. cbn [List.length] in Hlen.
    replace (g_threshold g <? List.length rest)%nat with false by lia. reflexivity. }
  destruct r as [|u2 r2].
  - cbn [take_conf]. rewrite andb_false_r. replace (0 + u_value u <? amt)%N with false by lia.
    cbn [List.length]. rewrite (Hdef [u]) by (cbn; lia).
    cbn [sum_values fold_right List.length app]. rewrite N.add_0_r, N.add_0_l.
    eexists. exists u, []. split; [reflexivity|]. cbn [fd_wallet fd_inputs fd_change app].
    repeat split; reflexivity.
  - cbn [take_conf]. replace (amt <=? 0 + u_value u)%N with true by lia.
    rewrite andb_false_r. replace (0 + u_value u <? amt)%N with false by lia.
    cbn [List.length]. rewrite (Hdef (u2 :: r2)) by (cbn; lia).
    cbn [sum_values fold_right List.length app]. rewrite N.add_0_r, N.add_0_l.
    replace (S (List.length r2) - 0) with (List.length (u2 :: r2)) by (cbn; lia).
    rewrite firstn_all.
    eexists. exists u, (u2 :: r2). split; [reflexivity|]. cbn [fd_wallet fd_inputs fd_change app].
    repeat split; reflexivity.
Qed.

Lemma fund_rich_after : forall g i amt B w f,
  (0 < amt)%N -> (amt <= B)%N -> rich B w -> 0 < nconf w -> nconf w <= g_threshold g ->
  fund g false i amt w = Some f ->
  rich B (with_change f) /\ S (nconf (with_change f)) = nconf w /\
  List.length (with_change f) <= List.length w.
Proof.
  intros g i amt B w f Hpos HB Hrich Hn Ht Hf.
  destruct (fund_rich g i amt B w Hpos HB Hrich Hn Ht) as [f' [u [r [Hf' [Hc [Hw [_ Hch]]]]]]].
  rewrite Hf in Hf'. injection Hf' as <-.
  pose proof (rich_confirmed B w Hrich) as Hcs. rewrite Hc in Hcs.
  pose proof (confirmed_all_conf w) as Hcc. rewrite Hc in Hcc.
  pose proof (unconfirmed_all_unconf w) as Hus.
  assert (Hchange : forall c, fd_change f = Some c -> u_conf c = false).
  { intros c Hcq. rewrite Hch in Hcq. destruct (amt <? u_value u)%N; [|discriminate].
    injection Hcq as <-. reflexivity. }
  split; [|split].
  - unfold with_change, rich. rewrite Hw. apply Forall_app. split; [apply Forall_app; split|].
    + inversion Hcs; subst. eapply Forall_impl; [|eassumption]. intros; assumption.
    + apply rich_of_unconf. exact Hus.
    + destruct (fd_change f) as [c|] eqn:Ecg; [|constructor].
      constructor; [|constructor]. intro Hcc'. rewrite (Hchange c eq_refl) in Hcc'. discriminate.
  - rewrite with_change_nconf.
    + rewrite Hw, nconf_app, (nconf_all_unconf _ Hus), Nat.add_0_r.
      inversion Hcc; subst. rewrite (nconf_all_conf r) by assumption.
      rewrite <- (confirmed_length w), Hc. reflexivity.
    + destruct (fd_change f) as [c|] eqn:Ecg; [apply Hchange; reflexivity|exact I].
  - unfold with_change. rewrite Hw, !app_length.
    assert (List.length w = List.length (confirmed w) + List.length (unconfirmed w)).
    { unfold confirmed, unconfirmed. rewrite !sort_desc_length.
      clear. induction w as [|x t IH]; [reflexivity|]. cbn [filter List.length].
      unfold is_conf at 1, is_unconf at 1. destruct (u_conf x); cbn [negb List.length]; lia. }
    rewrite H, Hc. cbn [List.length]. destruct (fd_change f); cbn [List.length]; lia.
Qed.

Lemma pass_no_conf : forall g acts w,
  (forall a, In a acts -> plain_v2 (a_fee a) a) -> nconf w = 0 ->
  pass g false w acts = (w, repeat false (List.length acts)).
Proof.
  intros g acts. induction acts as [|a r IH]; intros w Hp Hn; [reflexivity|].
  cbn [pass List.length repeat].
  destruct (Hp a (or_introl eq_refl)) as [Hv [_ [Hpos _]]].
  unfold k_uu. rewrite Hv. rewrite (fund_no_conf g 0 (a_fee a) w Hpos Hn).
  rewrite (IH w); [reflexivity| |exact Hn]. intros; apply Hp; right; assumption.
Qed.

(* the flags of a pass over plain v2 actions: the first min(k, n) reach the pool *)
Lemma pass_exact : forall g B acts w,
  (forall a, In a acts -> plain_v2 B a) -> rich B w -> nconf w <= g_threshold g ->
  snd (pass g false w acts) =
    repeat true (Nat.min (nconf w) (List.length acts)) ++ repeat false (List.length acts - nconf w)
  /\ rich B (fst (pass g false w acts))
  /\ nconf (fst (pass g false w acts)) = nconf w - List.length acts.
Proof.
  intros g B acts. induction acts as [|a r IH]; intros w Hp Hrich Ht.
  - cbn [pass fst snd List.length]. rewrite Nat.min_0_r. cbn [repeat app Nat.sub].
    split; [reflexivity|]. split; [exact Hrich|lia].
  - assert (Hp' : forall a0, In a0 r -> plain_v2 B a0) by (intros; apply Hp; right; assumption).
    destruct (Hp a (or_introl eq_refl)) as [Hv [Hok [Hpos HB]]].
    destruct (Nat.eq_dec (nconf w) 0) as [Hz|Hnz].
    + rewrite pass_no_conf.
      * cbn [fst snd]. rewrite Hz. cbn [Nat.min repeat app]. rewrite Nat.sub_0_r.
        split; [reflexivity|]. split; [exact Hrich|lia].
      * intros a0 Ha0. destruct (Hp a0 Ha0) as [H1 [H2 [H3 H4]]]. repeat split; try assumption. lia.
      * exact Hz.
    + cbn [pass]. unfold k_uu. rewrite Hv.
      destruct (fund_rich g 0 (a_fee a) B w Hpos HB Hrich ltac:(lia) Ht) as [f [u [rr [Hf _]]]].
      rewrite Hf, Hok.
      destruct (fund_rich_after g 0 (a_fee a) B w f Hpos HB Hrich ltac:(lia) Ht Hf) as [Hr1 [Hn1 _]].
      destruct (IH (with_change f) Hp' Hr1 ltac:(lia)) as [Hfl [Hr2 Hn2]].
      destruct (pass g false (with_change f) r) as [w2 fl2]. cbn [fst snd] in *.
      split; [|split; [exact Hr2|cbn [List.length]; lia]].
      rewrite Hfl. cbn [List.length]. rewrite <- Hn1.
      cbn [Nat.min]. replace (S (List.length r) - S (nconf (with_change f))) with (List.length r - nconf (with_change f)) by lia.
      destruct (nconf (with_change f)); reflexivity.
Qed.

Lemma count_true_app : forall a b, count_true (a ++ b) = count_true a + count_true b.
Proof. induction a as [|x r IH]; intros b; cbn [app count_true]; [reflexivity|]. rewrite IH. lia. Qed.
Lemma count_true_repeat_true : forall n, count_true (repeat true n) = n.
Proof. induction n as [|n IH]; cbn; [reflexivity|]. rewrite IH. reflexivity. Qed.
Lemma count_true_repeat_false : forall n, count_true (repeat false n) = 0.
Proof. induction n as [|n IH]; cbn; [reflexivity|exact IH]. Qed.

Lemma forallb_repeat_true : forall n, forallb (fun b => b) (repeat true n) = true.
Proof. induction n as [|n IH]; cbn; [reflexivity|exact IH]. Qed.

(** statements *)
Theorem funded_per_block_bound : forall g w acts,
  (forall a, In a acts -> is_v2 (a_kind a) = true -> (0 < a_fee a)%N) ->
  reached2 acts (snd (pass g false w acts)) <= nconf w.
Proof.
  intros g w acts Hfee. destruct (pass g false w acts) as [w' fl] eqn:Ep.
  destruct (pass_bound g acts w w' fl Hfee Ep) as [H _]. cbn [snd]. lia.
Qed.

Theorem funded_per_block_exact : forall g B w acts,
  (forall a, In a acts -> plain_v2 B a) -> rich B w -> nconf w <= g_threshold g ->
  snd (pass g false w acts) =
    repeat true (Nat.min (nconf w) (List.length acts)) ++ repeat false (List.length acts - nconf w)
  /\ count_true (snd (pass g false w acts)) = Nat.min (nconf w) (List.length acts).
Proof.
  intros g B w acts Hp Hr Ht. destruct (pass_exact g B acts w Hp Hr Ht) as [H _].
  split; [exact H|]. rewrite H, count_true_app, count_true_repeat_true, count_true_repeat_false. lia.
Qed.

Theorem all_reach_pool_iff : forall g B w acts,
  (forall a, In a acts -> plain_v2 B a) -> rich B w -> nconf w <= g_threshold g ->
  (forallb (fun b => b) (snd (pass g false w acts)) = true <-> List.length acts <= nconf w).
Proof.
  intros g B w acts Hp Hr Ht. destruct (pass_exact g B acts w Hp Hr Ht) as [H _]. rewrite H. split.
  - intro Hall. destruct (Nat.le_gt_cases (List.length acts) (nconf w)) as [Hle|Hgt]; [exact Hle|].
    rewrite forallb_app in Hall. apply andb_prop in Hall. destruct Hall as [_ Hf].
    destruct (List.length acts - nconf w) eqn:E; [lia|]. cbn in Hf. discriminate.
  - intro Hle. replace (List.length acts - nconf w) with 0 by lia. cbn [repeat]. rewrite app_nil_r.
    apply forallb_repeat_true.
Qed.

(** * The TODO applied (useUnconfirmed = true): the balance is what counts *)
Lemma sum_values_app : forall a b, sum_values (a ++ b) = (sum_values a + sum_values b)%N.
Proof.
  induction a as [|x r IH]; intros b; [reflexivity|].
  cbn [app sum_values fold_right]. fold (sum_values (r ++ b)). fold (sum_values r). rewrite IH. lia.
Qed.

Lemma sum_values_split : forall w, (sum_values (confirmed w) + sum_values (unconfirmed w) = sum_values w)%N.
Proof.
  intros w. unfold confirmed, unconfirmed. rewrite !sort_desc_sum.
  induction w as [|x r IH]; [reflexivity|]. cbn [filter]. unfold is_conf at 1, is_unconf at 1.
  destruct (u_conf x); cbn [negb sum_values fold_right];
    fold (sum_values (filter is_conf r)); fold (sum_values (filter is_unconf r)); fold (sum_values r); lia.
Qed.

Lemma length_split : forall w, List.length (confirmed w) + List.length (unconfirmed w) = List.length w.
Proof.
  intros w. unfold confirmed, unconfirmed. rewrite !sort_desc_length.
  induction w as [|x t IH]; [reflexivity|]. cbn [filter List.length].
  unfold is_conf at 1, is_unconf at 1. destruct (u_conf x); cbn [negb List.length]; lia.
Qed.

Lemma take_unconf_enough : forall amt l acc s rest sum,
  take_unconf amt acc l = (s, rest, sum) -> (amt <= acc + sum_values l)%N -> (acc < amt)%N -> (amt <= sum)%N /\ s <> [].
Proof.
  intros amt l. induction l as [|u r IH]; intros acc s rest sum H Hen Hlt; cbn [take_unconf] in H.
  - cbn [sum_values fold_right] in Hen. lia.
  - cbn [sum_values fold_right] in Hen. fold (sum_values r) in Hen.
    destruct (amt <=? acc + u_value u)%N eqn:E.
    + injection H as <- <- <-. split; [lia|discriminate].
    + destruct (take_unconf amt (acc + u_value u) r) as [[s1 rest1] sum1] eqn:Er.
      injection H as <- <- <-. destruct (IH _ _ _ _ Er ltac:(lia) ltac:(lia)) as [H1 _]. split; [exact H1|discriminate].
Qed.

Lemma defrag_small : forall g i rest, List.length rest <= g_threshold g -> defrag g i rest = [].
Proof.
  intros g i rest H. unfold defrag. replace (g_threshold g <? List.length rest)%nat with false by lia. reflexivity.
Qed.

Lemma with_change_sum : forall f,
  sum_values (with_change f) = (sum_values (fd_wallet f) + match fd_change f with Some c => u_value c | None => 0 end)%N.
Proof.
  intros f. unfold with_change. rewrite sum_values_app. destruct (fd_change f); cbn [sum_values fold_right]; lia.
Qed.

Lemma fund_uu_total : forall g i amt w,
  (0 < amt)%N -> (amt <= sum_values w)%N -> List.length w <= g_threshold g ->
  exists f, fund g true i amt w = Some f /\
    sum_values (with_change f) = (sum_values w - amt)%N /\ List.length (with_change f) <= List.length w.
Proof.
  intros g i amt w Hpos Hen Hthr.
  pose proof (sum_values_split w) as Hsum. pose proof (length_split w) as Hlen.
  unfold fund. replace (amt =? 0)%N with false by lia.
  destruct (take_conf amt 0 (confirmed w)) as [[sel rest] sum] eqn:Et.
  destruct (take_conf_split _ _ _ _ _ _ Et) as [Hs Hsp].
  destruct rest as [r|].
  - destruct Hsp as [Hl [Hcov Hne]]. replace (sum <? amt)%N with false by lia. cbn [andb].
    replace (sum <? amt)%N with false by lia.
    rewrite defrag_small by (rewrite Hl, app_length in Hlen; lia).
    cbn [List.length sum_values fold_right]. rewrite Nat.sub_0_r, firstn_all, N.add_0_r.
    eexists. split; [reflexivity|]. rewrite with_change_sum. unfold with_change. cbn [fd_wallet fd_change].
    rewrite Hl, sum_values_app in Hsum. rewrite sum_values_app, !app_length. rewrite Hl, app_length in Hlen.
    assert (sel <> []) by (destruct sel; [cbn [sum_values fold_right] in Hs; lia|discriminate]).
    assert (1 <= List.length sel) by (destruct sel; [congruence|cbn; lia]).
    destruct (amt <? sum)%N eqn:E; cbn [u_value List.length]; split; lia.
  - destruct (sum <? amt)%N eqn:Elt; cbn [andb].
    + destruct (take_unconf amt sum (unconfirmed w)) as [[usel urest] sum2] eqn:Eu.
      destruct (take_unconf_split _ _ _ _ _ _ Eu) as [Hul Hus].
      rewrite <- Hsp in Hs.
      destruct (take_unconf_enough _ _ _ _ _ _ Eu ltac:(lia) ltac:(lia)) as [Hcov Hne].
      replace (sum2 <? amt)%N with false by lia.
      rewrite defrag_small by lia.
      cbn [List.length sum_values fold_right app]. rewrite N.add_0_r.
      eexists. split; [reflexivity|]. rewrite with_change_sum. unfold with_change. cbn [fd_wallet fd_change app].
      rewrite Hul, sum_values_app in Hsum. rewrite Hul, app_length in Hlen.
      assert (1 <= List.length usel) by (destruct usel; [congruence|cbn; lia]).
      rewrite app_length.
      destruct (amt <? sum2)%N eqn:E; cbn [u_value List.length]; split; lia.
    + replace (sum <? amt)%N with false by lia.
      rewrite defrag_small by lia.
      cbn [List.length sum_values fold_right app]. rewrite N.add_0_r.
      eexists. split; [reflexivity|]. rewrite with_change_sum. unfold with_change. cbn [fd_wallet fd_change app].
      rewrite <- Hsp in Hs. rewrite app_length.
      assert (1 <= List.length (confirmed w)).
      { destruct (confirmed w); [cbn [sum_values fold_right] in Hs; lia|cbn; lia]. }
      destruct (amt <? sum)%N eqn:E; cbn [u_value List.length]; split; lia.
Qed.

Fixpoint sum_fees (acts : list action) : N :=
  match acts with [] => 0 | a :: r => a_fee a + sum_fees r end%N.

(* with the TODO applied every action the balance can pay for reaches the pool *)
Theorem todo_applied_all_reach_pool : forall g acts w,
  (forall a, In a acts -> a_pool_ok a = true /\ (0 < a_fee a)%N) ->
  (sum_fees acts <= sum_values w)%N -> List.length w <= g_threshold g ->
  snd (pass g true w acts) = repeat true (List.length acts).
Proof.
  intros g acts. induction acts as [|a r IH]; intros w Hp Hen Hthr; [reflexivity|].
  destruct (Hp a (or_introl eq_refl)) as [Hok Hpos]. cbn [sum_fees] in Hen.
  cbn [pass]. assert (Hu : k_uu true (a_kind a) = true) by (unfold k_uu; destruct (is_v2 (a_kind a)); reflexivity).
  rewrite Hu. destruct (fund_uu_total g 0 (a_fee a) w Hpos ltac:(lia) Hthr) as [f [Hf [Hs Hl]]].
  rewrite Hf, Hok.
  specialize (IH (with_change f) ltac:(intros; apply Hp; right; assumption) ltac:(lia) ltac:(lia)).
  destruct (pass g true (with_change f) r) as [w2 fl2]. cbn [snd] in *. rewrite IH. reflexivity.
Qed.

(** * ProcessActions with its wallet against ProcessActions as Model.v has it *)
Lemma keep_prefix : forall {A} (l : list A) m, m <= List.length l ->
  keep l (repeat true m ++ repeat false (List.length l - m)) = firstn m l.
Proof.
  intros A l. induction l as [|x r IH]; intros m Hm.
  - cbn in Hm. replace m with 0 by lia. reflexivity.
  - destruct m as [|m].
    + cbn [repeat app List.length Nat.sub keep firstn]. clear. induction r as [|y t IH]; [reflexivity|exact IH].
    + cbn [repeat app List.length Nat.sub keep firstn]. rewrite IH by (cbn in Hm; lia). reflexivity.
Qed.

Lemma v2_actions_plain : forall fe B a x,
  (0 < fe_rev fe)%N /\ (fe_rev fe <= B)%N -> (0 < fe_proof fe)%N /\ (fe_proof fe <= B)%N ->
  (0 < fe_exp fe)%N /\ (fe_exp fe <= B)%N ->
  In x (v2_actions fe (fun _ => true) a) -> plain_v2 B x.
Proof.
  intros fe B a x Hr Hp He Hin. unfold v2_actions, mk_actions in Hin.
  repeat (apply in_app_or in Hin; destruct Hin as [Hin|Hin]);
    apply in_map_iff in Hin; destruct Hin as [id [<- _]]; repeat split; tauto.
Qed.

(* what Manager.ProcessActions hands to the pool: the first min(k, m) of the m selected v2
   actions — all of them (Model.process_actions, c06_process_actions) iff m <= k *)
Theorem process_actions_funded_exact : forall g fe B w s buf h a,
  process_actions s buf h = Ok a ->
  (0 < fe_rev fe)%N /\ (fe_rev fe <= B)%N -> (0 < fe_proof fe)%N /\ (fe_proof fe <= B)%N ->
  (0 < fe_exp fe)%N /\ (fe_exp fe <= B)%N ->
  rich B w -> nconf w <= g_threshold g ->
  let sel := v2_actions fe (fun _ => true) a in
  exists w', process_actions_funded g false fe (fun _ => true) w s buf h
             = Ok (w', firstn (nconf w) sel) /\
             (firstn (nconf w) sel = sel <-> List.length sel <= nconf w).
Proof.
  intros g fe B w s buf h a Hpa Hr Hp He Hrich Hthr sel.
  unfold process_actions_funded. rewrite Hpa. cbn [bind]. fold sel.
  destruct (pass_exact g B sel w (fun x Hx => v2_actions_plain fe B a x Hr Hp He Hx) Hrich Hthr) as [Hfl _].
  destruct (pass g false w sel) as [w' fl]. cbn [snd] in Hfl. subst fl. exists w'. split.
  - f_equal. f_equal. destruct (Nat.le_gt_cases (nconf w) (List.length sel)) as [Hle|Hgt].
    + rewrite Nat.min_l by exact Hle. apply keep_prefix. exact Hle.
    + rewrite Nat.min_r by lia. replace (List.length sel - nconf w) with 0 by lia.
      replace (repeat false 0) with (repeat false (List.length sel - List.length sel)) by (rewrite Nat.sub_diag; reflexivity).
      rewrite keep_prefix by lia. rewrite firstn_all, firstn_all2 by lia. reflexivity.
  - split.
    + intro Heq. destruct (Nat.le_gt_cases (List.length sel) (nconf w)) as [Hle|Hgt]; [exact Hle|].
      pose proof (f_equal (@List.length action) Heq) as Hl. rewrite firstn_length in Hl. lia.
    + intro Hle. apply firstn_all2. exact Hle.
Qed.

(** * A set the pool refuses: the v2 revision and proof paths do not release their inputs *)
Definition single (x : N) : wallet := [{| u_value := x; u_conf := true |}].

Lemma fund_single : forall g amt x, 1 <= g_threshold g -> (0 < amt)%N -> (amt <= x)%N ->
  exists f, fund g false 0 amt (single x) = Some f /\ fd_wallet f = [].
Proof.
  intros g amt x Hg Hpos Hle.
  assert (Hrich : rich amt (single x)) by (constructor; [intros _; exact Hle|constructor]).
  destruct (fund_rich g 0 amt amt (single x) Hpos ltac:(lia) Hrich ltac:(cbn; lia) ltac:(cbn; lia))
    as [f [u [r [Hf [Hc [Hw _]]]]]].
  change (confirmed (single x)) with (single x) in Hc. injection Hc as <- <-.
  exists f. split; [exact Hf|]. rewrite Hw. reflexivity.
Qed.

(* one output; the pass first meets a v2 revision the pool refuses (it is due at the proof
   height, validation.go:767), then a proof: the output stays reserved, the proof is not funded
   (and nothing is for the reservation time).  The expiration path releases: there the proof
   is funded. *)
Theorem refused_revision_reserves : forall g x r p id1 id2,
  1 <= g_threshold g -> (0 < r)%N -> (r <= x)%N -> (0 < p)%N -> (p <= x)%N ->
  pass g false (single x)
    [{| a_kind := KRev2; a_id := id1; a_fee := r; a_pool_ok := false |};
     {| a_kind := KProof2; a_id := id2; a_fee := p; a_pool_ok := true |}] = ([], [false; false])
  /\ snd (pass g false (single x)
    [{| a_kind := KExp2; a_id := id1; a_fee := r; a_pool_ok := false |};
     {| a_kind := KProof2; a_id := id2; a_fee := p; a_pool_ok := true |}]) = [false; true].
Proof.
  intros g x r p id1 id2 Hg Hr Hrx Hp Hpx.
  destruct (fund_single g r x Hg Hr Hrx) as [f [Hf Hw]].
  destruct (fund_single g p x Hg Hp Hpx) as [f2 [Hf2 _]].
  split.
  - cbn [pass a_kind a_fee a_pool_ok k_uu is_v2 k_release]. rewrite Hf, Hw.
    rewrite (fund_no_conf g 0 p [] Hp eq_refl). reflexivity.
  - cbn [pass a_kind a_fee a_pool_ok k_uu is_v2 k_release]. rewrite Hf, Hf2.
    destruct (pass g false (with_change f2) []) eqn:E. cbn [pass] in E. injection E as <- <-. reflexivity.
Qed.
