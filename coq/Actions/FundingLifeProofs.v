(* Actions/FundingLifeProofs.v — n v2 contracts with data that share one proof window over a
   wallet with one confirmed output (Funding.shared_world, Funding.fblock): exactly
   min(n, w) contracts end successful, the other n - w are expired by the host itself and end
   failed; with at least n (and at most DefragThreshold) outputs all of them succeed. *)
From Coq Require Import Lia ZifyBool ZifyN ZifyNat.
From HostdBase Require Import Base.
From HostdActions Require Import Rows SqlSem Queries Model Proofs Liveness2 Funding FundingProofs.

(** * Generic list facts *)
Lemma map_res_pointwise : forall {A B} (f : A -> res B) (h : A -> B) l,
  (forall x, In x l -> f x = Ok (h x)) -> map_res f l = Ok (map h l).
Proof.
  intros A B f h l. induction l as [|x r IH]; intros H; [reflexivity|].
  cbn [map_res map]. rewrite (H x (or_introl eq_refl)). cbn [bind].
  rewrite IH by (intros; apply H; right; assumption). reflexivity.
Qed.

Lemma bind_ok_r : forall {A} (r : res A), bind r (fun x => Ok x) = r.
Proof. intros A [x|e|]; reflexivity. Qed.

Lemma fblocks_snoc : forall fp fe m w,
  fblocks fp fe (S m) w = bind (fblocks fp fe m w) (fblock fp fe).
Proof.
  intros fp fe m. induction m as [|m IH]; intros w.
  - cbn [fblocks bind]. apply bind_ok_r.
  - change (fblocks fp fe (S (S m)) w) with (bind (fblock fp fe w) (fblocks fp fe (S m))).
    change (fblocks fp fe (S m) w) with (bind (fblock fp fe w) (fblocks fp fe m)).
    destruct (fblock fp fe w) as [w1|e|]; cbn [bind]; [apply IH|reflexivity|reflexivity].
Qed.

Lemma filter_map_comm : forall {A B} (p : B -> bool) (h : A -> B) l,
  filter p (map h l) = map h (filter (fun x => p (h x)) l).
Proof.
  intros A B p h l. induction l as [|x r IH]; [reflexivity|].
  cbn [map filter]. destruct (p (h x)); cbn [map]; rewrite IH; reflexivity.
Qed.

Lemma filter_none : forall {A} (f : A -> bool) l, (forall x, In x l -> f x = false) -> filter f l = [].
Proof.
  intros A f l. induction l as [|x r IH]; intros H; [reflexivity|].
  cbn [filter]. rewrite (H x (or_introl eq_refl)). apply IH. intros; apply H; right; assumption.
Qed.

Lemma filter_all : forall {A} (f : A -> bool) l, (forall x, In x l -> f x = true) -> filter f l = l.
Proof.
  intros A f l. induction l as [|x r IH]; intros H; [reflexivity|].
  cbn [filter]. rewrite (H x (or_introl eq_refl)). f_equal. apply IH. intros; apply H; right; assumption.
Qed.

Lemma filter_seq_ge : forall b n, b <= n -> filter (fun i => (b <=? i)%nat) (seq 0 n) = seq b (n - b).
Proof.
  intros b n Hb. replace n with (b + (n - b)) at 1 by lia. rewrite seq_app, filter_app.
  rewrite filter_none, filter_all; [reflexivity| |].
  - intros x Hx. apply in_seq in Hx. apply Nat.leb_le. lia.
  - intros x Hx. apply in_seq in Hx. apply Nat.leb_gt. lia.
Qed.

Section Shared.
  Variables (n wn : nat) (ph : N) (fp : fparams) (fe : fees) (F : N).
  Local Notation eh := (ph + N.of_nat wn)%N.
  Hypothesis Htodo : fp_todo fp = false.
  Hypothesis Hph : (1 <= ph)%N.
  Hypothesis Hbind : (ph + N.of_nat (wn + n + 2) + fp_buf fp < two63)%N.
  Hypothesis Hfp : (0 < fe_proof fe)%N /\ (fe_proof fe <= F)%N.
  Hypothesis Hfx : (0 < fe_exp fe)%N /\ (fe_exp fe <= F)%N.
  Hypothesis Hthr : 1 <= g_threshold (fp_cfg fp).

  (** the rows of the scenario: contract i, its status and resolution index *)
  Definition base_row (i : nat) (st : st2) (r : option N) : v2row * bool :=
    ({| c2_contract_id := N.of_nat i; c2_confirmation_index := Some 1%N; c2_resolution_index := r;
        c2_contract_status := st; c2_revision_number := 1; c2_negotiation_height := 0;
        c2_proof_height := ph; c2_expiration_height := eh;
        c2_elem := Some {| e2_revision_number := 1 |} |}, true).

  (* contracts [0,a) proven (contract i in block ph+1+i), [a,b) expired, [b,n) open *)
  Definition prow (a b i : nat) : v2row * bool :=
    if (i <? a)%nat then base_row i Successful2 (Some (ph + 1 + N.of_nat i)%N)
    else if (i <? b)%nat then base_row i Failed2 (Some (eh + 1 + N.of_nat (i - a))%N)
    else base_row i Active2 None.
  Definition prows (a b : nat) : list (v2row * bool) := map (prow a b) (seq 0 n).
  Definition ids (b : nat) : list N := map N.of_nat (seq b (n - b)).

  Lemma shared_rows : map (shared_row ph eh) (seq 0 n) = prows 0 0.
  Proof. unfold prows. apply map_ext. intros i. reflexivity. Qed.

  Lemma prow_id : forall a b i, c2_contract_id (fst (prow a b i)) = N.of_nat i.
  Proof. intros. unfold prow. destruct (i <? a)%nat; [reflexivity|]. destruct (i <? b)%nat; reflexivity. Qed.

  (** mining *)
  Lemma mine_rows_none : forall H a b, map_res (mine_row H []) (prows a b) = Ok (prows a b).
  Proof.
    intros H a b. rewrite (map_res_pointwise _ (fun x => x)); [rewrite map_id; reflexivity|].
    intros [c bf] _. reflexivity.
  Qed.

  Lemma pool_has_single : forall b k i f,
    pool_has [(N.of_nat b, k)] (N.of_nat i) f = (b =? i)%nat && f k.
  Proof.
    intros. unfold pool_has. cbn [existsb fst snd]. rewrite orb_false_r.
    destruct (Nat.eqb_spec b i) as [->|Hne].
    - rewrite N.eqb_refl. reflexivity.
    - replace (N.of_nat b =? N.of_nat i)%N with false by lia. reflexivity.
  Qed.

  Lemma mine_rows_proof : forall b, b < n ->
    map_res (mine_row (ph + 1 + N.of_nat b) [(N.of_nat b, PProof)]) (prows b b) = Ok (prows (S b) (S b)).
  Proof.
    intros b Hb. unfold prows at 1. rewrite (map_res_pointwise _ (fun x => prow (S b) (S b) (N.to_nat (c2_contract_id (fst x))))).
    - unfold prows. rewrite map_map. f_equal. apply map_ext. intros i. rewrite prow_id, Nat2N.id. reflexivity.
    - intros x Hx. apply in_map_iff in Hx. destruct Hx as [i [<- Hi]]. apply in_seq in Hi.
      rewrite prow_id, Nat2N.id. unfold prow.
      destruct (Nat.ltb_spec i b) as [Hlt|Hge].
      + replace (i <? S b)%nat with true by (symmetry; apply Nat.ltb_lt; lia).
        unfold mine_row, base_row. cbn [c2_contract_id pool_rev]. rewrite !pool_has_single.
        replace (b =? i)%nat with false by (symmetry; apply Nat.eqb_neq; lia). reflexivity.
      + destruct (Nat.eq_dec i b) as [->|Hne].
        * replace (b <? S b)%nat with true by (symmetry; apply Nat.ltb_lt; lia).
          unfold mine_row, base_row. cbn [c2_contract_id pool_rev]. rewrite !pool_has_single.
          rewrite Nat.eqb_refl. reflexivity.
        * replace (i <? S b)%nat with false by (symmetry; apply Nat.ltb_ge; lia).
          unfold mine_row, base_row. cbn [c2_contract_id pool_rev]. rewrite !pool_has_single.
          replace (b =? i)%nat with false by (symmetry; apply Nat.eqb_neq; lia). reflexivity.
  Qed.

  Lemma mine_rows_exp : forall a b, a <= b -> b < n ->
    map_res (mine_row (eh + 1 + N.of_nat (b - a)) [(N.of_nat b, PExp)]) (prows a b) = Ok (prows a (S b)).
  Proof.
    intros a b Hab Hb. unfold prows at 1. rewrite (map_res_pointwise _ (fun x => prow a (S b) (N.to_nat (c2_contract_id (fst x))))).
    - unfold prows. rewrite map_map. f_equal. apply map_ext. intros i. rewrite prow_id, Nat2N.id. reflexivity.
    - intros x Hx. apply in_map_iff in Hx. destruct Hx as [i [<- Hi]]. apply in_seq in Hi.
      rewrite prow_id, Nat2N.id. unfold prow.
      destruct (Nat.ltb_spec i a) as [Hlt|Hge].
      + unfold mine_row, base_row. cbn [c2_contract_id pool_rev]. rewrite !pool_has_single.
        replace (b =? i)%nat with false by (symmetry; apply Nat.eqb_neq; lia). reflexivity.
      + destruct (Nat.ltb_spec i b) as [Hlt2|Hge2].
        * replace (i <? S b)%nat with true by (symmetry; apply Nat.ltb_lt; lia).
          unfold mine_row, base_row. cbn [c2_contract_id pool_rev]. rewrite !pool_has_single.
          replace (b =? i)%nat with false by (symmetry; apply Nat.eqb_neq; lia). reflexivity.
        * destruct (Nat.eq_dec i b) as [->|Hne].
          -- replace (b <? S b)%nat with true by (symmetry; apply Nat.ltb_lt; lia).
             unfold mine_row, base_row. cbn [c2_contract_id pool_rev]. rewrite !pool_has_single.
             rewrite Nat.eqb_refl. reflexivity.
          -- replace (i <? S b)%nat with false by (symmetry; apply Nat.ltb_ge; lia).
             unfold mine_row, base_row. cbn [c2_contract_id pool_rev]. rewrite !pool_has_single.
             replace (b =? i)%nat with false by (symmetry; apply Nat.eqb_neq; lia). reflexivity.
  Qed.

  (** the selection at tip H over these rows *)
  Lemma sel_rows : forall (p : v2row -> bool) (cond : bool) a b,
    b <= n ->
    (forall i, i < n -> p (fst (prow a b i)) = (b <=? i)%nat && cond) ->
    map c2_contract_id (filter p (map fst (prows a b))) = if cond then ids b else [].
  Proof.
    intros p cond a b Hb Hp. unfold prows. rewrite map_map, filter_map_comm, map_map.
    rewrite (filter_ext_in _ (fun i => (b <=? i)%nat && cond)).
    2:{ intros i Hi. apply in_seq in Hi. apply Hp. lia. }
    destruct cond.
    - rewrite (filter_ext _ (fun i => (b <=? i)%nat)) by (intros; apply andb_true_r).
      rewrite filter_seq_ge by exact Hb. unfold ids. apply map_ext. intros i. apply prow_id.
    - rewrite filter_none; [reflexivity|]. intros; apply andb_false_r.
  Qed.

  Lemma prow_wf2 : forall a b i, wf2 (fst (prow a b i)).
  Proof. intros. unfold prow, wf2. destruct (i <? a)%nat; [reflexivity|]. destruct (i <? b)%nat; reflexivity. Qed.

  Lemma prow_open : forall a b i, a <= b ->
    is_some (c2_resolution_index (fst (prow a b i))) = negb (b <=? i)%nat.
  Proof.
    intros a b i Hab. unfold prow.
    destruct (Nat.ltb_spec i a); [replace (b <=? i)%nat with false by (symmetry; apply Nat.leb_gt; lia); reflexivity|].
    destruct (Nat.ltb_spec i b); [replace (b <=? i)%nat with false by (symmetry; apply Nat.leb_gt; lia); reflexivity|].
    replace (b <=? i)%nat with true by (symmetry; apply Nat.leb_le; lia). reflexivity.
  Qed.

  Lemma prow_fields : forall a b i,
    c2_confirmation_index (fst (prow a b i)) = Some 1%N /\
    c2_proof_height (fst (prow a b i)) = ph /\ c2_expiration_height (fst (prow a b i)) = eh /\
    rev_on_chain2 (fst (prow a b i)) = true.
  Proof.
    intros. unfold prow. destruct (i <? a)%nat; [repeat split; reflexivity|].
    destruct (i <? b)%nat; repeat split; reflexivity.
  Qed.

  Definition store_of (a b : nat) : store := {| v1s := []; v2s := map fst (prows a b) |}.

  Lemma pa_rows : forall a b H, a <= b -> b <= n -> (H + fp_buf fp < two63)%N ->
    exists act, process_actions (store_of a b) (fp_buf fp) H = Ok act /\
      aRevision2 act = [] /\
      aProof2 act = (if (ph <=? H)%N && (H <? eh)%N then ids b else []) /\
      aExpire2 act = (if (eh <=? H)%N then ids b else []).
  Proof.
    intros a b H Hab Hb Hbd.
    assert (Hwf : wf_store (store_of a b)).
    { split; [intros c []|]. intros c Hc. cbn [store_of v2s] in Hc. apply in_map_iff in Hc.
      destruct Hc as [x [<- Hx]]. unfold prows in Hx. apply in_map_iff in Hx. destruct Hx as [i [<- _]].
      apply prow_wf2. }
    rewrite (process_actions_spec _ _ _ Hwf Hbd). eexists. split; [reflexivity|].
    cbn [aRevision2 aProof2 aExpire2]. unfold sel2. cbn [store_of v2s].
    split; [|split].
    - rewrite (sel_rows _ false a b Hb); [reflexivity|].
      intros i Hi. destruct (prow_fields a b i) as [_ [_ [_ Hrc]]].
      unfold spec_revision2. rewrite Hrc. cbn [negb]. rewrite !andb_false_r. reflexivity.
    - apply (sel_rows _ _ a b Hb). intros i Hi. destruct (prow_fields a b i) as [Hc [Hp [He _]]].
      unfold spec_proof2. rewrite Hc, Hp, He, (prow_open a b i Hab). cbn [is_some andb].
      rewrite negb_involutive. destruct (b <=? i)%nat; reflexivity.
    - apply (sel_rows _ _ a b Hb). intros i Hi. destruct (prow_fields a b i) as [Hc [Hp [He _]]].
      unfold spec_expire2. rewrite Hc, He, (prow_open a b i Hab). cbn [is_some andb].
      rewrite negb_involutive. destruct (b <=? i)%nat; reflexivity.
  Qed.

  (** a pass over a wallet with a single output *)
  Definition one (x : N) (c : bool) : wallet := [{| u_value := x; u_conf := c |}].

  Lemma pass_single : forall a r x,
    (forall a0, In a0 (a :: r) -> plain_v2 F a0) -> (F < x)%N ->
    pass (fp_cfg fp) false (one x true) (a :: r) = (one (x - a_fee a) false, true :: repeat false (List.length r)).
  Proof.
    intros a r x Hp Hx.
    destruct (Hp a (or_introl eq_refl)) as [Hv [Hok [Hpos HB]]].
    assert (Hrich : rich F (one x true)) by (constructor; [intros _; cbn; lia|constructor]).
    destruct (fund_rich (fp_cfg fp) 0 (a_fee a) F (one x true) Hpos HB Hrich ltac:(cbn; lia) ltac:(cbn; lia))
      as [f [u [rr [Hf [Hc [Hw [_ Hch]]]]]]].
    change (confirmed (one x true)) with (one x true) in Hc. injection Hc as <- <-.
    change (unconfirmed (one x true)) with (@nil utxo) in Hw. cbn [app u_value] in Hw, Hch.
    replace (a_fee a <? x)%N with true in Hch by lia.
    cbn [pass]. unfold k_uu. rewrite Hv, Hf, Hok.
    assert (Hwc : with_change f = one (x - a_fee a) false) by (unfold with_change; rewrite Hw, Hch; reflexivity).
    rewrite Hwc, pass_no_conf; [reflexivity| |reflexivity].
    intros a0 Ha0. destruct (Hp a0 (or_intror Ha0)) as [H1 [H2 [H3 H4]]]. repeat split; try assumption. lia.
  Qed.

  Lemma keep_first : forall {A} (x : A) r, keep (x :: r) (true :: repeat false (List.length r)) = [x].
  Proof.
    intros A x r. cbn [keep]. f_equal. induction r as [|y t IH]; [reflexivity|]. cbn [List.length repeat keep]. exact IH.
  Qed.

  Lemma mk_actions_plain : forall k fee l a0,
    is_v2 k = true -> (0 < fee)%N -> (fee <= F)%N ->
    In a0 (mk_actions k fee (fun _ => true) l) -> plain_v2 F a0.
  Proof.
    intros k fee l a0 Hk H0 HF Hin. unfold mk_actions in Hin. apply in_map_iff in Hin.
    destruct Hin as [id [<- _]]. repeat split; assumption.
  Qed.

  Lemma ids_cons : forall b, b < n -> ids b = N.of_nat b :: ids (S b).
  Proof.
    intros b Hb. unfold ids. replace (n - b) with (S (n - S b)) by lia. reflexivity.
  Qed.

  Lemma ids_end : ids n = [].
  Proof. unfold ids. rewrite Nat.sub_diag. reflexivity. Qed.

  (** the invariant of the run: tip, progress (a, b), pending resolution, one output *)
  Definition wpool (b : nat) (pk : option pkind) : list (N * pkind) :=
    match pk with Some k => [(N.of_nat b, k)] | None => [] end.
  Definition pending (pk : option pkind) : nat := match pk with Some _ => 1 | None => 0 end.

  Definition winv (t : N) (a b : nat) (pk : option pkind) (w : fworld) : Prop :=
    fw_tip w = t /\ fw_rows w = prows a b /\ fw_pool w = wpool b pk /\
    exists x c, fw_wallet w = one x c /\ (F * N.of_nat (S (n - b - pending pk)) <= x)%N.

  (* what the pass at tip H leaves in the pool when contracts [b, n) are open *)
  Definition next_pk (H : N) (b : nat) : option pkind :=
    if (b <? n)%nat then
      if (ph <=? H)%N && (H <? eh)%N then Some PProof
      else if (eh <=? H)%N then Some PExp else None
    else None.

  Lemma Fpos : (0 < F)%N.
  Proof. lia. Qed.

  Lemma budget_step : forall m x fee, (F * N.of_nat (S (S m)) <= x)%N -> (fee <= F)%N ->
    (F < x)%N /\ (F * N.of_nat (S m) <= x - fee)%N.
  Proof.
    intros m x fee Hx Hfee. pose proof Fpos as HF.
    rewrite (Nat2N.inj_succ (S m)), N.mul_succ_r in Hx.
    assert (F * 1 <= F * N.of_nat (S m))%N by (apply N.mul_le_mono_l; lia).
    lia.
  Qed.

  Lemma fblock_step : forall t a b pk w,
    winv t a b pk w -> a <= b -> b <= n -> (pk <> None -> b < n) ->
    (t + 1 + fp_buf fp < two63)%N ->
    (pk = Some PProof -> a = b /\ (t + 1 = ph + 1 + N.of_nat b)%N) ->
    (pk = Some PExp -> (t + 1 = eh + 1 + N.of_nat (b - a))%N) ->
    (forall k, pk <> Some (PRev k)) ->
    let a' := match pk with Some PProof => S b | _ => a end in
    let b' := match pk with Some _ => S b | None => b end in
    exists w', fblock fp fe w = Ok w' /\ winv (t + 1) a' b' (next_pk (t + 1) b') w'.
  Proof.
    intros t a b pk w [Htip [Hrows [Hpool [x [c [Hwal Hx]]]]]] Hab Hbn Hpk Hbd Hproof Hexp Hnorev a' b'.
    unfold fblock. rewrite Htip, Hrows, Hpool, Hwal.
    assert (Hmine : map_res (mine_row (t + 1) (wpool b pk)) (prows a b) = Ok (prows a' b')).
    { destruct pk as [[k| |]|]; cbn [wpool].
      - exfalso. apply (Hnorev k). reflexivity.
      - destruct (Hproof eq_refl) as [-> Ht]. rewrite Ht. apply mine_rows_proof. apply Hpk. discriminate.
      - rewrite (Hexp eq_refl). apply mine_rows_exp; [exact Hab|]. apply Hpk. discriminate.
      - apply mine_rows_none. }
    rewrite Hmine. cbn [bind]. change (confirm_all (one x c)) with (one x true).
    assert (Hab' : a' <= b') by (subst a' b'; destruct pk as [[k| |]|]; lia).
    assert (Hbn' : b' <= n).
    { subst b'. destruct pk as [k|]; [|exact Hbn]. assert (b < n) by (apply Hpk; discriminate). lia. }
    assert (Hx' : (F * N.of_nat (S (n - b')) <= x)%N).
    { subst b'. destruct pk as [k|]; cbn [pending] in Hx.
      - assert (b < n) by (apply Hpk; discriminate). replace (n - S b) with (n - b - 1) by lia. exact Hx.
      - replace (n - b - 0) with (n - b) in Hx by lia. exact Hx. }
    destruct (pa_rows a' b' (t + 1)%N Hab' Hbn' Hbd) as [act [Hpa [Hrev [Hprf Hxp]]]].
    unfold process_actions_funded. change {| v1s := []; v2s := map fst (prows a' b') |} with (store_of a' b').
    rewrite Hpa. cbn [bind]. unfold v2_actions. rewrite Hrev, Hprf, Hxp, Htodo. cbn [mk_actions map app].
    unfold next_pk. destruct (Nat.ltb_spec b' n) as [Hlt|Hge].
    - (* some contract is still open *)
      rewrite (ids_cons b' Hlt).
      replace (n - b') with (S (n - S b')) in Hx' by lia.
      destruct ((ph <=? t + 1)%N && (t + 1 <? eh)%N) eqn:Ewin.
      + (* inside the window: proofs *)
        replace (eh <=? t + 1)%N with false by lia. cbn [mk_actions map app]. rewrite app_nil_r.
        destruct (budget_step _ _ (fe_proof fe) Hx' (proj2 Hfp)) as [HFx Hx2].
        rewrite pass_single.
        * cbv beta iota. rewrite keep_first. cbn [a_fee map pool_entry a_id a_kind bind].
          eexists. split; [reflexivity|]. unfold winv. cbn [fw_tip fw_rows fw_pool fw_wallet wpool pending].
          repeat split. exists (x - fe_proof fe)%N, false. split; [reflexivity|].
          replace (n - b' - 1) with (n - S b') by lia. exact Hx2.
        * intros a0 Ha0. apply (mk_actions_plain KProof2 (fe_proof fe) (N.of_nat b' :: ids (S b')) a0); [reflexivity|tauto|tauto|exact Ha0].
        * exact HFx.
      + destruct (eh <=? t + 1)%N eqn:Eexp.
        * (* past the window: the host expires them *)
          cbn [mk_actions map app].
          destruct (budget_step _ _ (fe_exp fe) Hx' (proj2 Hfx)) as [HFx Hx2].
          rewrite pass_single.
          -- cbv beta iota. rewrite keep_first. cbn [a_fee map pool_entry a_id a_kind bind].
             eexists. split; [reflexivity|]. unfold winv. cbn [fw_tip fw_rows fw_pool fw_wallet wpool pending].
             repeat split. exists (x - fe_exp fe)%N, false. split; [reflexivity|].
             replace (n - b' - 1) with (n - S b') by lia. exact Hx2.
          -- intros a0 Ha0. apply (mk_actions_plain KExp2 (fe_exp fe) (N.of_nat b' :: ids (S b')) a0); [reflexivity|tauto|tauto|exact Ha0].
          -- exact HFx.
        * (* before the window *)
          cbn [mk_actions map app pass keep bind].
          eexists. split; [reflexivity|]. unfold winv. cbn [fw_tip fw_rows fw_pool fw_wallet wpool pending map].
          repeat split. exists x, true. split; [reflexivity|].
          replace (n - b' - 0) with (S (n - S b')) by lia. exact Hx'.
    - (* every contract is resolved *)
      assert (b' = n) by lia. subst b'. rewrite H. rewrite ids_end.
      destruct ((ph <=? t + 1)%N && (t + 1 <? eh)%N); destruct (eh <=? t + 1)%N;
        cbn [mk_actions map app pass keep bind];
        (eexists; split; [reflexivity|]; unfold winv; cbn [fw_tip fw_rows fw_pool fw_wallet wpool pending map];
         rewrite <- H; repeat split; exists x, true; split; [reflexivity|]; rewrite H in *;
         replace (n - n - 0) with (n - n) by lia; exact Hx').
  Qed.

  (** the schedule in closed form: after j blocks *)
  Definition a_at (j : nat) : nat := Nat.min n (Nat.min wn (j - 1)).
  Definition b_at (j : nat) : nat := a_at j + Nat.min (n - a_at j) (j - 1 - wn).
  Definition tip_at (j : nat) : N := (ph - 1 + N.of_nat j)%N.
  Definition pk_at (j : nat) : option pkind := if (j =? 0)%nat then None else next_pk (tip_at j) (b_at j).

  Lemma run_inv : forall v j,
    (F * N.of_nat (S n) <= v)%N -> j <= wn + n + 2 ->
    exists w, fblocks fp fe j (shared_world n ph eh 1 v) = Ok w /\ winv (tip_at j) (a_at j) (b_at j) (pk_at j) w.
  Proof.
    intros v j Hv. induction j as [|j IH]; intros Hj.
    - assert (Ha0 : a_at 0 = 0) by (unfold a_at; lia).
      assert (Hb0 : b_at 0 = 0) by (unfold b_at, a_at; lia).
      exists (shared_world n ph eh 1 v). split; [reflexivity|].
      unfold winv. rewrite Ha0, Hb0. unfold pk_at, tip_at, shared_world.
      cbn [fw_tip fw_rows fw_pool fw_wallet Nat.eqb wpool pending]. rewrite shared_rows.
      split; [lia|]. split; [reflexivity|]. split; [reflexivity|].
      exists v, true. split; [reflexivity|]. replace (n - 0 - 0) with n by lia. exact Hv.
    - destruct (IH ltac:(lia)) as [w [Hrun Hinv]].
      rewrite fblocks_snoc, Hrun. cbn [bind].
      assert (Htip : (tip_at j + 1 = tip_at (S j))%N) by (unfold tip_at; lia).
      destruct (fblock_step (tip_at j) (a_at j) (b_at j) (pk_at j) w Hinv) as [w' [Hstep Hinv']].
      + unfold b_at. lia.
      + unfold b_at, a_at. lia.
      + unfold pk_at. destruct (j =? 0)%nat; [congruence|]. unfold next_pk.
        destruct (Nat.ltb_spec (b_at j) n); [intros; assumption|congruence].
      + unfold tip_at. lia.
      + unfold pk_at. destruct (Nat.eqb_spec j 0) as [->|Hj0]; [discriminate|]. unfold next_pk.
        destruct (Nat.ltb_spec (b_at j) n) as [Hlt|]; [|discriminate].
        destruct ((ph <=? tip_at j)%N && (tip_at j <? eh)%N) eqn:Ew; [|destruct (eh <=? tip_at j)%N; discriminate].
        intros _. unfold tip_at, b_at, a_at in *. lia.
      + unfold pk_at. destruct (Nat.eqb_spec j 0) as [->|Hj0]; [discriminate|]. unfold next_pk.
        destruct (Nat.ltb_spec (b_at j) n) as [Hlt|]; [|discriminate].
        destruct ((ph <=? tip_at j)%N && (tip_at j <? eh)%N) eqn:Ew; [discriminate|].
        destruct (eh <=? tip_at j)%N eqn:Ee; [|discriminate].
        intros _. unfold tip_at, b_at, a_at in *. lia.
      + intros k. unfold pk_at. destruct (j =? 0)%nat; [discriminate|]. unfold next_pk.
        destruct (b_at j <? n)%nat; [|discriminate].
        destruct ((ph <=? tip_at j)%N && (tip_at j <? eh)%N); [discriminate|].
        destruct (eh <=? tip_at j)%N; discriminate.
      + exists w'. split; [exact Hstep|]. rewrite Htip in Hinv'.
        assert (Ha : match pk_at j with Some PProof => S (b_at j) | _ => a_at j end = a_at (S j)).
        { unfold pk_at. destruct (Nat.eqb_spec j 0) as [->|Hj0]; [unfold a_at; cbn; lia|]. unfold next_pk.
          destruct (Nat.ltb_spec (b_at j) n) as [Hlt|Hge].
          - destruct ((ph <=? tip_at j)%N && (tip_at j <? eh)%N) eqn:Ew.
            + unfold tip_at, b_at, a_at in *. lia.
            + destruct (eh <=? tip_at j)%N eqn:Ee; unfold tip_at, b_at, a_at in *; lia.
          - unfold tip_at, b_at, a_at in *. lia. }
        assert (Hb : match pk_at j with Some _ => S (b_at j) | None => b_at j end = b_at (S j)).
        { unfold pk_at. destruct (Nat.eqb_spec j 0) as [->|Hj0]; [unfold b_at, a_at; cbn; lia|]. unfold next_pk.
          destruct (Nat.ltb_spec (b_at j) n) as [Hlt|Hge].
          - destruct ((ph <=? tip_at j)%N && (tip_at j <? eh)%N) eqn:Ew.
            + unfold tip_at, b_at, a_at in *. lia.
            + destruct (eh <=? tip_at j)%N eqn:Ee; unfold tip_at, b_at, a_at in *; lia.
          - unfold tip_at, b_at, a_at in *. lia. }
        rewrite Ha, Hb in Hinv'. unfold pk_at at 1. cbn [Nat.eqb]. exact Hinv'.
  Qed.

  (** counting *)
  Lemma count_prows : forall a b, a <= b -> b <= n ->
    List.length (filter (fun x => st2_eqb x Successful2) (map (fun cb => c2_contract_status (fst cb)) (prows a b))) = a /\
    List.length (filter (fun x => st2_eqb x Failed2) (map (fun cb => c2_contract_status (fst cb)) (prows a b))) = b - a.
  Proof.
    intros a b Hab Hbn. unfold prows. rewrite !map_map, !filter_map_comm, !map_length.
    assert (Hs : forall i, st2_eqb (c2_contract_status (fst (prow a b i))) Successful2 = (i <? a)%nat).
    { intros i. unfold prow. destruct (i <? a)%nat; [reflexivity|]. destruct (i <? b)%nat; reflexivity. }
    assert (Hf : forall i, st2_eqb (c2_contract_status (fst (prow a b i))) Failed2 = (a <=? i)%nat && negb (b <=? i)%nat).
    { intros i. unfold prow. destruct (Nat.ltb_spec i a).
      - replace (a <=? i)%nat with false by (symmetry; apply Nat.leb_gt; lia). reflexivity.
      - replace (a <=? i)%nat with true by (symmetry; apply Nat.leb_le; lia).
        destruct (Nat.ltb_spec i b).
        + replace (b <=? i)%nat with false by (symmetry; apply Nat.leb_gt; lia). reflexivity.
        + replace (b <=? i)%nat with true by (symmetry; apply Nat.leb_le; lia). reflexivity. }
    rewrite (filter_ext _ _ Hs), (filter_ext _ _ Hf).
    replace n with (a + ((b - a) + (n - b))) by lia. rewrite !seq_app, !filter_app, !app_length.
    rewrite (filter_all _ (seq 0 a)), (filter_none _ (seq (0 + a) (b - a))), (filter_none _ (seq (0 + a + (b - a)) (n - b))).
    2:{ intros i Hi. apply in_seq in Hi. apply Nat.ltb_ge. lia. }
    2:{ intros i Hi. apply in_seq in Hi. apply Nat.ltb_ge. lia. }
    2:{ intros i Hi. apply in_seq in Hi. apply Nat.ltb_lt. lia. }
    rewrite (filter_none _ (seq 0 a)), (filter_all _ (seq (0 + a) (b - a))), (filter_none _ (seq (0 + a + (b - a)) (n - b))).
    2:{ intros i Hi. apply in_seq in Hi. replace (b <=? i)%nat with true by (symmetry; apply Nat.leb_le; lia). apply andb_false_r. }
    2:{ intros i Hi. apply in_seq in Hi. replace (a <=? i)%nat with true by (symmetry; apply Nat.leb_le; lia).
        replace (b <=? i)%nat with false by (symmetry; apply Nat.leb_gt; lia). reflexivity. }
    2:{ intros i Hi. apply in_seq in Hi. replace (a <=? i)%nat with false by (symmetry; apply Nat.leb_gt; lia). reflexivity. }
    rewrite !seq_length. cbn [List.length]. lia.
  Qed.

  (* one output: min(n, w) contracts succeed, the others are expired by the host and fail *)
  Theorem shared_window_one_output : forall v j,
    (F * N.of_nat (S n) <= v)%N -> wn + (n - wn) + 1 <= j -> j <= wn + n + 2 ->
    exists w, fblocks fp fe j (shared_world n ph eh 1 v) = Ok w /\
      count_status Successful2 w = Nat.min n wn /\ count_status Failed2 w = n - wn /\
      count_status Active2 w = 0 /\ List.length (fw_rows w) = n.
  Proof.
    intros v j Hv Hj1 Hj2. destruct (run_inv v j Hv Hj2) as [w [Hrun [_ [Hrows _]]]].
    exists w. split; [exact Hrun|]. unfold count_status, status_of. rewrite Hrows.
    assert (Ha : a_at j = Nat.min n wn) by (unfold a_at; lia).
    assert (Hb : b_at j = n) by (unfold b_at, a_at; lia).
    destruct (count_prows (a_at j) (b_at j) ltac:(lia) ltac:(lia)) as [Hs Hf].
    rewrite Hs, Hf, Ha, Hb. split; [reflexivity|]. split; [lia|]. split.
    - unfold prows. rewrite map_map, filter_map_comm, map_length, filter_none; [reflexivity|].
      intros i Hi. apply in_seq in Hi. unfold prow.
      destruct (Nat.ltb_spec i (Nat.min n wn)); [reflexivity|].
      replace (i <? n)%nat with true by (symmetry; apply Nat.ltb_lt; lia). reflexivity.
    - unfold prows. rewrite map_length, seq_length. reflexivity.
  Qed.
  (** * At least n outputs (and no defragmentation): every proof is funded at the first tip *)
  Definition srows : list (v2row * bool) := map (fun i => base_row i Successful2 (Some (ph + 1)%N)) (seq 0 n).
  Definition proof_pool (l : list nat) : list (N * pkind) := map (fun i => (N.of_nat i, PProof)) l.

  Lemma proof_pool_rev : forall l id, pool_rev (proof_pool l) id = None.
  Proof. induction l as [|i r IH]; intros id; [reflexivity|]. cbn [proof_pool map pool_rev]. apply IH. Qed.

  Lemma proof_pool_exp : forall l id, pool_has (proof_pool l) id is_pexp = false.
  Proof.
    induction l as [|i r IH]; intros id; [reflexivity|].
    unfold pool_has in *. cbn [proof_pool map existsb fst snd is_pexp]. rewrite andb_false_r. apply IH.
  Qed.

  Lemma proof_pool_has : forall l i, In i l -> pool_has (proof_pool l) (N.of_nat i) is_pproof = true.
  Proof.
    intros l i Hi. unfold pool_has. apply existsb_exists. exists (N.of_nat i, PProof). split.
    - unfold proof_pool. apply in_map_iff. exists i. split; [reflexivity|exact Hi].
    - cbn [fst snd is_pproof]. rewrite N.eqb_refl. reflexivity.
  Qed.

  Lemma mine_rows_all : map_res (mine_row (ph + 1) (proof_pool (seq 0 n))) (prows 0 0) = Ok srows.
  Proof.
    unfold prows, srows.
    rewrite (map_res_pointwise _ (fun x => base_row (N.to_nat (c2_contract_id (fst x))) Successful2 (Some (ph + 1)%N))).
    - rewrite map_map. f_equal. apply map_ext. intros i. rewrite prow_id, Nat2N.id. reflexivity.
    - intros x Hx. apply in_map_iff in Hx. destruct Hx as [i [<- Hi]].
      rewrite prow_id, Nat2N.id. unfold prow. cbn [Nat.ltb Nat.leb].
      unfold mine_row, base_row. cbn [c2_contract_id]. rewrite proof_pool_rev, proof_pool_exp, (proof_pool_has _ _ Hi).
      reflexivity.
  Qed.

  Lemma mine_srows_none : forall H, map_res (mine_row H []) srows = Ok srows.
  Proof.
    intros H. rewrite (map_res_pointwise _ (fun x => x)); [rewrite map_id; reflexivity|].
    intros [c bf] _. reflexivity.
  Qed.

  Lemma pa_srows : forall H, (H + fp_buf fp < two63)%N ->
    exists act, process_actions {| v1s := []; v2s := map fst srows |} (fp_buf fp) H = Ok act /\
      aRevision2 act = [] /\ aProof2 act = [] /\ aExpire2 act = [].
  Proof.
    intros H Hbd.
    assert (Hin : forall c, In c (map fst srows) -> exists i, c = fst (base_row i Successful2 (Some (ph + 1)%N))).
    { intros c Hc. apply in_map_iff in Hc. destruct Hc as [x [<- Hx]]. unfold srows in Hx.
      apply in_map_iff in Hx. destruct Hx as [i [<- _]]. exists i. reflexivity. }
    assert (Hwf : wf_store {| v1s := []; v2s := map fst srows |}).
    { split; [intros c []|]. intros c Hc. destruct (Hin c Hc) as [i ->]. reflexivity. }
    rewrite (process_actions_spec _ _ _ Hwf Hbd). eexists. split; [reflexivity|].
    cbn [aRevision2 aProof2 aExpire2]. unfold sel2. cbn [v2s].
    repeat split; (rewrite filter_none; [reflexivity|]); intros c Hc; destruct (Hin c Hc) as [i ->]; cbn;
      rewrite ?andb_false_r; reflexivity.
  Qed.

  Lemma keep_all : forall {A} (l : list A), keep l (repeat true (List.length l)) = l.
  Proof. intros A l. induction l as [|x r IH]; [reflexivity|]. cbn [List.length repeat keep]. rewrite IH. reflexivity. Qed.

  Lemma rich_wallet_facts : forall k v, (F <= v)%N -> nconf (rich_wallet k v) = k /\ rich F (rich_wallet k v).
  Proof.
    intros k v Hv. induction k as [|k [IH1 IH2]]; [split; [reflexivity|constructor]|].
    split.
    - unfold nconf, rich_wallet in *. cbn [repeat filter is_conf u_conf List.length]. rewrite IH1. reflexivity.
    - constructor; [intros _; exact Hv|exact IH2].
  Qed.

  (* the world once every contract is proven *)
  Definition done (t : N) (w : fworld) : Prop := fw_tip w = t /\ fw_rows w = srows /\ fw_pool w = [].

  Lemma fblock_done : forall t w, done t w -> (t + 1 + fp_buf fp < two63)%N ->
    exists w', fblock fp fe w = Ok w' /\ done (t + 1) w'.
  Proof.
    intros t w [Ht [Hr Hp]] Hbd. unfold fblock. rewrite Ht, Hr, Hp, mine_srows_none. cbn [bind].
    destruct (pa_srows (t + 1)%N Hbd) as [act [Hpa [H1 [H2 H3]]]].
    unfold process_actions_funded. rewrite Hpa. cbn [bind]. unfold v2_actions. rewrite H1, H2, H3.
    cbn [mk_actions map app pass keep bind]. eexists. split; [reflexivity|]. repeat split.
  Qed.

  Theorem shared_window_enough_outputs : forall k v j,
    1 <= wn -> n <= k -> k <= g_threshold (fp_cfg fp) -> (F <= v)%N ->
    2 <= j -> j <= wn + n + 2 ->
    exists w, fblocks fp fe j (shared_world n ph eh k v) = Ok w /\
      count_status Successful2 w = n /\ List.length (fw_rows w) = n.
  Proof.
    intros k v j Hwn Hnk Hkt Hv Hj2 Hj.
    assert (Hgo : exists w, fblocks fp fe j (shared_world n ph eh k v) = Ok w /\ done (ph - 1 + N.of_nat j)%N w).
    { induction j as [|j IH]; [lia|]. destruct (Nat.eq_dec j 1) as [->|Hne].
      - (* the two blocks that matter *)
        change (fblocks fp fe 2 (shared_world n ph eh k v))
          with (bind (fblock fp fe (shared_world n ph eh k v)) (fun w1 => bind (fblock fp fe w1) (fun w2 => Ok w2))).
        unfold fblock at 1. unfold shared_world. cbn [fw_tip fw_rows fw_pool fw_wallet].
        rewrite shared_rows, mine_rows_none. cbn [bind].
        replace (ph - 1 + 1)%N with ph by lia.
        destruct (pa_rows 0 0 ph ltac:(lia) ltac:(lia) ltac:(lia)) as [act [Hpa [H1 [H2 H3]]]].
        unfold process_actions_funded. change {| v1s := []; v2s := map fst (prows 0 0) |} with (store_of 0 0).
        rewrite Hpa. cbn [bind]. unfold v2_actions. rewrite H1, H2, H3, Htodo.
        replace ((ph <=? ph)%N && (ph <? eh)%N) with true by lia. replace (eh <=? ph)%N with false by lia.
        cbn [mk_actions map app]. rewrite app_nil_r.
        destruct (rich_wallet_facts k v Hv) as [Hnc Hri].
        assert (Hcw : confirm_all (rich_wallet k v) = rich_wallet k v).
        { unfold confirm_all, rich_wallet. clear. induction k as [|k IH]; [reflexivity|]. cbn [repeat map u_value]. rewrite IH. reflexivity. }
        rewrite Hcw.
        set (acts := mk_actions KProof2 (fe_proof fe) (fun _ : N => true) (ids 0)).
        assert (Hlen : List.length acts = n) by (unfold acts, mk_actions, ids; rewrite !map_length, seq_length; lia).
        destruct (pass_exact (fp_cfg fp) F acts (rich_wallet k v)) as [Hfl _].
        { intros a0 Ha0. apply (mk_actions_plain KProof2 (fe_proof fe) (ids 0) a0); [reflexivity|tauto|tauto|exact Ha0]. }
        { exact Hri. }
        { lia. }
        rewrite Hnc, Hlen in Hfl. replace (Nat.min k n) with n in Hfl by lia. replace (n - k) with 0 in Hfl by lia.
        cbn [repeat] in Hfl. rewrite app_nil_r in Hfl.
        destruct (pass (fp_cfg fp) false (rich_wallet k v) acts) as [wal1 fl1]. cbn [snd] in Hfl. subst fl1.
        cbv beta iota. replace (repeat true n) with (repeat true (List.length acts)) by (rewrite Hlen; reflexivity).
        rewrite keep_all. cbn [bind].
        assert (Hpool : map (pool_entry (prows 0 0)) acts = proof_pool (seq 0 n)).
        { unfold acts, mk_actions, ids, proof_pool. rewrite !map_map. replace (n - 0) with n by lia. apply map_ext. intros i. reflexivity. }
        rewrite Hpool.
        unfold fblock. cbn [fw_tip fw_rows fw_pool fw_wallet]. rewrite mine_rows_all. cbn [bind].
        destruct (pa_srows (ph + 1)%N ltac:(lia)) as [act2 [Hpa2 [G1 [G2 G3]]]].
        unfold process_actions_funded. rewrite Hpa2. cbn [bind]. unfold v2_actions. rewrite G1, G2, G3.
        cbn [mk_actions map app pass keep bind]. eexists. split; [reflexivity|].
        repeat split. cbn [fw_tip]. lia.
      - destruct (IH ltac:(lia) ltac:(lia)) as [w [Hrun Hd]].
        rewrite fblocks_snoc, Hrun. cbn [bind].
        destruct (fblock_done _ w Hd ltac:(lia)) as [w' [Hs Hd']].
        exists w'. split; [exact Hs|]. replace (ph - 1 + N.of_nat (S j))%N with (ph - 1 + N.of_nat j + 1)%N by lia. exact Hd'. }
    destruct Hgo as [w [Hrun [_ [Hr _]]]]. exists w. split; [exact Hrun|].
    unfold count_status, status_of. rewrite Hr. unfold srows. rewrite !map_map, filter_all, !map_length, seq_length; [split; reflexivity|].
    intros x Hx. apply in_map_iff in Hx. destruct Hx as [i [<- _]]. reflexivity.
  Qed.
End Shared.

(** * The two readings the property file states *)
Lemma filter_len_le : forall {A} (f : A -> bool) l, List.length (filter f l) <= List.length l.
Proof. intros A f l. induction l as [|x r IH]; [apply le_n|]. cbn [filter]. destruct (f x); cbn [List.length]; lia. Qed.

Theorem shared_one_output_refuted : forall (n wn : nat) (ph : N) (fp : fparams) (fe : fees) (F v : N),
  fp_todo fp = false -> (1 <= ph)%N ->
  (ph + N.of_nat (wn + n + 2) + fp_buf fp < two63)%N ->
  (0 < fe_proof fe <= F)%N -> (0 < fe_exp fe <= F)%N -> 1 <= g_threshold (fp_cfg fp) ->
  (F * N.of_nat (S n) <= v)%N ->
  wn < n ->
  exists w, fblocks fp fe (wn + n + 2) (shared_world n ph (ph + N.of_nat wn) 1 v) = Ok w /\
    List.length (fw_rows w) = n /\
    count_status Successful2 w = wn /\ count_status Failed2 w = n - wn /\ 0 < count_status Failed2 w.
Proof.
  intros n wn ph fp fe F v Ht Hph Hb Hp He Hg Hv Hlt.
  destruct (shared_window_one_output n wn ph fp fe F Ht Hph Hb Hp He Hg v (wn + n + 2) Hv ltac:(lia) ltac:(lia))
    as [w [Hrun [Hs [Hf [_ Hl]]]]].
  exists w. split; [exact Hrun|]. split; [exact Hl|]. rewrite Hs, Hf. repeat split; lia.
Qed.

Theorem shared_all_succeed : forall (n wn : nat) (ph : N) (fp : fparams) (fe : fees) (F v : N) (k j : nat),
  fp_todo fp = false -> (1 <= ph)%N ->
  (ph + N.of_nat (wn + n + 2) + fp_buf fp < two63)%N ->
  (0 < fe_proof fe <= F)%N -> (0 < fe_exp fe <= F)%N -> 1 <= g_threshold (fp_cfg fp) ->
  (F * N.of_nat (S n) <= v)%N -> 1 <= wn ->
  (k = 1 /\ n <= wn) \/ (n <= k /\ k <= g_threshold (fp_cfg fp)) ->
  wn + 1 <= j -> j <= wn + n + 2 ->
  exists w, fblocks fp fe j (shared_world n ph (ph + N.of_nat wn) k v) = Ok w /\
    List.length (fw_rows w) = n /\ count_status Successful2 w = n /\ count_status Failed2 w = 0.
Proof.
  intros n wn ph fp fe F v k j Ht Hph Hb Hp He Hg Hv Hwn Hcase Hj1 Hj2.
  assert (Hcount : forall w, List.length (fw_rows w) = n -> count_status Successful2 w = n -> count_status Failed2 w = 0).
  { intros w Hl Hs. unfold count_status, status_of in *. rewrite <- (map_length (fun cb => c2_contract_status (fst cb))) in Hl.
    set (l := map (fun cb => c2_contract_status (fst cb)) (fw_rows w)) in *. clearbody l. clear - Hl Hs.
    revert n Hl Hs. induction l as [|x r IH]; intros n Hl Hs; [reflexivity|].
    cbn [filter List.length] in *. pose proof (filter_len_le (fun x0 => st2_eqb x0 Successful2) r) as Hle.
    destruct x; cbn [st2_eqb List.length] in *; try lia. apply (IH (List.length r)); [reflexivity|lia]. }
  destruct Hcase as [[-> Hn]|[Hnk Hkt]].
  - destruct (shared_window_one_output n wn ph fp fe F Ht Hph Hb Hp He Hg v j Hv ltac:(lia) Hj2)
      as [w [Hrun [Hs [_ [_ Hl]]]]].
    exists w. rewrite Nat.min_l in Hs by exact Hn. repeat split; try assumption. apply Hcount; assumption.
  - assert (HF : (F <= v)%N).
    { assert (F * 1 <= F * N.of_nat (S n))%N by (apply N.mul_le_mono_l; lia). lia. }
    destruct (shared_window_enough_outputs n wn ph fp fe F Ht Hph Hb Hp He Hg k v j Hwn Hnk Hkt HF ltac:(lia) Hj2)
      as [w [Hrun [Hs Hl]]].
    exists w. repeat split; try assumption. apply Hcount; assumption.
Qed.
