(* Actions/LivenessCorr.v — correspondence entry points for the lifecycle models of
   Liveness.v (v1) and Liveness2.v (v2).
   Two harnesses feed them: the end-to-end one (a real host node mining through the proof
   window with reorgs; v1) records per block of the best chain what it contains about the
   contract and after every block the host's row; the store-level one (a real sqlite.Store
   and contracts.Manager driven block by block with synthesized chain updates; v1 and v2,
   including expiries, renewals, rejections and reverts of each) additionally records whether
   ProcessActions handed a storage proof to the pool at that tip.  The model replays the
   schedule with [Liveness.step] / [Liveness2.step2].
   [LInvalid] means the schedule violates a hypothesis of the liveness theorem (consensus /
   fairness clause of [env_ok]) or reverts the formation block.  No proofs. *)
From HostdBase Require Import Base.
From HostdActions Require Import Rows SqlSem Queries Model Proofs Liveness Liveness2 Liveness2G Liveness1G Liveness2R.

Inductive lop :=
| LStart (p : params) | LMine (b : blk) | LRevert
| L2Start (p : params2) | L2Mine (b : blk2) | L2Revert
(* WP-O: batches and failing actions (Liveness2G.gstep2 on the same world), the two-contract lifecycle (Liveness2R) *)
| LGMine (b : blk2) (a : pact) | LGRevert (a : pact)
| LRStart (q : rparams) | LRStep (e : rstep)
(* v1 with passes (Liveness1G.gstep1 on the same world) *)
| L1GMine (b : blk) (a : pact) | L1GRevert (a : pact).

Inductive lobs :=
| LNone                                              (* nothing observed at this step *)
| LInvalid | LCrashed
| LRow (s : st1) (formed resolved : bool)            (* status, formation confirmed, resolution recorded *)
| LRowS (s : st1) (formed resolved sent : bool)      (* ... and: a proof was broadcast at this tip *)
| LRow2 (s : st2) (formed resolved : bool) (elem : option N) (sent : bool)
(* predecessor row and flag, successor status (None: not negotiated), successor's root rows exist *)
| LRowR (s : st2) (formed resolved : bool) (sent : bool) (succ : option st2) (sroots : bool).

Inductive lstate := LS0 | LS1 (p : params) (w : world) | LS2 (p : params2) (w : world2) | LSR (q : rparams) (w : rworld).

Definition lrow (w : world) : lobs :=
  match row w with
  | Ok c => LRowS (c1_contract_status c) (c1_formation_confirmed c) (is_some (c1_resolution_height c))
                  (hd false (sent w))
  | _ => LCrashed
  end.

Definition lrow2 (w : world2) : lobs :=
  match row2 w with
  | Ok c => LRow2 (c2_contract_status c) (is_some (c2_confirmation_index c)) (is_some (c2_resolution_index c))
                  (option_map e2_revision_number (c2_elem c)) (hd false (sent2 w))
  | _ => LCrashed
  end.

(* the flag a harness can see for a pass is "a storage proof of the predecessor was handed to the pool /
   syncer during THIS pass" (the code does not know whether it is still in time, nor what earlier passes
   did): the attempt with the lag taken as 0, not or-ed with the recorded flag of the position *)
Definition zero_lag (a : pact) : pact := match a with NoPass => NoPass | Pass ok _ => Pass ok 0 end.
Definition raw_pass (q : rparams) (w w' : rworld) (e : rstep) : bool :=
  match e with
  | RMine _ a | RRevert a =>
      attempt (rp q) (row2 (pw w')) (tip2 (chain2 (pw w'))) (zero_lag (eff a (pdata w)))
  | _ => false
  end.

Definition lrowr (w : rworld) (sent : bool) : lobs :=
  match row2 (pw w), srow w with
  | Ok c, None => LRowR (c2_contract_status c) (is_some (c2_confirmation_index c)) (is_some (c2_resolution_index c))
                        sent None (sroots w)
  | Ok c, Some (Ok s) => LRowR (c2_contract_status c) (is_some (c2_confirmation_index c)) (is_some (c2_resolution_index c))
                        sent (Some (c2_contract_status s)) (sroots w)
  | _, _ => LCrashed
  end.

Definition lstep (s : lstate) (o : lop) : lstate * lobs :=
  match o, s with
  | LStart p, _ => (LS1 p (init_world p), lrow (init_world p))
  | L2Start p, _ => (LS2 p (init_world2 p), lrow2 (init_world2 p))
  | LMine b, LS1 p w =>
      match step p w (Mine b) with Some w' => (LS1 p w', lrow w') | None => (LS0, LInvalid) end
  | LRevert, LS1 p w =>
      match step p w Revert with Some w' => (LS1 p w', lrow w') | None => (LS0, LInvalid) end
  | L2Mine b, LS2 p w =>
      match step2 p w (Mine2 b) with Some w' => (LS2 p w', lrow2 w') | None => (LS0, LInvalid) end
  | L2Revert, LS2 p w =>
      match step2 p w Revert2 with Some w' => (LS2 p w', lrow2 w') | None => (LS0, LInvalid) end
  | LGMine b a, LS2 p w =>
      match gstep2 p w (GMine b a) with Some w' => (LS2 p w', lrow2 w') | None => (LS0, LInvalid) end
  | LGRevert a, LS2 p w =>
      match gstep2 p w (GRevert a) with Some w' => (LS2 p w', lrow2 w') | None => (LS0, LInvalid) end
  | L1GMine b a, LS1 p w =>
      match gstep1 p w (G1Mine b a) with Some w' => (LS1 p w', lrow w') | None => (LS0, LInvalid) end
  | L1GRevert a, LS1 p w =>
      match gstep1 p w (G1Revert a) with Some w' => (LS1 p w', lrow w') | None => (LS0, LInvalid) end
  | LRStart q, _ => (LSR q (init_rworld q), lrowr (init_rworld q) false)
  | LRStep e, LSR q w =>
      match rstep2 q w e with Some w' => (LSR q w', lrowr w' (raw_pass q w w' e)) | None => (LS0, LInvalid) end
  | _, _ => (LS0, LInvalid)
  end.

Definition lobs_eqb (model seen : lobs) : bool :=
  match seen, model with
  | LNone, _ => true
  | LInvalid, LInvalid | LCrashed, LCrashed => true
  | LRow s f r, LRowS s' f' r' _ => st1_eqb s s' && Bool.eqb f f' && Bool.eqb r r'
  | LRowS s f r b, LRowS s' f' r' b' => st1_eqb s s' && Bool.eqb f f' && Bool.eqb r r' && Bool.eqb b b'
  | LRow2 s f r e b, LRow2 s' f' r' e' b' =>
      st2_eqb s s' && Bool.eqb f f' && Bool.eqb r r' && option_eqb N.eqb e e' && Bool.eqb b b'
  | LRowR s f r b su sr, LRowR s' f' r' b' su' sr' =>
      st2_eqb s s' && Bool.eqb f f' && Bool.eqb r r' && Bool.eqb b b' && option_eqb st2_eqb su su' && Bool.eqb sr sr'
  | _, _ => false
  end.

Definition lcase := (N * list (lop * lobs))%type.
Definition lcheck (cs : list lcase) := mismatches LS0 lstep lobs_eqb cs.
