(* Actions/LivenessCorr.v — correspondence entry point for the v1 lifecycle model of
   Liveness.v: the end-to-end harness (a real host node mining through the proof window with
   reorgs) records, per block of the best chain, what it contains about the contract, and
   after every block the host's row; the model replays the schedule with [Liveness.step].
   An [LInvalid] answer means the schedule violates a hypothesis of the liveness theorem
   (consensus / fairness clause of [env_ok]) or reverts the formation block.  No proofs. *)
From HostdBase Require Import Base.
From HostdActions Require Import Rows SqlSem Queries Model Proofs Liveness.

Inductive lop := LStart (p : params) | LMine (b : blk) | LRevert.

(* status, formation confirmed, resolution height recorded — or nothing observed at this step
   (blocks inside a multi-block reorganisation) *)
Inductive lobs := LNone | LInvalid | LCrashed | LRow (s : st1) (formed resolved : bool).

Definition lstate := option (params * world).

Definition lrow (w : world) : lobs :=
  match row w with
  | Ok c => LRow (c1_contract_status c) (c1_formation_confirmed c) (is_some (c1_resolution_height c))
  | _ => LCrashed
  end.

Definition lstep (s : lstate) (o : lop) : lstate * lobs :=
  match o, s with
  | LStart p, _ => (Some (p, init_world p), lrow (init_world p))
  | _, None => (None, LInvalid)
  | LMine b, Some (p, w) =>
      match step p w (Mine b) with Some w' => (Some (p, w'), lrow w') | None => (None, LInvalid) end
  | LRevert, Some (p, w) =>
      match step p w Revert with Some w' => (Some (p, w'), lrow w') | None => (None, LInvalid) end
  end.

Definition lobs_eqb (model seen : lobs) : bool :=
  match seen, model with
  | LNone, _ => true
  | LInvalid, LInvalid | LCrashed, LCrashed => true
  | LRow s f r, LRow s' f' r' => st1_eqb s s' && Bool.eqb f f' && Bool.eqb r r'
  | _, _ => false
  end.

Definition lcase := (N * list (lop * lobs))%type.
Definition lcheck (cs : list lcase) := mismatches (None : lstate) lstep lobs_eqb cs.
