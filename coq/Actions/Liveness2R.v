(* Actions/Liveness2R.v — WP-O: the consequence clause of C06 for a v2 contract AND its negotiated
   renewal (two contracts).

   Liveness2.v has one contract; "the renewal is in a block" was a bit of that contract's block and
   the successor did not exist.  What the code does with the pair (host/contracts/manager.go
   RenewV2Contract, persist/sqlite/contracts.go RenewV2Contract / ExpireV2ContractSectors,
   persist/sqlite/consensus.go applyV2ContractFormation / revertV2ContractFormation /
   rejectV2Contracts / applySuccessfulV2Contracts(renewed), host/contracts/update.go
   buildV2StorageProof, persist/sqlite/sectors.go PruneSectors):

     negotiation   (RPCRenew / RPCRefresh accepted at a tip): the successor's row is inserted
                   pending with negotiation height = tip, renewed_to of the predecessor is set (it is
                   never cleared: one renewal per contract), the contract_v2_sector_roots rows are
                   MOVED to the successor; the manager gives the successor a copy of the cached roots
                   and keeps the predecessor's cache entry.
     block         the renewal transaction resolves the predecessor (renewed) and creates the
                   successor (pending / rejected -> active) in the same block; RejectContracts turns a
                   successor that is still unconfirmed with negotiation height < H - reject buffer into
                   rejected; reverting the block restores active / pending.
     pass          ProcessActions: the predecessor's proof is built from the manager's cache and the
                   stored sectors; afterwards ExpireV2ContractSectors deletes the root rows of every
                   rejected (or expired) contract.
     prune         PruneSectors frees sectors no root row refers to.
     restart       the manager's cache is reloaded from the root rows: the predecessor has none.

   So the predecessor can build its proof ([pdata]) until a restart after the hand-over, or until a
   prune after the successor's rows were deleted.  The predecessor's own life is Liveness2G's step
   with the pass outcome  ok && pdata  — every clause of Liveness2 (consensus, fairness over the
   recorded flags, formation kept) unchanged.

   Results, for every history of negotiations, mined / reverted blocks, prunes and restarts:
     [r_pred_end_state]   (1) the renewal on the best chain: the predecessor is renewed;
                          (2) as long as the predecessor can build its proof (and every pass is good)
                              it is never failed, and successful / renewed from the expiration height on;
                          (3) a failed predecessor had lost its data ([pdata] false);
     [r_data_lost_cause]  [pdata] false only after a negotiation, and then a restart happened after it or the
                          successor's rows were deleted, which happens only to a successor that a pass saw
                          rejected or expired; a rejected successor is off the best chain;
     [r_successor_row]    the successor's row follows the chain (active iff the renewal is on it);
     witnesses (the statement REFUTED, known finding unconfirmed-renewal-strands-predecessor):
       [never_confirmed], [reorged_out], [restarted] — the host held the data, every pass was good, the
       formation stayed: the predecessor ends failed. *)
From Coq Require Import Lia ZifyBool ZifyN ZifyNat.
From HostdBase Require Import Base.
From HostdActions Require Import Rows SqlSem Queries Model Proofs Liveness2 Liveness2G.

Record rparams := { rp : params2; s_ph : N; s_eh : N; s_rev0 : N; s_rev : N }.

Record rworld := {
  pw : world2;                    (* the predecessor: chain, row, recorded flags *)
  srow : option (res v2row);      (* the successor's row, once negotiated *)
  sroots : bool;                  (* the successor's contract_v2_sector_roots rows exist *)
  pdata : bool;                   (* the predecessor can build its proof: cached roots and sectors *)
  restarted : bool;               (* a restart happened after the hand-over *)
  seen_dead : bool                (* a pass saw the successor rejected or past its expiration height *)
}.

Inductive rstep :=
| RNegotiate
| RMine (b : blk2) (a : pact)
| RRevert (a : pact)
| RPrune
| RRestart.

Definition init_rworld (q : rparams) : rworld :=
  {| pw := init_world2 (rp q); srow := None; sroots := false; pdata := true; restarted := false; seen_dead := false |}.

Definition succ_row (q : rparams) (neg : N) : v2row :=
  {| c2_contract_id := 1; c2_confirmation_index := None; c2_resolution_index := None;
     c2_contract_status := Pending2; c2_revision_number := s_rev0 q;
     c2_negotiation_height := neg; c2_proof_height := s_ph q;
     c2_expiration_height := s_eh q; c2_elem := None |}.

Definition eff (a : pact) (d : bool) : pact :=
  match a with NoPass => NoPass | Pass ok lag => Pass (ok && d) lag end.

Definition is_pass (a : pact) : bool := match a with NoPass => false | Pass _ _ => true end.

(* ExpireV2ContractSectors(h) as far as the successor is concerned *)
Definition succ_dead (q : rparams) (r : option (res v2row)) (h : N) : bool :=
  match r with
  | Some (Ok c) => st2_eqb (c2_contract_status c) Rejected2 || (c2_expiration_height c <? h)%N
  | _ => false
  end.

Definition after_pass (q : rparams) (w : rworld) (pw' : world2) (sr : option (res v2row)) (a : pact) : rworld :=
  let dead := is_pass a && succ_dead q sr (tip2 (chain2 pw')) in
  {| pw := pw'; srow := sr; sroots := sroots w && negb dead; pdata := pdata w;
     restarted := restarted w; seen_dead := seen_dead w || dead |}.

Definition rstep2 (q : rparams) (w : rworld) (e : rstep) : option rworld :=
  let p := rp q in
  match e with
  | RNegotiate =>
      let ch := chain2 (pw w) in
      match srow w with
      | Some _ => None                                   (* renewed_to is set: not revisable *)
      | None =>
          if formed2 ch && negb (resolved2 ch) && (tip2 ch <? q_ph p)%N
          then Some {| pw := pw w; srow := Some (Ok (succ_row q (tip2 ch))); sroots := true; pdata := pdata w;
                       restarted := false; seen_dead := false |}
          else None
      end
  | RMine b a =>
      if d_renew b && negb (is_some (srow w)) then None    (* a renewal needs the host's signature *)
      else match gstep2 p (pw w) (GMine b (eff a (pdata w))) with
           | None => None
           | Some pw' =>
               let H := tip2 (chain2 pw') in
               let sr := match srow w with
                         | None => None
                         | Some r =>
                             Some (do c1 <- bind r (fun c => if d_renew b then apply_form2 H (s_rev q) c else Ok c);
                                   if (q_rb p <=? H)%N then reject2 (H - q_rb p) c1 else Ok c1)
                         end in
               Some (after_pass q w pw' sr a)
           end
  | RRevert a =>
      match chain2 (pw w) with
      | [] => None
      | b :: _ =>
          match gstep2 p (pw w) (GRevert (eff a (pdata w))) with
          | None => None
          | Some pw' =>
              let sr := match srow w with
                        | None => None
                        | Some r => Some (bind r (fun c => if d_renew b then revert_form2 c else Ok c))
                        end in
              Some (after_pass q w pw' sr a)
          end
      end
  | RPrune =>
      Some {| pw := pw w; srow := srow w; sroots := sroots w;
              pdata := pdata w && negb (is_some (srow w) && negb (sroots w));
              restarted := restarted w; seen_dead := seen_dead w |}
  | RRestart =>
      Some {| pw := pw w; srow := srow w; sroots := sroots w;
              pdata := pdata w && negb (is_some (srow w));
              restarted := restarted w || is_some (srow w); seen_dead := seen_dead w |}
  end.

Fixpoint rrun (q : rparams) (w : rworld) (tr : list rstep) : option rworld :=
  match tr with
  | [] => Some w
  | e :: t => match rstep2 q w e with Some w' => rrun q w' t | None => None end
  end.

(* every pass of the history runs after every block, caught up, and nothing but the data can fail *)
Fixpoint all_good (tr : list rstep) : Prop :=
  match tr with
  | [] => True
  | RMine _ a :: t | RRevert a :: t => a = Pass true 0 /\ all_good t
  | _ :: t => all_good t
  end.

(** * The successor's row follows the chain *)
Definition srow_ok (w : rworld) : Prop :=
  match srow w with
  | None => renew2 (chain2 (pw w)) = false
  | Some r => exists c, r = Ok c /\
      (if renew2 (chain2 (pw w))
       then c2_contract_status c = Active2 /\ is_some (c2_confirmation_index c) = true
       else (c2_contract_status c = Pending2 \/ c2_contract_status c = Rejected2) /\ c2_confirmation_index c = None)
  end.

Definition rinv (q : rparams) (w : rworld) : Prop :=
  invg (rp q) (pw w) /\ srow_ok w /\
  (pdata w = false -> is_some (srow w) = true /\ (restarted w = true \/ sroots w = false)) /\
  (is_some (srow w) = true -> sroots w = false -> seen_dead w = true).

Lemma rinv_init : forall q, rinv q (init_rworld q).
Proof.
  intros q. unfold rinv, init_rworld, srow_ok. cbn [pw srow sroots pdata restarted seen_dead].
  split; [apply invg_init|]. split; [reflexivity|]. split; [discriminate|discriminate].
Qed.

Lemma renew_cons_okg : forall p b r fl, chain_okg p (b :: r) fl -> d_renew b = true -> renew2 r = false.
Proof.
  intros p b r fl Hok Hn. cbn [chain_okg] in Hok. destruct Hok as [_ [_ [_ [Hrn _]]]].
  destruct (Hrn Hn) as [_ [Hres _]]. unfold resolved2 in Hres.
  destruct (proof2 r), (renew2 r); cbn in Hres; congruence.
Qed.

Lemma rstep2_inv : forall q w e w', rinv q w -> rstep2 q w e = Some w' -> rinv q w'.
Proof.
  intros q w e w' [Hg [Hs [Hd Hsd]]] Hstep. destruct e as [|b a|a| |]; cbn [rstep2] in Hstep.
  - (* negotiate *)
    destruct (srow w) eqn:Esr; [discriminate|].
    destruct (formed2 (chain2 (pw w)) && negb (resolved2 (chain2 (pw w))) && (tip2 (chain2 (pw w)) <? q_ph (rp q))%N) eqn:Ec; [|discriminate].
    injection Hstep as <-. unfold rinv, srow_ok in *. cbn [pw srow sroots pdata restarted seen_dead].
    rewrite Esr in Hs. split; [exact Hg|]. split.
    + eexists. split; [reflexivity|]. rewrite Hs. cbn. split; [left; reflexivity|reflexivity].
    + split; [|discriminate]. intro Hp. destruct (Hd Hp) as [Hx _]. try rewrite Esr in Hx. discriminate Hx.
  - (* mine *)
    destruct (d_renew b && negb (is_some (srow w))) eqn:Ern; [discriminate|].
    destruct (gstep2 (rp q) (pw w) (GMine b (eff a (pdata w)))) as [pw'|] eqn:Eg; [|discriminate].
    injection Hstep as <-.
    pose proof (gstep2_inv _ _ _ _ Hg Eg) as Hg'.
    assert (Hch : chain2 pw' = b :: chain2 (pw w)).
    { cbn [gstep2] in Eg. destruct (env_ok2 (rp q) (pw w) b); cbn [negb] in Eg; [|discriminate]. injection Eg as <-. reflexivity. }
    unfold rinv, after_pass, srow_ok in *. cbn [pw srow sroots pdata restarted seen_dead].
    split; [exact Hg'|]. rewrite Hch.
    assert (Hokc : chain_okg (rp q) (b :: chain2 (pw w)) (sent2 pw')) by (rewrite <- Hch; apply Hg').
    split; [|split].
    + destruct (srow w) as [r|] eqn:Esr.
      * destruct Hs as [c [-> Hc]]. cbn [bind]. rewrite renew2_cons.
        destruct (d_renew b) eqn:En.
        -- rewrite (renew_cons_okg _ _ _ _ Hokc En) in Hc. destruct Hc as [Hst Hcf]. cbn [orb].
           destruct c as [cid cconf cres cst crev cneg cph ceh celem]. cbn [c2_contract_status c2_confirmation_index] in *. subst cconf.
           destruct Hst as [-> | ->]; cbn [apply_form2 c2_contract_status bind upd2];
             unfold reject2; cbn [upd2 c2_contract_status c2_confirmation_index st2_eqb negb andb is_some];
             destruct (q_rb (rp q) <=? tip2 (b :: chain2 (pw w)))%N; eexists; (split; [reflexivity|]); cbn; split; reflexivity.
        -- cbn [orb bind]. destruct (renew2 (chain2 (pw w))) eqn:Er.
           ++ destruct Hc as [Hst Hcf].
              destruct c as [cid cconf cres cst crev cneg cph ceh celem]. cbn [c2_contract_status c2_confirmation_index] in *. subst cst.
              destruct cconf as [cf|]; [|discriminate Hcf].
              unfold reject2; cbn [c2_contract_status c2_confirmation_index st2_eqb negb andb is_some].
              destruct (q_rb (rp q) <=? tip2 (b :: chain2 (pw w)))%N; eexists; (split; [reflexivity|]); cbn; split; reflexivity.
           ++ destruct Hc as [Hst Hcf].
              destruct c as [cid cconf cres cst crev cneg cph ceh celem]. cbn [c2_contract_status c2_confirmation_index c2_negotiation_height] in *. subst cconf.
              unfold reject2; cbn [c2_contract_status c2_confirmation_index c2_negotiation_height st2_eqb negb andb is_some].
              destruct (q_rb (rp q) <=? tip2 (b :: chain2 (pw w)))%N;
              destruct Hst as [-> | ->]; cbn [st2_eqb negb andb];
                try destruct (cneg <? tip2 (b :: chain2 (pw w)) - q_rb (rp q))%N;
                eexists; (split; [reflexivity|]); cbn; (split; [|reflexivity]); auto.
      * rewrite renew2_cons, Hs, orb_false_r. cbn [is_some negb] in Ern. rewrite andb_true_r in Ern. exact Ern.
    + intro Hp. destruct (Hd Hp) as [Hx Hy]. destruct (srow w); [|discriminate Hx]. split; [reflexivity|].
      destruct Hy as [Hy|Hy]; [left; exact Hy|right; rewrite Hy; reflexivity].
    + intros Hx Hy.
      assert (Hz : is_some (srow w) = true) by (destruct (srow w); [reflexivity|discriminate Hx]).
      specialize (Hsd Hz). clear Hd Hs.
      destruct (sroots w); [|rewrite (Hsd eq_refl); reflexivity].
      cbn [andb] in Hy. apply negb_false_iff in Hy. rewrite Hy. apply orb_true_r.
  - (* revert *)
    destruct (chain2 (pw w)) as [|b rest] eqn:Ech; [discriminate|].
    destruct (gstep2 (rp q) (pw w) (GRevert (eff a (pdata w)))) as [pw'|] eqn:Eg; [|discriminate].
    injection Hstep as <-.
    pose proof (gstep2_inv _ _ _ _ Hg Eg) as Hg'.
    assert (Hch : chain2 pw' = rest).
    { cbn [gstep2] in Eg. rewrite Ech in Eg. destruct (sent2 (pw w)); [discriminate|].
      destruct (is_form b); [discriminate|]. injection Eg as <-. reflexivity. }
    unfold rinv, after_pass, srow_ok in *. cbn [pw srow sroots pdata restarted seen_dead].
    split; [exact Hg'|]. rewrite Hch.
    assert (Hokc : chain_okg (rp q) (b :: rest) (sent2 (pw w))) by (rewrite <- Ech; apply Hg).
    split; [|split].
    + rewrite Ech in Hs. destruct (srow w) as [r|] eqn:Esr.
      * destruct Hs as [c [-> Hc]]. cbn [bind]. rewrite renew2_cons in Hc.
        destruct (d_renew b) eqn:En.
        -- cbn [orb] in Hc. destruct Hc as [Hst Hcf]. rewrite (renew_cons_okg _ _ _ _ Hokc En).
           unfold revert_form2. rewrite Hst. eexists. split; [reflexivity|]. cbn. split; [left; reflexivity|reflexivity].
        -- cbn [orb] in Hc. exists c. split; [reflexivity|exact Hc].
      * rewrite renew2_cons in Hs. destruct (d_renew b); [discriminate Hs|exact Hs].
    + intro Hp. destruct (Hd Hp) as [Hx Hy]. destruct (srow w); [|discriminate Hx]. split; [reflexivity|].
      destruct Hy as [Hy|Hy]; [left; exact Hy|right; rewrite Hy; reflexivity].
    + intros Hx Hy.
      assert (Hz : is_some (srow w) = true) by (destruct (srow w); [reflexivity|discriminate Hx]).
      specialize (Hsd Hz). clear Hd Hs.
      destruct (sroots w); [|rewrite (Hsd eq_refl); reflexivity].
      cbn [andb] in Hy. apply negb_false_iff in Hy. rewrite Hy. apply orb_true_r.
  - (* prune *)
    injection Hstep as <-. unfold rinv, srow_ok in *. cbn [pw srow sroots pdata restarted seen_dead].
    split; [exact Hg|]. split; [exact Hs|]. split; [|exact Hsd].
    intro Hp. apply andb_false_iff in Hp. destruct Hp as [Hp|Hp]; [exact (Hd Hp)|].
    apply negb_false_iff in Hp. apply andb_true_iff in Hp. destruct Hp as [Hx Hy].
    apply negb_true_iff in Hy. split; [exact Hx|right; exact Hy].
  - (* restart *)
    injection Hstep as <-. unfold rinv, srow_ok in *. cbn [pw srow sroots pdata restarted seen_dead].
    split; [exact Hg|]. split; [exact Hs|]. split; [|exact Hsd].
    intro Hp. apply andb_false_iff in Hp. destruct Hp as [Hp|Hp].
    + destruct (Hd Hp) as [Hx Hy]. split; [exact Hx|]. rewrite Hx, orb_true_r. left; reflexivity.
    + apply negb_false_iff in Hp. split; [exact Hp|]. rewrite Hp, orb_true_r. left; reflexivity.
Qed.

Lemma rrun_inv : forall q tr w w', rinv q w -> rrun q w tr = Some w' -> rinv q w'.
Proof.
  intros q tr. induction tr as [|e t IH]; intros w w' Hi Hr.
  - injection Hr as <-. exact Hi.
  - cbn [rrun] in Hr. destruct (rstep2 q w e) as [w1|] eqn:Est; [|discriminate].
    apply (IH w1 w'); [eapply rstep2_inv; eassumption|exact Hr].
Qed.

(** * While the data is there and the passes are good, the predecessor lives Liveness2's life *)
Lemma pdata_mono : forall q w e w', rstep2 q w e = Some w' -> pdata w' = true -> pdata w = true.
Proof.
  intros q w e w' Hstep Hp. destruct e as [|b a|a| |]; cbn [rstep2] in Hstep.
  - destruct (srow w); [discriminate|]. destruct (_ && _ && _); [|discriminate]. injection Hstep as <-. exact Hp.
  - destruct (d_renew b && negb (is_some (srow w))); [discriminate|].
    destruct (gstep2 _ _ _); [|discriminate]. injection Hstep as <-. exact Hp.
  - destruct (chain2 (pw w)); [discriminate|]. destruct (gstep2 _ _ _); [|discriminate]. injection Hstep as <-. exact Hp.
  - injection Hstep as <-. cbn [pdata] in Hp. apply andb_true_iff in Hp. apply Hp.
  - injection Hstep as <-. cbn [pdata] in Hp. apply andb_true_iff in Hp. apply Hp.
Qed.

Lemma good_step_inv2 : forall q w e w',
  (match e with RMine _ a | RRevert a => a = Pass true 0 | _ => True end) ->
  inv2 (rp q) (pw w) -> rstep2 q w e = Some w' -> pdata w' = true -> inv2 (rp q) (pw w').
Proof.
  intros q w e w' Hgood Hi Hstep Hp. pose proof (pdata_mono q w e w' Hstep Hp) as Hp0.
  destruct e as [|b a|a| |]; cbn [rstep2] in Hstep.
  - destruct (srow w); [discriminate|]. destruct (_ && _ && _); [|discriminate]. injection Hstep as <-. exact Hi.
  - subst a. rewrite Hp0 in Hstep. cbn [eff andb] in Hstep.
    destruct (d_renew b && negb (is_some (srow w))); [discriminate|].
    change (GMine b (Pass true 0)) with (good (Mine2 b)) in Hstep.
    rewrite (gstep_good_is_step2 _ _ _ Hi) in Hstep.
    destruct (step2 (rp q) (pw w) (Mine2 b)) as [pw'|] eqn:Es; [|discriminate]. injection Hstep as <-.
    cbn [after_pass pw]. eapply step2_inv; eassumption.
  - subst a. rewrite Hp0 in Hstep. cbn [eff andb] in Hstep.
    destruct (chain2 (pw w)); [discriminate|].
    change (GRevert (Pass true 0)) with (good Revert2) in Hstep.
    rewrite (gstep_good_is_step2 _ _ _ Hi) in Hstep.
    destruct (step2 (rp q) (pw w) Revert2) as [pw'|] eqn:Es; [|discriminate]. injection Hstep as <-.
    cbn [after_pass pw]. eapply step2_inv; eassumption.
  - injection Hstep as <-. exact Hi.
  - injection Hstep as <-. exact Hi.
Qed.

Lemma good_run_inv2 : forall q tr w w',
  all_good tr -> inv2 (rp q) (pw w) -> rrun q w tr = Some w' -> pdata w' = true -> inv2 (rp q) (pw w').
Proof.
  intros q tr. induction tr as [|e t IH]; intros w w' Hg Hi Hr Hp.
  - injection Hr as <-. exact Hi.
  - cbn [rrun] in Hr. destruct (rstep2 q w e) as [w1|] eqn:Est; [|discriminate].
    assert (Hp1 : pdata w1 = true).
    { clear - Hr Hp. revert w1 Hr. induction t as [|e2 t2 IH2]; intros w1 Hr.
      - injection Hr as <-. exact Hp.
      - cbn [rrun] in Hr. destruct (rstep2 q w1 e2) as [w2|] eqn:E2; [|discriminate].
        eapply pdata_mono; [exact E2|]. apply IH2. exact Hr. }
    apply (IH w1 w'); try assumption.
    + destruct e; cbn [all_good] in Hg; try apply Hg; exact Hg.
    + eapply good_step_inv2; try eassumption. destruct e; cbn [all_good] in Hg; try exact I; apply Hg.
Qed.

(* Liveness2.v2_ends_successful from the invariant *)
Lemma inv2_conclusion : forall p w,
  (q_ph p < q_eh p)%N -> q_held p = true -> inv2 p w ->
  exists c, row2 w = Ok c /\ c2_contract_status c <> Failed2 /\
            (formed2 (chain2 w) = true -> (q_eh p <= tip2 (chain2 w))%N ->
             c2_contract_status c = Successful2 \/ c2_contract_status c = Renewed2).
Proof.
  intros p w Hw Hh [Hok [[c [Hrow Hm]] _]].
  exists c. split; [exact Hrow|].
  destruct Hm as [_ [_ [_ [_ [_ [_ [Hun [Hopen [Hpr [Hrn Hex]]]]]]]]]].
  pose proof (never_expired2 p (chain2 w) Hw Hh Hok) as Hne.
  split.
  - intro Hfail. destruct (formed2 (chain2 w)) eqn:Ef.
    + destruct (resolved2 (chain2 w)) eqn:Er.
      * unfold resolved2 in Er. rewrite Hne in Er. rewrite orb_false_r in Er.
        destruct (proof2 (chain2 w)) eqn:Ep.
        -- destruct (Hpr eq_refl eq_refl) as [Hs _]. congruence.
        -- cbn [orb] in Er. destruct (Hrn eq_refl Er) as [Hs _]. congruence.
      * destruct (Hopen eq_refl eq_refl) as [Hs _]. congruence.
    + destruct (Hun eq_refl) as [[Hs|Hs] _]; congruence.
  - intros Hf Hle. pose proof (resolved2_after p (chain2 w) Hw Hh Hok Hf Hle) as Hres.
    unfold resolved2 in Hres. rewrite Hne in Hres. rewrite orb_false_r in Hres.
    destruct (proof2 (chain2 w)) eqn:Ep.
    + left. apply (Hpr Hf eq_refl).
    + cbn [orb] in Hres. right. apply (Hrn Hf Hres).
Qed.

(** * Theorems *)
Theorem r_pred_end_state : forall q tr w,
  (q_ph (rp q) < q_eh (rp q))%N -> q_held (rp q) = true ->
  rrun q (init_rworld q) tr = Some w ->
  exists c, row2 (pw w) = Ok c /\
    (* the renewal is on the best chain *)
    (renew2 (chain2 (pw w)) = true -> c2_contract_status c = Renewed2) /\
    (* the predecessor can still build its proof, every pass of the history was good *)
    (all_good tr -> pdata w = true ->
       c2_contract_status c <> Failed2 /\
       (formed2 (chain2 (pw w)) = true -> (q_eh (rp q) <= tip2 (chain2 (pw w)))%N ->
        c2_contract_status c = Successful2 \/ c2_contract_status c = Renewed2)) /\
    (* a failed predecessor: expired, and no attempt of the branch had succeeded *)
    (c2_contract_status c = Failed2 -> expire2 (chain2 (pw w)) = true /\ anyb (sent2 (pw w)) = false).
Proof.
  intros q tr w Hw Hh Hrun.
  pose proof (rrun_inv q tr _ w (rinv_init q) Hrun) as [Hg _].
  pose proof Hg as [Hok [[c [Hrow Hm]] Hfs]].
  exists c. split; [exact Hrow|]. split; [|split].
  - intro Hr. destruct Hm as [_ [_ [_ [_ [_ [_ [_ [_ [_ [Hrn _]]]]]]]]]].
    apply Hrn; [|exact Hr]. apply (resolved2_formed_g _ _ _ Hok). unfold resolved2. rewrite Hr.
    destruct (proof2 (chain2 (pw w))); reflexivity.
  - intros Hgood Hp.
    pose proof (good_run_inv2 q tr (init_rworld q) w Hgood (inv2_init (rp q)) Hrun Hp) as Hi2.
    destruct (inv2_conclusion _ _ Hw Hh Hi2) as [c2 [Hrow2 Hc]].
    rewrite Hrow in Hrow2. injection Hrow2 as <-. exact Hc.
  - intro Hst. destruct (failed_no_attempt_inv _ _ _ Hg Hrow Hst) as [Ha Hx]. split; assumption.
Qed.

Theorem r_failed_lost_data : forall q tr w c,
  (q_ph (rp q) < q_eh (rp q))%N -> q_held (rp q) = true -> all_good tr ->
  rrun q (init_rworld q) tr = Some w -> row2 (pw w) = Ok c ->
  c2_contract_status c = Failed2 -> pdata w = false.
Proof.
  intros q tr w c Hw Hh Hgood Hrun Hrow Hst.
  destruct (pdata w) eqn:Hp; [|reflexivity]. exfalso.
  destruct (r_pred_end_state q tr w Hw Hh Hrun) as [c' [Hrow' [_ [Hc _]]]].
  rewrite Hrow in Hrow'. injection Hrow' as <-. destruct (Hc Hgood Hp) as [Hnf _]. contradiction.
Qed.

Theorem r_data_lost_cause : forall q tr w,
  rrun q (init_rworld q) tr = Some w -> pdata w = false ->
  is_some (srow w) = true /\
  (restarted w = true \/ (sroots w = false /\ seen_dead w = true)).
Proof.
  intros q tr w Hrun Hp.
  destruct (rrun_inv q tr _ w (rinv_init q) Hrun) as [_ [_ [Hd Hsd]]].
  destruct (Hd Hp) as [Hx Hy]. split; [exact Hx|].
  destruct Hy as [Hy|Hy]; [left; exact Hy|right; split; [exact Hy|apply Hsd; assumption]].
Qed.

Theorem r_successor_row : forall q tr w,
  rrun q (init_rworld q) tr = Some w -> srow_ok w.
Proof. intros q tr w Hrun. apply (rrun_inv q tr _ w (rinv_init q) Hrun). Qed.

(** * Witnesses: predecessor window [6,8), reject buffer 2, the host holds the data, an expiration
      means failed, every pass is good *)
Definition rq_demo : rparams :=
  {| rp := {| q_ph := 6; q_eh := 8; q_neg := 0; q_rev0 := 2; q_rb := 2; q_benefit := true; q_held := true |};
     s_ph := 20; s_eh := 22; s_rev0 := 0; s_rev := 0 |}.
Definition rm (b : blk2) : rstep := RMine b (Pass true 0).
Definition d_renewed : blk2 := {| d_form := None; d_rev := None; d_proof := false; d_renew := true; d_expire := false |}.
(* negotiated at tip 2, never confirmed: rejected at block 5 (2 < 5 - 2), rows deleted by that pass, pruned;
   the window passes without a proof, the host's own expiration resolves the contract *)
Definition never_confirmed : list rstep :=
  [rm d_formed; rm d0; RNegotiate; rm d0; rm d0; rm d0; RPrune; rm d0; rm d0; rm d0; rm d_expired].
(* confirmed in block 3, reorged out, the competing branch does not hold the renewal *)
Definition reorged_out : list rstep :=
  [rm d_formed; rm d0; RNegotiate; rm d_renewed; RRevert (Pass true 0); rm d0; rm d0; rm d0; RPrune; rm d0; rm d0; rm d0; rm d_expired].
(* the same reorg, but the renewal is mined again: renewed *)
Definition reorged_reconfirmed : list rstep :=
  [rm d_formed; rm d0; RNegotiate; rm d_renewed; RRevert (Pass true 0); rm d0; rm d_renewed; rm d0; RPrune; rm d0; rm d0; rm d0].
(* never confirmed, no prune at all, but the host restarts after the hand-over *)
Definition restarted_after_handover : list rstep :=
  [rm d_formed; rm d0; RNegotiate; RRestart; rm d0; rm d0; rm d0; rm d0; rm d0; rm d0; rm d_expired].
(* never confirmed, neither prune nor restart: the cached roots and the sectors are still there, the proof is built *)
Definition never_confirmed_not_pruned : list rstep :=
  [rm d_formed; rm d0; RNegotiate; rm d0; rm d0; rm d0; rm d0; rm d_proved; rm d0].
Definition pred_status (q : rparams) (tr : list rstep) : option (st2 * bool) :=
  match rrun q (init_rworld q) tr with
  | Some w => match row2 (pw w) with Ok c => Some (c2_contract_status c, pdata w) | _ => None end
  | None => None
  end.

Lemma all_good_dec_demo : all_good never_confirmed /\ all_good reorged_out /\ all_good restarted_after_handover.
Proof. cbn. repeat split. Qed.

Definition strands (q : rparams) (tr : list rstep) : bool :=
  match rrun q (init_rworld q) tr with
  | Some w => match row2 (pw w) with
              | Ok c => formed2 (chain2 (pw w)) && (q_eh (rp q) <=? tip2 (chain2 (pw w)))%N
                        && st2_eqb (c2_contract_status c) Failed2
              | _ => false
              end
  | None => false
  end.

Lemma strands_sound : forall q tr, strands q tr = true ->
  exists w c, rrun q (init_rworld q) tr = Some w /\ row2 (pw w) = Ok c /\
    formed2 (chain2 (pw w)) = true /\ (q_eh (rp q) <= tip2 (chain2 (pw w)))%N /\
    c2_contract_status c = Failed2.
Proof.
  intros q tr H. unfold strands in H.
  destruct (rrun q (init_rworld q) tr) as [w|]; [|discriminate H].
  destruct (row2 (pw w)) as [c| |] eqn:Er; try discriminate H.
  apply andb_true_iff in H. destruct H as [H H3]. apply andb_true_iff in H. destruct H as [H1 H2].
  exists w, c. repeat split; try assumption; try reflexivity; [lia|].
  destruct (c2_contract_status c); try discriminate H3; reflexivity.
Qed.

(* REFUTED: the host held the data, every pass was good, the formation stayed on the best chain —
   the predecessor of a renewal that is never confirmed / reorged out / followed by a restart ends failed *)
Theorem r_unconfirmed_renewal_refuted :
  exists q, q_held (rp q) = true /\ (q_ph (rp q) < q_eh (rp q))%N /\
    forall tr, In tr [never_confirmed; reorged_out; restarted_after_handover] ->
    all_good tr /\
    exists w c, rrun q (init_rworld q) tr = Some w /\ row2 (pw w) = Ok c /\
      formed2 (chain2 (pw w)) = true /\ (q_eh (rp q) <= tip2 (chain2 (pw w)))%N /\
      c2_contract_status c = Failed2.
Proof.
  exists rq_demo. split; [reflexivity|]. split; [reflexivity|].
  intros tr [<-|[<-|[<-|[]]]]; (split; [apply all_good_dec_demo|apply strands_sound; vm_compute; reflexivity]).
Qed.
