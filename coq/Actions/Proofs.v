(* Actions/Proofs.v — specifications of the seven lifecycle selections written from the
   text of property C06, and the proofs that the generated SQL predicates (gen/Queries.v)
   coincide with them pointwise, for all rows and heights; then the same at the level of
   the id lists returned by ContractActions / handed to the pool by ProcessActions. *)
From Coq Require Import Lia ZifyBool ZifyN ZifyNat.
From HostdBase Require Import Base.
From HostdActions Require Import Rows SqlSem Model.
From HostdActions Require Import Queries.

Definition is_some {A} (o : option A) : bool := match o with Some _ => true | None => false end.

(** * Specifications (from the property text)

   v1: "unconfirmed" = formation_confirmed is false; "rejected" = status rejected;
   "latest revision is on chain" = the confirmed revision number equals the revision number;
   "unresolved" = no resolution height recorded; proof window = [window_start, window_end).
   v2: "unconfirmed" = no confirmation index; "unresolved" = no resolution index; the
   revision known to be on chain is the one of the stored state element; proof window =
   [proof_height, expiration_height). *)
Definition spec_rebroadcast (c : v1row) : bool :=
  negb (c1_formation_confirmed c) && negb (st1_eqb (c1_contract_status c) Rejected1).

Definition rev_on_chain1 (c : v1row) : bool :=
  match c1_confirmed_revision_number c with
  | Some k => (k =? c1_revision_number c)%N
  | None => false
  end.
(* "whose proof window opens within the submission buffer": h <= window_start <= hb,
   hb = h + buffer *)
Definition spec_revision (c : v1row) (h hb : N) : bool :=
  c1_formation_confirmed c && negb (rev_on_chain1 c)
  && (h <=? c1_window_start c)%N && (c1_window_start c <=? hb)%N.

Definition spec_proof (c : v1row) (h : N) : bool :=
  c1_formation_confirmed c && negb (is_some (c1_resolution_height c))
  && (c1_window_start c <=? h)%N && (h <? c1_window_end c)%N.

Definition spec_rebroadcast2 (c : v2row) : bool :=
  negb (is_some (c2_confirmation_index c)) && negb (st2_eqb (c2_contract_status c) Rejected2).

Definition rev_on_chain2 (c : v2row) : bool :=
  match c2_elem c with
  | Some e => (e2_revision_number e =? c2_revision_number c)%N
  | None => false
  end.
(* reading: a resolved v2 contract has nothing left to revise on chain (consensus rejects a
   revision of a resolved contract), so "confirmed" is read as confirmed and unresolved *)
Definition spec_revision2 (c : v2row) (h hb : N) : bool :=
  is_some (c2_confirmation_index c) && negb (is_some (c2_resolution_index c))
  && negb (rev_on_chain2 c)
  && (h <=? c2_proof_height c)%N && (c2_proof_height c <=? hb)%N.

Definition spec_proof2 (c : v2row) (h : N) : bool :=
  is_some (c2_confirmation_index c) && negb (is_some (c2_resolution_index c))
  && (c2_proof_height c <=? h)%N && (h <? c2_expiration_height c)%N.

(* reading: only a contract that reached the chain can be expired on it *)
Definition spec_expire2 (c : v2row) (h : N) : bool :=
  is_some (c2_confirmation_index c) && negb (is_some (c2_resolution_index c))
  && (c2_expiration_height c <=? h)%N.

(** * Row invariants of the store's writers
   wf1: confirmed_revision_number is declared nullable but every writer stores a value
        (insertContract writes 0, applyContractRevision a number).
   wf2: a v2 contract has a state element exactly while it has a confirmation index
        (applyV2ContractFormation writes both, revertV2ContractFormation clears both). *)
Definition wf1 (c : v1row) : Prop := c1_confirmed_revision_number c <> None.
Definition wf2 (c : v2row) : Prop := is_some (c2_elem c) = is_some (c2_confirmation_index c).

(** * Evaluating the three-valued combinators under [sql_true] *)
Definition sql_false (a : option bool) : bool := match a with Some false => true | _ => false end.

Lemma sql_true_and : forall a b, sql_true (sql_and a b) = sql_true a && sql_true b.
Proof. intros [[|]|] [[|]|]; reflexivity. Qed.
Lemma sql_true_or : forall a b, sql_true (sql_or a b) = sql_true a || sql_true b.
Proof. intros [[|]|] [[|]|]; reflexivity. Qed.
Lemma sql_true_not : forall a, sql_true (sql_not a) = sql_false a.
Proof. intros [[|]|]; reflexivity. Qed.
Lemma sql_false_and : forall a b, sql_false (sql_and a b) = sql_false a || sql_false b.
Proof. intros [[|]|] [[|]|]; reflexivity. Qed.
Lemma sql_false_or : forall a b, sql_false (sql_or a b) = sql_false a && sql_false b.
Proof. intros [[|]|] [[|]|]; reflexivity. Qed.
Lemma sql_false_not : forall a, sql_false (sql_not a) = sql_true a.
Proof. intros [[|]|]; reflexivity. Qed.
Lemma sql_true_some : forall b, sql_true (Some b) = b.
Proof. intros []; reflexivity. Qed.
Lemma sql_false_some : forall b, sql_false (Some b) = negb b.
Proof. intros []; reflexivity. Qed.
Lemma sql_true_none : sql_true None = false. Proof. reflexivity. Qed.
Lemma sql_false_none : sql_false None = false. Proof. reflexivity. Qed.
Lemma lift2_some : forall A (f : A -> A -> bool) x y, lift2 f (Some x) (Some y) = Some (f x y).
Proof. reflexivity. Qed.
Lemma lift2_none_l : forall A (f : A -> A -> bool) y, lift2 f None y = None.
Proof. reflexivity. Qed.
Lemma lift2_none_r : forall A (f : A -> A -> bool) x, lift2 f x None = None.
Proof. intros A f []; reflexivity. Qed.
Lemma sql_isnull_eq : forall A (a : option A), sql_isnull a = Some (negb (is_some a)).
Proof. intros A []; reflexivity. Qed.
Lemma sql_notnull_eq : forall A (a : option A), sql_notnull a = Some (is_some a).
Proof. intros A []; reflexivity. Qed.
Lemma sql_truthy_some : forall z, sql_truthy_int (Some z) = Some (negb (z =? 0)%Z).
Proof. reflexivity. Qed.
Lemma sql_classes_some : forall A B r (a : A) (b : B), sql_cmp_classes r (Some a) (Some b) = Some r.
Proof. reflexivity. Qed.

#[export] Hint Rewrite sql_true_and sql_true_or sql_true_not sql_false_and sql_false_or sql_false_not
  sql_true_some sql_false_some sql_true_none sql_false_none lift2_some lift2_none_l lift2_none_r
  sql_isnull_eq sql_notnull_eq sql_truthy_some sql_classes_some : sqlsem.

(** * Pointwise equalities *)
Ltac sql_unfold :=
  cbv [q_rebroadcastContracts q_broadcastRevision q_proofContracts q_rebroadcastV2Contracts
       q_broadcastV2Revision q_proofV2Contracts q_expireV2Contracts
       spec_rebroadcast spec_revision spec_proof spec_rebroadcast2 spec_revision2 spec_proof2
       spec_expire2 rev_on_chain1 rev_on_chain2 wf1 wf2
       col_contract_v2_state_elements_revision_number col_contracts_confirmed_revision_number
       col_contracts_contract_status col_contracts_formation_confirmed
       col_contracts_resolution_height col_contracts_revision_number col_contracts_window_end
       col_contracts_window_start col_contracts_v2_confirmation_index
       col_contracts_v2_contract_status col_contracts_v2_expiration_height
       col_contracts_v2_proof_height col_contracts_v2_resolution_index
       col_contracts_v2_revision_number
       c1_formation_confirmed c1_contract_status c1_revision_number c1_confirmed_revision_number
       c1_resolution_height c1_window_start c1_window_end c1_negotiation_height
       c2_confirmation_index c2_resolution_index c2_contract_status c2_revision_number
       c2_proof_height c2_expiration_height c2_negotiation_height c2_elem e2_revision_number
       sql_cmp_int sql_cmp_text sql_eq_blob sql_ne_blob sql_between_int] in *.

Ltac sql_crush :=
  intros; sql_unfold;
  repeat match goal with
         | c : v1row |- _ => destruct c
         | c : v2row |- _ => destruct c
         | e : erow |- _ => destruct e
         end;
  sql_unfold;
  repeat match goal with
         | x : option _ |- _ => destruct x
         | x : st1 |- _ => destruct x
         | x : st2 |- _ => destruct x
         | x : bool |- _ => destruct x
         end;
  cbn [option_map is_some st1_repr st2_repr st1_eqb st2_eqb Z.b2z] in *;
  autorewrite with sqlsem in *;
  try (exfalso; congruence); try discriminate;
  cbn -[N.leb N.ltb N.eqb Z.leb Z.ltb Z.eqb Z.of_N] in *;
  try discriminate; try reflexivity; try lia.

Lemma q_rebroadcast_spec : forall c, q_rebroadcastContracts c = spec_rebroadcast c.
Proof. sql_crush. Qed.

Lemma q_revision_spec : forall c h hb, wf1 c -> q_broadcastRevision c h hb = spec_revision c h hb.
Proof. sql_crush. Qed.

Lemma q_proof_spec : forall c h, q_proofContracts c h = spec_proof c h.
Proof. sql_crush. Qed.

Lemma q_rebroadcast2_spec : forall c, q_rebroadcastV2Contracts c = spec_rebroadcast2 c.
Proof. sql_crush. Qed.

Lemma q_revision2_spec : forall c h hb, wf2 c -> q_broadcastV2Revision c h hb = spec_revision2 c h hb.
Proof. sql_crush. Qed.

Lemma q_proof2_spec : forall c h, wf2 c -> q_proofV2Contracts c h = spec_proof2 c h.
Proof. sql_crush. Qed.

Lemma q_expire2_spec : forall c h, wf2 c -> q_expireV2Contracts c h = spec_expire2 c h.
Proof. sql_crush. Qed.

(** * The id lists *)
Lemma sel1_iff : forall p s id,
  In id (sel1 p s) <-> exists c, In c (v1s s) /\ c1_contract_id c = id /\ p c = true.
Proof.
  intros p s id. unfold sel1. rewrite in_map_iff. split.
  - intros [c [Hid Hin]]. apply filter_In in Hin. destruct Hin as [Hin Hp]. exists c. auto.
  - intros [c [Hin [Hid Hp]]]. exists c. split; [exact Hid|]. apply filter_In. auto.
Qed.

Lemma sel2_iff : forall p s id,
  In id (sel2 p s) <-> exists c, In c (v2s s) /\ c2_contract_id c = id /\ p c = true.
Proof.
  intros p s id. unfold sel2. rewrite in_map_iff. split.
  - intros [c [Hid Hin]]. apply filter_In in Hin. destruct Hin as [Hin Hp]. exists c. auto.
  - intros [c [Hin [Hid Hp]]]. exists c. split; [exact Hid|]. apply filter_In. auto.
Qed.

Lemma sel1_ext : forall p q s, (forall c, In c (v1s s) -> p c = q c) -> sel1 p s = sel1 q s.
Proof.
  intros p q s H. unfold sel1. f_equal. induction (v1s s) as [|c l IH]; [reflexivity|].
  cbn [filter]. rewrite (H c (or_introl eq_refl)). rewrite IH; [reflexivity|].
  intros c' Hc'. apply H. right. exact Hc'.
Qed.

Lemma sel2_ext : forall p q s, (forall c, In c (v2s s) -> p c = q c) -> sel2 p s = sel2 q s.
Proof.
  intros p q s H. unfold sel2. f_equal. induction (v2s s) as [|c l IH]; [reflexivity|].
  cbn [filter]. rewrite (H c (or_introl eq_refl)). rewrite IH; [reflexivity|].
  intros c' Hc'. apply H. right. exact Hc'.
Qed.

Definition wf_store (s : store) : Prop :=
  (forall c, In c (v1s s) -> wf1 c) /\ (forall c, In c (v2s s) -> wf2 c).

(* what the property asks ContractActions to return at height h with revision horizon hb *)
Definition spec_actions (s : store) (h hb : N) : actions :=
  {| aRebroadcast := sel1 spec_rebroadcast s;
     aRevision := sel1 (fun c => spec_revision c h hb) s;
     aProof := sel1 (fun c => spec_proof c h) s;
     aRebroadcast2 := sel2 spec_rebroadcast2 s;
     aRevision2 := sel2 (fun c => spec_revision2 c h hb) s;
     aProof2 := sel2 (fun c => spec_proof2 c h) s;
     aExpire2 := sel2 (fun c => spec_expire2 c h) s |}.

Definition bindable2 (h hb : N) : bool := u64_bindable h && u64_bindable hb.

Lemma bindable_all : forall h hb,
  (q_rebroadcastContracts_bindable && q_broadcastRevision_bindable h hb
   && q_proofContracts_bindable h && q_rebroadcastV2Contracts_bindable
   && q_broadcastV2Revision_bindable h hb && q_proofV2Contracts_bindable h
   && q_expireV2Contracts_bindable h) = bindable2 h hb.
Proof.
  intros h hb.
  cbv [q_rebroadcastContracts_bindable q_broadcastRevision_bindable q_proofContracts_bindable
       q_rebroadcastV2Contracts_bindable q_broadcastV2Revision_bindable
       q_proofV2Contracts_bindable q_expireV2Contracts_bindable bindable2].
  destruct (u64_bindable h), (u64_bindable hb); reflexivity.
Qed.

Theorem contract_actions_spec : forall s h hb,
  wf_store s ->
  contract_actions s h hb = if bindable2 h hb then Ok (spec_actions s h hb) else Err EOther.
Proof.
  intros s h hb [W1 W2]. unfold contract_actions. rewrite bindable_all.
  destruct (bindable2 h hb); cbn [negb]; [|reflexivity].
  unfold spec_actions. f_equal. f_equal.
  - apply sel1_ext. intros. apply q_rebroadcast_spec.
  - apply sel1_ext. intros. apply q_revision_spec. auto.
  - apply sel1_ext. intros. apply q_proof_spec.
  - apply sel2_ext. intros. apply q_rebroadcast2_spec.
  - apply sel2_ext. intros. apply q_revision2_spec. auto.
  - apply sel2_ext. intros. apply q_proof2_spec. auto.
  - apply sel2_ext. intros. apply q_expire2_spec. auto.
Qed.

(* membership form: "exactly the contracts that ..." *)
Theorem contract_actions_exact : forall s h hb a,
  wf_store s -> contract_actions s h hb = Ok a ->
  (forall id, In id (aRebroadcast a) <-> exists c, In c (v1s s) /\ c1_contract_id c = id /\ spec_rebroadcast c = true) /\
  (forall id, In id (aRevision a) <-> exists c, In c (v1s s) /\ c1_contract_id c = id /\ spec_revision c h hb = true) /\
  (forall id, In id (aProof a) <-> exists c, In c (v1s s) /\ c1_contract_id c = id /\ spec_proof c h = true) /\
  (forall id, In id (aRebroadcast2 a) <-> exists c, In c (v2s s) /\ c2_contract_id c = id /\ spec_rebroadcast2 c = true) /\
  (forall id, In id (aRevision2 a) <-> exists c, In c (v2s s) /\ c2_contract_id c = id /\ spec_revision2 c h hb = true) /\
  (forall id, In id (aProof2 a) <-> exists c, In c (v2s s) /\ c2_contract_id c = id /\ spec_proof2 c h = true) /\
  (forall id, In id (aExpire2 a) <-> exists c, In c (v2s s) /\ c2_contract_id c = id /\ spec_expire2 c h = true).
Proof.
  intros s h hb a W H. rewrite (contract_actions_spec s h hb W) in H.
  destruct (bindable2 h hb); [|discriminate]. injection H as <-.
  unfold spec_actions; cbn [aRebroadcast aRevision aProof aRebroadcast2 aRevision2 aProof2 aExpire2].
  repeat split; try (apply sel1_iff); try (apply sel2_iff);
    try (apply (proj1 (sel1_iff _ _ _))); try (apply (proj2 (sel1_iff _ _ _)));
    try (apply (proj1 (sel2_iff _ _ _))); try (apply (proj2 (sel2_iff _ _ _))).
Qed.

(* the call fails exactly when an argument cannot be bound (height >= 2^63) *)
Theorem contract_actions_ok_iff : forall s h hb,
  is_ok (contract_actions s h hb) = bindable2 h hb.
Proof.
  intros s h hb. unfold contract_actions. rewrite bindable_all.
  destruct (bindable2 h hb); reflexivity.
Qed.

(* ProcessActions at index height h with submission buffer buf (no uint64 wrap, bindable):
   the formation, revision, v2 lists are the specified ones with horizon h + buf, and a v1
   proof reaches the pool exactly for the specified contracts whose proof benefits the host *)
Theorem process_actions_spec : forall s buf h,
  wf_store s -> (h + buf < two63)%N ->
  process_actions s buf h =
    Ok {| aRebroadcast := sel1 spec_rebroadcast s;
          aRevision := sel1 (fun c => spec_revision c h (h + buf)) s;
          aProof := sel1 (fun c => spec_proof c h && c1_proof_benefit c) s;
          aRebroadcast2 := sel2 spec_rebroadcast2 s;
          aRevision2 := sel2 (fun c => spec_revision2 c h (h + buf)) s;
          aProof2 := sel2 (fun c => spec_proof2 c h) s;
          aExpire2 := sel2 (fun c => spec_expire2 c h) s |}.
Proof.
  intros s buf h W Hlt. unfold process_actions.
  assert (Hw : wadd h buf = (h + buf)%N).
  { unfold wadd. apply N.mod_small. unfold two63, two64 in *. lia. }
  rewrite Hw. rewrite (contract_actions_spec s h (h + buf) W).
  assert (Hb : bindable2 h (h + buf) = true).
  { unfold bindable2, u64_bindable. unfold two63 in *. lia. }
  rewrite Hb. cbn [bind]. unfold spec_actions.
  cbn [aRebroadcast aRevision aProof aRebroadcast2 aRevision2 aProof2 aExpire2].
  f_equal. f_equal. apply sel1_ext. intros c _. rewrite q_proof_spec. reflexivity.
Qed.
