(* Actions/Liveness2G.v — WP-O: the v2 lifecycle of Liveness2.v without its two idealisations
   "ProcessActions runs after every block" and "an action that is selected reaches the pool".

   index.Manager.syncDB (index/update.go) asks chain.Manager.UpdatesSince for at most
   updateBatchSize (default 100) reverted + applied blocks, hands them to UpdateChainState in ONE
   database transaction and then runs ProcessActions ONCE, at the index of the last applied block
   of the batch (or, for a batch of reverts only, at the parent of the last reverted block).  The
   tips inside a batch are never processed.  And ProcessActions (host/contracts/update.go:361-410)
   gives up on a proof for this pass whenever BestIndex / ContractChainIndexElement /
   buildV2StorageProof / FundV2Transaction / AddV2PoolTransactions fails ("continue"): nothing is
   remembered, the next pass selects the contract again with the same predicate.

   A step therefore carries what happened after the block:  NoPass  (a tip inside a batch)  or
   Pass ok lag : ProcessActions ran at this tip; [ok] = every fallible call of the proof path
   succeeded (an INPUT: transient failures are the environment's), [lag] = how many blocks the
   best chain was ahead of the processed tip at that moment (the indexer is catching up).  The flag
   recorded for the position is "a storage proof was handed to the pool at a moment at which the
   next block can still hold it":  selected /\ data held /\ ok /\ tip + lag < expiration height.
   Everything else — row updates, consensus and fairness clauses over the recorded flags — is
   Liveness2's, definition by definition ([env_ok2], [apply_block2], [revert_block2]); with
   Pass true 0 after every event the step IS Liveness2.step2 ([grun_good_is_run2]).

   Results (all schedules of mined / reverted blocks, any batching, any failures):
     - [g_failed_no_attempt], [g_ends_successful]: the contract ends successful (or renewed),
       never failed, as soon as ONE recorded attempt of the current branch succeeded in time;
       a failed contract had none (the "iff" of the brief; the converse direction is the
       witness [g_all_attempts_fail_witness]: no attempt succeeds, the contract is expired, failed);
     - [g_retry_every_pass]: every pass inside the window with the contract open is an attempt,
       and its outcome is exactly ok && in-time — no memory of earlier failures, no back-off;
     - [g_batches_in_time]: for schedules without reverts, passes at most B blocks apart
       with lag at most L and ok, B + L <= expiration height - proof height suffices;
       [g_window_skipped_witness]: one block more and a batch steps over the window. *)
From Coq Require Import Lia ZifyBool ZifyN ZifyNat.
From HostdBase Require Import Base.
From HostdActions Require Import Rows SqlSem Queries Model Proofs Liveness2.

Inductive pact := NoPass | Pass (ok : bool) (lag : N).
Inductive gstep := GMine (b : blk2) (a : pact) | GRevert (a : pact).

Definition anyb (l : list bool) : bool := existsb (fun x => x) l.

Definition attempt (p : params2) (r : res v2row) (h : N) (a : pact) : bool :=
  match a, r with
  | Pass ok lag, Ok c => host_broadcasts2 p c h && ok && (h + lag <? q_eh p)%N
  | _, _ => false
  end.

Definition gstep2 (p : params2) (w : world2) (e : gstep) : option world2 :=
  match e with
  | GMine b a =>
      if negb (env_ok2 p w b) then None
      else let H := (tip2 (chain2 w) + 1)%N in
           let r := bind (row2 w) (apply_block2 p H b) in
           Some {| chain2 := b :: chain2 w; row2 := r; sent2 := attempt p r H a :: sent2 w |}
  | GRevert a =>
      match chain2 w, sent2 w with
      | b :: rest, s0 :: srest =>
          if is_form b then None
          else let r := bind (row2 w) (revert_block2 p b (elem_rev rest)) in
               Some {| chain2 := rest; row2 := r;
                       (* the proof handed to the pool at the reverted position is a transaction over the
                          contract's element and the chain index element of the block at the proof height:
                          it stays valid — in the pool, or back in it if the reverted block had confirmed
                          it — as long as that block stays, i.e. when the reverted block is above it *)
                       sent2 := match srest with
                                | s :: t => (s || (s0 && (q_ph p <? tip2 (b :: rest))%N) || attempt p r (tip2 rest) a) :: t
                                | [] => []
                                end |}
      | _, _ => None
      end
  end.

Fixpoint grun (p : params2) (w : world2) (tr : list gstep) : option world2 :=
  match tr with
  | [] => Some w
  | e :: t => match gstep2 p w e with Some w' => grun p w' t | None => None end
  end.

(** * Invariant: Liveness2's, with the recorded flags in place of the chain-determined ones *)
Fixpoint chain_okg (p : params2) (ch : list blk2) (fl : list bool) : Prop :=
  match ch with
  | [] => True
  | b :: r =>
      chain_okg p r (tl fl) /\
      (is_form b = true -> formed2 r = false /\ (tip2 ch <= q_ph p)%N /\ d_proof b = false /\ d_renew b = false
                           /\ d_expire b = false /\ d_rev b = None) /\
      (d_proof b = true -> formed2 r = true /\ resolved2 r = false /\ d_renew b = false /\ d_expire b = false) /\
      (d_renew b = true -> formed2 r = true /\ resolved2 r = false /\ d_expire b = false) /\
      (d_expire b = true -> formed2 r = true /\ resolved2 r = false /\ (q_eh p < tip2 ch)%N
                            /\ anyb (tl fl) = false) /\
      (is_some (d_rev b) = true -> formed2 r = true) /\
      (tip2 ch = q_eh p -> formed2 r = true -> resolved2 r = false ->
       anyb (tl fl) = true -> d_proof b = true \/ d_renew b = true)
  end.

(* a recorded flag says what it says: the position was inside the window with the contract open *)
Fixpoint flags_sound (p : params2) (ch : list blk2) (fl : list bool) : Prop :=
  match ch with
  | [] => fl = []
  | b :: r => (exists f fr, fl = f :: fr /\ (f = true -> would_broadcast2 p ch = true)) /\ flags_sound p r (tl fl)
  end.

Lemma resolved2_formed_g : forall p ch fl, chain_okg p ch fl -> resolved2 ch = true -> formed2 ch = true.
Proof.
  intros p ch. induction ch as [|b r IH]; intros fl Hok Hres; [discriminate Hres|].
  cbn [chain_okg] in Hok. destruct Hok as [Hr [_ [Hp [Hn [He _]]]]].
  rewrite resolved2_cons in Hres. rewrite formed2_cons.
  destruct (d_proof b) eqn:Ep; [destruct (Hp eq_refl) as [Hf _]; rewrite Hf; apply orb_true_r|].
  destruct (d_renew b) eqn:En; [destruct (Hn eq_refl) as [Hf _]; rewrite Hf; apply orb_true_r|].
  destruct (d_expire b) eqn:Ee; [destruct (He eq_refl) as [Hf _]; rewrite Hf; apply orb_true_r|].
  cbn [orb] in Hres. rewrite (IH _ Hr Hres). apply orb_true_r.
Qed.

Lemma one_resolution_g : forall p ch fl, chain_okg p ch fl ->
  (proof2 ch = true -> renew2 ch = false /\ expire2 ch = false) /\
  (renew2 ch = true -> proof2 ch = false /\ expire2 ch = false) /\
  (expire2 ch = true -> proof2 ch = false /\ renew2 ch = false).
Proof.
  intros p ch. induction ch as [|b r IH]; intros fl Hok.
  - repeat split; discriminate.
  - cbn [chain_okg] in Hok. destruct Hok as [Hr [_ [Hp [Hn [He _]]]]]. specialize (IH _ Hr).
    rewrite proof2_cons, renew2_cons, expire2_cons. unfold resolved2 in *.
    destruct IH as [I1 [I2 I3]].
    destruct (d_proof b) eqn:Ep, (d_renew b) eqn:En, (d_expire b) eqn:Ee; cbn [orb].
    all: try (destruct (Hp eq_refl) as [_ [H1 [H2 H3]]]; try discriminate H2; try discriminate H3).
    all: try (destruct (Hn eq_refl) as [_ [H4 H5]]; try discriminate H5).
    all: try (destruct (He eq_refl) as [_ [H6 _]]).
    all: destruct (proof2 r), (renew2 r), (expire2 r); cbn [orb] in *; try discriminate.
    all: try (repeat split; try reflexivity; try discriminate; fail).
    all: try (destruct (I1 eq_refl); discriminate); try (destruct (I2 eq_refl); discriminate);
         try (destruct (I3 eq_refl); discriminate).
    all: repeat split; intros; try reflexivity; try discriminate;
         try (apply I1; reflexivity); try (apply I2; reflexivity); try (apply I3; reflexivity).
Qed.

Lemma elem_rev_formed_g : forall p ch fl, chain_okg p ch fl -> is_some (elem_rev ch) = formed2 ch.
Proof.
  intros p ch. induction ch as [|b r IH]; intros fl Hok; [reflexivity|].
  cbn [chain_okg] in Hok. destruct Hok as [Hr [Hform [_ [_ [_ [Hrev _]]]]]]. specialize (IH _ Hr).
  cbn [elem_rev]. rewrite formed2_cons in *. unfold is_form in *.
  destruct (d_rev b) as [n|] eqn:Erv.
  - rewrite (Hrev eq_refl) in *. rewrite orb_true_r. reflexivity.
  - destruct (d_form b) as [n|]; [reflexivity|]. cbn [orb]. exact IH.
Qed.

Lemma apply_block2_matches_g : forall p ch fl b c,
  chain_okg p (b :: ch) fl -> row_matches2 p ch c ->
  exists c', apply_block2 p (tip2 (b :: ch)) b c = Ok c' /\ row_matches2 p (b :: ch) c'.
Proof.
  intros p ch fl b c Hok Hm.
  pose proof (elem_rev_formed_g p (b :: ch) fl Hok) as Hef'.
  pose proof Hok as Hok0.
  cbn [chain_okg] in Hok. destruct Hok as [Hr [Hform [Hproof [Hrenew [Hexp [Hrev Hdead]]]]]].
  pose proof (one_resolution_g p ch _ Hr) as [O1 [O2 O3]].
  pose proof (resolved2_formed_g p ch _ Hr) as Hresform.
  destruct Hm as [Hc [He [Hie [Hph [Heh [Hneg [Hun [Hopen [Hpr [Hrn Hex]]]]]]]]]].
  destruct c as [cid cconf cres cst crev cneg cph ceh celem]. row2_fields. subst celem cph ceh cneg.
  destruct b as [bf br bp bn be]. cbn [d_form d_rev d_proof d_renew d_expire is_form] in *.
  unfold row_matches2, apply_block2, when2.
  rewrite formed2_cons, resolved2_cons, proof2_cons, renew2_cons, expire2_cons in *.
  cbn [d_form d_rev d_proof d_renew d_expire is_form elem_rev] in *.
  unfold resolved2 in *.
  destruct (formed2 ch) eqn:Ef; destruct (proof2 ch) eqn:Ep; destruct (renew2 ch) eqn:En; destruct (expire2 ch) eqn:Ee;
    cbn [orb andb negb] in *;
    try (destruct (O1 eq_refl); discriminate); try (destruct (O2 eq_refl); discriminate);
    try (destruct (O3 eq_refl); discriminate);
    try (specialize (Hresform eq_refl); discriminate).
  all: destruct bf as [fn|], bp, bn, be; cbn [orb andb negb is_some] in *.
  all: try (destruct (Hform eq_refl) as [Hx1 [Hx2 [Hx3 [Hx4 [Hx5 Hx6]]]]]; try discriminate; try subst br).
  all: try (destruct (Hproof eq_refl) as [Hy1 [Hy2 [Hy3 Hy4]]]; try discriminate).
  all: try (destruct (Hrenew eq_refl) as [Hw1 [Hw2 Hw3]]; try discriminate).
  all: try (destruct (Hexp eq_refl) as [Hz1 [Hz2 [Hz3 Hz4]]]; try discriminate).
  all: try (destruct (Hun eq_refl) as [Hs Hres0]; rewrite Hres0 in *).
  all: try (destruct (Hopen eq_refl eq_refl) as [Hs Hres0]; rewrite Hs, Hres0 in *).
  all: try (destruct (Hpr eq_refl eq_refl) as [Hs Hres0]; rewrite Hs in *).
  all: try (destruct (Hrn eq_refl eq_refl) as [Hs Hres0]; rewrite Hs in *).
  all: try (destruct (Hex eq_refl eq_refl) as [Hs Hres0]).
  all: destruct (q_benefit p) eqn:Eb; try rewrite Hs in *.
  all: try (destruct Hs as [Hs|Hs]; rewrite Hs in *).
  all: try destruct br as [rn|].
  all: try (specialize (Hrev eq_refl); try discriminate Hrev).
  all: destruct (elem_rev ch) as [er|] eqn:Eer; cbn [is_some] in Hie; try discriminate Hie.
  all: destruct cconf as [cf|]; cbn [is_some] in Hc; try discriminate Hc.
  all: cbn [orb andb negb apply_form2 apply_success2 apply_failed2 bind upd2 apply_rev2 st2_eqb
            c2_contract_status c2_confirmation_index c2_resolution_index c2_elem option_map].
  all: unfold reject2; row2_fields; cbn [st2_eqb negb andb is_some].
  all: repeat match goal with |- context [if ?x then _ else _] => destruct x eqn:? end.
  all: row2_fields; eexists; (split; [reflexivity|]); row2_fields.
  all: repeat split; try reflexivity; try discriminate; try (intros; discriminate); auto.
Qed.

Lemma revert_block2_matches_g : forall p ch fl b c,
  chain_okg p (b :: ch) fl -> is_form b = false -> row_matches2 p (b :: ch) c ->
  exists c', revert_block2 p b (elem_rev ch) c = Ok c' /\ row_matches2 p ch c'.
Proof.
  intros p ch fl b c Hok Hbf Hm.
  cbn [chain_okg] in Hok. destruct Hok as [Hr [Hform [Hproof [Hrenew [Hexp [Hrev Hdead]]]]]].
  pose proof (elem_rev_formed_g p ch _ Hr) as Hef.
  pose proof (one_resolution_g p ch _ Hr) as [O1 [O2 O3]].
  pose proof (resolved2_formed_g p ch _ Hr) as Hresform.
  destruct Hm as [Hc [He [Hie [Hph [Heh [Hneg [Hun [Hopen [Hpr [Hrn Hex]]]]]]]]]].
  destruct c as [cid cconf cres cst crev cneg cph ceh celem]. row2_fields. subst celem cph ceh cneg.
  destruct b as [bf br bp bn be]. cbn [d_form d_rev d_proof d_renew d_expire is_form] in *.
  destruct bf as [fn|]; [discriminate Hbf|].
  unfold row_matches2, revert_block2, when2.
  rewrite formed2_cons, resolved2_cons, proof2_cons, renew2_cons, expire2_cons in *.
  cbn [d_form d_rev d_proof d_renew d_expire is_form elem_rev] in *.
  rewrite ?formed2_cons in *. cbn [d_form is_form orb] in *.
  unfold resolved2 in *.
  destruct (formed2 ch) eqn:Ef; destruct (proof2 ch) eqn:Ep; destruct (renew2 ch) eqn:En; destruct (expire2 ch) eqn:Ee;
    cbn [orb andb negb] in *;
    try (destruct (O1 eq_refl); discriminate); try (destruct (O2 eq_refl); discriminate);
    try (destruct (O3 eq_refl); discriminate);
    try (specialize (Hresform eq_refl); discriminate).
  all: destruct bp, bn, be; cbn [orb andb negb is_some] in *.
  all: try (destruct (Hproof eq_refl) as [Hy1 [Hy2 [Hy3 Hy4]]]; try discriminate).
  all: try (destruct (Hrenew eq_refl) as [Hw1 [Hw2 Hw3]]; try discriminate).
  all: try (destruct (Hexp eq_refl) as [Hz1 [Hz2 [Hz3 Hz4]]]; try discriminate).
  all: try (destruct (Hun eq_refl) as [Hs Hres0]; rewrite Hres0 in *).
  all: try (destruct (Hopen eq_refl eq_refl) as [Hs Hres0]; rewrite Hs, Hres0 in *).
  all: try (destruct (Hpr eq_refl eq_refl) as [Hs Hres0]; rewrite Hs in *).
  all: try (destruct (Hrn eq_refl eq_refl) as [Hs Hres0]; rewrite Hs in *).
  all: try (destruct (Hex eq_refl eq_refl) as [Hs Hres0]).
  all: destruct (q_benefit p) eqn:Eb; try rewrite Hs in *.
  all: try (destruct Hs as [Hs|Hs]; rewrite Hs in *).
  all: try destruct br as [rn|].
  all: try (specialize (Hrev eq_refl); try discriminate Hrev).
  all: destruct (elem_rev ch) as [er|] eqn:Eer; cbn [is_some] in Hef; try discriminate Hef.
  all: destruct cconf as [cf|]; cbn [is_some] in Hc; try discriminate Hc.
  all: cbn [orb andb negb revert_success2 revert_failed2 bind upd2 apply_rev2 st2_eqb
            c2_contract_status c2_confirmation_index c2_resolution_index c2_elem option_map].
  all: row2_fields; eexists; (split; [reflexivity|]); row2_fields.
  all: repeat split; try reflexivity; try discriminate; try (intros; discriminate); auto.
Qed.

Definition invg (p : params2) (w : world2) : Prop :=
  chain_okg p (chain2 w) (sent2 w) /\
  (exists c, row2 w = Ok c /\ row_matches2 p (chain2 w) c) /\
  flags_sound p (chain2 w) (sent2 w).

Lemma invg_init : forall p, invg p (init_world2 p).
Proof.
  intros p. destruct (inv2_init p) as [_ [Hrow _]].
  unfold invg, init_world2 in *. cbn [chain2 row2 sent2 chain_okg flags_sound] in *.
  split; [exact I|]. split; [exact Hrow|reflexivity].
Qed.

Lemma env_ok2_chain_g : forall p w b f,
  chain_okg p (chain2 w) (sent2 w) -> env_ok2 p w b = true -> chain_okg p (b :: chain2 w) (f :: sent2 w).
Proof.
  intros p w b f Hok He. unfold env_ok2 in He.
  cbn [chain_okg tl]. rewrite tip2_cons. unfold is_form, anyb in *.
  destruct b as [bf br bp bn be]. cbn [d_form d_rev d_proof d_renew d_expire] in *.
  destruct bf as [fn|], br as [rn|], bp, bn, be, (formed2 (chain2 w)), (resolved2 (chain2 w)),
    (existsb (fun x => x) (sent2 w));
    cbn [implb andb orb negb is_some] in He; try discriminate He;
    repeat split; try assumption; try reflexivity; try (intros; discriminate); try (intros; lia);
    try (intros; auto; fail).
  all: try (intros; first [left; reflexivity | right; reflexivity]).
  all: try (intro Heq; intros; exfalso; rewrite <- N.eqb_eq in Heq; rewrite Heq in He; cbn in He;
            repeat rewrite ?andb_false_r, ?andb_true_r in He; discriminate He).
Qed.

Lemma attempt_sound : forall p ch c h a,
  row_matches2 p ch c -> h = tip2 ch -> attempt p (Ok c) h a = true -> would_broadcast2 p ch = true.
Proof.
  intros p ch c h a Hm -> Ha. destruct a as [|ok lag]; [discriminate Ha|].
  cbn [attempt] in Ha. rewrite (broadcast_agrees2 p ch c Hm) in Ha.
  destruct (would_broadcast2 p ch); [reflexivity|discriminate Ha].
Qed.

Lemma would_down : forall p b rest,
  is_form b = false -> would_broadcast2 p (b :: rest) = true -> (q_ph p < tip2 (b :: rest))%N ->
  would_broadcast2 p rest = true.
Proof.
  intros p b rest Hb Hw Hlt. unfold would_broadcast2 in *. rewrite formed2_cons, resolved2_cons, Hb, tip2_cons in *.
  cbn [orb] in Hw. destruct (formed2 rest); [|discriminate Hw]. cbn [andb] in *.
  destruct (resolved2 rest); [rewrite orb_true_r in Hw; discriminate Hw|]. cbn [negb andb].
  destruct (q_held p); [|rewrite andb_false_r in Hw; discriminate Hw]. rewrite andb_true_r in *.
  apply andb_true_iff in Hw. destruct Hw as [Hw1 Hw2]. apply andb_true_iff in Hw1. destruct Hw1 as [_ Hw1].
  apply andb_true_iff. split; lia.
Qed.

Lemma gstep2_inv : forall p w e w', invg p w -> gstep2 p w e = Some w' -> invg p w'.
Proof.
  intros p w e w' [Hok [[c [Hrow Hm]] Hfs]] Hstep. destruct e as [b a|a].
  - cbn [gstep2] in Hstep. destruct (env_ok2 p w b) eqn:He; cbn [negb] in Hstep; [|discriminate].
    injection Hstep as <-.
    set (f := attempt p (bind (row2 w) (apply_block2 p (tip2 (chain2 w) + 1) b)) (tip2 (chain2 w) + 1) a).
    pose proof (env_ok2_chain_g p w b f Hok He) as Hok'.
    destruct (apply_block2_matches_g p (chain2 w) _ b c Hok' Hm) as [c' [Hap Hm']].
    rewrite (tip2_cons b (chain2 w)) in Hap.
    unfold invg. cbn [chain2 row2 sent2]. split; [exact Hok'|].
    rewrite Hrow. cbn [bind]. rewrite Hap.
    split; [exists c'; split; [reflexivity|exact Hm']|].
    cbn [flags_sound tl]. split; [|exact Hfs].
    exists f, (sent2 w). split; [reflexivity|]. intro Hf. subst f.
    rewrite Hrow in Hf. cbn [bind] in Hf. rewrite Hap in Hf.
    eapply attempt_sound; [exact Hm'| |exact Hf]. rewrite tip2_cons. reflexivity.
  - cbn [gstep2] in Hstep. destruct (chain2 w) as [|b rest] eqn:Ech; [discriminate|].
    destruct (sent2 w) as [|s0 srest] eqn:Es; [discriminate|].
    destruct (is_form b) eqn:Ebf; [discriminate|]. injection Hstep as <-.
    destruct (revert_block2_matches_g p rest _ b c Hok Ebf Hm) as [c' [Hrv Hm']].
    cbn [chain_okg tl] in Hok. destruct Hok as [Hok' _].
    cbn [flags_sound tl] in Hfs. destruct Hfs as [[f0 [fr0 [Hfl0 Hf0]]] Hfs']. injection Hfl0 as <- <-.
    unfold invg. cbn [chain2 row2 sent2]. rewrite Hrow. cbn [bind]. rewrite Hrv.
    destruct rest as [|b2 r2].
    + cbn [flags_sound] in Hfs'. subst srest. split; [exact I|]. split; [exists c'; split; [reflexivity|exact Hm']|reflexivity].
    + cbn [flags_sound] in Hfs'. destruct Hfs' as [[f [fr [Hfl Hf]]] Hfs2]. subst srest. cbn [tl] in *.
      split; [cbn [chain_okg tl] in *; exact Hok'|]. split; [exists c'; split; [reflexivity|exact Hm']|].
      cbn [flags_sound tl]. split; [|exact Hfs2].
      eexists _, fr. split; [reflexivity|]. intro Hor. apply orb_true_iff in Hor. destruct Hor as [Hx|Hx];
        [apply orb_true_iff in Hx; destruct Hx as [Hx|Hx]|].
      * apply Hf. exact Hx.
      * apply andb_true_iff in Hx. destruct Hx as [Hx1 Hx2].
        apply (would_down p b (b2 :: r2) Ebf (Hf0 Hx1)). lia.
      * eapply attempt_sound; [exact Hm'|reflexivity|exact Hx].
Qed.

Lemma grun_inv : forall p tr w w', invg p w -> grun p w tr = Some w' -> invg p w'.
Proof.
  intros p tr. induction tr as [|e t IH]; intros w w' Hi Hr.
  - injection Hr as <-. exact Hi.
  - cbn [grun] in Hr. destruct (gstep2 p w e) as [w1|] eqn:Est; [|discriminate].
    apply (IH w1 w'); [eapply gstep2_inv; eassumption|exact Hr].
Qed.

(** * What the recorded flags give *)
Lemma would_open : forall p ch, would_broadcast2 p ch = true ->
  formed2 ch = true /\ resolved2 ch = false /\ (q_ph p <= tip2 ch)%N /\ (tip2 ch < q_eh p)%N /\ q_held p = true.
Proof.
  intros p ch H. unfold would_broadcast2 in H.
  destruct (formed2 ch), (resolved2 ch), (q_held p); cbn [andb negb] in H; try discriminate H;
    try (rewrite ?andb_false_r in H; discriminate H).
  repeat split; lia.
Qed.

Lemma sound_tl : forall p b r fl, flags_sound p (b :: r) fl ->
  (hd false fl = true -> would_broadcast2 p (b :: r) = true) /\ flags_sound p r (tl fl).
Proof.
  intros p b r fl [[f [fr [-> Hf]]] Hs]. cbn [hd tl] in *. split; assumption.
Qed.

Lemma anyb_hd_tl : forall fl, anyb fl = hd false fl || anyb (tl fl).
Proof. intros [|f fr]; reflexivity. Qed.

(* an expiration on the chain: no flag anywhere on it *)
Lemma expired_no_flag : forall p ch fl,
  chain_okg p ch fl -> flags_sound p ch fl -> expire2 ch = true -> anyb fl = false.
Proof.
  intros p ch. induction ch as [|b r IH]; intros fl Hok Hfs Hex; [discriminate Hex|].
  destruct (sound_tl p b r fl Hfs) as [Hhd Hfs']. rewrite anyb_hd_tl.
  cbn [chain_okg] in Hok. destruct Hok as [Hr [_ [_ [_ [Hexp _]]]]].
  assert (Hres : resolved2 (b :: r) = true).
  { unfold resolved2. rewrite Hex. rewrite orb_true_r. reflexivity. }
  assert (Hh : hd false fl = false).
  { destruct (hd false fl); [|reflexivity]. destruct (would_open _ _ (Hhd eq_refl)) as [_ [Hn _]]. congruence. }
  rewrite Hh. cbn [orb]. rewrite expire2_cons in Hex.
  destruct (d_expire b) eqn:Ee.
  - destruct (Hexp eq_refl) as [_ [_ [_ Hz]]]. exact Hz.
  - cbn [orb] in Hex. apply (IH _ Hr Hfs' Hex).
Qed.

(* a flag on the chain and the tip at or past the expiration height: resolved by a proof or a renewal *)
Lemma flag_resolves : forall p ch fl,
  (q_ph p < q_eh p)%N -> chain_okg p ch fl -> flags_sound p ch fl ->
  anyb fl = true -> (q_eh p <= tip2 ch)%N -> proof2 ch || renew2 ch = true.
Proof.
  intros p ch. induction ch as [|b r IH]; intros fl Hw Hok Hfs Hany Ht.
  - cbn [flags_sound] in Hfs. subst fl. discriminate Hany.
  - destruct (sound_tl p b r fl Hfs) as [Hhd Hfs']. rewrite anyb_hd_tl in Hany.
    pose proof Hok as Hok0. cbn [chain_okg] in Hok. destruct Hok as [Hr [Hform [_ [_ [_ [_ Hdead]]]]]].
    assert (Hh : hd false fl = false).
    { destruct (hd false fl); [|reflexivity]. destruct (would_open _ _ (Hhd eq_refl)) as [_ [_ [_ [Hlt _]]]]. lia. }
    rewrite Hh in Hany. cbn [orb] in Hany.
    rewrite proof2_cons, renew2_cons. rewrite tip2_cons in *.
    destruct (N.eq_dec (tip2 r + 1) (q_eh p)) as [Heq|Hne].
    + destruct (resolved2 r) eqn:Er.
      * unfold resolved2 in Er. destruct (expire2 r) eqn:Ex.
        -- rewrite (expired_no_flag p r _ Hr Hfs' Ex) in Hany. discriminate Hany.
        -- rewrite orb_false_r in Er. destruct (proof2 r), (renew2 r), (d_proof b), (d_renew b); cbn in *; congruence.
      * assert (Hf : formed2 r = true).
        { (* a flag below: that position was formed, hence so is r *)
          clear - Hany Hfs'. revert Hany Hfs'. generalize (tl fl). induction r as [|b2 r2 IH2]; intros l Hany Hfs.
          - cbn [flags_sound] in Hfs. subst l. discriminate Hany.
          - destruct (sound_tl p b2 r2 l Hfs) as [Hhd2 Hfs2]. rewrite anyb_hd_tl in Hany.
            destruct (hd false l) eqn:Eh.
            + destruct (would_open _ _ (Hhd2 eq_refl)) as [Hf _]. exact Hf.
            + cbn [orb] in Hany. rewrite formed2_cons. rewrite (IH2 _ Hany Hfs2). apply orb_true_r. }
        destruct (Hdead Heq Hf eq_refl Hany) as [Hp|Hp]; rewrite Hp; cbn [orb]; [reflexivity|apply orb_true_r].
    + assert (Hres : proof2 r || renew2 r = true) by (apply (IH (tl fl)); try assumption; lia).
      destruct (proof2 r), (renew2 r), (d_proof b), (d_renew b); cbn in *; congruence.
Qed.

(** * Theorems *)
(* a failed contract had no successful attempt in time on its branch *)
Lemma failed_no_attempt_inv : forall p w c,
  invg p w -> row2 w = Ok c ->
  c2_contract_status c = Failed2 -> anyb (sent2 w) = false /\ expire2 (chain2 w) = true.
Proof.
  intros p w c [Hok [[c0 [Hrow0 Hm]] Hfs]] Hrow Hst.
  rewrite Hrow in Hrow0. injection Hrow0 as <-.
  destruct Hm as [_ [_ [_ [_ [_ [_ [Hun [Hopen [Hpr [Hrn Hex]]]]]]]]]].
  assert (Hx : expire2 (chain2 w) = true).
  { destruct (formed2 (chain2 w)) eqn:Ef.
    - destruct (resolved2 (chain2 w)) eqn:Er.
      + unfold resolved2 in Er. destruct (proof2 (chain2 w)) eqn:Ep; [destruct (Hpr eq_refl eq_refl); congruence|].
        destruct (renew2 (chain2 w)) eqn:En; [destruct (Hrn eq_refl eq_refl); congruence|]. exact Er.
      + destruct (Hopen eq_refl eq_refl); congruence.
    - destruct (Hun eq_refl) as [[Hs|Hs] _]; congruence. }
  split; [|exact Hx]. eapply expired_no_flag; eassumption.
Qed.

Theorem g_failed_no_attempt : forall p tr w c,
  grun p (init_world2 p) tr = Some w -> row2 w = Ok c ->
  c2_contract_status c = Failed2 -> anyb (sent2 w) = false /\ expire2 (chain2 w) = true.
Proof.
  intros p tr w c Hrun. apply (failed_no_attempt_inv p). exact (grun_inv p tr _ w (invg_init p) Hrun).
Qed.

(* one successful attempt in time on the branch: never failed, and successful / renewed once the
   expiration height is reached *)
Lemma ends_successful_inv : forall p w,
  (q_ph p < q_eh p)%N -> invg p w -> anyb (sent2 w) = true ->
  exists c, row2 w = Ok c /\ c2_contract_status c <> Failed2 /\
            ((q_eh p <= tip2 (chain2 w))%N ->
             c2_contract_status c = Successful2 \/ c2_contract_status c = Renewed2).
Proof.
  intros p w Hw Hi Hany. pose proof Hi as [Hok [[c [Hrow Hm]] Hfs]].
  exists c. split; [exact Hrow|]. split.
  - intro Hst. destruct (failed_no_attempt_inv p w c Hi Hrow Hst) as [Hn _]. congruence.
  - intro Ht. pose proof (flag_resolves p _ _ Hw Hok Hfs Hany Ht) as Hres.
    assert (Hf : formed2 (chain2 w) = true).
    { apply (resolved2_formed_g p _ _ Hok). unfold resolved2.
      destruct (proof2 (chain2 w)), (renew2 (chain2 w)); cbn in *; congruence. }
    destruct Hm as [_ [_ [_ [_ [_ [_ [_ [_ [Hpr [Hrn _]]]]]]]]]].
    destruct (proof2 (chain2 w)) eqn:Ep; [left; apply (Hpr Hf eq_refl)|].
    cbn [orb] in Hres. right. apply (Hrn Hf Hres).
Qed.

Theorem g_ends_successful : forall p tr w,
  (q_ph p < q_eh p)%N ->
  grun p (init_world2 p) tr = Some w -> anyb (sent2 w) = true ->
  exists c, row2 w = Ok c /\ c2_contract_status c <> Failed2 /\
            ((q_eh p <= tip2 (chain2 w))%N ->
             c2_contract_status c = Successful2 \/ c2_contract_status c = Renewed2).
Proof.
  intros p tr w Hw Hrun. apply ends_successful_inv; [exact Hw|]. exact (grun_inv p tr _ w (invg_init p) Hrun).
Qed.

(* the retry structure: a pass at a tip inside the window with the contract open is an attempt,
   its outcome is ok && in-time whatever happened at earlier passes *)
Theorem g_retry_every_pass : forall p tr w b ok lag w',
  q_held p = true ->
  grun p (init_world2 p) tr = Some w -> gstep2 p w (GMine b (Pass ok lag)) = Some w' ->
  formed2 (chain2 w') = true -> resolved2 (chain2 w') = false ->
  (q_ph p <= tip2 (chain2 w'))%N -> (tip2 (chain2 w') < q_eh p)%N ->
  hd false (sent2 w') = ok && (tip2 (chain2 w') + lag <? q_eh p)%N.
Proof.
  intros p tr w b ok lag w' Hh Hrun Hstep Hf Hr Hlo Hhi.
  pose proof (grun_inv p tr _ w (invg_init p) Hrun) as Hi.
  destruct (gstep2_inv p w _ w' Hi Hstep) as [_ [[c' [Hrow' Hm']] _]].
  cbn [gstep2] in Hstep. destruct (env_ok2 p w b); cbn [negb] in Hstep; [|discriminate].
  injection Hstep as <-. cbn [chain2 row2 sent2 hd] in *. rewrite Hrow'. cbn [attempt].
  rewrite <- (tip2_cons b (chain2 w)). rewrite (broadcast_agrees2 p _ c' Hm').
  unfold would_broadcast2. rewrite Hf, Hr, Hh.
  replace (q_ph p <=? tip2 (b :: chain2 w))%N with true by lia.
  replace (tip2 (b :: chain2 w) <? q_eh p)%N with true by lia. reflexivity.
Qed.

(** * Liveness2 is the special case: a good pass after every event *)
Definition good (e : estep2) : gstep :=
  match e with Mine2 b => GMine b (Pass true 0) | Revert2 => GRevert (Pass true 0) end.

Lemma attempt_good : forall p ch c, row_matches2 p ch c ->
  attempt p (Ok c) (tip2 ch) (Pass true 0) = host_broadcasts2 p c (tip2 ch).
Proof.
  intros p ch c Hm. cbn [attempt]. rewrite andb_true_r, N.add_0_r.
  rewrite (broadcast_agrees2 p ch c Hm). unfold would_broadcast2.
  destruct (tip2 ch <? q_eh p)%N eqn:E; [apply andb_true_r|].
  rewrite andb_false_r. rewrite andb_false_r. reflexivity.
Qed.

Lemma gstep_good_is_step2 : forall p w e, inv2 p w -> gstep2 p w (good e) = step2 p w e.
Proof.
  intros p w e Hi. destruct e as [b|]; cbn [good gstep2 step2].
  - destruct (env_ok2 p w b) eqn:He; cbn [negb]; [|reflexivity].
    assert (Hs : step2 p w (Mine2 b) = Some {| chain2 := b :: chain2 w; row2 := bind (row2 w) (apply_block2 p (tip2 (chain2 w) + 1) b);
               sent2 := match bind (row2 w) (apply_block2 p (tip2 (chain2 w) + 1) b) with
                        | Ok c => host_broadcasts2 p c (tip2 (chain2 w) + 1) | _ => false end :: sent2 w |}).
    { cbn [step2]. rewrite He. reflexivity. }
    destruct (step2_inv p w _ _ Hi Hs) as [_ [[c' [Hrow' Hm']] _]]. cbn [chain2 row2] in *.
    rewrite Hrow'. rewrite <- (tip2_cons b (chain2 w)). rewrite (attempt_good p _ c' Hm'). reflexivity.
  - destruct (chain2 w) as [|b rest] eqn:Ech; [reflexivity|].
    destruct (sent2 w) as [|s0 srest] eqn:Es; [reflexivity|].
    destruct (is_form b) eqn:Ebf; [reflexivity|].
    assert (Hs : step2 p w Revert2 = Some {| chain2 := rest; row2 := bind (row2 w) (revert_block2 p b (elem_rev rest));
               sent2 := match srest with
                        | s :: t => (s || match bind (row2 w) (revert_block2 p b (elem_rev rest)) with
                                          | Ok c => host_broadcasts2 p c (tip2 rest) | _ => false end) :: t
                        | [] => [] end |}).
    { cbn [step2]. rewrite ?Ech, ?Es, ?Ebf. reflexivity. }
    destruct (step2_inv p w _ _ Hi Hs) as [_ [[c' [Hrow' Hm']] _]]. cbn [chain2 row2] in *.
    rewrite Hrow'. rewrite (attempt_good p _ c' Hm').
    (* the carried flag is absorbed: under Liveness2's invariant the position below is flagged already *)
    destruct Hi as [_ [_ Hsent]]. rewrite Ech, Es in Hsent. cbn [sent_of2] in Hsent. injection Hsent as Hs0 Hsr.
    destruct srest as [|s t]; [reflexivity|].
    destruct rest as [|b2 r2]; [discriminate Hsr|]. cbn [sent_of2] in Hsr. injection Hsr as Hs1 Ht.
    replace (s || s0 && (q_ph p <? tip2 (b :: b2 :: r2))%N) with s; [reflexivity|].
    destruct s; [reflexivity|]. cbn [orb]. symmetry. apply andb_false_iff.
    destruct (q_ph p <? tip2 (b :: b2 :: r2))%N eqn:El; [left|right; reflexivity].
    destruct s0; [|reflexivity]. exfalso.
    assert (Hd : would_broadcast2 p (b2 :: r2) = true) by (apply (would_down p b); [exact Ebf|congruence|lia]).
    congruence.
Qed.

Theorem grun_good_is_run2 : forall p tr w, inv2 p w -> grun p w (map good tr) = run2 p w tr.
Proof.
  intros p tr. induction tr as [|e t IH]; intros w Hi; [reflexivity|].
  cbn [map grun run2]. rewrite (gstep_good_is_step2 p w e Hi).
  destruct (step2 p w e) as [w1|] eqn:Es; [|reflexivity].
  apply IH. eapply step2_inv; eassumption.
Qed.

(** * Batches without reverts: when is a proof built in time *)
(* [k] = blocks mined since the last good pass (ok, lag <= L); at most B blocks between two of them *)
Fixpoint spaced (B L k : N) (tr : list gstep) : Prop :=
  match tr with
  | [] => True
  | GMine _ (Pass true lag) :: t => (lag <= L)%N /\ spaced B L 0 t
  | GMine _ _ :: t => (k + 1 < B)%N /\ spaced B L (k + 1) t
  | GRevert _ :: t => False
  end.

(* the invariant of a spaced run: an open contract whose last good pass was at or past the proof
   height has a flag on the chain *)
Definition binv (p : params2) (w : world2) (k : N) : Prop :=
  (k <= tip2 (chain2 w))%N /\
  (formed2 (chain2 w) = true -> resolved2 (chain2 w) = false ->
   (q_ph p <= tip2 (chain2 w) - k)%N -> anyb (sent2 w) = true) /\
  expire2 (chain2 w) = false.

Lemma formed_before : forall p b r fl, chain_okg p (b :: r) fl -> formed2 (b :: r) = true ->
  (q_ph p <= tip2 r)%N -> formed2 r = true.
Proof.
  intros p b r fl Hok Hf Hle. cbn [chain_okg] in Hok. destruct Hok as [_ [Hform _]].
  rewrite formed2_cons in Hf. destruct (is_form b) eqn:E; [|exact Hf].
  destruct (Hform eq_refl) as [_ [Hx _]]. rewrite tip2_cons in Hx. lia.
Qed.

Lemma spaced_step : forall p B L k w b a w',
  q_held p = true -> (B + L <= q_eh p - q_ph p)%N -> (q_ph p < q_eh p)%N -> (k < B)%N ->
  invg p w -> binv p w k -> gstep2 p w (GMine b a) = Some w' ->
  match a with
  | Pass true lag => (lag <= L)%N -> binv p w' 0
  | _ => (k + 1 < B)%N -> binv p w' (k + 1)
  end.
Proof.
  intros p B L k w b a w' Hh HBL Hw HkB Hi [Hk [Hb Hnx]] Hstep.
  pose proof (gstep2_inv p w _ w' Hi Hstep) as [Hok' [[c' [Hrow' Hm']] Hfs']].
  cbn [gstep2] in Hstep. destruct (env_ok2 p w b) eqn:Henv; cbn [negb] in Hstep; [|discriminate].
  injection Hstep as <-. cbn [chain2 row2 sent2] in *.
  assert (Hne : expire2 (b :: chain2 w) = false).
  { rewrite expire2_cons, Hnx, orb_false_r. destruct (d_expire b) eqn:Ee; [|reflexivity]. exfalso.
    pose proof Hok' as Hok0. cbn [chain_okg tl] in Hok0. destruct Hok0 as [_ [_ [_ [_ [Hexp _]]]]].
    destruct (Hexp Ee) as [Hf [Hr [Hlt Hno]]]. rewrite tip2_cons in Hlt.
    rewrite Hb in Hno; [discriminate Hno|exact Hf|exact Hr|lia]. }
  assert (Hkeep : formed2 (b :: chain2 w) = true -> resolved2 (b :: chain2 w) = false ->
                  (q_ph p <= tip2 (chain2 w) - k)%N -> anyb (sent2 w) = true).
  { intros Hf Hr Hle. apply Hb; [|rewrite resolved2_cons in Hr; destruct (resolved2 (chain2 w)); [rewrite orb_true_r in Hr; discriminate Hr|reflexivity]|exact Hle].
    eapply formed_before; [exact Hok'|exact Hf|lia]. }
  assert (Hnop : (k + 1 < B)%N -> binv p {| chain2 := b :: chain2 w; row2 := Ok c';
                   sent2 := attempt p (Ok c') (tip2 (chain2 w) + 1) a :: sent2 w |} (k + 1)).
  { intro Hlt. split; [|split]; cbn [chain2 sent2]; [rewrite tip2_cons; lia| |exact Hne]. rewrite tip2_cons. intros Hf Hr Hle.
    unfold anyb. cbn [existsb]. fold (anyb (sent2 w)). rewrite (Hkeep Hf Hr) by lia. apply orb_true_r. }
  rewrite Hrow' in *.
  destruct a as [|ok lag]; [exact Hnop|]. destruct ok; [|exact Hnop].
  intro Hlag. split; [|split]; cbn [chain2 sent2]; [lia| |exact Hne]. rewrite tip2_cons, N.sub_0_r. intros Hf Hr Hle.
  unfold anyb. cbn [existsb]. fold (anyb (sent2 w)).
  destruct (q_ph p <=? tip2 (chain2 w) - k)%N eqn:Eold.
  - rewrite (Hkeep Hf Hr) by lia. apply orb_true_r.
  - (* the first good pass at or past the proof height: it is in time *)
    assert (Hlt : (tip2 (chain2 w) + 1 + lag < q_eh p)%N) by lia.
    cbn [attempt]. rewrite <- (tip2_cons b (chain2 w)). rewrite (broadcast_agrees2 p _ c' Hm').
    unfold would_broadcast2. rewrite Hf, Hr, Hh. rewrite tip2_cons.
    replace (q_ph p <=? tip2 (chain2 w) + 1)%N with true by lia.
    replace (tip2 (chain2 w) + 1 <? q_eh p)%N with true by lia.
    replace (tip2 (chain2 w) + 1 + lag <? q_eh p)%N with true by lia. reflexivity.
Qed.

Lemma spaced_run : forall p B L tr k w w',
  q_held p = true -> (B + L <= q_eh p - q_ph p)%N -> (q_ph p < q_eh p)%N -> (k < B)%N ->
  invg p w -> binv p w k -> spaced B L k tr -> grun p w tr = Some w' ->
  exists k', (k' < B)%N /\ binv p w' k'.
Proof.
  intros p B L tr. induction tr as [|e t IH]; intros k w w' Hh HBL Hw HkB Hi Hb Hsp Hrun.
  - injection Hrun as <-. exists k. split; assumption.
  - cbn [grun] in Hrun. destruct (gstep2 p w e) as [w1|] eqn:Est; [|discriminate].
    pose proof (gstep2_inv p w e w1 Hi Est) as Hi1.
    destruct e as [b a|a]; [|destruct Hsp].
    pose proof (spaced_step p B L k w b a w1 Hh HBL Hw HkB Hi Hb Est) as Hs.
    destruct a as [|ok lag].
    + cbn [spaced] in Hsp. destruct Hsp as [Hlt Hsp]. apply (IH (k + 1)%N w1 w'); auto.
    + destruct ok.
      * cbn [spaced] in Hsp. destruct Hsp as [Hlag Hsp]. apply (IH 0%N w1 w'); auto. lia.
      * cbn [spaced] in Hsp. destruct Hsp as [Hlt Hsp]. apply (IH (k + 1)%N w1 w'); auto.
Qed.

(* no reverts, good passes at most B blocks apart, the indexer at most L blocks behind at each of
   them, B + L <= expiration height - proof height: the contract ends successful *)
Theorem g_batches_in_time : forall p B L tr w,
  q_held p = true -> (q_ph p < q_eh p)%N -> (0 < B)%N -> (B + L <= q_eh p - q_ph p)%N ->
  spaced B L 0 tr -> grun p (init_world2 p) tr = Some w ->
  exists c, row2 w = Ok c /\ c2_contract_status c <> Failed2 /\
            (formed2 (chain2 w) = true -> (q_eh p <= tip2 (chain2 w))%N ->
             c2_contract_status c = Successful2 \/ c2_contract_status c = Renewed2).
Proof.
  intros p B L tr w Hh Hw HB HBL Hsp Hrun.
  assert (Hb0 : binv p (init_world2 p) 0).
  { split; [|split]; cbn; [lia|discriminate|reflexivity]. }
  destruct (spaced_run p B L tr 0%N _ w Hh HBL Hw HB (invg_init p) Hb0 Hsp Hrun) as [k' [Hk' [Hkt [Hb Hnx]]]].
  destruct (grun_inv p tr _ w (invg_init p) Hrun) as [Hok [[c [Hrow Hm]] Hfs]].
  exists c. split; [exact Hrow|].
  assert (Hlate : formed2 (chain2 w) = true -> (q_eh p <= tip2 (chain2 w))%N -> resolved2 (chain2 w) = false -> False).
  { intros Hf Ht Hr. assert (Hany : anyb (sent2 w) = true) by (apply Hb; try assumption; lia).
    pose proof (flag_resolves p _ _ Hw Hok Hfs Hany Ht) as Hres. unfold resolved2 in Hr.
    destruct (proof2 (chain2 w)), (renew2 (chain2 w)); cbn in *; congruence. }
  split.
  - intro Hst. destruct (g_failed_no_attempt p tr w c Hrun Hrow Hst) as [_ Hx]. congruence.
  - intros Hf Ht. destruct (resolved2 (chain2 w)) eqn:Er; [|exfalso; apply (Hlate Hf Ht eq_refl)].
    destruct Hm as [_ [_ [_ [_ [_ [_ [_ [_ [Hpr [Hrn _]]]]]]]]]].
    unfold resolved2 in Er. rewrite Hnx, orb_false_r in Er.
    destruct (proof2 (chain2 w)) eqn:Ep; [left; apply (Hpr Hf eq_refl)|].
    cbn [orb] in Er. right. apply (Hrn Hf Er).
Qed.

(** * Batches WITH reverts
   index.Manager's batch is what chain.Manager.UpdatesSince(index, max) returns: reverts down to the best
   chain, then applies, at most max EVENTS in all; one pass at the end.  What a revert does to a proof
   the host already handed to the pool is in [gstep2]: the code knows nothing about it (the next pass
   selects by the same predicate and hands over a new one, which the pool may refuse as conflicting), the
   transaction itself stays valid while the block at the proof height stays.  Two more facts about the
   environment are needed, both outside the host's control:
     - a storage proof that is mined is one the host handed to the pool before, on this branch (only the
       host holds the data);
     - a reverted block does not hold the renewal (a renewal that is reorged out for good leaves the
       contract open from that moment only: how much of the window is left is the reorg's choice — for the
       pair of contracts see Liveness2R.v).
   Then, as without reverts: at most B events between two good passes, the indexer at most L blocks
   behind at each, B + L <= expiration height - proof height. *)
Definition pact_of (e : gstep) : pact := match e with GMine _ a | GRevert a => a end.
Definition good_pass (a : pact) : bool := match a with Pass true _ => true | _ => false end.
Definition lag_of (a : pact) : N := match a with Pass _ l => l | NoPass => 0 end.

Definition backed_ok (w : world2) (e : gstep) : bool :=
  match e with
  | GMine b _ => implb (d_proof b) (anyb (sent2 w))
  | GRevert _ => match chain2 w with b :: _ => negb (d_renew b) | [] => true end
  end.

Fixpoint spacedr (p : params2) (B L k : N) (w : world2) (tr : list gstep) : Prop :=
  match tr with
  | [] => True
  | e :: t =>
      backed_ok w e = true /\
      (if good_pass (pact_of e) then (lag_of (pact_of e) <= L)%N else (k + 1 < B)%N) /\
      match gstep2 p w e with
      | Some w' => spacedr p B L (if good_pass (pact_of e) then 0 else k + 1) w' t
      | None => True
      end
  end.

Fixpoint pbacked (ch : list blk2) (fl : list bool) : Prop :=
  match ch with
  | [] => True
  | b :: r => (d_proof b = true -> anyb (tl fl) = true) /\ pbacked r (tl fl)
  end.

Definition rinvb (p : params2) (w : world2) (k : N) : Prop :=
  (formed2 (chain2 w) = true -> resolved2 (chain2 w) = false ->
   (q_ph p + k <= tip2 (chain2 w))%N -> anyb (sent2 w) = true) /\
  expire2 (chain2 w) = false /\ pbacked (chain2 w) (sent2 w).

Lemma pbacked_head : forall b r f g fl, pbacked (b :: r) (f :: fl) -> pbacked (b :: r) (g :: fl).
Proof. intros b r f g fl H. exact H. Qed.

Lemma attempt_in_time : forall p ch c lag,
  q_held p = true -> row_matches2 p ch c ->
  formed2 ch = true -> resolved2 ch = false -> (q_ph p <= tip2 ch)%N -> (tip2 ch + lag < q_eh p)%N ->
  attempt p (Ok c) (tip2 ch) (Pass true lag) = true.
Proof.
  intros p ch c lag Hh Hm Hf Hr Hlo Hhi. cbn [attempt]. rewrite (broadcast_agrees2 p ch c Hm).
  unfold would_broadcast2. rewrite Hf, Hr, Hh.
  replace (q_ph p <=? tip2 ch)%N with true by lia. replace (tip2 ch <? q_eh p)%N with true by lia.
  replace (tip2 ch + lag <? q_eh p)%N with true by lia. reflexivity.
Qed.

Lemma spacedr_step : forall p B L k w e w',
  q_held p = true -> (B + L <= q_eh p - q_ph p)%N -> (q_ph p < q_eh p)%N -> (k < B)%N ->
  invg p w -> rinvb p w k -> backed_ok w e = true ->
  (if good_pass (pact_of e) then (lag_of (pact_of e) <= L)%N else (k + 1 < B)%N) ->
  gstep2 p w e = Some w' ->
  rinvb p w' (if good_pass (pact_of e) then 0 else k + 1).
Proof.
  intros p B L k w e w' Hh HBL Hw HkB Hi [Hb [Hnx Hpb]] Hbk Hsp Hstep.
  pose proof (gstep2_inv p w _ w' Hi Hstep) as [Hok' [[c' [Hrow' Hm']] Hfs']].
  destruct e as [b a|a]; cbn [pact_of] in *.
  - (* mine *)
    cbn [gstep2] in Hstep. destruct (env_ok2 p w b) eqn:Henv; cbn [negb] in Hstep; [|discriminate].
    injection Hstep as <-. cbn [chain2 row2 sent2] in *. cbn [backed_ok] in Hbk.
    assert (Hne : expire2 (b :: chain2 w) = false).
    { rewrite expire2_cons, Hnx, orb_false_r. destruct (d_expire b) eqn:Ee; [|reflexivity]. exfalso.
      pose proof Hok' as Hok0. cbn [chain_okg tl] in Hok0. destruct Hok0 as [_ [_ [_ [_ [Hexp _]]]]].
      destruct (Hexp Ee) as [Hf [Hr [Hlt Hno]]]. rewrite tip2_cons in Hlt.
      rewrite Hb in Hno; [discriminate Hno|exact Hf|exact Hr|clear - Hlt HBL HkB Hw; lia]. }
    assert (Hpb' : forall f, pbacked (b :: chain2 w) (f :: sent2 w)).
    { intro f. cbn [pbacked tl]. split; [|exact Hpb]. intro Hp. rewrite Hp in Hbk. cbn [implb] in Hbk. exact Hbk. }
    assert (Hkeep : formed2 (b :: chain2 w) = true -> resolved2 (b :: chain2 w) = false ->
                    (q_ph p + k <= tip2 (chain2 w))%N -> anyb (sent2 w) = true).
    { intros Hf Hr Hle. apply Hb; [|rewrite resolved2_cons in Hr; destruct (resolved2 (chain2 w)); [rewrite orb_true_r in Hr; discriminate Hr|reflexivity]|exact Hle].
      eapply formed_before; [exact Hok'|exact Hf|clear - Hle; lia]. }
    rewrite Hrow'. clear Hok' Hfs' Hi Henv Hb Hpb.
    destruct (good_pass a) eqn:Eg.
    + destruct a as [|ok lag]; [discriminate Eg|]. destruct ok; [|discriminate Eg]. cbn [lag_of] in Hsp.
      split; [|split; [exact Hne|apply Hpb']]. cbn [chain2 sent2]. rewrite tip2_cons, N.add_0_r. intros Hf Hr Hle.
      unfold anyb. cbn [existsb]. fold (anyb (sent2 w)).
      destruct (q_ph p + k <=? tip2 (chain2 w))%N eqn:Eold.
      * rewrite (Hkeep Hf Hr) by (clear - Eold; lia). apply orb_true_r.
      * rewrite <- (tip2_cons b (chain2 w)).
        rewrite (attempt_in_time p _ c' lag Hh Hm' Hf Hr); [reflexivity| |]; rewrite tip2_cons; clear - Hle Eold HkB HBL Hsp Hw; lia.
    + split; [|split; [exact Hne|apply Hpb']]. cbn [chain2 sent2]. rewrite tip2_cons. intros Hf Hr Hle.
      unfold anyb. cbn [existsb]. fold (anyb (sent2 w)). rewrite (Hkeep Hf Hr) by (clear - Hle; lia). apply orb_true_r.
  - (* revert *)
    cbn [gstep2] in Hstep. destruct (chain2 w) as [|b rest] eqn:Ech; [discriminate|].
    destruct (sent2 w) as [|s0 srest] eqn:Es; [discriminate|].
    destruct (is_form b) eqn:Ebf; [discriminate|]. injection Hstep as <-. cbn [chain2 row2 sent2] in *.
    cbn [backed_ok] in Hbk. try rewrite Ech in Hbk. try rewrite Ech in Hb. try rewrite Ech in Hnx. try rewrite Ech in Hpb.
    try rewrite Es in Hb. try rewrite Es in Hpb. apply negb_true_iff in Hbk.
    rewrite expire2_cons in Hnx. apply orb_false_iff in Hnx. destruct Hnx as [Hxb Hnx'].
    cbn [pbacked tl] in Hpb. destruct Hpb as [Hpb0 Hpb'].
    rewrite tip2_cons in *.
    destruct rest as [|b2 r2].
    { split; [intro Hf; discriminate Hf|]. split; [reflexivity|exact I]. }
    destruct srest as [|s t].
    { exfalso. destruct Hi as [_ [_ Hfs]]. rewrite Ech, Es in Hfs. cbn [flags_sound tl] in Hfs.
      destruct Hfs as [_ [[f [fr [Hx _]]] _]]. discriminate Hx. }
    unfold rinvb. cbn [chain2 row2 sent2].
    split; [|split; [exact Hnx'|exact Hpb']].
    intros Hf Hr Hle. rewrite Hrow'. clear Hok' Hfs' Hi Hpb' Hrow'.
    unfold anyb. cbn [existsb]. fold (anyb t).
    destruct (d_proof b) eqn:Ep.
    { (* the reverted block held the proof: it was mined while a flag existed below *)
      specialize (Hpb0 eq_refl). unfold anyb in Hpb0. cbn [existsb] in Hpb0. fold (anyb t) in Hpb0.
      apply orb_true_iff in Hpb0. destruct Hpb0 as [H|H]; [subst s; reflexivity|rewrite H; apply orb_true_r]. }
    assert (Hf0 : formed2 (b :: b2 :: r2) = true) by (rewrite formed2_cons, Ebf, Hf; reflexivity).
    assert (Hr0 : resolved2 (b :: b2 :: r2) = false) by (rewrite resolved2_cons, Ep, Hbk, Hxb, Hr; reflexivity).
    assert (Hcarry : (q_ph p + k <= tip2 (b2 :: r2) + 1)%N -> (q_ph p < tip2 (b2 :: r2) + 1)%N ->
                     s || s0 && (q_ph p <? tip2 (b2 :: r2) + 1)%N || attempt p (Ok c') (tip2 (b2 :: r2)) a || anyb t = true).
    { intros H1 H2. pose proof (Hb Hf0 Hr0 H1) as Hb0. unfold anyb in Hb0. cbn [existsb] in Hb0. fold (anyb t) in Hb0.
      replace (q_ph p <? tip2 (b2 :: r2) + 1)%N with true by (clear - H2; lia). rewrite andb_true_r.
      destruct s0, s; cbn [orb] in *; try reflexivity. rewrite Hb0. apply orb_true_r. }
    destruct (good_pass a) eqn:Eg.
    + destruct a as [|ok lag]; [discriminate Eg|]. destruct ok; [|discriminate Eg]. cbn [lag_of] in Hsp.
      rewrite N.add_0_r in Hle.
      destruct (q_ph p + k <=? tip2 (b2 :: r2) + 1)%N eqn:Eold.
      * apply Hcarry; clear - Eold Hle; lia.
      * rewrite (attempt_in_time p _ c' lag Hh Hm' Hf Hr Hle) by (clear - Eold HkB HBL Hsp Hw; lia).
        rewrite orb_true_r. reflexivity.
    + apply Hcarry; clear - Hle; lia.
Qed.

Lemma spacedr_run : forall p B L tr k w w',
  q_held p = true -> (B + L <= q_eh p - q_ph p)%N -> (q_ph p < q_eh p)%N -> (k < B)%N ->
  invg p w -> rinvb p w k -> spacedr p B L k w tr -> grun p w tr = Some w' ->
  exists k', (k' < B)%N /\ rinvb p w' k'.
Proof.
  intros p B L tr. induction tr as [|e t IH]; intros k w w' Hh HBL Hw HkB Hi Hb Hsp Hrun.
  - injection Hrun as <-. exists k. split; assumption.
  - cbn [grun] in Hrun. destruct (gstep2 p w e) as [w1|] eqn:Est; [|discriminate].
    cbn [spacedr] in Hsp. rewrite Est in Hsp. destruct Hsp as [Hbk [Hk Hsp]].
    pose proof (gstep2_inv p w e w1 Hi Est) as Hi1.
    pose proof (spacedr_step p B L k w e w1 Hh HBL Hw HkB Hi Hb Hbk Hk Est) as Hs.
    apply (IH (if good_pass (pact_of e) then 0%N else (k + 1)%N) w1 w'); auto. clear - Hk HkB. destruct (good_pass (pact_of e)); lia.
Qed.

Theorem g_batches_with_reverts_in_time : forall p B L tr w,
  q_held p = true -> (q_ph p < q_eh p)%N -> (0 < B)%N -> (B + L <= q_eh p - q_ph p)%N ->
  spacedr p B L 0 (init_world2 p) tr -> grun p (init_world2 p) tr = Some w ->
  exists c, row2 w = Ok c /\ c2_contract_status c <> Failed2 /\
            (formed2 (chain2 w) = true -> (q_eh p <= tip2 (chain2 w))%N ->
             c2_contract_status c = Successful2 \/ c2_contract_status c = Renewed2).
Proof.
  intros p B L tr w Hh Hw HB HBL Hsp Hrun.
  assert (Hb0 : rinvb p (init_world2 p) 0).
  { split; [|split]; cbn; [discriminate|reflexivity|exact I]. }
  destruct (spacedr_run p B L tr 0%N _ w Hh HBL Hw HB (invg_init p) Hb0 Hsp Hrun) as [k' [Hk' [Hb [Hnx _]]]].
  destruct (grun_inv p tr _ w (invg_init p) Hrun) as [Hok [[c [Hrow Hm]] Hfs]].
  exists c. split; [exact Hrow|].
  assert (Hlate : formed2 (chain2 w) = true -> (q_eh p <= tip2 (chain2 w))%N -> resolved2 (chain2 w) = false -> False).
  { intros Hf Ht Hr. assert (Hany : anyb (sent2 w) = true) by (apply Hb; try assumption; lia).
    pose proof (flag_resolves p _ _ Hw Hok Hfs Hany Ht) as Hres. unfold resolved2 in Hr.
    destruct (proof2 (chain2 w)), (renew2 (chain2 w)); cbn in *; congruence. }
  split.
  - intro Hst. destruct (g_failed_no_attempt p tr w c Hrun Hrow Hst) as [_ Hx]. congruence.
  - intros Hf Ht. destruct (resolved2 (chain2 w)) eqn:Er; [|exfalso; apply (Hlate Hf Ht eq_refl)].
    destruct Hm as [_ [_ [_ [_ [_ [_ [_ [_ [Hpr [Hrn _]]]]]]]]]].
    unfold resolved2 in Er. rewrite Hnx, orb_false_r in Er.
    destruct (proof2 (chain2 w)) eqn:Ep; [left; apply (Hpr Hf eq_refl)|].
    cbn [orb] in Er. right. apply (Hrn Hf Er).
Qed.

(* the hypothesis of the theorem is decidable along a concrete schedule *)
Fixpoint spacedrb (p : params2) (B L k : N) (w : world2) (tr : list gstep) : bool :=
  match tr with
  | [] => true
  | e :: t =>
      backed_ok w e &&
      (if good_pass (pact_of e) then (lag_of (pact_of e) <=? L)%N else (k + 1 <? B)%N) &&
      match gstep2 p w e with
      | Some w' => spacedrb p B L (if good_pass (pact_of e) then 0 else k + 1) w' t
      | None => true
      end
  end.

Lemma spacedrb_sound : forall p B L tr k w, spacedrb p B L k w tr = true -> spacedr p B L k w tr.
Proof.
  intros p B L tr. induction tr as [|e t IH]; intros k w H; [exact I|].
  cbn [spacedrb spacedr] in *. apply andb_true_iff in H. destruct H as [H H3].
  apply andb_true_iff in H. destruct H as [H1 H2]. split; [exact H1|]. split.
  - destruct (good_pass (pact_of e)); lia.
  - destruct (gstep2 p w e); [apply IH; exact H3|exact I].
Qed.

(** * Witnesses (window [3,5), p2_demo of Liveness2.v: the host holds the data, an expiration means failed) *)
Definition gp (a : pact) (b : blk2) : gstep := GMine b a.
Definition ok0 : pact := Pass true 0.
(* every attempt inside the window fails (funding refused / pool refuses): the contract can be expired *)
Definition g_all_attempts_fail_witness : list gstep :=
  [gp ok0 d_formed; gp ok0 d0; gp (Pass false 0) d0; gp (Pass false 0) d0; gp ok0 d0; gp ok0 d_expired].
(* the first attempt fails, the one at the next height succeeds: protected *)
Definition g_second_attempt_succeeds : list gstep :=
  [gp ok0 d_formed; gp ok0 d0; gp (Pass false 0) d0; gp ok0 d0; gp ok0 d_proved; gp ok0 d0].
Definition g_second_attempt_then_expired : list gstep :=
  [gp ok0 d_formed; gp ok0 d0; gp (Pass false 0) d0; gp ok0 d0; gp ok0 d0; gp ok0 d_expired].
(* a batch of three blocks over a window of two: tips 3 and 4 are never processed *)
Definition g_window_skipped_witness : list gstep :=
  [gp ok0 d_formed; gp ok0 d0; gp NoPass d0; gp NoPass d0; gp ok0 d0; gp ok0 d_expired].
(* the pass at tip 4 runs while the best chain is already at 5: too late for the block at 5 *)
Definition g_lagging_pass_witness : list gstep :=
  [gp ok0 d_formed; gp ok0 d0; gp NoPass d0; gp (Pass true 1) d0; gp ok0 d0; gp ok0 d_expired].
(* window [3,7): batches of two events, a reorg of depth 1 inside the window, the indexer one block behind *)
Definition p_wide : params2 :=
  {| q_ph := 3; q_eh := 7; q_neg := 0; q_rev0 := 2; q_rb := 18; q_benefit := true; q_held := true |}.
Definition g_batches_with_reorg : list gstep :=
  [gp ok0 d_formed; gp NoPass d0; gp (Pass true 1) d0; gp NoPass d0; GRevert (Pass true 1); gp NoPass d0; gp ok0 d_proved;
   gp NoPass d0; gp ok0 d0].

Definition status_after (p : params2) (tr : list gstep) : option st2 :=
  match grun p (init_world2 p) tr with
  | Some w => match row2 w with Ok c => Some (c2_contract_status c) | _ => None end
  | None => None
  end.
