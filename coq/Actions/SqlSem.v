(* Actions/SqlSem.v — the fragment of SQLite's expression semantics that tools/sqlgen
   targets: three-valued logic, typed comparisons after affinity has been resolved by the
   translator (INTEGER/NUMERIC operands as Z, TEXT operands as strings compared bytewise
   (BINARY collation), BLOB operands that are injective encodings of numbers as N with
   (in)equality only), IS NULL, BETWEEN, IN, truthiness of a WHERE clause.
   NULL is [None].  No proofs here. *)
From Coq Require Export String.
From HostdBase Require Import Base.

Inductive cmpop := Ceq | Cne | Clt | Cle | Cgt | Cge.

Definition zcmp (op : cmpop) (x y : Z) : bool :=
  match op with
  | Ceq => (x =? y)%Z | Cne => negb (x =? y)%Z
  | Clt => (x <? y)%Z | Cle => (x <=? y)%Z
  | Cgt => (y <? x)%Z | Cge => (y <=? x)%Z
  end.

Definition of_comparison (op : cmpop) (c : comparison) : bool :=
  match op, c with
  | Ceq, Eq | Cne, Lt | Cne, Gt | Clt, Lt | Cle, Lt | Cle, Eq | Cgt, Gt | Cge, Gt | Cge, Eq => true
  | _, _ => false
  end.

Definition lift2 {A} (f : A -> A -> bool) (a b : option A) : option bool :=
  match a, b with Some x, Some y => Some (f x y) | _, _ => None end.

(* both operands INTEGER after affinity *)
Definition sql_cmp_int (op : cmpop) := lift2 (zcmp op).
(* both operands TEXT after affinity: memcmp *)
Definition sql_cmp_text (op : cmpop) := lift2 (fun x y => of_comparison op (String.compare x y)).
(* BLOB operands holding an injective encoding of a number: only = and <> are meaningful *)
Definition sql_eq_blob := lift2 N.eqb.
Definition sql_ne_blob := lift2 (fun x y => negb (N.eqb x y)).
(* operands of different storage classes (INTEGER < TEXT < BLOB) after affinity: the
   outcome [r] is fixed by the classes unless an operand is NULL *)
Definition sql_cmp_classes {A B} (r : bool) (a : option A) (b : option B) : option bool :=
  match a, b with Some _, Some _ => Some r | _, _ => None end.

Definition sql_and (a b : option bool) : option bool :=
  match a, b with
  | Some false, _ | _, Some false => Some false
  | Some true, Some true => Some true
  | _, _ => None
  end.
Definition sql_or (a b : option bool) : option bool :=
  match a, b with
  | Some true, _ | _, Some true => Some true
  | Some false, Some false => Some false
  | _, _ => None
  end.
Definition sql_not (a : option bool) : option bool := option_map negb a.
Definition sql_isnull {A} (a : option A) : option bool :=
  Some (match a with None => true | Some _ => false end).
Definition sql_notnull {A} (a : option A) : option bool :=
  Some (match a with None => false | Some _ => true end).
(* an INTEGER-affinity value used as a condition *)
Definition sql_truthy_int (a : option Z) : option bool := option_map (fun z => negb (z =? 0)%Z) a.
Definition sql_between_int (x lo hi : option Z) : option bool :=
  sql_and (sql_cmp_int Cge x lo) (sql_cmp_int Cle x hi).
Fixpoint sql_in_int (x : option Z) (l : list (option Z)) : option bool :=
  match l with
  | [] => Some false
  | y :: t => sql_or (sql_cmp_int Ceq x y) (sql_in_int x t)
  end.
Fixpoint sql_in_text (x : option string) (l : list (option string)) : option bool :=
  match l with
  | [] => Some false
  | y :: t => sql_or (sql_cmp_text Ceq x y) (sql_in_text x t)
  end.
(* a row is selected iff the WHERE expression is true (not false, not NULL) *)
Definition sql_true (a : option bool) : bool := match a with Some true => true | _ => false end.

(* database/sql refuses a uint64 argument with the high bit set *)
Definition two63 : N := 9223372036854775808%N.
Definition u64_bindable (n : N) : bool := (n <? two63)%N.
