(* Actions/Funding.v — the funding step of Manager.ProcessActions (host/contracts/update.go)
   over the host wallet (coreutils wallet.SingleAddressWallet: selectUTXOs, FundTransaction,
   FundV2Transaction, ReleaseInputs), and the life of several v2 contracts that share it.

   Liveness.v / Liveness2.v follow ONE contract and take "the host broadcast a proof at this
   tip" to be "the proof was selected and could be built": the clause "every selected action
   reaches the pool" was an assumption about the wallet and the pool.  This file models the
   step that was assumed:

     - the wallet is the list of its spendable outputs (mature, not reserved, not spent by a
       pool transaction), each confirmed (an element of the wallet store) or unconfirmed
       (created by a transaction that is still in the pool);
     - [fund]: selectUTXOs — confirmed outputs, largest first, until the amount is covered;
       only with useUnconfirmed the unconfirmed ones, largest first; an error (nothing is
       reserved) if the amount is not covered; the defragmentation of wallet.go:320-338;
       the inputs are reserved, the change is a new unconfirmed output;
     - [pass]: the action loops of ProcessActions in source order.  The v1 revision and proof
       fund with useUnconfirmed = true and release their inputs when the pool refuses the
       set; the v2 revision, proof and expiration fund with useUnconfirmed = false
       ("// TODO: true", update.go:345,391,421 — the switch [todo] of the model: the flag
       applied AND the set completed by its unconfirmed parents, without which the pool refuses
       a transaction that spends an unconfirmed output, tools/wp/U-repair-evaluated.diff), and
       of the three only the expiration releases its inputs on a refusal;
     - [fblock]: one block of a fair miner (every pool transaction is mined: the resolutions
       resolve their contracts through the row updates of Liveness2.v, every unconfirmed
       output becomes confirmed), then ProcessActions at the new tip: the selection is
       Model.process_actions over the generated predicates, the selected v2 actions go
       through [pass].

   Outside the model: reservations end (3 h in hostd, cmd/hostd/run.go:330; an output reserved
   by a refused set is gone for the horizon of a run); immature outputs (they are not in
   the list until they mature: a payout matures MaturityDelay = 144 blocks after the
   resolution, the length of an RHP4 proof window); Currency overflow of the input sum
   (bounded by the supply).  No proofs here. *)
From Coq Require Import Lia.
From HostdBase Require Import Base.
From HostdActions Require Import Rows SqlSem Queries Model Proofs Liveness2.

(** * The wallet *)
Record utxo := { u_value : N; u_conf : bool }.
Definition wallet := list utxo.

(* wallet.config: DefragThreshold, MaxInputsForDefrag, MaxDefragUTXOs (30, 30, 10 by default;
   hostd changes the reservation time only) *)
Record wcfg := { g_threshold : nat; g_max_inputs : nat; g_max_defrag : nat }.
Definition default_cfg : wcfg := {| g_threshold := 30; g_max_inputs := 30; g_max_defrag := 10 |}.

(* sort.Slice(..., Value.Cmp > 0): descending by value (the order among equal values is not
   observable: only values are) *)
Fixpoint insert_desc (u : utxo) (l : list utxo) : list utxo :=
  match l with
  | [] => [u]
  | x :: r => if (u_value x <? u_value u)%N then u :: l else x :: insert_desc u r
  end.
Definition sort_desc (l : list utxo) : list utxo := fold_right insert_desc [] l.

Definition is_conf (u : utxo) : bool := u_conf u.
Definition is_unconf (u : utxo) : bool := negb (u_conf u).
Definition confirmed (w : wallet) : list utxo := sort_desc (filter is_conf w).
Definition unconfirmed (w : wallet) : list utxo := sort_desc (filter is_unconf w).
Definition nconf (w : wallet) : nat := List.length (filter is_conf w).
Definition sum_values (l : list utxo) : N := fold_right (fun u a => (u_value u + a)%N) 0%N l.

(* for i, sce := range utxos { if inputSum >= amount { utxos = utxos[i:]; break }; select sce }
   — [None] as the rest: the loop ran off the end and [utxos] keeps its full value *)
Fixpoint take_conf (amt acc : N) (l : list utxo) : list utxo * option (list utxo) * N :=
  match l with
  | [] => ([], None, acc)
  | u :: r => if (amt <=? acc)%N then ([], Some l, acc)
              else let '(s, rest, sum) := take_conf amt (acc + u_value u) r in (u :: s, rest, sum)
  end.

(* for _, sce := range unconfirmedUTXOs { select sce; if inputSum >= amount { break } } *)
Fixpoint take_unconf (amt acc : N) (l : list utxo) : list utxo * list utxo * N :=
  match l with
  | [] => ([], [], acc)
  | u :: r => let acc' := (acc + u_value u)%N in
              if (amt <=? acc')%N then ([u], r, acc')
              else let '(s, rest, sum) := take_unconf amt acc' r in (u :: s, rest, sum)
  end.

Definition lastn {A} (n : nat) (l : list A) : list A := skipn (List.length l - n) l.

(* wallet.go:320-338: the smallest remaining outputs are added while the transaction has
   fewer than MaxInputsForDefrag inputs *)
Definition defrag (g : wcfg) (inputs : nat) (rest : list utxo) : list utxo :=
  if (g_threshold g <? List.length rest)%nat && (inputs <? g_max_inputs g)%nat
  then let d := if (g_max_defrag g <? List.length rest)%nat then lastn (g_max_defrag g) rest else rest in
       firstn (g_max_inputs g - inputs) (rev d)
  else [].

Record funded := { fd_inputs : list utxo; fd_change : option utxo; fd_wallet : wallet }.

(* FundTransaction / FundV2Transaction(txn, amt, uu) on a transaction that has [inputs] inputs:
   [None] = ErrNotEnoughFunds, nothing reserved.  [fd_wallet] is what stays spendable while
   the inputs are reserved; the change output exists once the pool holds the transaction. *)
Definition fund (g : wcfg) (uu : bool) (inputs : nat) (amt : N) (w : wallet) : option funded :=
  if (amt =? 0)%N then Some {| fd_inputs := []; fd_change := None; fd_wallet := w |} else
  let cs := confirmed w in
  let us := unconfirmed w in
  let '(sel, rest, sum) := take_conf amt 0 cs in
  let '(usel, urest, sum2) :=
    if (sum <? amt)%N && uu then take_unconf amt sum us else ([], us, sum) in
  if (sum2 <? amt)%N then None else
  let restl := match rest with Some r => r | None => cs end in
  let extra := defrag g (inputs + List.length sel + List.length usel) restl in
  let remaining := match rest with
                   | Some r => firstn (List.length r - List.length extra) r
                   | None => []
                   end in
  let total := (sum2 + sum_values extra)%N in
  Some {| fd_inputs := sel ++ usel ++ extra;
          fd_change := if (amt <? total)%N then Some {| u_value := total - amt; u_conf := false |} else None;
          fd_wallet := remaining ++ urest |}.

Definition with_change (f : funded) : wallet :=
  fd_wallet f ++ match fd_change f with Some c => [c] | None => [] end.

(** * One pass of ProcessActions *)
Inductive akind := KRev1 | KProof1 | KRev2 | KProof2 | KExp2.
Definition akind_eqb (a b : akind) : bool :=
  match a, b with
  | KRev1, KRev1 | KProof1, KProof1 | KRev2, KRev2 | KProof2, KProof2 | KExp2, KExp2 => true
  | _, _ => false
  end.

(* a_fee: RecommendedFee x 1000 (revisions, expiration) or x 2000 (proofs), read when the
   action is built; a_pool_ok: AddPoolTransactions / AddV2PoolTransactions accepts the set *)
Record action := { a_kind : akind; a_id : N; a_fee : N; a_pool_ok : bool }.

Definition is_v2 (k : akind) : bool := match k with KRev1 | KProof1 => false | _ => true end.
(* the third argument of Fund(V2)Transaction; [todo] = the TODO of update.go applied *)
Definition k_uu (todo : bool) (k : akind) : bool := if is_v2 k then todo else true.
(* does the refusal path call wallet.ReleaseInputs? (update.go:259,308,445 do; :353-355,404-406 do not) *)
Definition k_release (k : akind) : bool := match k with KRev2 | KProof2 => false | _ => true end.

(* every loop body: fund (continue on error), sign, add to the pool (continue on error, after
   releasing the inputs where the code does), broadcast.  The flag says whether the action
   reached the pool. *)
Fixpoint pass (g : wcfg) (todo : bool) (w : wallet) (acts : list action) : wallet * list bool :=
  match acts with
  | [] => (w, [])
  | a :: r =>
      match fund g (k_uu todo (a_kind a)) 0 (a_fee a) w with
      | None => let '(w', fl) := pass g todo w r in (w', false :: fl)
      | Some f =>
          let w1 := if a_pool_ok a then with_change f
                    else if k_release (a_kind a) then w else fd_wallet f in
          let '(w', fl) := pass g todo w1 r in (w', a_pool_ok a :: fl)
      end
  end.

Fixpoint count_true (l : list bool) : nat :=
  match l with [] => 0 | b :: r => (if b then 1 else 0) + count_true r end.

(* how many v2 actions reached the pool *)
Fixpoint reached2 (acts : list action) (fl : list bool) : nat :=
  match acts, fl with
  | a :: r, b :: t => (if is_v2 (a_kind a) && b then 1 else 0) + reached2 r t
  | _, _ => 0
  end.

(** * ProcessActions with the wallet: what reaches the pool *)
(* fees of one pass: per contract id where the harness could read them off the pool, a
   default otherwise *)
Record fees := { fe_rev : N; fe_proof : N; fe_exp : N }.

Definition mk_actions (k : akind) (fee : N) (ok : N -> bool) (ids : list N) : list action :=
  map (fun id => {| a_kind := k; a_id := id; a_fee := fee; a_pool_ok := ok id |}) ids.

(* the v2 loops of ProcessActions in source order: revisions, proofs, expirations *)
Definition v2_actions (fe : fees) (rev_ok : N -> bool) (a : actions) : list action :=
  mk_actions KRev2 (fe_rev fe) rev_ok (aRevision2 a)
  ++ mk_actions KProof2 (fe_proof fe) (fun _ => true) (aProof2 a)
  ++ mk_actions KExp2 (fe_exp fe) (fun _ => true) (aExpire2 a).

Fixpoint keep {A} (l : list A) (fl : list bool) : list A :=
  match l, fl with
  | x :: r, b :: t => if b then x :: keep r t else keep r t
  | _, _ => []
  end.

(* Manager.ProcessActions with its wallet: the selected v2 actions that reach the pool, and
   the wallet afterwards.  [Model.process_actions] is this with every flag true. *)
Definition process_actions_funded (g : wcfg) (todo : bool) (fe : fees) (rev_ok : N -> bool)
    (w : wallet) (s : store) (buf h : N) : res (wallet * list action) :=
  do a <- process_actions s buf h;
  let acts := v2_actions fe rev_ok a in
  let '(w', fl) := pass g todo w acts in
  Ok (w', keep acts fl).

(** * Several v2 contracts over one wallet, block by block (fair miner, no reorg) *)
Record fparams := { fp_cfg : wcfg; fp_todo : bool; fp_buf : N }.

(* what a pool transaction does to a contract when it is mined *)
Inductive pkind := PRev (n : N) | PProof | PExp.
Record fworld := {
  fw_tip : N;
  fw_wallet : wallet;
  fw_rows : list (v2row * bool);      (* row, and: the host output exceeds the missed host value *)
  fw_pool : list (N * pkind)
}.

Definition pool_has (pool : list (N * pkind)) (id : N) (f : pkind -> bool) : bool :=
  existsb (fun e => (fst e =? id)%N && f (snd e)) pool.
Definition is_pproof (k : pkind) : bool := match k with PProof => true | _ => false end.
Definition is_pexp (k : pkind) : bool := match k with PExp => true | _ => false end.
Fixpoint pool_rev (pool : list (N * pkind)) (id : N) : option N :=
  match pool with
  | [] => None
  | (i, PRev n) :: r => if (i =? id)%N then Some n else pool_rev r id
  | _ :: r => pool_rev r id
  end.

(* the block at height H holds every pool transaction: ApplyContracts' v2 half for one row
   (Liveness2.apply_block2 without formation/renewal) *)
Definition mine_row (H : N) (pool : list (N * pkind)) (cb : v2row * bool) : res (v2row * bool) :=
  let '(c, benefit) := cb in
  let id := c2_contract_id c in
  let c1 := match pool_rev pool id with Some n => apply_rev2 n c | None => c end in
  let expired := pool_has pool id is_pexp in
  do c2 <- when2 (pool_has pool id is_pproof || (expired && negb benefit)) (apply_success2 H Successful2) c1;
  do c3 <- when2 (expired && benefit) (apply_failed2 H) c2;
  Ok (c3, benefit).

Fixpoint map_res {A B} (f : A -> res B) (l : list A) : res (list B) :=
  match l with
  | [] => Ok []
  | x :: r => do y <- f x; do t <- map_res f r; Ok (y :: t)
  end.

Definition confirm_all (w : wallet) : wallet := map (fun u => {| u_value := u_value u; u_conf := true |}) w.

Definition row_of_id (rows : list (v2row * bool)) (id : N) : option v2row :=
  option_map fst (find (fun cb => (c2_contract_id (fst cb) =? id)%N) rows).

(* consensus, validation.go:767: a revision is refused once the child height is past the proof
   height; proofs (child height >= proof height) and expirations (child height > expiration
   height) are valid whenever the host selects them *)
Definition rev_pool_ok (rows : list (v2row * bool)) (H : N) (id : N) : bool :=
  match row_of_id rows id with
  | Some c => (H <? c2_proof_height c)%N
  | None => false
  end.

Definition pool_entry (rows : list (v2row * bool)) (a : action) : N * pkind :=
  (a_id a, match a_kind a with
           | KRev2 | KRev1 => PRev (match row_of_id rows (a_id a) with Some c => c2_revision_number c | None => 0%N end)
           | KProof2 | KProof1 => PProof
           | KExp2 => PExp
           end).

(* another user of the wallet funds a transaction that the pool accepts (the host's
   announcement: settings.Announce, useUnconfirmed = true, after the contract actions of the
   same tip; the formation of a contract) *)
Definition spend (g : wcfg) (uu : bool) (amt : N) (w : wallet) : option wallet :=
  option_map with_change (fund g uu 0 amt w).

(* one block and the pass at its tip; [fe] as read at that tip *)
Definition fblock (fp : fparams) (fe : fees) (w : fworld) : res fworld :=
  let H := (fw_tip w + 1)%N in
  do rows <- map_res (mine_row H (fw_pool w)) (fw_rows w);
  let wal := confirm_all (fw_wallet w) in
  do r <- process_actions_funded (fp_cfg fp) (fp_todo fp) fe (rev_pool_ok rows H) wal
            {| v1s := []; v2s := map fst rows |} (fp_buf fp) H;
  let '(wal', reached) := r in
  Ok {| fw_tip := H; fw_wallet := wal'; fw_rows := rows; fw_pool := map (pool_entry rows) reached |}.

Fixpoint fblocks (fp : fparams) (fe : fees) (n : nat) (w : fworld) : res fworld :=
  match n with
  | O => Ok w
  | S m => do w' <- fblock fp fe w; fblocks fp fe m w'
  end.

(** * The scenario of the finding: n contracts with data, one shared proof window *)
(* a confirmed, active contract whose latest revision is on chain *)
Definition shared_row (ph eh : N) (i : nat) : v2row * bool :=
  ({| c2_contract_id := N.of_nat i; c2_confirmation_index := Some 1%N; c2_resolution_index := None;
      c2_contract_status := Active2; c2_revision_number := 1; c2_negotiation_height := 0;
      c2_proof_height := ph; c2_expiration_height := eh;
      c2_elem := Some {| e2_revision_number := 1 |} |}, true).

Definition rich_wallet (k : nat) (v : N) : wallet := repeat {| u_value := v; u_conf := true |} k.

(* tip at the block before the window opens; k outputs of value v *)
Definition shared_world (n : nat) (ph eh : N) (k : nat) (v : N) : fworld :=
  {| fw_tip := ph - 1; fw_wallet := rich_wallet k v;
     fw_rows := map (shared_row ph eh) (seq 0 n); fw_pool := [] |}.

Definition status_of (w : fworld) : list st2 := map (fun cb => c2_contract_status (fst cb)) (fw_rows w).
Definition count_status (s : st2) (w : fworld) : nat :=
  List.length (filter (fun x => st2_eqb x s) (status_of w)).

(** * Correspondence *)
Inductive fop :=
| FInit (g : wcfg) (todo : bool) (buf tip : N) (outs : list N)
| FForm (id neg ph eh : N) (benefit : bool)      (* a formed contract, confirmed by the next block *)
| FRevise (id n : N)                             (* ReviseV2Contract: the stored revision number *)
| FRenterRev (id n : N)                          (* the renter puts revision n into the pool *)
| FSpend (uu : bool) (amt : N)                   (* somebody else funds a pool transaction *)
| FBlock (fe : fees) (ann : option N).           (* a block, the pass, then the announcement if any *)

Inductive fobs :=
| FONone
| FOCrashed
| FOState (confirmed_values : list N)            (* spendable confirmed outputs, descending *)
          (pool : list (N * N))                  (* (contract, 0 revision / 1 proof / 2 expiration), by id *)
          (statuses : list (N * st2)).           (* by id *)

Definition fstate := option (fparams * fworld).

Definition pk_code (k : pkind) : N := match k with PRev _ => 0 | PProof => 1 | PExp => 2 end%N.

Fixpoint insert_pair (x : N * N) (l : list (N * N)) : list (N * N) :=
  match l with
  | [] => [x]
  | y :: r => if ((fst x <? fst y) || ((fst x =? fst y) && (snd x <=? snd y)))%N then x :: l else y :: insert_pair x r
  end.
Definition sort_pairs (l : list (N * N)) : list (N * N) := fold_right insert_pair [] l.

Definition fobserve (w : fworld) : fobs :=
  FOState (map u_value (confirmed (fw_wallet w)))
          (sort_pairs (map (fun e => (fst e, pk_code (snd e))) (fw_pool w)))
          (map (fun cb => (c2_contract_id (fst cb), c2_contract_status (fst cb))) (fw_rows w)).

Definition set_row (f : v2row -> v2row) (id : N) (rows : list (v2row * bool)) : list (v2row * bool) :=
  map (fun cb => if (c2_contract_id (fst cb) =? id)%N then (f (fst cb), snd cb) else cb) rows.

Definition set_revnum (n : N) (c : v2row) : v2row :=
  {| c2_contract_id := c2_contract_id c; c2_confirmation_index := c2_confirmation_index c;
     c2_resolution_index := c2_resolution_index c; c2_contract_status := c2_contract_status c;
     c2_revision_number := n; c2_negotiation_height := c2_negotiation_height c;
     c2_proof_height := c2_proof_height c; c2_expiration_height := c2_expiration_height c;
     c2_elem := c2_elem c |}.

Definition fstep (s : fstate) (o : fop) : fstate * fobs :=
  match o, s with
  | FInit g todo buf tip outs, _ =>
      let w := {| fw_tip := tip; fw_wallet := map (fun v => {| u_value := v; u_conf := true |}) outs;
                  fw_rows := []; fw_pool := [] |} in
      (Some ({| fp_cfg := g; fp_todo := todo; fp_buf := buf |}, w), fobserve w)
  | FForm id neg ph eh benefit, Some (fp, w) =>
      (* recorded once its formation is confirmed at the current tip: the row the store holds then *)
      let c := {| c2_contract_id := id; c2_confirmation_index := Some (fw_tip w); c2_resolution_index := None;
                  c2_contract_status := Active2; c2_revision_number := 0; c2_negotiation_height := neg;
                  c2_proof_height := ph; c2_expiration_height := eh;
                  c2_elem := Some {| e2_revision_number := 0 |} |} in
      let w' := {| fw_tip := fw_tip w; fw_wallet := fw_wallet w; fw_rows := fw_rows w ++ [(c, benefit)];
                   fw_pool := fw_pool w |} in
      (Some (fp, w'), fobserve w')
  | FRevise id n, Some (fp, w) =>
      let w' := {| fw_tip := fw_tip w; fw_wallet := fw_wallet w; fw_rows := set_row (set_revnum n) id (fw_rows w);
                   fw_pool := fw_pool w |} in
      (Some (fp, w'), fobserve w')
  | FRenterRev id n, Some (fp, w) =>
      let w' := {| fw_tip := fw_tip w; fw_wallet := fw_wallet w; fw_rows := fw_rows w;
                   fw_pool := fw_pool w ++ [(id, PRev n)] |} in
      (Some (fp, w'), fobserve w')
  | FSpend uu amt, Some (fp, w) =>
      match spend (fp_cfg fp) uu amt (fw_wallet w) with
      | Some wal => let w' := {| fw_tip := fw_tip w; fw_wallet := wal; fw_rows := fw_rows w; fw_pool := fw_pool w |} in
                    (Some (fp, w'), fobserve w')
      | None => (None, FOCrashed)
      end
  | FBlock fe ann, Some (fp, w) =>
      match fblock fp fe w with
      | Ok w1 =>
          let wal := match ann with
                     | Some fee => match spend (fp_cfg fp) true fee (fw_wallet w1) with Some x => x | None => fw_wallet w1 end
                     | None => fw_wallet w1
                     end in
          let w' := {| fw_tip := fw_tip w1; fw_wallet := wal; fw_rows := fw_rows w1; fw_pool := fw_pool w1 |} in
          (Some (fp, w'), fobserve w')
      | _ => (None, FOCrashed)
      end
  | _, None => (None, FOCrashed)
  end.

Definition pairs_eqb (a b : list (N * N)) : bool :=
  list_eqb (fun x y => (fst x =? fst y)%N && (snd x =? snd y)%N) a b.

Definition fobs_eqb (model seen : fobs) : bool :=
  match seen, model with
  | FONone, _ => true
  | FOCrashed, FOCrashed => true
  | FOState v p s, FOState v' p' s' =>
      list_eqb N.eqb v v' && pairs_eqb p p'
      && list_eqb (fun x y => (fst x =? fst y)%N && st2_eqb (snd x) (snd y)) s s'
  | _, _ => false
  end.

Definition fcase := (N * list (fop * fobs))%type.
Definition fcheck (cs : list fcase) := mismatches (None : fstate) fstep fobs_eqb cs.
