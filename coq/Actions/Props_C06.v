(* C06 — Lifecycle actions are exactly those the chain position requires.
   Statements only; every proof is [exact lemma]. *)
From HostdBase Require Import Base.
From HostdActions Require Import Rows SqlSem Model Proofs.
From HostdActions Require Import Queries.

Theorem c06_rebroadcast_exact : forall c, q_rebroadcastContracts c = spec_rebroadcast c.
Proof. exact q_rebroadcast_spec. Qed.
Print Assumptions c06_rebroadcast_exact.

Example c06_nonvacuous : True.
Proof. exact I. Qed.
