(* Actions/Liveness2.v — the "consequently" sentence of C06 for a v2 contract; same
   construction as Liveness.v.  Differences of the v2 lifecycle that matter:
     - the row carries a confirmation index, a resolution index and a state element
       (inserted by applyV2ContractFormation, deleted by revertV2ContractFormation);
     - resolutions are transactions: storage proof (successful), renewal (renewed),
       expiration (successful if the missed host value is not below the host output,
       failed otherwise); nothing expires by itself;
     - ProcessActions does not weigh the payouts: it broadcasts a proof iff the generated
       predicate q_proofV2Contracts holds and the proof can be built (data held).
   Hypotheses on the schedule ([env_ok2]): consensus (one formation, not after the proof
   height; a resolution only for a formed, unresolved contract, at most one per block; an
   expiration only after the expiration height); fairness (no expiration is mined on a
   branch on which the host broadcast a proof while processing a tip of that branch, and
   such a contract is resolved — by the proof or a renewal — at the latest in the block at the
   expiration height); the host processes every block; the formation block is never
   reverted.  The resolution reverts follow /repo commit 694d73f. *)
From Coq Require Import Lia ZifyBool ZifyN ZifyNat.
From HostdBase Require Import Base.
From HostdActions Require Import Rows SqlSem Queries Model Proofs.

Record params2 := {
  q_ph : N; q_eh : N; q_neg : N; q_rev0 : N;
  q_rb : N;
  q_benefit : bool;    (* host output exceeds the missed host value: an expiration means failed *)
  q_held : bool
}.

Record blk2 := { d_form : option N (* revision number confirmed with the formation *);
                 d_rev : option N; d_proof : bool; d_renew : bool; d_expire : bool }.

Definition tip2 (ch : list blk2) : N := N.of_nat (List.length ch).
Definition is_form (b : blk2) : bool := match d_form b with Some _ => true | None => false end.
Definition formed2 (ch : list blk2) : bool := existsb is_form ch.
Definition proof2 (ch : list blk2) : bool := existsb d_proof ch.
Definition renew2 (ch : list blk2) : bool := existsb d_renew ch.
Definition expire2 (ch : list blk2) : bool := existsb d_expire ch.
Definition resolved2 (ch : list blk2) : bool := proof2 ch || renew2 ch || expire2 ch.

(* the revision number of the state element, if the contract is on chain *)
Fixpoint elem_rev (ch : list blk2) : option N :=
  match ch with
  | [] => None
  | b :: r => match d_rev b with
              | Some n => if formed2 ch then Some n else None
              | None => match d_form b with Some n => Some n | None => elem_rev r end
              end
  end.

Definition upd2 (c : v2row) (conf res : option N) (s : st2) (e : option erow) : v2row :=
  {| c2_contract_id := c2_contract_id c; c2_confirmation_index := conf; c2_resolution_index := res;
     c2_contract_status := s; c2_revision_number := c2_revision_number c;
     c2_negotiation_height := c2_negotiation_height c; c2_proof_height := c2_proof_height c;
     c2_expiration_height := c2_expiration_height c; c2_elem := e |}.

(* applyV2ContractFormation: the element is upserted in any case; pending/rejected -> active *)
Definition apply_form2 (H n : N) (c : v2row) : res v2row :=
  let e := Some {| e2_revision_number := n |} in
  match c2_contract_status c with
  | Pending2 | Rejected2 => Ok (upd2 c (Some H) (c2_resolution_index c) Active2 e)
  | s => Ok (upd2 c (c2_confirmation_index c) (c2_resolution_index c) s e)
  end.
(* applyV2ContractRevision: UPDATE of the element row, if there is one *)
Definition apply_rev2 (n : N) (c : v2row) : v2row :=
  match c2_elem c with
  | Some _ => upd2 c (c2_confirmation_index c) (c2_resolution_index c) (c2_contract_status c)
                   (Some {| e2_revision_number := n |})
  | None => c
  end.
(* applySuccessfulV2Contracts with status s (successful or renewed) *)
Definition apply_success2 (H : N) (s : st2) (c : v2row) : res v2row :=
  if st2_eqb (c2_contract_status c) s then Ok c
  else match c2_contract_status c with
       | Active2 => Ok (upd2 c (c2_confirmation_index c) (Some H) s (c2_elem c))
       | _ => Panic
       end.
Definition apply_failed2 (H : N) (c : v2row) : res v2row :=
  match c2_contract_status c with
  | Failed2 => Ok c
  | Active2 => Ok (upd2 c (c2_confirmation_index c) (Some H) Failed2 (c2_elem c))
  | _ => Panic
  end.
(* revertV2ContractFormation: the element is deleted before the status check *)
Definition revert_form2 (c : v2row) : res v2row :=
  match c2_contract_status c with
  | Active2 => Ok (upd2 c None (c2_resolution_index c) Pending2 None)
  | _ => Panic
  end.
Definition revert_success2 (s : st2) (c : v2row) : res v2row :=
  if st2_eqb (c2_contract_status c) s
  then Ok (upd2 c (c2_confirmation_index c) None Active2 (c2_elem c)) else Panic.
Definition revert_failed2 (c : v2row) : res v2row :=
  match c2_contract_status c with
  | Failed2 => Ok (upd2 c (c2_confirmation_index c) None Active2 (c2_elem c))
  | _ => Panic
  end.
Definition reject2 (bound : N) (c : v2row) : res v2row :=
  if negb (st2_eqb (c2_contract_status c) Rejected2) && negb (is_some (c2_confirmation_index c))
     && (c2_negotiation_height c <? bound)%N
  then match c2_contract_status c with
       | Pending2 => Ok (upd2 c (c2_confirmation_index c) (c2_resolution_index c) Rejected2 (c2_elem c))
       | _ => Panic
       end
  else Ok c.

Definition when2 {A} (b : bool) (f : A -> res A) (a : A) : res A := if b then f a else Ok a.

(* one applied block at height H: ApplyContracts' v2 half in statement order (formation,
   revision, successful, renewed, failed), then RejectContracts *)
Definition apply_block2 (p : params2) (H : N) (b : blk2) (c : v2row) : res v2row :=
  do c1 <- match d_form b with Some n => apply_form2 H n c | None => Ok c end;
  do c2 <- Ok (match d_rev b with Some n => apply_rev2 n c1 | None => c1 end);
  do c3 <- when2 (d_proof b || (d_expire b && negb (q_benefit p))) (apply_success2 H Successful2) c2;
  do c4 <- when2 (d_renew b) (apply_success2 H Renewed2) c3;
  do c5 <- when2 (d_expire b && q_benefit p) (apply_failed2 H) c4;
  if (q_rb p <=? H)%N then reject2 (H - q_rb p) c5 else Ok c5.

(* one reverted block (never the formation block); [prev] = element revision before it *)
Definition revert_block2 (p : params2) (b : blk2) (prev : option N) (c : v2row) : res v2row :=
  do c2 <- Ok (match d_rev b, prev with Some _, Some n => apply_rev2 n c | _, _ => c end);
  do c3 <- when2 (d_proof b || (d_expire b && negb (q_benefit p))) (revert_success2 Successful2) c2;
  do c4 <- when2 (d_renew b) (revert_success2 Renewed2) c3;
  when2 (d_expire b && q_benefit p) revert_failed2 c4.

Definition host_broadcasts2 (p : params2) (c : v2row) (h : N) : bool :=
  q_proofV2Contracts c h && q_held p.

Record world2 := { chain2 : list blk2; row2 : res v2row; sent2 : list bool }.

Definition init_row2 (p : params2) : v2row :=
  {| c2_contract_id := 0; c2_confirmation_index := None; c2_resolution_index := None;
     c2_contract_status := Pending2; c2_revision_number := q_rev0 p;
     c2_negotiation_height := q_neg p; c2_proof_height := q_ph p;
     c2_expiration_height := q_eh p; c2_elem := None |}.
Definition init_world2 (p : params2) : world2 := {| chain2 := []; row2 := Ok (init_row2 p); sent2 := [] |}.

Inductive estep2 := Mine2 (b : blk2) | Revert2.

Definition env_ok2 (p : params2) (w : world2) (b : blk2) : bool :=
  let ch := chain2 w in
  let H := (tip2 ch + 1)%N in
  let open := formed2 ch && negb (resolved2 ch) in
  let bc := existsb (fun x => x) (sent2 w) in
  (* consensus *)
  implb (is_form b) (negb (formed2 ch) && (H <=? q_ph p)%N && negb (d_proof b || d_renew b || d_expire b)
                     && negb (is_some (d_rev b))) &&
  implb (d_proof b) (open && negb (d_renew b) && negb (d_expire b)) &&
  implb (d_renew b) (open && negb (d_expire b)) &&
  implb (d_expire b) (open && (q_eh p <? H)%N) &&
  implb (is_some (d_rev b)) (formed2 ch) &&
  (* fairness *)
  implb (d_expire b) (negb bc) &&
  implb ((H =? q_eh p)%N && open && bc) (d_proof b || d_renew b).

Definition step2 (p : params2) (w : world2) (e : estep2) : option world2 :=
  match e with
  | Mine2 b =>
      if negb (env_ok2 p w b) then None
      else let H := (tip2 (chain2 w) + 1)%N in
           let r := bind (row2 w) (apply_block2 p H b) in
           Some {| chain2 := b :: chain2 w; row2 := r;
                   sent2 := match r with Ok c => host_broadcasts2 p c H | _ => false end :: sent2 w |}
  | Revert2 =>
      match chain2 w, sent2 w with
      | b :: rest, _ :: srest =>
          if is_form b then None
          else let r := bind (row2 w) (revert_block2 p b (elem_rev rest)) in
               Some {| chain2 := rest; row2 := r;
                       sent2 := match srest with
                                | s :: t => (s || match r with Ok c => host_broadcasts2 p c (tip2 rest) | _ => false end) :: t
                                | [] => []
                                end |}
      | _, _ => None
      end
  end.

Fixpoint run2 (p : params2) (w : world2) (tr : list estep2) : option world2 :=
  match tr with
  | [] => Some w
  | e :: t => match step2 p w e with Some w' => run2 p w' t | None => None end
  end.

(** * Chain-determined view *)
Definition would_broadcast2 (p : params2) (ch : list blk2) : bool :=
  formed2 ch && negb (resolved2 ch) && (q_ph p <=? tip2 ch)%N && (tip2 ch <? q_eh p)%N && q_held p.

Fixpoint sent_of2 (p : params2) (ch : list blk2) : list bool :=
  match ch with
  | [] => []
  | b :: r => would_broadcast2 p ch :: sent_of2 p r
  end.

Definition row_matches2 (p : params2) (ch : list blk2) (c : v2row) : Prop :=
  is_some (c2_confirmation_index c) = formed2 ch /\
  c2_elem c = option_map (fun n => {| e2_revision_number := n |}) (elem_rev ch) /\
  is_some (elem_rev ch) = formed2 ch /\
  c2_proof_height c = q_ph p /\ c2_expiration_height c = q_eh p /\ c2_negotiation_height c = q_neg p /\
  (formed2 ch = false ->
     (c2_contract_status c = Pending2 \/ c2_contract_status c = Rejected2) /\ c2_resolution_index c = None) /\
  (formed2 ch = true -> resolved2 ch = false ->
     c2_contract_status c = Active2 /\ c2_resolution_index c = None) /\
  (formed2 ch = true -> proof2 ch = true ->
     c2_contract_status c = Successful2 /\ is_some (c2_resolution_index c) = true) /\
  (formed2 ch = true -> renew2 ch = true ->
     c2_contract_status c = Renewed2 /\ is_some (c2_resolution_index c) = true) /\
  (formed2 ch = true -> expire2 ch = true ->
     (if q_benefit p then c2_contract_status c = Failed2 else c2_contract_status c = Successful2)
     /\ is_some (c2_resolution_index c) = true).

Fixpoint chain_ok2 (p : params2) (ch : list blk2) : Prop :=
  match ch with
  | [] => True
  | b :: r =>
      chain_ok2 p r /\
      (is_form b = true -> formed2 r = false /\ (tip2 ch <= q_ph p)%N /\ d_proof b = false /\ d_renew b = false
                           /\ d_expire b = false /\ d_rev b = None) /\
      (d_proof b = true -> formed2 r = true /\ resolved2 r = false /\ d_renew b = false /\ d_expire b = false) /\
      (d_renew b = true -> formed2 r = true /\ resolved2 r = false /\ d_expire b = false) /\
      (d_expire b = true -> formed2 r = true /\ resolved2 r = false /\ (q_eh p < tip2 ch)%N
                            /\ existsb (fun x => x) (sent_of2 p r) = false) /\
      (is_some (d_rev b) = true -> formed2 r = true) /\
      (tip2 ch = q_eh p -> formed2 r = true -> resolved2 r = false ->
       existsb (fun x => x) (sent_of2 p r) = true -> d_proof b = true \/ d_renew b = true)
  end.

Lemma tip2_cons : forall b r, tip2 (b :: r) = (tip2 r + 1)%N.
Proof. intros. unfold tip2. cbn [List.length]. lia. Qed.
Lemma formed2_cons : forall b r, formed2 (b :: r) = is_form b || formed2 r.
Proof. reflexivity. Qed.
Lemma proof2_cons : forall b r, proof2 (b :: r) = d_proof b || proof2 r.
Proof. reflexivity. Qed.
Lemma renew2_cons : forall b r, renew2 (b :: r) = d_renew b || renew2 r.
Proof. reflexivity. Qed.
Lemma expire2_cons : forall b r, expire2 (b :: r) = d_expire b || expire2 r.
Proof. reflexivity. Qed.
Lemma resolved2_cons : forall b r, resolved2 (b :: r) = d_proof b || d_renew b || d_expire b || resolved2 r.
Proof.
  intros. unfold resolved2. rewrite proof2_cons, renew2_cons, expire2_cons.
  destruct (d_proof b), (d_renew b), (d_expire b), (proof2 r), (renew2 r); reflexivity.
Qed.

Lemma sent_of2_open : forall p ch,
  q_held p = true -> formed2 ch = true -> resolved2 ch = false ->
  (q_ph p <= tip2 ch)%N -> (tip2 ch < q_eh p)%N ->
  existsb (fun x => x) (sent_of2 p ch) = true.
Proof.
  intros p ch Hh Hf Hr Hws Hwe. destruct ch as [|b r]; [discriminate Hf|].
  cbn [sent_of2 existsb]. unfold would_broadcast2. rewrite Hf, Hr, Hh.
  replace (q_ph p <=? tip2 (b :: r))%N with true by lia.
  replace (tip2 (b :: r) <? q_eh p)%N with true by lia. reflexivity.
Qed.

(* the formation is at a height <= proof height *)
Lemma formed2_tip : forall p ch, chain_ok2 p ch -> formed2 ch = true -> True.
Proof. trivial. Qed.

(* with the data held: from the expiration height on, a formed contract is resolved *)
Lemma resolved2_after : forall p ch,
  (q_ph p < q_eh p)%N -> q_held p = true -> chain_ok2 p ch ->
  formed2 ch = true -> (q_eh p <= tip2 ch)%N -> resolved2 ch = true.
Proof.
  intros p ch Hw Hh. induction ch as [|b r IH]; intros Hok Hf Ht; [discriminate Hf|].
  cbn [chain_ok2] in Hok. destruct Hok as [Hr [Hform [_ [_ [_ [_ Hdead]]]]]].
  rewrite resolved2_cons. rewrite formed2_cons in Hf. rewrite tip2_cons in *.
  destruct (is_form b) eqn:Ef.
  - destruct (Hform eq_refl) as [_ [Hle _]]. lia.
  - cbn [orb] in Hf. destruct (resolved2 r) eqn:Er; [apply orb_true_r|].
    destruct (N.eq_dec (tip2 r + 1) (q_eh p)) as [Heq|Hne].
    + assert (Hs : existsb (fun x => x) (sent_of2 p r) = true) by (apply sent_of2_open; try assumption; lia).
      destruct (Hdead Heq Hf eq_refl Hs) as [Hp|Hp]; rewrite Hp; [reflexivity|].
      destruct (d_proof b); reflexivity.
    + assert (Hres : false = true) by (apply IH; [exact Hr|exact Hf|lia]). discriminate Hres.
Qed.

Lemma never_expired2 : forall p ch,
  (q_ph p < q_eh p)%N -> q_held p = true -> chain_ok2 p ch -> expire2 ch = false.
Proof.
  intros p ch Hw Hh. induction ch as [|b r IH]; intros Hok; [reflexivity|].
  cbn [chain_ok2] in Hok. destruct Hok as [Hr [_ [_ [_ [Hexp _]]]]].
  rewrite expire2_cons, (IH Hr). destruct (d_expire b) eqn:Ee; [|reflexivity]. exfalso.
  destruct (Hexp eq_refl) as [Hf [Hres [Hlt _]]]. rewrite tip2_cons in Hlt.
  assert (resolved2 r = true) by (apply (resolved2_after p); try assumption; lia). congruence.
Qed.

Lemma resolved2_formed : forall p ch, chain_ok2 p ch -> resolved2 ch = true -> formed2 ch = true.
Proof.
  intros p ch. induction ch as [|b r IH]; intros Hok Hres; [discriminate Hres|].
  cbn [chain_ok2] in Hok. destruct Hok as [Hr [_ [Hp [Hn [He _]]]]].
  rewrite resolved2_cons in Hres. rewrite formed2_cons.
  destruct (d_proof b) eqn:Ep; [destruct (Hp eq_refl) as [Hf _]; rewrite Hf; apply orb_true_r|].
  destruct (d_renew b) eqn:En; [destruct (Hn eq_refl) as [Hf _]; rewrite Hf; apply orb_true_r|].
  destruct (d_expire b) eqn:Ee; [destruct (He eq_refl) as [Hf _]; rewrite Hf; apply orb_true_r|].
  cbn [orb] in Hres. rewrite (IH Hr Hres). apply orb_true_r.
Qed.

Lemma wf2_of_matches : forall p ch c, row_matches2 p ch c -> wf2 c.
Proof.
  intros p ch c [Hc [He [Hie _]]]. unfold wf2. rewrite He, Hc, <- Hie.
  destruct (elem_rev ch); reflexivity.
Qed.

Lemma broadcast_agrees2 : forall p ch c,
  row_matches2 p ch c -> host_broadcasts2 p c (tip2 ch) = would_broadcast2 p ch.
Proof.
  intros p ch c Hm. pose proof (wf2_of_matches p ch c Hm) as Hwf.
  destruct Hm as [Hc [_ [_ [Hph [Heh [_ [Hun [Hopen [Hpr [Hrn Hex]]]]]]]]]].
  unfold host_broadcasts2, would_broadcast2. rewrite (q_proof2_spec c _ Hwf). unfold spec_proof2.
  rewrite Hc, Hph, Heh.
  destruct (formed2 ch) eqn:Ef; [|reflexivity].
  destruct (resolved2 ch) eqn:Er.
  - assert (Hs : is_some (c2_resolution_index c) = true).
    { unfold resolved2 in Er. destruct (proof2 ch) eqn:Ep; [apply (Hpr eq_refl eq_refl)|].
      destruct (renew2 ch) eqn:En; [apply (Hrn eq_refl eq_refl)|].
      cbn [orb] in Er. apply (Hex eq_refl Er). }
    rewrite Hs. reflexivity.
  - destruct (Hopen eq_refl eq_refl) as [_ Hn]. rewrite Hn. reflexivity.
Qed.

Ltac row2_fields :=
  cbn [upd2 apply_rev2 c2_contract_id c2_confirmation_index c2_resolution_index c2_contract_status
       c2_revision_number c2_negotiation_height c2_proof_height c2_expiration_height c2_elem
       e2_revision_number is_some option_map] in *.

(* at most one kind of resolution is on a reachable chain *)
Lemma one_resolution : forall p ch, chain_ok2 p ch ->
  (proof2 ch = true -> renew2 ch = false /\ expire2 ch = false) /\
  (renew2 ch = true -> proof2 ch = false /\ expire2 ch = false) /\
  (expire2 ch = true -> proof2 ch = false /\ renew2 ch = false).
Proof.
  intros p ch. induction ch as [|b r IH]; intros Hok.
  - repeat split; discriminate.
  - cbn [chain_ok2] in Hok. destruct Hok as [Hr [_ [Hp [Hn [He _]]]]]. specialize (IH Hr).
    rewrite proof2_cons, renew2_cons, expire2_cons. unfold resolved2 in *.
    destruct IH as [I1 [I2 I3]].
    destruct (d_proof b) eqn:Ep, (d_renew b) eqn:En, (d_expire b) eqn:Ee; cbn [orb].
    all: try (destruct (Hp eq_refl) as [_ [H1 [H2 H3]]]; try discriminate H2; try discriminate H3).
    all: try (destruct (Hn eq_refl) as [_ [H4 H5]]; try discriminate H5).
    all: try (destruct (He eq_refl) as [_ [H6 _]]).
    all: destruct (proof2 r), (renew2 r), (expire2 r); cbn [orb] in *; try discriminate.
    all: try (repeat split; try reflexivity; try discriminate; fail).
    all: try (destruct (I1 eq_refl); discriminate); try (destruct (I2 eq_refl); discriminate);
         try (destruct (I3 eq_refl); discriminate).
    all: repeat split; intros; try reflexivity; try discriminate;
         try (apply I1; reflexivity); try (apply I2; reflexivity); try (apply I3; reflexivity).
Qed.

Lemma elem_rev_formed : forall p ch, chain_ok2 p ch -> is_some (elem_rev ch) = formed2 ch.
Proof.
  intros p ch. induction ch as [|b r IH]; intros Hok; [reflexivity|].
  cbn [chain_ok2] in Hok. destruct Hok as [Hr [Hform [_ [_ [_ [Hrev _]]]]]]. specialize (IH Hr).
  cbn [elem_rev]. rewrite formed2_cons in *. unfold is_form in *.
  destruct (d_rev b) as [n|] eqn:Erv.
  - rewrite (Hrev eq_refl) in *. rewrite orb_true_r. reflexivity.
  - destruct (d_form b) as [n|]; [reflexivity|]. cbn [orb]. exact IH.
Qed.

Lemma apply_block2_matches : forall p ch b c,
  chain_ok2 p (b :: ch) -> row_matches2 p ch c ->
  exists c', apply_block2 p (tip2 (b :: ch)) b c = Ok c' /\ row_matches2 p (b :: ch) c'.
Proof.
  intros p ch b c Hok Hm.
  pose proof (elem_rev_formed p (b :: ch) Hok) as Hef'.
  pose proof Hok as Hok0.
  cbn [chain_ok2] in Hok. destruct Hok as [Hr [Hform [Hproof [Hrenew [Hexp [Hrev Hdead]]]]]].
  pose proof (one_resolution p ch Hr) as [O1 [O2 O3]].
  pose proof (resolved2_formed p ch Hr) as Hresform.
  destruct Hm as [Hc [He [Hie [Hph [Heh [Hneg [Hun [Hopen [Hpr [Hrn Hex]]]]]]]]]].
  destruct c as [cid cconf cres cst crev cneg cph ceh celem]. row2_fields. subst celem cph ceh cneg.
  destruct b as [bf br bp bn be]. cbn [d_form d_rev d_proof d_renew d_expire is_form] in *.
  unfold row_matches2, apply_block2, when2.
  rewrite formed2_cons, resolved2_cons, proof2_cons, renew2_cons, expire2_cons in *.
  cbn [d_form d_rev d_proof d_renew d_expire is_form elem_rev] in *.
  unfold resolved2 in *.
  destruct (formed2 ch) eqn:Ef; destruct (proof2 ch) eqn:Ep; destruct (renew2 ch) eqn:En; destruct (expire2 ch) eqn:Ee;
    cbn [orb andb negb] in *;
    try (destruct (O1 eq_refl); discriminate); try (destruct (O2 eq_refl); discriminate);
    try (destruct (O3 eq_refl); discriminate);
    try (specialize (Hresform eq_refl); discriminate).
  all: destruct bf as [fn|], bp, bn, be; cbn [orb andb negb is_some] in *.
  all: try (destruct (Hform eq_refl) as [Hx1 [Hx2 [Hx3 [Hx4 [Hx5 Hx6]]]]]; try discriminate; try subst br).
  all: try (destruct (Hproof eq_refl) as [Hy1 [Hy2 [Hy3 Hy4]]]; try discriminate).
  all: try (destruct (Hrenew eq_refl) as [Hw1 [Hw2 Hw3]]; try discriminate).
  all: try (destruct (Hexp eq_refl) as [Hz1 [Hz2 [Hz3 Hz4]]]; try discriminate).
  all: try (destruct (Hun eq_refl) as [Hs Hres0]; rewrite Hres0 in *).
  all: try (destruct (Hopen eq_refl eq_refl) as [Hs Hres0]; rewrite Hs, Hres0 in *).
  all: try (destruct (Hpr eq_refl eq_refl) as [Hs Hres0]; rewrite Hs in *).
  all: try (destruct (Hrn eq_refl eq_refl) as [Hs Hres0]; rewrite Hs in *).
  all: try (destruct (Hex eq_refl eq_refl) as [Hs Hres0]).
  all: destruct (q_benefit p) eqn:Eb; try rewrite Hs in *.
  all: try (destruct Hs as [Hs|Hs]; rewrite Hs in *).
  all: try destruct br as [rn|].
  all: try (specialize (Hrev eq_refl); try discriminate Hrev).
  all: destruct (elem_rev ch) as [er|] eqn:Eer; cbn [is_some] in Hie; try discriminate Hie.
  all: destruct cconf as [cf|]; cbn [is_some] in Hc; try discriminate Hc.
  all: cbn [orb andb negb apply_form2 apply_success2 apply_failed2 bind upd2 apply_rev2 st2_eqb
            c2_contract_status c2_confirmation_index c2_resolution_index c2_elem option_map].
  all: unfold reject2; row2_fields; cbn [st2_eqb negb andb is_some].
  all: repeat match goal with |- context [if ?x then _ else _] => destruct x eqn:? end.
  all: row2_fields; eexists; (split; [reflexivity|]); row2_fields.
  all: repeat split; try reflexivity; try discriminate; try (intros; discriminate); auto.
Qed.

Lemma revert_block2_matches : forall p ch b c,
  chain_ok2 p (b :: ch) -> is_form b = false -> row_matches2 p (b :: ch) c ->
  exists c', revert_block2 p b (elem_rev ch) c = Ok c' /\ row_matches2 p ch c'.
Proof.
  intros p ch b c Hok Hbf Hm.
  cbn [chain_ok2] in Hok. destruct Hok as [Hr [Hform [Hproof [Hrenew [Hexp [Hrev Hdead]]]]]].
  pose proof (elem_rev_formed p ch Hr) as Hef.
  pose proof (one_resolution p ch Hr) as [O1 [O2 O3]].
  pose proof (resolved2_formed p ch Hr) as Hresform.
  destruct Hm as [Hc [He [Hie [Hph [Heh [Hneg [Hun [Hopen [Hpr [Hrn Hex]]]]]]]]]].
  destruct c as [cid cconf cres cst crev cneg cph ceh celem]. row2_fields. subst celem cph ceh cneg.
  destruct b as [bf br bp bn be]. cbn [d_form d_rev d_proof d_renew d_expire is_form] in *.
  destruct bf as [fn|]; [discriminate Hbf|].
  unfold row_matches2, revert_block2, when2.
  rewrite formed2_cons, resolved2_cons, proof2_cons, renew2_cons, expire2_cons in *.
  cbn [d_form d_rev d_proof d_renew d_expire is_form elem_rev] in *.
  rewrite ?formed2_cons in *. cbn [d_form is_form orb] in *.
  unfold resolved2 in *.
  destruct (formed2 ch) eqn:Ef; destruct (proof2 ch) eqn:Ep; destruct (renew2 ch) eqn:En; destruct (expire2 ch) eqn:Ee;
    cbn [orb andb negb] in *;
    try (destruct (O1 eq_refl); discriminate); try (destruct (O2 eq_refl); discriminate);
    try (destruct (O3 eq_refl); discriminate);
    try (specialize (Hresform eq_refl); discriminate).
  all: destruct bp, bn, be; cbn [orb andb negb is_some] in *.
  all: try (destruct (Hproof eq_refl) as [Hy1 [Hy2 [Hy3 Hy4]]]; try discriminate).
  all: try (destruct (Hrenew eq_refl) as [Hw1 [Hw2 Hw3]]; try discriminate).
  all: try (destruct (Hexp eq_refl) as [Hz1 [Hz2 [Hz3 Hz4]]]; try discriminate).
  all: try (destruct (Hun eq_refl) as [Hs Hres0]; rewrite Hres0 in *).
  all: try (destruct (Hopen eq_refl eq_refl) as [Hs Hres0]; rewrite Hs, Hres0 in *).
  all: try (destruct (Hpr eq_refl eq_refl) as [Hs Hres0]; rewrite Hs in *).
  all: try (destruct (Hrn eq_refl eq_refl) as [Hs Hres0]; rewrite Hs in *).
  all: try (destruct (Hex eq_refl eq_refl) as [Hs Hres0]).
  all: destruct (q_benefit p) eqn:Eb; try rewrite Hs in *.
  all: try (destruct Hs as [Hs|Hs]; rewrite Hs in *).
  all: try destruct br as [rn|].
  all: try (specialize (Hrev eq_refl); try discriminate Hrev).
  all: destruct (elem_rev ch) as [er|] eqn:Eer; cbn [is_some] in Hef; try discriminate Hef.
  all: destruct cconf as [cf|]; cbn [is_some] in Hc; try discriminate Hc.
  all: cbn [orb andb negb revert_success2 revert_failed2 bind upd2 apply_rev2 st2_eqb
            c2_contract_status c2_confirmation_index c2_resolution_index c2_elem option_map].
  all: row2_fields; eexists; (split; [reflexivity|]); row2_fields.
  all: repeat split; try reflexivity; try discriminate; try (intros; discriminate); auto.
Qed.

(** * The simulation invariant *)
Definition inv2 (p : params2) (w : world2) : Prop :=
  chain_ok2 p (chain2 w) /\
  (exists c, row2 w = Ok c /\ row_matches2 p (chain2 w) c) /\
  sent2 w = sent_of2 p (chain2 w).

Lemma inv2_init : forall p, inv2 p (init_world2 p).
Proof.
  intros p. unfold inv2, init_world2. cbn [chain2 row2 sent2 chain_ok2 sent_of2]. split; [exact I|]. split; [|reflexivity].
  exists (init_row2 p). split; [reflexivity|].
  unfold row_matches2, init_row2. row2_fields.
  cbn [formed2 resolved2 proof2 renew2 expire2 existsb elem_rev orb option_map is_some].
  repeat split; try reflexivity; try discriminate; auto.
Qed.

Lemma env_ok2_chain : forall p w b,
  sent2 w = sent_of2 p (chain2 w) -> chain_ok2 p (chain2 w) -> env_ok2 p w b = true -> chain_ok2 p (b :: chain2 w).
Proof.
  intros p w b Hs Hok He. unfold env_ok2 in He. rewrite Hs in He.
  cbn [chain_ok2]. rewrite tip2_cons. unfold is_form in *.
  destruct b as [bf br bp bn be]. cbn [d_form d_rev d_proof d_renew d_expire] in *.
  destruct bf as [fn|], br as [rn|], bp, bn, be, (formed2 (chain2 w)), (resolved2 (chain2 w)),
    (existsb (fun x => x) (sent_of2 p (chain2 w)));
    cbn [implb andb orb negb is_some] in He; try discriminate He;
    repeat split; try assumption; try reflexivity; try (intros; discriminate); try (intros; lia);
    try (intros; auto; fail).
  all: try (intros; first [left; reflexivity | right; reflexivity]).
  all: try (intro Heq; intros; exfalso; rewrite <- N.eqb_eq in Heq; rewrite Heq in He; cbn in He;
            repeat rewrite ?andb_false_r, ?andb_true_r in He; discriminate He).
Qed.

Lemma step2_inv : forall p w e w', inv2 p w -> step2 p w e = Some w' -> inv2 p w'.
Proof.
  intros p w e w' [Hok [[c [Hrow Hm]] Hs]] Hstep. destruct e as [b|].
  - cbn [step2] in Hstep. destruct (env_ok2 p w b) eqn:He; cbn [negb] in Hstep; [|discriminate].
    injection Hstep as <-.
    pose proof (env_ok2_chain p w b Hs Hok He) as Hok'.
    destruct (apply_block2_matches p (chain2 w) b c Hok' Hm) as [c' [Hap Hm']].
    rewrite (tip2_cons b (chain2 w)) in Hap.
    unfold inv2. cbn [chain2 row2 sent2]. rewrite Hrow. cbn [bind]. rewrite Hap.
    split; [exact Hok'|]. split; [exists c'; split; [reflexivity|exact Hm']|].
    cbn [sent_of2]. rewrite Hs. f_equal.
    rewrite <- (tip2_cons b (chain2 w)). apply broadcast_agrees2; assumption.
  - cbn [step2] in Hstep. destruct (chain2 w) as [|b rest] eqn:Ech; [discriminate|].
    destruct (sent2 w) as [|s0 srest] eqn:Es; [discriminate|].
    destruct (is_form b) eqn:Ebf; [discriminate|]. injection Hstep as <-.
    destruct (revert_block2_matches p rest b c Hok Ebf Hm) as [c' [Hrv Hm']].
    cbn [chain_ok2] in Hok. destruct Hok as [Hok' _].
    unfold inv2. cbn [chain2 row2 sent2]. rewrite Hrow. cbn [bind]. rewrite Hrv.
    split; [exact Hok'|]. split; [exists c'; split; [reflexivity|exact Hm']|].
    cbn [sent_of2] in Hs. injection Hs as _ Hs. subst srest.
    destruct rest as [|b2 r2]; [reflexivity|].
    cbn [sent_of2]. f_equal.
    rewrite (broadcast_agrees2 p (b2 :: r2) c' Hm'). apply orb_diag.
Qed.

Lemma run2_inv : forall p tr w w', inv2 p w -> run2 p w tr = Some w' -> inv2 p w'.
Proof.
  intros p tr. induction tr as [|e t IH]; intros w w' Hi Hr.
  - injection Hr as <-. exact Hi.
  - cbn [run2] in Hr. destruct (step2 p w e) as [w1|] eqn:Est; [|discriminate].
    apply (IH w1 w'); [eapply step2_inv; eassumption|exact Hr].
Qed.

(* C06, last sentence, v2 *)
Theorem v2_ends_successful : forall p tr w,
  (q_ph p < q_eh p)%N -> q_held p = true ->
  run2 p (init_world2 p) tr = Some w ->
  exists c, row2 w = Ok c /\
            c2_contract_status c <> Failed2 /\
            (formed2 (chain2 w) = true -> (q_eh p <= tip2 (chain2 w))%N ->
             c2_contract_status c = Successful2 \/ c2_contract_status c = Renewed2).
Proof.
  intros p tr w Hw Hh Hrun.
  destruct (run2_inv p tr _ w (inv2_init p) Hrun) as [Hok [[c [Hrow Hm]] _]].
  exists c. split; [exact Hrow|].
  destruct Hm as [_ [_ [_ [_ [_ [_ [Hun [Hopen [Hpr [Hrn Hex]]]]]]]]]].
  pose proof (never_expired2 p (chain2 w) Hw Hh Hok) as Hne.
  split.
  - intro Hfail. destruct (formed2 (chain2 w)) eqn:Ef.
    + destruct (resolved2 (chain2 w)) eqn:Er.
      * unfold resolved2 in Er. rewrite Hne in Er. rewrite orb_false_r in Er.
        destruct (proof2 (chain2 w)) eqn:Ep.
        -- destruct (Hpr eq_refl eq_refl) as [Hs _]. congruence.
        -- cbn [orb] in Er. destruct (Hrn eq_refl Er) as [Hs _]. congruence.
      * destruct (Hopen eq_refl eq_refl) as [Hs _]. congruence.
    + destruct (Hun eq_refl) as [[Hs|Hs] _]; congruence.
  - intros Hf Hle. pose proof (resolved2_after p (chain2 w) Hw Hh Hok Hf Hle) as Hres.
    unfold resolved2 in Hres. rewrite Hne in Hres. rewrite orb_false_r in Hres.
    destruct (proof2 (chain2 w)) eqn:Ep.
    + left. apply (Hpr Hf eq_refl).
    + cbn [orb] in Hres. right. apply (Hrn Hf Hres).
Qed.

Theorem v2_host_broadcasts_in_window : forall p tr w,
  q_held p = true ->
  run2 p (init_world2 p) tr = Some w ->
  formed2 (chain2 w) = true -> resolved2 (chain2 w) = false ->
  (q_ph p <= tip2 (chain2 w))%N -> (tip2 (chain2 w) < q_eh p)%N ->
  exists rest, sent2 w = true :: rest.
Proof.
  intros p tr w Hh Hrun Hf Hr Hws Hwe.
  destruct (run2_inv p tr _ w (inv2_init p) Hrun) as [_ [_ Hs]].
  rewrite Hs. destruct (chain2 w) as [|b r] eqn:Ech; [discriminate Hf|].
  cbn [sent_of2]. exists (sent_of2 p r). f_equal.
  unfold would_broadcast2. rewrite Hf, Hr, Hh.
  replace (q_ph p <=? tip2 (b :: r))%N with true by lia.
  replace (tip2 (b :: r) <? q_eh p)%N with true by lia. reflexivity.
Qed.

(* every v2 row of the lifecycle satisfies the row invariant wf2 assumed by the v2 selection theorems *)
Lemma v2_rows_wf : forall p tr w,
  run2 p (init_world2 p) tr = Some w -> exists c, row2 w = Ok c /\ wf2 c.
Proof.
  intros p tr w Hrun.
  destruct (run2_inv p tr _ w (inv2_init p) Hrun) as [_ [[c [Hrow Hm]] _]].
  exists c. split; [exact Hrow|]. eapply wf2_of_matches; exact Hm.
Qed.

Definition p2_demo : params2 :=
  {| q_ph := 3; q_eh := 5; q_neg := 0; q_rev0 := 2; q_rb := 18; q_benefit := true; q_held := true |}.
Definition d0 : blk2 := {| d_form := None; d_rev := None; d_proof := false; d_renew := false; d_expire := false |}.
Definition d_formed : blk2 := {| d_form := Some 1%N; d_rev := None; d_proof := false; d_renew := false; d_expire := false |}.
Definition d_revised : blk2 := {| d_form := None; d_rev := Some 2%N; d_proof := false; d_renew := false; d_expire := false |}.
Definition d_proved : blk2 := {| d_form := None; d_rev := None; d_proof := true; d_renew := false; d_expire := false |}.
Definition d_expired : blk2 := {| d_form := None; d_rev := None; d_proof := false; d_renew := false; d_expire := true |}.
Definition demo2_schedule : list estep2 :=
  [Mine2 d_formed; Mine2 d_revised; Mine2 d0; Mine2 d_proved; Revert2; Revert2; Mine2 d0; Mine2 d0; Mine2 d_proved; Mine2 d0].
