(* Actions/Rows.v — the columns of persist/sqlite/init.sql tables [contracts],
   [contracts_v2] and [contract_v2_state_elements] that the lifecycle selection queries of
   persist/sqlite/contracts.go read.  One record field per column, named
   <prefix>_<column name> (c1_ = contracts, c2_ = contracts_v2, e2_ =
   contract_v2_state_elements): tools/sqlgen relies on this naming when it emits the
   column accessors of gen/Queries.v, and on the Coq type chosen here per declared SQL
   type:
     INTEGER NOT NULL -> N        INTEGER (nullable) -> option N
     BOOLEAN NOT NULL -> bool     (stored 0/1)
     BLOB    NOT NULL -> N        (the 8-byte little-endian encoding of a uint64 is
                                   injective, the queries only test (in)equality)
     BLOB (nullable)  -> option N
     contract_status  -> the status enumeration (v1 INTEGER, v2 TEXT; the stored
                         representation is generated from the Go constants)
   No proofs here. *)
From HostdBase Require Import Base.

Inductive st1 := Pending1 | Rejected1 | Active1 | Successful1 | Failed1.
Inductive st2 := Pending2 | Rejected2 | Active2 | Renewed2 | Successful2 | Failed2.

Definition st1_eqb (a b : st1) : bool :=
  match a, b with
  | Pending1, Pending1 | Rejected1, Rejected1 | Active1, Active1
  | Successful1, Successful1 | Failed1, Failed1 => true
  | _, _ => false
  end.
Definition st2_eqb (a b : st2) : bool :=
  match a, b with
  | Pending2, Pending2 | Rejected2, Rejected2 | Active2, Active2
  | Renewed2, Renewed2 | Successful2, Successful2 | Failed2, Failed2 => true
  | _, _ => false
  end.

(* table contracts *)
Record v1row := {
  c1_contract_id : N;                       (* BLOB UNIQUE NOT NULL; harness numbers the ids *)
  c1_formation_confirmed : bool;            (* BOOLEAN NOT NULL *)
  c1_contract_status : st1;                 (* INTEGER NOT NULL *)
  c1_revision_number : N;                   (* BLOB NOT NULL *)
  c1_confirmed_revision_number : option N;  (* BLOB *)
  c1_resolution_height : option N;          (* INTEGER *)
  c1_negotiation_height : N;                (* INTEGER NOT NULL *)
  c1_window_start : N;                      (* INTEGER NOT NULL *)
  c1_window_end : N;                        (* INTEGER NOT NULL *)
  (* not a column of its own: derived from raw_revision — the valid host payout of the
     stored revision exceeds the missed one (update.go skips the proof otherwise) *)
  c1_proof_benefit : bool
}.

(* table contract_v2_state_elements (contract_id is its PRIMARY KEY: at most one per contract) *)
Record erow := {
  e2_revision_number : N                    (* BLOB NOT NULL *)
}.

(* table contracts_v2, with the joined state element if there is one.  For the two
   chain-index columns only NULL / NOT NULL is observable by the queries; the harness
   records the height of the index. *)
Record v2row := {
  c2_contract_id : N;
  c2_confirmation_index : option N;         (* BLOB *)
  c2_resolution_index : option N;           (* BLOB *)
  c2_contract_status : st2;                 (* TEXT NOT NULL *)
  c2_revision_number : N;                   (* BLOB NOT NULL *)
  c2_negotiation_height : N;                (* INTEGER NOT NULL *)
  c2_proof_height : N;                      (* INTEGER NOT NULL *)
  c2_expiration_height : N;                 (* INTEGER NOT NULL *)
  c2_elem : option erow
}.
