(* Actions/Liveness1G.v — WP-O round 2: the v1 counterpart of Liveness2G.v.  Liveness.step with what
   happens after a block as an input of the step: NoPass (a tip inside a batch of index.Manager) or
   Pass ok lag (ProcessActions ran; ok = FundTransaction / AddPoolTransactions / BestIndex(window start - 1)
   of the proof path did not fail, update.go:258-314; lag = how far the best chain was ahead).  The recorded
   flag: selected /\ benefit /\ data held /\ ok /\ tip + lag < window end (the proof can still be in the
   block at the window end, the last one consensus accepts it in).  A revert keeps the flag of the
   reverted position when the reverted block is above the window start: the proof transaction is built
   over the block id at window start - 1 and the contract's revision, both unchanged.  Row updates,
   consensus and fairness clauses are Liveness.v's ([env_ok], [apply_block], [revert_block]). *)
From Coq Require Import Lia ZifyBool ZifyN ZifyNat.
From HostdBase Require Import Base.
From HostdActions Require Import Rows SqlSem Queries Model Proofs Liveness Liveness2G.

Definition attempt1 (p : params) (r : res v1row) (h : N) (a : pact) : bool :=
  match a, r with
  | Pass ok lag, Ok c => host_broadcasts p c h && ok && (h + lag <? p_we p)%N
  | _, _ => false
  end.

Inductive gstep1e := G1Mine (b : blk) (a : pact) | G1Revert (a : pact).

Definition gstep1 (p : params) (w : world) (e : gstep1e) : option world :=
  match e with
  | G1Mine b a =>
      if negb (env_ok p w b) then None
      else let H := (tip (chain w) + 1)%N in
           let r := bind (row w) (apply_block p H b) in
           Some {| chain := b :: chain w; row := r; sent := attempt1 p r H a :: sent w |}
  | G1Revert a =>
      match chain w, sent w with
      | b :: rest, s0 :: srest =>
          if b_form b then None
          else let r := bind (row w) (revert_block p b (last_rev rest)) in
               Some {| chain := rest; row := r;
                       sent := match srest with
                               | s :: t => (s || (s0 && (p_ws p <? tip (b :: rest))%N) || attempt1 p r (tip rest) a) :: t
                               | [] => []
                               end |}
      | _, _ => None
      end
  end.

Fixpoint grun1 (p : params) (w : world) (tr : list gstep1e) : option world :=
  match tr with
  | [] => Some w
  | e :: t => match gstep1 p w e with Some w' => grun1 p w' t | None => None end
  end.

Fixpoint chain_okg1 (p : params) (ch : list blk) (fl : list bool) : Prop :=
  match ch with
  | [] => True
  | b :: r =>
      chain_okg1 p r (tl fl) /\
      (b_form b = true -> formed_on r = false /\ (tip ch <= p_ws p)%N) /\
      (b_proof b = true -> formed_on r = true /\ resolved_on r = false /\ b_missed b = false) /\
      (b_missed b = true -> formed_on r = true /\ resolved_on r = false /\ (p_we p <= tip ch)%N
                            /\ anyb (tl fl) = false) /\
      (tip ch = p_we p -> formed_on r = true -> resolved_on r = false -> b_proof b = true \/ b_missed b = true)
  end.

Fixpoint flags_sound1 (p : params) (ch : list blk) (fl : list bool) : Prop :=
  match ch with
  | [] => fl = []
  | b :: r => (exists f fr, fl = f :: fr /\ (f = true -> would_broadcast p ch = true)) /\ flags_sound1 p r (tl fl)
  end.


Lemma resolved_formed_g : forall p ch fl, chain_okg1 p ch fl -> resolved_on ch = true -> formed_on ch = true.
Proof.
  intros p ch. induction ch as [|b r IH]; intros fl Hok Hres.
  - discriminate Hres.
  - cbn [chain_okg1] in Hok. destruct Hok as [Hr [_ [Hproof [Hmiss _]]]].
    rewrite resolved_cons in Hres. rewrite formed_cons.
    destruct (b_proof b) eqn:Ep.
    + destruct (Hproof eq_refl) as [Hf _]. rewrite Hf. apply orb_true_r.
    + destruct (b_missed b) eqn:Em.
      * destruct (Hmiss eq_refl) as [Hf _]. rewrite Hf. apply orb_true_r.
      * cbn [orb] in Hres. rewrite (IH _ Hr Hres). apply orb_true_r.
Qed.

Lemma missed_tip_g : forall p ch fl, chain_okg1 p ch fl -> missed_on ch = true -> (p_we p <= tip ch)%N.
Proof.
  intros p ch. induction ch as [|b r IH]; intros fl Hok Hm.
  - discriminate Hm.
  - cbn [chain_okg1] in Hok. destruct Hok as [Hr [_ [_ [Hmiss _]]]].
    unfold missed_on in Hm. cbn [existsb] in Hm. rewrite tip_cons.
    destruct (b_missed b) eqn:Em.
    + destruct (Hmiss eq_refl) as [_ [_ [Hle _]]]. rewrite tip_cons in Hle. exact Hle.
    + cbn [orb] in Hm. specialize (IH _ Hr Hm). lia.
Qed.

Lemma broadcast_agrees_g : forall p ch fl c,
  chain_okg1 p ch fl -> row_matches p ch c -> host_broadcasts p c (tip ch) = would_broadcast p ch.
Proof.
  intros p ch fl c Hok [Hf [Hws [Hwe [Hben [_ [_ [Hun [Hopen [Hpr Hmi]]]]]]]]].
  unfold host_broadcasts, would_broadcast. rewrite q_proof_spec. unfold spec_proof.
  rewrite Hf, Hws, Hwe, Hben.
  destruct (formed_on ch) eqn:Ef; [|reflexivity].
  destruct (resolved_on ch) eqn:Er.
  - unfold resolved_on in Er. destruct (proof_on ch) eqn:Ep.
    + destruct (Hpr eq_refl eq_refl) as [_ Hs]. rewrite Hs. reflexivity.
    + cbn [orb] in Er. pose proof (missed_tip_g p ch fl Hok Er) as Hle.
      replace (tip ch <? p_we p)%N with false by lia.
      rewrite !andb_false_r. reflexivity.
  - destruct (Hopen eq_refl eq_refl) as [_ Hn]. rewrite Hn. reflexivity.
Qed.

Lemma apply_block_matches_g : forall p ch fl b c,
  chain_okg1 p (b :: ch) fl -> row_matches p ch c ->
  exists c', apply_block p (tip (b :: ch)) b c = Ok c' /\ row_matches p (b :: ch) c'.
Proof.
  intros p ch fl b c Hok Hm.
  cbn [chain_okg1] in Hok. destruct Hok as [Hr [Hform [Hproof [Hmiss Hdead]]]].
  destruct Hm as [Hf [Hws [Hwe [Hben [Hneg [Hcr [Hun [Hopen [Hpr Hmi]]]]]]]]].
  destruct c as [cid cformed cst crev cconf cres cneg cws cwe cben]. row_fields. subst.
  destruct b as [bf br bp bm]. cbn [b_form b_rev b_proof b_missed] in *.
  unfold row_matches, apply_block, when.
  rewrite formed_cons, resolved_cons, proof_cons, missed_cons, last_rev_cons.
  cbn [b_form b_rev b_proof b_missed].
  assert (Hresform : resolved_on ch = true -> formed_on ch = true) by (apply (resolved_formed_g p ch (tl fl)); exact Hr).
  assert (Hpm : proof_on ch = true -> missed_on ch = true -> False).
  { intros Hp Hm'. clear - Hr Hp Hm'. revert Hr. generalize (tl fl). induction ch as [|b r IH]; intros l Hr; [discriminate|].
    cbn [chain_okg1] in Hr. destruct Hr as [Hr' [_ [Hpf [Hmf _]]]].
    rewrite proof_cons in Hp. rewrite missed_cons in Hm'.
    destruct (b_proof b) eqn:Ep.
    - destruct (Hpf eq_refl) as [_ [Hres Hbm]]. rewrite Hbm in Hm'. cbn [orb] in Hm'.
      unfold resolved_on in Hres. rewrite Hm' in Hres. rewrite orb_true_r in Hres. discriminate.
    - cbn [orb] in Hp. destruct (b_missed b) eqn:Em.
      + destruct (Hmf eq_refl) as [_ [Hres _]]. unfold resolved_on in Hres. rewrite Hp in Hres. discriminate.
      + cbn [orb] in Hm'. exact (IH Hp Hm' _ Hr'). }
  unfold resolved_on in *.
  destruct (formed_on ch) eqn:Ef; destruct (proof_on ch) eqn:Ep; destruct (missed_on ch) eqn:Emi;
    cbn [orb andb negb] in *;
    try (exfalso; apply Hpm; reflexivity);
    try (specialize (Hresform eq_refl); discriminate).
  all: destruct bf, bp, bm; cbn [orb andb negb] in *.
  all: try (destruct (Hform eq_refl) as [Hx1 Hx2]; try discriminate Hx1).
  all: try (destruct (Hproof eq_refl) as [Hy1 [Hy2 Hy3]]; try discriminate Hy1; try discriminate Hy2; try discriminate Hy3).
  all: try (destruct (Hmiss eq_refl) as [Hz1 [Hz2 [Hz3 Hz4]]]; try discriminate Hz1; try discriminate Hz2).
  all: try (destruct (Hun eq_refl) as [Hs Hres0]; rewrite Hres0 in *).
  all: try (destruct (Hopen eq_refl eq_refl) as [Hs Hres0]; rewrite Hs, Hres0 in *).
  all: try (destruct (Hpr eq_refl eq_refl) as [Hs Hres0]; rewrite Hs in *).
  all: try (specialize (Hmi eq_refl eq_refl)).
  all: destruct (p_benefit p) eqn:Eb; try (destruct Hmi as [Hs Hres0]; rewrite Hs in *).
  all: try (destruct Hs as [Hs|Hs]; rewrite Hs in *).
  all: cbn [orb andb negb apply_form apply_success apply_failed bind set_status c1_contract_status
            c1_formation_confirmed c1_resolution_height].
  all: destruct br as [n|]; row_fields.
  all: unfold reject; row_fields; cbn [st1_eqb negb andb].
  all: repeat match goal with |- context [if ?x then _ else _] => destruct x eqn:? end.
  all: row_fields; eexists; (split; [reflexivity|]); row_fields.
  all: repeat split; try reflexivity; try discriminate; try (intros; discriminate); auto.
Qed.

Lemma revert_block_matches_g : forall p ch fl b c,
  chain_okg1 p (b :: ch) fl -> b_form b = false -> row_matches p (b :: ch) c ->
  exists c', revert_block p b (last_rev ch) c = Ok c' /\ row_matches p ch c'.
Proof.
  intros p ch fl b c Hok Hbf Hm.
  cbn [chain_okg1] in Hok. destruct Hok as [Hr [Hform [Hproof [Hmiss Hdead]]]].
  destruct Hm as [Hf [Hws [Hwe [Hben [Hneg [Hcr [Hun [Hopen [Hpr Hmi]]]]]]]]].
  destruct c as [cid cformed cst crev cconf cres cneg cws cwe cben]. row_fields. subst.
  destruct b as [bf br bp bm]. cbn [b_form b_rev b_proof b_missed] in *. subst bf.
  unfold row_matches, revert_block, when.
  rewrite formed_cons, resolved_cons, proof_cons, missed_cons, last_rev_cons in *.
  cbn [b_form b_rev b_proof b_missed] in *.
  unfold resolved_on in *.
  destruct (formed_on ch) eqn:Ef; destruct (proof_on ch) eqn:Ep; destruct (missed_on ch) eqn:Emi;
    cbn [orb andb negb] in *.
  all: destruct bp, bm; cbn [orb andb negb] in *.
  all: try (destruct (Hproof eq_refl) as [Hy1 [Hy2 Hy3]]; try discriminate Hy1; try discriminate Hy2; try discriminate Hy3).
  all: try (destruct (Hmiss eq_refl) as [Hz1 [Hz2 [Hz3 Hz4]]]; try discriminate Hz1; try discriminate Hz2).
  all: try (destruct (Hun eq_refl) as [Hs Hres0]; rewrite Hres0 in *).
  all: try (destruct (Hopen eq_refl eq_refl) as [Hs Hres0]; rewrite Hs, Hres0 in *).
  all: try (destruct (Hpr eq_refl eq_refl) as [Hs Hres0]; rewrite Hs in *).
  all: try (specialize (Hmi eq_refl eq_refl)).
  all: destruct (p_benefit p) eqn:Eb; try (destruct Hmi as [Hs Hres0]; rewrite Hs in *).
  all: try (destruct Hs as [Hs|Hs]; rewrite Hs in *).
  all: cbn [orb andb negb revert_form revert_success revert_failed bind set_status c1_contract_status
            c1_formation_confirmed c1_resolution_height].
  all: destruct br as [n|]; row_fields.
  all: row_fields; eexists; (split; [reflexivity|]); row_fields.
  all: repeat split; try reflexivity; try discriminate; try (intros; discriminate); auto.
  all: try (destruct Hmi as [X _]; discriminate X).
Qed.

Definition invg1 (p : params) (w : world) : Prop :=
  chain_okg1 p (chain w) (sent w) /\
  (exists c, row w = Ok c /\ row_matches p (chain w) c) /\
  flags_sound1 p (chain w) (sent w).

Lemma invg1_init : forall p, invg1 p (init_world p).
Proof.
  intros p. destruct (inv_init p) as [_ [Hrow _]].
  unfold invg1, init_world in *. cbn [chain row sent chain_okg1 flags_sound1] in *.
  split; [exact I|]. split; [exact Hrow|reflexivity].
Qed.

Lemma env_ok_chain_g1 : forall p w b f,
  chain_okg1 p (chain w) (sent w) -> env_ok p w b = true -> chain_okg1 p (b :: chain w) (f :: sent w).
Proof.
  intros p w b f Hok He. unfold env_ok in He.
  cbn [chain_okg1 tl]. rewrite tip_cons. unfold anyb.
  destruct (b_form b), (b_proof b), (b_missed b), (formed_on (chain w)), (resolved_on (chain w)),
    (existsb (fun x => x) (sent w));
    cbn [implb andb orb negb] in He; try discriminate He;
    repeat split; try assumption; try reflexivity; try (intros; discriminate); try (intros; lia);
    try (intros; auto; fail).
  all: try (intros; first [left; reflexivity | right; reflexivity]).
  all: try (intro Heq; intros; exfalso; rewrite <- N.eqb_eq in Heq; rewrite Heq in He; cbn in He;
            repeat rewrite ?andb_false_r, ?andb_true_r in He; discriminate He).
Qed.

Lemma attempt1_sound : forall p ch fl c h a,
  chain_okg1 p ch fl -> row_matches p ch c -> h = tip ch -> attempt1 p (Ok c) h a = true -> would_broadcast p ch = true.
Proof.
  intros p ch fl c h a Hok Hm -> Ha. destruct a as [|ok lag]; [discriminate Ha|].
  cbn [attempt1] in Ha. rewrite (broadcast_agrees_g p ch fl c Hok Hm) in Ha.
  destruct (would_broadcast p ch); [reflexivity|discriminate Ha].
Qed.

Lemma would_open1 : forall p ch, would_broadcast p ch = true ->
  formed_on ch = true /\ resolved_on ch = false /\ (p_ws p <= tip ch)%N /\ (tip ch < p_we p)%N
  /\ p_benefit p = true /\ p_held p = true.
Proof.
  intros p ch H. unfold would_broadcast in H.
  destruct (formed_on ch), (resolved_on ch), (p_benefit p), (p_held p); cbn [andb negb] in H; try discriminate H;
    try (rewrite ?andb_false_r in H; discriminate H).
  rewrite !andb_true_r in H. apply andb_true_iff in H. destruct H as [H1 H2].
  apply N.leb_le in H1. apply N.ltb_lt in H2. repeat split; assumption.
Qed.

Lemma would_down1 : forall p b rest,
  b_form b = false -> would_broadcast p (b :: rest) = true -> (p_ws p < tip (b :: rest))%N ->
  would_broadcast p rest = true.
Proof.
  intros p b rest Hb Hw Hlt. destruct (would_open1 _ _ Hw) as [Hf [Hr [Hlo [Hhi [Hbe Hh]]]]].
  rewrite formed_cons, Hb in Hf. cbn [orb] in Hf. rewrite resolved_cons in Hr. rewrite tip_cons in *.
  unfold would_broadcast. rewrite Hf, Hbe, Hh.
  destruct (resolved_on rest); [rewrite orb_true_r in Hr; discriminate Hr|].
  cbn [negb andb]. rewrite !andb_true_r.
  apply andb_true_iff. split; [apply N.leb_le|apply N.ltb_lt]; lia.
Qed.

Lemma gstep1_inv : forall p w e w', invg1 p w -> gstep1 p w e = Some w' -> invg1 p w'.
Proof.
  intros p w e w' [Hok [[c [Hrow Hm]] Hfs]] Hstep. destruct e as [b a|a].
  - cbn [gstep1] in Hstep. destruct (env_ok p w b) eqn:He; cbn [negb] in Hstep; [|discriminate].
    injection Hstep as <-.
    set (f := attempt1 p (bind (row w) (apply_block p (tip (chain w) + 1) b)) (tip (chain w) + 1) a).
    pose proof (env_ok_chain_g1 p w b f Hok He) as Hok'.
    destruct (apply_block_matches_g p (chain w) _ b c Hok' Hm) as [c' [Hap Hm']].
    rewrite (tip_cons b (chain w)) in Hap.
    unfold invg1. cbn [chain row sent]. split; [exact Hok'|].
    rewrite Hrow. cbn [bind]. rewrite Hap.
    split; [exists c'; split; [reflexivity|exact Hm']|].
    cbn [flags_sound1 tl]. split; [|exact Hfs].
    exists f, (sent w). split; [reflexivity|]. intro Hf. subst f.
    rewrite Hrow in Hf. cbn [bind] in Hf. rewrite Hap in Hf.
    eapply attempt1_sound; [exact Hok'|exact Hm'| |exact Hf]. rewrite tip_cons. reflexivity.
  - cbn [gstep1] in Hstep. destruct (chain w) as [|b rest] eqn:Ech; [discriminate|].
    destruct (sent w) as [|s0 srest] eqn:Es; [discriminate|].
    destruct (b_form b) eqn:Ebf; [discriminate|]. injection Hstep as <-.
    destruct (revert_block_matches_g p rest _ b c Hok Ebf Hm) as [c' [Hrv Hm']].
    cbn [chain_okg1 tl] in Hok. destruct Hok as [Hok' _].
    cbn [flags_sound1 tl] in Hfs. destruct Hfs as [[f0 [fr0 [Hfl0 Hf0]]] Hfs']. injection Hfl0 as <- <-.
    unfold invg1. cbn [chain row sent]. rewrite Hrow. cbn [bind]. rewrite Hrv.
    destruct rest as [|b2 r2].
    + cbn [flags_sound1] in Hfs'. subst srest. split; [exact I|]. split; [exists c'; split; [reflexivity|exact Hm']|reflexivity].
    + cbn [flags_sound1] in Hfs'. destruct Hfs' as [[f [fr [Hfl Hf]]] Hfs2]. subst srest. cbn [tl] in *.
      split; [cbn [chain_okg1 tl] in *; exact Hok'|]. split; [exists c'; split; [reflexivity|exact Hm']|].
      cbn [flags_sound1 tl]. split; [|exact Hfs2].
      eexists _, fr. split; [reflexivity|]. intro Hor. apply orb_true_iff in Hor. destruct Hor as [Hx|Hx];
        [apply orb_true_iff in Hx; destruct Hx as [Hx|Hx]|].
      * apply Hf. exact Hx.
      * apply andb_true_iff in Hx. destruct Hx as [Hx1 Hx2].
        apply (would_down1 p b (b2 :: r2) Ebf (Hf0 Hx1)). lia.
      * eapply attempt1_sound; [exact Hok'|exact Hm'|reflexivity|exact Hx].
Qed.

Lemma grun1_inv : forall p tr w w', invg1 p w -> grun1 p w tr = Some w' -> invg1 p w'.
Proof.
  intros p tr. induction tr as [|e t IH]; intros w w' Hi Hr.
  - injection Hr as <-. exact Hi.
  - cbn [grun1] in Hr. destruct (gstep1 p w e) as [w1|] eqn:Est; [|discriminate].
    apply (IH w1 w'); [eapply gstep1_inv; eassumption|exact Hr].
Qed.

Lemma sound1_tl : forall p b r fl, flags_sound1 p (b :: r) fl ->
  (hd false fl = true -> would_broadcast p (b :: r) = true) /\ flags_sound1 p r (tl fl).
Proof.
  intros p b r fl [[f [fr [-> Hf]]] Hs]. cbn [hd tl] in *. split; assumption.
Qed.

(* the missed-proof expiry on the chain: no flag anywhere on it *)
Lemma missed_no_flag : forall p ch fl,
  chain_okg1 p ch fl -> flags_sound1 p ch fl -> missed_on ch = true -> anyb fl = false.
Proof.
  intros p ch. induction ch as [|b r IH]; intros fl Hok Hfs Hex; [discriminate Hex|].
  destruct (sound1_tl p b r fl Hfs) as [Hhd Hfs']. rewrite anyb_hd_tl.
  cbn [chain_okg1] in Hok. destruct Hok as [Hr [_ [_ [Hmiss _]]]].
  assert (Hres : resolved_on (b :: r) = true).
  { unfold resolved_on. rewrite Hex. apply orb_true_r. }
  assert (Hh : hd false fl = false).
  { destruct (hd false fl); [|reflexivity]. destruct (would_open1 _ _ (Hhd eq_refl)) as [_ [Hn _]]. congruence. }
  rewrite Hh. cbn [orb]. rewrite missed_cons in Hex.
  destruct (b_missed b) eqn:Ee.
  - destruct (Hmiss eq_refl) as [_ [_ [_ Hz]]]. exact Hz.
  - cbn [orb] in Hex. apply (IH _ Hr Hfs' Hex).
Qed.

(* a flag on the chain and the tip at or past the window end: the proof is on the chain *)
Lemma flag_proves : forall p ch fl,
  (p_ws p < p_we p)%N -> chain_okg1 p ch fl -> flags_sound1 p ch fl ->
  anyb fl = true -> (p_we p <= tip ch)%N -> proof_on ch = true.
Proof.
  intros p ch. induction ch as [|b r IH]; intros fl Hw Hok Hfs Hany Ht.
  - cbn [flags_sound1] in Hfs. subst fl. discriminate Hany.
  - destruct (sound1_tl p b r fl Hfs) as [Hhd Hfs']. rewrite anyb_hd_tl in Hany.
    pose proof Hok as Hok0. cbn [chain_okg1] in Hok. destruct Hok as [Hr [Hform [_ [Hmiss Hdead]]]].
    assert (Hh : hd false fl = false).
    { destruct (hd false fl); [|reflexivity]. destruct (would_open1 _ _ (Hhd eq_refl)) as [_ [_ [_ [Hlt _]]]]. lia. }
    rewrite Hh in Hany. cbn [orb] in Hany.
    rewrite proof_cons. rewrite tip_cons in *.
    assert (Hnm : b_missed b = false).
    { destruct (b_missed b) eqn:Em; [|reflexivity]. destruct (Hmiss eq_refl) as [_ [_ [_ Hz]]]. congruence. }
    destruct (N.eq_dec (tip r + 1) (p_we p)) as [Heq|Hne].
    + destruct (resolved_on r) eqn:Er.
      * unfold resolved_on in Er. destruct (missed_on r) eqn:Ex.
        -- rewrite (missed_no_flag p r _ Hr Hfs' Ex) in Hany. discriminate Hany.
        -- rewrite orb_false_r in Er. rewrite Er. apply orb_true_r.
      * assert (Hf : formed_on r = true).
        { clear - Hany Hfs'. revert Hany Hfs'. generalize (tl fl). induction r as [|b2 r2 IH2]; intros l Hany Hfs.
          - cbn [flags_sound1] in Hfs. subst l. discriminate Hany.
          - destruct (sound1_tl p b2 r2 l Hfs) as [Hhd2 Hfs2]. rewrite anyb_hd_tl in Hany.
            destruct (hd false l) eqn:Eh.
            + destruct (would_open1 _ _ (Hhd2 eq_refl)) as [Hf _]. exact Hf.
            + cbn [orb] in Hany. rewrite formed_cons. rewrite (IH2 _ Hany Hfs2). apply orb_true_r. }
        destruct (Hdead Heq Hf eq_refl) as [Hp|Hp]; [rewrite Hp; reflexivity|congruence].
    + rewrite (IH (tl fl)); try assumption; [apply orb_true_r|lia].
Qed.

(** * Theorems *)
Lemma failed_no_attempt1_inv : forall p w c,
  invg1 p w -> row w = Ok c ->
  c1_contract_status c = Failed1 -> anyb (sent w) = false /\ missed_on (chain w) = true.
Proof.
  intros p w c [Hok [[c0 [Hrow0 Hm]] Hfs]] Hrow Hst.
  rewrite Hrow in Hrow0. injection Hrow0 as <-.
  destruct Hm as [_ [_ [_ [_ [_ [_ [Hun [Hopen [Hpr Hmi]]]]]]]]].
  assert (Hx : missed_on (chain w) = true).
  { destruct (formed_on (chain w)) eqn:Ef.
    - destruct (resolved_on (chain w)) eqn:Er.
      + unfold resolved_on in Er. destruct (proof_on (chain w)) eqn:Ep; [destruct (Hpr eq_refl eq_refl); congruence|exact Er].
      + destruct (Hopen eq_refl eq_refl); congruence.
    - destruct (Hun eq_refl) as [[Hs|Hs] _]; congruence. }
  split; [|exact Hx]. eapply missed_no_flag; eassumption.
Qed.

Theorem g1_failed_no_attempt : forall p tr w c,
  grun1 p (init_world p) tr = Some w -> row w = Ok c ->
  c1_contract_status c = Failed1 -> anyb (sent w) = false /\ missed_on (chain w) = true.
Proof.
  intros p tr w c Hrun. apply (failed_no_attempt1_inv p). exact (grun1_inv p tr _ w (invg1_init p) Hrun).
Qed.

Theorem g1_ends_successful : forall p tr w,
  (p_ws p < p_we p)%N ->
  grun1 p (init_world p) tr = Some w -> anyb (sent w) = true ->
  exists c, row w = Ok c /\ c1_contract_status c <> Failed1 /\
            ((p_we p <= tip (chain w))%N -> c1_contract_status c = Successful1).
Proof.
  intros p tr w Hw Hrun Hany.
  pose proof (grun1_inv p tr _ w (invg1_init p) Hrun) as Hi. pose proof Hi as [Hok [[c [Hrow Hm]] Hfs]].
  exists c. split; [exact Hrow|]. split.
  - intro Hst. destruct (failed_no_attempt1_inv p w c Hi Hrow Hst) as [Hn _]. congruence.
  - intro Ht. pose proof (flag_proves p _ _ Hw Hok Hfs Hany Ht) as Hp.
    assert (Hf : formed_on (chain w) = true).
    { apply (resolved_formed_g p _ _ Hok). unfold resolved_on. rewrite Hp. reflexivity. }
    destruct Hm as [_ [_ [_ [_ [_ [_ [_ [_ [Hpr _]]]]]]]]]. apply (Hpr Hf Hp).
Qed.

Theorem g1_retry_every_pass : forall p tr w b ok lag w',
  p_benefit p = true -> p_held p = true ->
  grun1 p (init_world p) tr = Some w -> gstep1 p w (G1Mine b (Pass ok lag)) = Some w' ->
  formed_on (chain w') = true -> resolved_on (chain w') = false ->
  (p_ws p <= tip (chain w'))%N -> (tip (chain w') < p_we p)%N ->
  hd false (sent w') = ok && (tip (chain w') + lag <? p_we p)%N.
Proof.
  intros p tr w b ok lag w' Hbe Hh Hrun Hstep Hf Hr Hlo Hhi.
  pose proof (grun1_inv p tr _ w (invg1_init p) Hrun) as Hi.
  destruct (gstep1_inv p w _ w' Hi Hstep) as [Hok' [[c' [Hrow' Hm']] _]].
  cbn [gstep1] in Hstep. destruct (env_ok p w b); cbn [negb] in Hstep; [|discriminate].
  injection Hstep as <-. cbn [chain row sent hd] in *. rewrite Hrow'. cbn [attempt1].
  rewrite <- (tip_cons b (chain w)). rewrite (broadcast_agrees_g p _ _ c' Hok' Hm').
  unfold would_broadcast. rewrite Hf, Hr, Hbe, Hh.
  replace (p_ws p <=? tip (b :: chain w))%N with true by lia.
  replace (tip (b :: chain w) <? p_we p)%N with true by lia. reflexivity.
Qed.

(* witnesses, window [3,5) of Liveness.p_demo *)
Definition g1p (a : pact) (b : blk) : gstep1e := G1Mine b a.
Definition blk_missed : blk := {| b_form := false; b_rev := None; b_proof := false; b_missed := true |}.
Definition g1_all_attempts_fail : list gstep1e :=
  [g1p ok0 blk_form; g1p ok0 blk0; g1p (Pass false 0) blk0; g1p (Pass false 0) blk0; g1p ok0 blk_missed].
Definition g1_second_attempt_succeeds : list gstep1e :=
  [g1p ok0 blk_form; g1p ok0 blk0; g1p (Pass false 0) blk0; g1p ok0 blk0; g1p ok0 blk_proof; g1p ok0 blk0].
Definition g1_window_skipped : list gstep1e :=
  [g1p ok0 blk_form; g1p ok0 blk0; g1p NoPass blk0; g1p NoPass blk0; g1p ok0 blk_missed].
Definition status1_after (p : params) (tr : list gstep1e) : option st1 :=
  match grun1 p (init_world p) tr with
  | Some w => match row w with Ok c => Some (c1_contract_status c) | _ => None end
  | None => None
  end.
