(* Actions/FundingLiveness.v — the link between the funding step (Funding.v) and the lifecycle
   model of one v2 contract (Liveness2.v).

   Liveness2.step2 records "the host broadcast a proof at this tip" as soon as the proof is
   selected and can be built; its fairness clause ("no expiration on a branch on which the
   host broadcast") therefore ASSUMED that every selected proof reaches the pool.  Here the
   contracts of one host advance together (one chain event each per step, the schedule of
   each still checked by Liveness2.env_ok2 inside step2), the proofs selected at the new tip
   go through ONE pass over the host's wallet at that tip, and a contract's flag is recorded
   only if its proof was funded ([step2f]).  With enough confirmed outputs at every pass the
   run IS the family of Liveness2 runs — the assumption is derived from the wallet condition —
   and every contract ends successful; without it a flag stays false, the fairness clause no
   longer protects the contract, and Funding.fblock shows how it ends. *)
From Coq Require Import Lia ZifyBool ZifyN ZifyNat.
From HostdBase Require Import Base.
From HostdActions Require Import Rows SqlSem Queries Model Proofs Liveness2 Funding FundingProofs.

(* the proof of the contract is selected at the tip of w' (generated predicate) and can be built *)
Definition selected2 (p : params2) (w' : world2) : bool :=
  match row2 w' with Ok c => host_broadcasts2 p c (tip2 (chain2 w')) | _ => false end.

(* the flag the position had before the step *)
Definition prev_flag (w : world2) (e : estep2) : bool :=
  match e with
  | Mine2 _ => false
  | Revert2 => match sent2 w with _ :: s :: _ => s | _ => false end
  end.

Definition patch (w' : world2) (funded old : bool) : world2 :=
  match sent2 w' with
  | s :: t => {| chain2 := chain2 w'; row2 := row2 w'; sent2 := (if funded then s else old) :: t |}
  | [] => w'
  end.

(* Liveness2.step2 with the assumption made explicit *)
Definition step2f (p : params2) (w : world2) (e : estep2) (funded : bool) : option world2 :=
  option_map (fun w' => patch w' funded (prev_flag w e)) (step2 p w e).

Definition mworld := list (params2 * world2).

(* every contract takes its chain event (None: a schedule outside env_ok2, or a length mismatch) *)
Fixpoint advance (m : mworld) (es : list estep2) : option (list (params2 * world2 * estep2 * world2)) :=
  match m, es with
  | [], [] => Some []
  | (p, w) :: r, e :: t =>
      match step2 p w e, advance r t with
      | Some w', Some l => Some ((p, w, e, w') :: l)
      | _, _ => None
      end
  | _, _ => None
  end.

Definition sel_flags (l : list (params2 * world2 * estep2 * world2)) : list bool :=
  map (fun x => selected2 (fst (fst (fst x))) (snd x)) l.

Fixpoint sel_ids (i : nat) (sel : list bool) : list N :=
  match sel with
  | [] => []
  | b :: r => if b then N.of_nat i :: sel_ids (S i) r else sel_ids (S i) r
  end.

(* the flags of the pass, handed back to the selected contracts; a contract without a selected
   proof has nothing to fund *)
Fixpoint scatter (sel fl : list bool) : list bool :=
  match sel with
  | [] => []
  | true :: r => match fl with f :: t => f :: scatter r t | [] => false :: scatter r [] end
  | false :: r => true :: scatter r fl
  end.

Fixpoint apply_flags (l : list (params2 * world2 * estep2 * world2)) (fs : list bool) : mworld :=
  match l, fs with
  | (p, w, e, w') :: r, f :: t => (p, patch w' f (prev_flag w e)) :: apply_flags r t
  | (p, w, e, w') :: r, [] => (p, patch w' false (prev_flag w e)) :: apply_flags r []
  | [], _ => []
  end.

(* one step of the host: the chain events, then one pass of ProcessActions over [wal] *)
Definition mstep (g : wcfg) (fee : N) (m : mworld) (es : list estep2) (wal : wallet) : option mworld :=
  match advance m es with
  | None => None
  | Some l =>
      let sel := sel_flags l in
      let acts := mk_actions KProof2 fee (fun _ => true) (sel_ids 0 sel) in
      Some (apply_flags l (scatter sel (snd (pass g false wal acts))))
  end.

(* the same without a wallet: the contracts of Liveness2, side by side *)
Definition pstep (m : mworld) (es : list estep2) : option mworld :=
  option_map (map (fun x => (fst (fst (fst x)), snd x))) (advance m es).

Fixpoint mrun (g : wcfg) (fee : N) (m : mworld) (tr : list (list estep2 * wallet)) : option mworld :=
  match tr with
  | [] => Some m
  | (es, wal) :: t => match mstep g fee m es wal with Some m' => mrun g fee m' t | None => None end
  end.

(* the wallet condition, at every pass of the run *)
Fixpoint enough (g : wcfg) (fee : N) (m : mworld) (tr : list (list estep2 * wallet)) : Prop :=
  match tr with
  | [] => True
  | (es, wal) :: t =>
      match advance m es with
      | None => True
      | Some l =>
          (count_true (sel_flags l) <= nconf wal /\ rich fee wal /\ nconf wal <= g_threshold g) /\
          match mstep g fee m es wal with Some m' => enough g fee m' t | None => True end
      end
  end.

(** * Proofs *)
Lemma patch_true : forall w' old, patch w' true old = w'.
Proof. intros [ch r s] old. unfold patch. cbn [sent2 chain2 row2]. destruct s; reflexivity. Qed.

Lemma step2f_true : forall p w e, step2f p w e true = step2 p w e.
Proof.
  intros p w e. unfold step2f. destruct (step2 p w e) as [w'|]; [|reflexivity].
  cbn [option_map]. rewrite patch_true. reflexivity.
Qed.

Lemma sel_ids_length : forall sel i, List.length (sel_ids i sel) = count_true sel.
Proof.
  induction sel as [|b r IH]; intros i; [reflexivity|]. cbn [sel_ids count_true].
  destruct b; cbn [List.length]; rewrite IH; reflexivity.
Qed.

Lemma scatter_all : forall sel, scatter sel (repeat true (count_true sel)) = repeat true (List.length sel).
Proof.
  induction sel as [|b r IH]; [reflexivity|]. destruct b; cbn [count_true scatter List.length repeat Nat.add].
  - rewrite IH. reflexivity.
  - rewrite IH. reflexivity.
Qed.

Lemma apply_flags_all : forall l,
  apply_flags l (repeat true (List.length l)) = map (fun x => (fst (fst (fst x)), snd x)) l.
Proof.
  induction l as [|[[[p w] e] w'] r IH]; [reflexivity|].
  cbn [List.length repeat apply_flags map fst snd]. rewrite patch_true, IH. reflexivity.
Qed.

(* enough confirmed outputs: the pass funds every selected proof, the step is Liveness2's *)
Lemma mstep_enough : forall g fee m es wal l,
  (0 < fee)%N -> advance m es = Some l ->
  count_true (sel_flags l) <= nconf wal -> rich fee wal -> nconf wal <= g_threshold g ->
  mstep g fee m es wal = pstep m es.
Proof.
  intros g fee m es wal l Hfee Hadv Hcnt Hrich Hthr. unfold mstep, pstep. rewrite Hadv. cbn [option_map]. f_equal.
  set (sel := sel_flags l).
  set (acts := mk_actions KProof2 fee (fun _ : N => true) (sel_ids 0 sel)).
  assert (Hlen : List.length acts = count_true sel) by (unfold acts, mk_actions; rewrite map_length; apply sel_ids_length).
  destruct (pass_exact g fee acts wal) as [Hfl _].
  - intros a Ha. unfold acts, mk_actions in Ha. apply in_map_iff in Ha. destruct Ha as [id [<- _]].
    repeat split; [exact Hfee|cbn; lia].
  - exact Hrich.
  - exact Hthr.
  - rewrite Hfl, Hlen. fold sel in Hcnt.
    replace (Nat.min (nconf wal) (count_true sel)) with (count_true sel) by lia.
    replace (count_true sel - nconf wal) with 0 by lia. cbn [repeat]. rewrite app_nil_r, scatter_all.
    unfold sel, sel_flags. rewrite map_length. apply apply_flags_all.
Qed.

Fixpoint prun (m : mworld) (tr : list (list estep2 * wallet)) : option mworld :=
  match tr with
  | [] => Some m
  | (es, _) :: t => match pstep m es with Some m' => prun m' t | None => None end
  end.

Lemma mrun_enough : forall g fee tr m,
  (0 < fee)%N -> enough g fee m tr -> mrun g fee m tr = prun m tr.
Proof.
  intros g fee tr. induction tr as [|[es wal] t IH]; intros m Hfee He; [reflexivity|].
  cbn [mrun prun enough] in *. destruct (advance m es) as [l|] eqn:Ea.
  - destruct He as [[Hc [Hr Ht]] Hrest].
    rewrite (mstep_enough g fee m es wal l Hfee Ea Hc Hr Ht) in *.
    destruct (pstep m es) as [m'|]; [apply IH; assumption|reflexivity].
  - unfold mstep, pstep. rewrite Ea. reflexivity.
Qed.

Lemma run2_app : forall p t1 t2 w,
  run2 p w (t1 ++ t2) = match run2 p w t1 with Some w1 => run2 p w1 t2 | None => None end.
Proof.
  intros p t1. induction t1 as [|e t IH]; intros t2 w; [reflexivity|].
  cbn [app run2]. destruct (step2 p w e); [apply IH|reflexivity].
Qed.

(* reachable in Liveness2 *)
Definition reach2 (pw : params2 * world2) : Prop :=
  exists tr, run2 (fst pw) (init_world2 (fst pw)) tr = Some (snd pw).

Lemma advance_reach : forall m es l, advance m es = Some l -> Forall reach2 m ->
  Forall reach2 (map (fun x => (fst (fst (fst x)), snd x)) l).
Proof.
  induction m as [|[p w] r IH]; intros es l Ha Hm; destruct es as [|e t]; cbn [advance] in Ha; try discriminate.
  - injection Ha as <-. constructor.
  - destruct (step2 p w e) as [w'|] eqn:Es; [|discriminate].
    destruct (advance r t) as [l'|] eqn:Er; [|discriminate]. injection Ha as <-.
    inversion Hm as [|x y Hx Hy]; subst. cbn [map fst snd]. constructor; [|eapply IH; eassumption].
    destruct Hx as [tr Htr]. unfold reach2. cbn [fst snd] in *. exists (tr ++ [e]).
    rewrite run2_app, Htr. cbn [run2]. rewrite Es. reflexivity.
Qed.

Lemma prun_reach : forall tr m m', prun m tr = Some m' -> Forall reach2 m -> Forall reach2 m'.
Proof.
  induction tr as [|[es wal] t IH]; intros m m' Hr Hm; cbn [prun] in Hr.
  - injection Hr as <-. exact Hm.
  - unfold pstep in Hr. destruct (advance m es) as [l|] eqn:Ea; [|discriminate]. cbn [option_map] in Hr.
    eapply IH; [exact Hr|]. eapply advance_reach; eassumption.
Qed.

Definition start (ps : list params2) : mworld := map (fun p => (p, init_world2 p)) ps.

(* C06, last sentence, for the contracts of one host over its wallet: with enough confirmed
   outputs at every pass every contract whose data is held ends successful, never failed *)
Theorem v2_all_end_successful_funded : forall g fee ps tr m,
  (0 < fee)%N ->
  enough g fee (start ps) tr ->
  mrun g fee (start ps) tr = Some m ->
  Forall (fun pw => (q_ph (fst pw) < q_eh (fst pw))%N -> q_held (fst pw) = true ->
            exists c, row2 (snd pw) = Ok c /\ c2_contract_status c <> Failed2 /\
              (formed2 (chain2 (snd pw)) = true -> (q_eh (fst pw) <= tip2 (chain2 (snd pw)))%N ->
               c2_contract_status c = Successful2 \/ c2_contract_status c = Renewed2)) m.
Proof.
  intros g fee ps tr m Hfee He Hr. rewrite (mrun_enough g fee tr _ Hfee He) in Hr.
  assert (Hs : Forall reach2 (start ps)).
  { unfold start. apply Forall_forall. intros pw Hpw. apply in_map_iff in Hpw. destruct Hpw as [p [<- _]].
    exists []. reflexivity. }
  pose proof (prun_reach tr _ _ Hr Hs) as Hm. eapply Forall_impl; [|exact Hm].
  intros [p w] [trp Htr] Hw Hh. cbn [fst snd] in *. exact (v2_ends_successful p trp w Hw Hh Htr).
Qed.

(* the run with the wallet is, contract by contract, a run of Liveness2 *)
Theorem funded_runs_are_liveness_runs : forall g fee ps tr m,
  (0 < fee)%N -> enough g fee (start ps) tr -> mrun g fee (start ps) tr = Some m ->
  Forall reach2 m.
Proof.
  intros g fee ps tr m Hfee He Hr. rewrite (mrun_enough g fee tr _ Hfee He) in Hr.
  eapply prun_reach; [exact Hr|]. unfold start. apply Forall_forall. intros pw Hpw.
  apply in_map_iff in Hpw. destruct Hpw as [p [<- _]]. exists []. reflexivity.
Qed.

(* and without the wallet condition a selected proof stays out of the pool: two contracts, one
   output — the second contract's flag is false although its proof is selected and its data held *)
Definition p2_shared : params2 :=
  {| q_ph := 2; q_eh := 4; q_neg := 0; q_rev0 := 1; q_rb := 18; q_benefit := true; q_held := true |}.
Definition two_contracts_one_output : option mworld :=
  mrun default_cfg 10 (start [p2_shared; p2_shared])
    [([Mine2 d_formed; Mine2 d_formed], [{| u_value := 1000; u_conf := true |}]);
     ([Mine2 d0; Mine2 d0], [{| u_value := 1000; u_conf := true |}])].

(** the wallet condition is decidable on a concrete run (used by the non-vacuity example) *)
Definition richb (B : N) (w : wallet) : bool := forallb (fun u => implb (u_conf u) (B <=? u_value u)%N) w.

Fixpoint enoughb (g : wcfg) (fee : N) (m : mworld) (tr : list (list estep2 * wallet)) : bool :=
  match tr with
  | [] => true
  | (es, wal) :: t =>
      match advance m es with
      | None => true
      | Some l =>
          (count_true (sel_flags l) <=? nconf wal)%nat && richb fee wal && (nconf wal <=? g_threshold g)%nat &&
          match mstep g fee m es wal with Some m' => enoughb g fee m' t | None => true end
      end
  end.

Lemma richb_rich : forall B w, richb B w = true -> rich B w.
Proof.
  intros B w H. unfold richb in H. rewrite forallb_forall in H. apply Forall_forall. intros u Hu Hc.
  specialize (H u Hu). rewrite Hc in H. cbn [implb] in H. lia.
Qed.

Lemma enoughb_enough : forall g fee tr m, enoughb g fee m tr = true -> enough g fee m tr.
Proof.
  intros g fee tr. induction tr as [|[es wal] t IH]; intros m H; [exact I|].
  cbn [enoughb enough] in *. destruct (advance m es) as [l|]; [|exact I].
  apply andb_prop in H. destruct H as [H H4]. apply andb_prop in H. destruct H as [H H3].
  apply andb_prop in H. destruct H as [H1 H2].
  split; [split; [apply Nat.leb_le; exact H1|split; [apply richb_rich; exact H2|apply Nat.leb_le; exact H3]]|].
  destruct (mstep g fee m es wal) as [m'|]; [apply IH; exact H4|exact I].
Qed.
