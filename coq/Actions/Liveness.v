(* Actions/Liveness.v — the "consequently" sentence of C06 for a v1 contract:

     a contract whose data the host holds ends successful, never failed, for every reorg
     history that keeps its formation on the best chain.

   A world is the best chain as seen through one contract (per block: was the formation /
   a revision / a storage proof / the missed-proof expiry of this contract in it), the
   host's row for the contract, and per block whether the host handed a storage proof to
   the pool when it processed that block as tip.  The environment mines a block or reverts
   the tip; after either the host updates the row exactly as persist/sqlite/consensus.go
   does (ApplyContracts / RevertContracts in their statement order, buildContractState's
   mapping of an expiry to failed/successful, RejectContracts) and then runs
   ProcessActions at the new tip: it broadcasts a proof iff the *generated* selection
   predicate q_proofContracts holds of the row, the proof benefits the host and the data is
   held (buildStorageProof succeeds).

   The resolution reverts (revertSuccessfulContracts / revertFailedContracts) are modelled
   as they are since /repo commit 694d73f "reverting a contract resolution restores the
   active status" (status back to active, resolution height NULL; before it they failed /
   did nothing — property C01's finding).  The row updates are replayed against a real host
   node by the end-to-end harness (harness/overlay/host/contracts/verif_c06_e2e_test.go
   through LivenessCorr.v); the v2 twin of this file is Liveness2.v.

   Hypotheses on the schedule, all explicit in [env_ok]:
     consensus   a formation is mined at most once and not after window_start; a proof or an
                 expiry only for a formed, unresolved contract; an expiry not before
                 window_end; at height window_end an unresolved contract is resolved (by a
                 proof or by the expiry);
     fairness    the contract is not expired as missed on a branch on which the host has
                 broadcast a storage proof while processing a tip of that branch
                 ("a proof broadcast inside the window is confirmed before the window ends");
     liveness    the host processes every block (mined or reverted-to) before the next event;
     formation   the block holding the formation is never reverted.
   What this does not cover (partial): batches of several blocks processed at once; funding/pool failures of the proof transaction; the validity of the proof
   itself (core's).
   The premise behind [p_held] and the fairness clause (WP-G): the proof the host builds — from its stored
   root list — is a proof of the revision the CHAIN holds when the window opens.  The row's revision number
   is constant here (no revision is accepted during a run); for runs with revisions the premise is
   discharged in coq/Roots (Props_C06_Guard.v: c06_stored_root_is_confirmable — the stored list is the one
   of a revision accepted at a tip h with h + buffer <= window_start, or of the formation — and
   c06_guarded_revision_confirmed_by_window — such a revision, re-broadcast by the selection rule
   q_broadcastRevision of this group, is on chain from the block before the window on, under the same
   fairness for revisions).  It was false for the code before /repo's fix "a v1 contract is not revised once
   its latest revision can no longer be confirmed" (fixes/C06-revise-guard-at-commit.patch): an RHP2 session
   keeps its lock across blocks and the guard was evaluated at lock acquisition only
   (c06_guard_at_lock_only_refuted, c06_unguarded_revision_never_confirmed_refuted; harness
   TestVerifC06HeldLock, monitors revision-accepted-after-last-confirmable-height and
   contract-with-held-data-failed). *)
From Coq Require Import Lia ZifyBool ZifyN ZifyNat.
From HostdBase Require Import Base.
From HostdActions Require Import Rows SqlSem Queries Model Proofs.

Record params := {
  p_ws : N; p_we : N; p_neg : N; p_rev0 : N;
  p_rb : N;              (* reject buffer *)
  p_benefit : bool;      (* valid host payout exceeds the missed one *)
  p_held : bool          (* the host holds the contract's data: the proof can be built *)
}.

Record blk := { b_form : bool; b_rev : option N; b_proof : bool; b_missed : bool }.

Definition tip (ch : list blk) : N := N.of_nat (List.length ch).
Definition formed_on (ch : list blk) : bool := existsb b_form ch.
Definition proof_on (ch : list blk) : bool := existsb b_proof ch.
Definition missed_on (ch : list blk) : bool := existsb b_missed ch.
Definition resolved_on (ch : list blk) : bool := proof_on ch || missed_on ch.
Fixpoint last_rev (ch : list blk) : N :=
  match ch with
  | [] => 0
  | b :: r => match b_rev b with Some n => n | None => last_rev r end
  end.

(** * The host's row updates (persist/sqlite/consensus.go) *)
Definition set_status (c : v1row) (formed : bool) (s : st1) (res : option N) : v1row :=
  {| c1_contract_id := c1_contract_id c; c1_formation_confirmed := formed; c1_contract_status := s;
     c1_revision_number := c1_revision_number c;
     c1_confirmed_revision_number := c1_confirmed_revision_number c;
     c1_resolution_height := res; c1_negotiation_height := c1_negotiation_height c;
     c1_window_start := c1_window_start c; c1_window_end := c1_window_end c;
     c1_proof_benefit := c1_proof_benefit c |}.

Definition set_conf_rev (c : v1row) (n : N) : v1row :=
  {| c1_contract_id := c1_contract_id c; c1_formation_confirmed := c1_formation_confirmed c;
     c1_contract_status := c1_contract_status c; c1_revision_number := c1_revision_number c;
     c1_confirmed_revision_number := Some n;
     c1_resolution_height := c1_resolution_height c;
     c1_negotiation_height := c1_negotiation_height c;
     c1_window_start := c1_window_start c; c1_window_end := c1_window_end c;
     c1_proof_benefit := c1_proof_benefit c |}.

(* applyContractFormation: pending/rejected -> active, otherwise skipped *)
Definition apply_form (c : v1row) : res v1row :=
  match c1_contract_status c with
  | Pending1 | Rejected1 => Ok (set_status c true Active1 (c1_resolution_height c))
  | _ => Ok c
  end.
(* applySuccessfulContracts *)
Definition apply_success (H : N) (c : v1row) : res v1row :=
  match c1_contract_status c with
  | Successful1 => Ok c
  | Active1 | Failed1 => Ok (set_status c (c1_formation_confirmed c) Successful1 (Some H))
  | _ => Panic
  end.
(* applyFailedContracts *)
Definition apply_failed (c : v1row) : res v1row :=
  match c1_contract_status c with
  | Failed1 => Ok c
  | Active1 | Successful1 => Ok (set_status c (c1_formation_confirmed c) Failed1 None)
  | _ => Panic
  end.
(* revertContractFormation *)
Definition revert_form (c : v1row) : res v1row :=
  match c1_contract_status c with
  | Active1 => Ok (set_status c false Pending1 (c1_resolution_height c))
  | _ => Panic
  end.
(* revertSuccessfulContracts / revertFailedContracts, as repaired by the C01 patch *)
Definition revert_success (c : v1row) : res v1row :=
  match c1_contract_status c with
  | Successful1 => Ok (set_status c (c1_formation_confirmed c) Active1 None)
  | _ => Panic
  end.
Definition revert_failed (c : v1row) : res v1row :=
  match c1_contract_status c with
  | Failed1 => Ok (set_status c (c1_formation_confirmed c) Active1 None)
  | _ => Panic
  end.
(* rejectContracts + RejectContracts: selected iff not rejected, unconfirmed and negotiated
   before the bound; a selected contract must be pending *)
Definition reject (bound : N) (c : v1row) : res v1row :=
  if negb (st1_eqb (c1_contract_status c) Rejected1) && negb (c1_formation_confirmed c)
     && (c1_negotiation_height c <? bound)%N
  then match c1_contract_status c with
       | Pending1 => Ok (set_status c (c1_formation_confirmed c) Rejected1 (c1_resolution_height c))
       | _ => Panic
       end
  else Ok c.

Definition when {A} (b : bool) (f : A -> res A) (a : A) : res A := if b then f a else Ok a.

(* Manager.UpdateChainState for one applied block at height H: buildContractState maps a
   proof to Successful, an expiry to Successful when the missed payout is not below the
   valid one and to Failed otherwise; ApplyContracts runs formation, revision, successful,
   failed; then RejectContracts(H - rejectBuffer) when H >= rejectBuffer *)
Definition apply_block (p : params) (H : N) (b : blk) (c : v1row) : res v1row :=
  do c1 <- when (b_form b) apply_form c;
  do c2 <- Ok (match b_rev b with Some n => set_conf_rev c1 n | None => c1 end);
  do c3 <- when (b_proof b || (b_missed b && negb (p_benefit p))) (apply_success H) c2;
  do c4 <- when (b_missed b && p_benefit p) apply_failed c3;
  if (p_rb p <=? H)%N then reject (H - p_rb p) c4 else Ok c4.

(* one reverted block; [prev] = the revision number on chain before it *)
Definition revert_block (p : params) (b : blk) (prev : N) (c : v1row) : res v1row :=
  do c1 <- when (b_form b) revert_form c;
  do c2 <- Ok (match b_rev b with Some _ => set_conf_rev c1 prev | None => c1 end);
  do c3 <- when (b_proof b || (b_missed b && negb (p_benefit p))) revert_success c2;
  when (b_missed b && p_benefit p) revert_failed c3.

(* ProcessActions at tip h hands a storage proof for the contract to the pool *)
Definition host_broadcasts (p : params) (c : v1row) (h : N) : bool :=
  q_proofContracts c h && c1_proof_benefit c && p_held p.

(** * Worlds and schedules *)
Record world := {
  chain : list blk;       (* newest block first; the block at the head has height [tip chain] *)
  row : res v1row;        (* Panic = the host crashed *)
  sent : list bool        (* per block of [chain]: proof broadcast when it was processed as tip *)
}.

Definition init_row (p : params) : v1row :=
  {| c1_contract_id := 0; c1_formation_confirmed := false; c1_contract_status := Pending1;
     c1_revision_number := p_rev0 p; c1_confirmed_revision_number := Some 0%N;
     c1_resolution_height := None; c1_negotiation_height := p_neg p;
     c1_window_start := p_ws p; c1_window_end := p_we p; c1_proof_benefit := p_benefit p |}.
Definition init_world (p : params) : world := {| chain := []; row := Ok (init_row p); sent := [] |}.

Inductive estep := Mine (b : blk) | Revert.

(* the schedule hypotheses for mining block [b] on top of [w] *)
Definition env_ok (p : params) (w : world) (b : blk) : bool :=
  let ch := chain w in
  let H := (tip ch + 1)%N in
  let open := formed_on ch && negb (resolved_on ch) in
  (* consensus *)
  implb (b_form b) (negb (formed_on ch) && (H <=? p_ws p)%N) &&
  implb (b_proof b) (open && negb (b_missed b)) &&
  implb (b_missed b) (open && (p_we p <=? H)%N) &&
  implb ((H =? p_we p)%N && open) (b_proof b || b_missed b) &&
  (* fairness *)
  implb (b_missed b) (negb (existsb (fun x => x) (sent w))).

Definition step (p : params) (w : world) (e : estep) : option world :=
  match e with
  | Mine b =>
      if negb (env_ok p w b) then None
      else let H := (tip (chain w) + 1)%N in
           let r := bind (row w) (apply_block p H b) in
           Some {| chain := b :: chain w; row := r;
                   sent := match r with Ok c => host_broadcasts p c H | _ => false end :: sent w |}
  | Revert =>
      match chain w, sent w with
      | b :: rest, _ :: srest =>
          if b_form b then None   (* the formation stays on the best chain *)
          else let r := bind (row w) (revert_block p b (last_rev rest)) in
               Some {| chain := rest; row := r;
                       sent := match srest with
                               | s :: t => (s || match r with Ok c => host_broadcasts p c (tip rest) | _ => false end) :: t
                               | [] => []
                               end |}
      | _, _ => None
      end
  end.

Fixpoint run (p : params) (w : world) (tr : list estep) : option world :=
  match tr with
  | [] => Some w
  | e :: t => match step p w e with Some w' => run p w' t | None => None end
  end.

(** * Chain-determined view *)
Definition would_broadcast (p : params) (ch : list blk) : bool :=
  formed_on ch && negb (resolved_on ch) && (p_ws p <=? tip ch)%N && (tip ch <? p_we p)%N
  && p_benefit p && p_held p.

Fixpoint sent_of (p : params) (ch : list blk) : list bool :=
  match ch with
  | [] => []
  | b :: r => would_broadcast p ch :: sent_of p r
  end.

(* the row agrees with the chain *)
Definition row_matches (p : params) (ch : list blk) (c : v1row) : Prop :=
  c1_formation_confirmed c = formed_on ch /\
  c1_window_start c = p_ws p /\ c1_window_end c = p_we p /\ c1_proof_benefit c = p_benefit p /\
  c1_negotiation_height c = p_neg p /\
  c1_confirmed_revision_number c = Some (last_rev ch) /\
  (formed_on ch = false ->
     (c1_contract_status c = Pending1 \/ c1_contract_status c = Rejected1) /\ c1_resolution_height c = None) /\
  (formed_on ch = true -> resolved_on ch = false ->
     c1_contract_status c = Active1 /\ c1_resolution_height c = None) /\
  (formed_on ch = true -> proof_on ch = true ->
     c1_contract_status c = Successful1 /\ is_some (c1_resolution_height c) = true) /\
  (formed_on ch = true -> missed_on ch = true ->
     if p_benefit p then c1_contract_status c = Failed1 /\ c1_resolution_height c = None
     else c1_contract_status c = Successful1 /\ is_some (c1_resolution_height c) = true).

(* structure every reachable chain has *)
Fixpoint chain_ok (p : params) (ch : list blk) : Prop :=
  match ch with
  | [] => True
  | b :: r =>
      chain_ok p r /\
      (b_form b = true -> formed_on r = false /\ (tip ch <= p_ws p)%N) /\
      (b_proof b = true -> formed_on r = true /\ resolved_on r = false /\ b_missed b = false) /\
      (b_missed b = true -> formed_on r = true /\ resolved_on r = false /\ (p_we p <= tip ch)%N
                            /\ existsb (fun x => x) (sent_of p r) = false) /\
      (tip ch = p_we p -> formed_on r = true -> resolved_on r = false -> b_proof b = true \/ b_missed b = true)
  end.

Lemma tip_cons : forall b r, tip (b :: r) = (tip r + 1)%N.
Proof. intros. unfold tip. cbn [List.length]. lia. Qed.

Lemma resolved_cons : forall b r, resolved_on (b :: r) = b_proof b || b_missed b || resolved_on r.
Proof. intros. unfold resolved_on, proof_on, missed_on. cbn [existsb]. destruct (b_proof b), (b_missed b), (existsb b_proof r); reflexivity. Qed.

Lemma formed_cons : forall b r, formed_on (b :: r) = b_form b || formed_on r.
Proof. reflexivity. Qed.

(* an open contract inside its window has a broadcast on record *)
Lemma sent_of_open : forall p ch,
  p_benefit p = true -> p_held p = true ->
  formed_on ch = true -> resolved_on ch = false -> (p_ws p <= tip ch)%N -> (tip ch < p_we p)%N ->
  existsb (fun x => x) (sent_of p ch) = true.
Proof.
  intros p ch Hb Hh Hf Hr Hws Hwe. destruct ch as [|b r].
  - discriminate Hf.
  - cbn [sent_of existsb]. unfold would_broadcast. rewrite Hf, Hr, Hb, Hh.
    replace (p_ws p <=? tip (b :: r))%N with true by lia.
    replace (tip (b :: r) <? p_we p)%N with true by lia. reflexivity.
Qed.

(* past the window a formed contract is resolved on chain *)
Lemma resolved_after_window : forall p ch,
  (p_ws p < p_we p)%N -> chain_ok p ch ->
  formed_on ch = true -> (p_we p <= tip ch)%N -> resolved_on ch = true.
Proof.
  intros p ch Hw. induction ch as [|b r IH]; intros Hok Hf Ht.
  - discriminate Hf.
  - cbn [chain_ok] in Hok. destruct Hok as [Hr [Hform [Hproof [Hmiss Hdead]]]].
    rewrite resolved_cons. rewrite formed_cons in Hf. rewrite tip_cons in *.
    destruct (b_form b) eqn:Ef.
    + destruct (Hform eq_refl) as [_ Hle]. lia.
    + cbn [orb] in Hf. destruct (resolved_on r) eqn:Er; [apply orb_true_r|].
      destruct (N.eq_dec (tip r + 1) (p_we p)) as [Heq|Hne].
      * destruct (Hdead Heq Hf eq_refl) as [Hp|Hm]; rewrite ?Hp, ?Hm; cbn; try reflexivity.
        destruct (b_proof b); reflexivity.
      * assert (Hres : false = true) by (apply IH; [exact Hr|exact Hf|lia]). discriminate Hres.
Qed.

(* with a benefit and the data held no reachable chain contains the missed-proof expiry *)
Lemma never_missed : forall p ch,
  (p_ws p < p_we p)%N -> p_benefit p = true -> p_held p = true ->
  chain_ok p ch -> missed_on ch = false.
Proof.
  intros p ch Hw Hb Hh. induction ch as [|b r IH]; intros Hok.
  - reflexivity.
  - cbn [chain_ok] in Hok. destruct Hok as [Hr [Hform [Hproof [Hmiss Hdead]]]].
    unfold missed_on. cbn [existsb]. fold (missed_on r). rewrite (IH Hr).
    destruct (b_missed b) eqn:Em; [|reflexivity]. exfalso.
    destruct (Hmiss eq_refl) as [Hf [Hres [Hle Hsent]]]. rewrite tip_cons in Hle.
    destruct (N.lt_ge_cases (tip r) (p_we p)) as [Hlt|Hge].
    + assert (Hs : existsb (fun x => x) (sent_of p r) = true).
      { apply sent_of_open; try assumption.
        (* formation was mined at a height <= ws <= tip r *) lia. }
      congruence.
    + assert (resolved_on r = true) by (apply (resolved_after_window p); assumption). congruence.
Qed.

Lemma missed_tip : forall p ch, chain_ok p ch -> missed_on ch = true -> (p_we p <= tip ch)%N.
Proof.
  intros p ch. induction ch as [|b r IH]; intros Hok Hm.
  - discriminate Hm.
  - cbn [chain_ok] in Hok. destruct Hok as [Hr [_ [_ [Hmiss _]]]].
    unfold missed_on in Hm. cbn [existsb] in Hm. rewrite tip_cons.
    destruct (b_missed b) eqn:Em.
    + destruct (Hmiss eq_refl) as [_ [_ [Hle _]]]. rewrite tip_cons in Hle. exact Hle.
    + cbn [orb] in Hm. specialize (IH Hr Hm). lia.
Qed.

Lemma resolved_formed : forall p ch, chain_ok p ch -> resolved_on ch = true -> formed_on ch = true.
Proof.
  intros p ch. induction ch as [|b r IH]; intros Hok Hres.
  - discriminate Hres.
  - cbn [chain_ok] in Hok. destruct Hok as [Hr [_ [Hproof [Hmiss _]]]].
    rewrite resolved_cons in Hres. rewrite formed_cons.
    destruct (b_proof b) eqn:Ep.
    + destruct (Hproof eq_refl) as [Hf _]. rewrite Hf. apply orb_true_r.
    + destruct (b_missed b) eqn:Em.
      * destruct (Hmiss eq_refl) as [Hf _]. rewrite Hf. apply orb_true_r.
      * cbn [orb] in Hres. rewrite (IH Hr Hres). apply orb_true_r.
Qed.

(* the host's decision at the tip is determined by the chain *)
Lemma broadcast_agrees : forall p ch c,
  chain_ok p ch -> row_matches p ch c -> host_broadcasts p c (tip ch) = would_broadcast p ch.
Proof.
  intros p ch c Hok [Hf [Hws [Hwe [Hben [_ [_ [Hun [Hopen [Hpr Hmi]]]]]]]]].
  unfold host_broadcasts, would_broadcast. rewrite q_proof_spec. unfold spec_proof.
  rewrite Hf, Hws, Hwe, Hben.
  destruct (formed_on ch) eqn:Ef; [|reflexivity].
  destruct (resolved_on ch) eqn:Er.
  - unfold resolved_on in Er. destruct (proof_on ch) eqn:Ep.
    + destruct (Hpr eq_refl eq_refl) as [_ Hs]. rewrite Hs. reflexivity.
    + cbn [orb] in Er. pose proof (missed_tip p ch Hok Er) as Hle.
      replace (tip ch <? p_we p)%N with false by lia.
      rewrite !andb_false_r. reflexivity.
  - destruct (Hopen eq_refl eq_refl) as [_ Hn]. rewrite Hn. reflexivity.
Qed.

Lemma last_rev_cons : forall b r, last_rev (b :: r) = match b_rev b with Some n => n | None => last_rev r end.
Proof. reflexivity. Qed.

Lemma proof_cons : forall b r, proof_on (b :: r) = b_proof b || proof_on r.
Proof. reflexivity. Qed.
Lemma missed_cons : forall b r, missed_on (b :: r) = b_missed b || missed_on r.
Proof. reflexivity. Qed.

Ltac row_fields :=
  cbn [set_status set_conf_rev c1_contract_id c1_formation_confirmed c1_contract_status
       c1_revision_number c1_confirmed_revision_number c1_resolution_height
       c1_negotiation_height c1_window_start c1_window_end c1_proof_benefit] in *.

(* applying a block keeps the row in agreement with the chain, and never panics *)
Lemma apply_block_matches : forall p ch b c,
  chain_ok p (b :: ch) -> row_matches p ch c ->
  exists c', apply_block p (tip (b :: ch)) b c = Ok c' /\ row_matches p (b :: ch) c'.
Proof.
  intros p ch b c Hok Hm.
  cbn [chain_ok] in Hok. destruct Hok as [Hr [Hform [Hproof [Hmiss Hdead]]]].
  destruct Hm as [Hf [Hws [Hwe [Hben [Hneg [Hcr [Hun [Hopen [Hpr Hmi]]]]]]]]].
  destruct c as [cid cformed cst crev cconf cres cneg cws cwe cben]. row_fields. subst.
  destruct b as [bf br bp bm]. cbn [b_form b_rev b_proof b_missed] in *.
  unfold row_matches, apply_block, when.
  rewrite formed_cons, resolved_cons, proof_cons, missed_cons, last_rev_cons.
  cbn [b_form b_rev b_proof b_missed].
  assert (Hresform : resolved_on ch = true -> formed_on ch = true) by (apply (resolved_formed p); exact Hr).
  assert (Hpm : proof_on ch = true -> missed_on ch = true -> False).
  { intros Hp Hm'. clear - Hr Hp Hm'. induction ch as [|b r IH]; [discriminate|].
    cbn [chain_ok] in Hr. destruct Hr as [Hr' [_ [Hpf [Hmf _]]]].
    rewrite proof_cons in Hp. rewrite missed_cons in Hm'.
    destruct (b_proof b) eqn:Ep.
    - destruct (Hpf eq_refl) as [_ [Hres Hbm]]. rewrite Hbm in Hm'. cbn [orb] in Hm'.
      unfold resolved_on in Hres. rewrite Hm' in Hres. rewrite orb_true_r in Hres. discriminate.
    - cbn [orb] in Hp. destruct (b_missed b) eqn:Em.
      + destruct (Hmf eq_refl) as [_ [Hres _]]. unfold resolved_on in Hres. rewrite Hp in Hres. discriminate.
      + cbn [orb] in Hm'. exact (IH Hr' Hp Hm'). }
  unfold resolved_on in *.
  destruct (formed_on ch) eqn:Ef; destruct (proof_on ch) eqn:Ep; destruct (missed_on ch) eqn:Emi;
    cbn [orb andb negb] in *;
    try (exfalso; apply Hpm; reflexivity);
    try (specialize (Hresform eq_refl); discriminate).
  all: destruct bf, bp, bm; cbn [orb andb negb] in *.
  all: try (destruct (Hform eq_refl) as [Hx1 Hx2]; try discriminate Hx1).
  all: try (destruct (Hproof eq_refl) as [Hy1 [Hy2 Hy3]]; try discriminate Hy1; try discriminate Hy2; try discriminate Hy3).
  all: try (destruct (Hmiss eq_refl) as [Hz1 [Hz2 [Hz3 Hz4]]]; try discriminate Hz1; try discriminate Hz2).
  all: try (destruct (Hun eq_refl) as [Hs Hres0]; rewrite Hres0 in *).
  all: try (destruct (Hopen eq_refl eq_refl) as [Hs Hres0]; rewrite Hs, Hres0 in *).
  all: try (destruct (Hpr eq_refl eq_refl) as [Hs Hres0]; rewrite Hs in *).
  all: try (specialize (Hmi eq_refl eq_refl)).
  all: destruct (p_benefit p) eqn:Eb; try (destruct Hmi as [Hs Hres0]; rewrite Hs in *).
  all: try (destruct Hs as [Hs|Hs]; rewrite Hs in *).
  all: cbn [orb andb negb apply_form apply_success apply_failed bind set_status c1_contract_status
            c1_formation_confirmed c1_resolution_height].
  all: destruct br as [n|]; row_fields.
  all: unfold reject; row_fields; cbn [st1_eqb negb andb].
  all: repeat match goal with |- context [if ?x then _ else _] => destruct x eqn:? end.
  all: row_fields; eexists; (split; [reflexivity|]); row_fields.
  all: repeat split; try reflexivity; try discriminate; try (intros; discriminate); auto.
Qed.

(* reverting the tip block (not the formation) restores agreement with the shorter chain *)
Lemma revert_block_matches : forall p ch b c,
  chain_ok p (b :: ch) -> b_form b = false -> row_matches p (b :: ch) c ->
  exists c', revert_block p b (last_rev ch) c = Ok c' /\ row_matches p ch c'.
Proof.
  intros p ch b c Hok Hbf Hm.
  cbn [chain_ok] in Hok. destruct Hok as [Hr [Hform [Hproof [Hmiss Hdead]]]].
  destruct Hm as [Hf [Hws [Hwe [Hben [Hneg [Hcr [Hun [Hopen [Hpr Hmi]]]]]]]]].
  destruct c as [cid cformed cst crev cconf cres cneg cws cwe cben]. row_fields. subst.
  destruct b as [bf br bp bm]. cbn [b_form b_rev b_proof b_missed] in *. subst bf.
  unfold row_matches, revert_block, when.
  rewrite formed_cons, resolved_cons, proof_cons, missed_cons, last_rev_cons in *.
  cbn [b_form b_rev b_proof b_missed] in *.
  unfold resolved_on in *.
  destruct (formed_on ch) eqn:Ef; destruct (proof_on ch) eqn:Ep; destruct (missed_on ch) eqn:Emi;
    cbn [orb andb negb] in *.
  all: destruct bp, bm; cbn [orb andb negb] in *.
  all: try (destruct (Hproof eq_refl) as [Hy1 [Hy2 Hy3]]; try discriminate Hy1; try discriminate Hy2; try discriminate Hy3).
  all: try (destruct (Hmiss eq_refl) as [Hz1 [Hz2 [Hz3 Hz4]]]; try discriminate Hz1; try discriminate Hz2).
  all: try (destruct (Hun eq_refl) as [Hs Hres0]; rewrite Hres0 in *).
  all: try (destruct (Hopen eq_refl eq_refl) as [Hs Hres0]; rewrite Hs, Hres0 in *).
  all: try (destruct (Hpr eq_refl eq_refl) as [Hs Hres0]; rewrite Hs in *).
  all: try (specialize (Hmi eq_refl eq_refl)).
  all: destruct (p_benefit p) eqn:Eb; try (destruct Hmi as [Hs Hres0]; rewrite Hs in *).
  all: try (destruct Hs as [Hs|Hs]; rewrite Hs in *).
  all: cbn [orb andb negb revert_form revert_success revert_failed bind set_status c1_contract_status
            c1_formation_confirmed c1_resolution_height].
  all: destruct br as [n|]; row_fields.
  all: row_fields; eexists; (split; [reflexivity|]); row_fields.
  all: repeat split; try reflexivity; try discriminate; try (intros; discriminate); auto.
  all: try (destruct Hmi as [X _]; discriminate X).
Qed.

(** * The simulation invariant *)
Definition inv (p : params) (w : world) : Prop :=
  chain_ok p (chain w) /\
  (exists c, row w = Ok c /\ row_matches p (chain w) c) /\
  sent w = sent_of p (chain w).

Lemma inv_init : forall p, inv p (init_world p).
Proof.
  intros p. unfold inv, init_world. cbn [chain row sent chain_ok sent_of]. split; [exact I|]. split; [|reflexivity].
  exists (init_row p). split; [reflexivity|].
  unfold row_matches, init_row. row_fields. cbn [formed_on resolved_on proof_on missed_on existsb last_rev orb].
  repeat split; try reflexivity; try discriminate; auto.
Qed.

Lemma env_ok_chain : forall p w b,
  sent w = sent_of p (chain w) -> chain_ok p (chain w) -> env_ok p w b = true -> chain_ok p (b :: chain w).
Proof.
  intros p w b Hs Hok He. unfold env_ok in He. rewrite Hs in He.
  cbn [chain_ok]. rewrite tip_cons.
  destruct (b_form b), (b_proof b), (b_missed b), (formed_on (chain w)), (resolved_on (chain w)),
    (existsb (fun x => x) (sent_of p (chain w)));
    cbn [implb andb orb negb] in He; try discriminate He;
    repeat split; try assumption; try reflexivity; try (intros; discriminate); try (intros; lia);
    try (intros; auto; fail).
  all: try (intros; first [left; reflexivity | right; reflexivity]).
  all: try (intro Heq; intros; exfalso; rewrite <- N.eqb_eq in Heq; rewrite Heq in He; cbn in He;
            repeat rewrite ?andb_false_r, ?andb_true_r in He; discriminate He).
Qed.

Lemma step_inv : forall p w e w', inv p w -> step p w e = Some w' -> inv p w'.
Proof.
  intros p w e w' [Hok [[c [Hrow Hm]] Hs]] Hstep. destruct e as [b|].
  - (* Mine *)
    cbn [step] in Hstep. destruct (env_ok p w b) eqn:He; cbn [negb] in Hstep; [|discriminate].
    injection Hstep as <-.
    pose proof (env_ok_chain p w b Hs Hok He) as Hok'.
    destruct (apply_block_matches p (chain w) b c Hok' Hm) as [c' [Hap Hm']].
    rewrite (tip_cons b (chain w)) in Hap.
    unfold inv. cbn [chain row sent]. rewrite Hrow. cbn [bind]. rewrite Hap.
    split; [exact Hok'|]. split; [exists c'; split; [reflexivity|exact Hm']|].
    cbn [sent_of]. rewrite Hs. f_equal.
    rewrite <- (tip_cons b (chain w)). apply broadcast_agrees; assumption.
  - (* Revert *)
    cbn [step] in Hstep. destruct (chain w) as [|b rest] eqn:Ech; [discriminate|].
    destruct (sent w) as [|s0 srest] eqn:Es; [discriminate|].
    destruct (b_form b) eqn:Ebf; [discriminate|]. injection Hstep as <-.
    destruct (revert_block_matches p rest b c Hok Ebf Hm) as [c' [Hrv Hm']].
    cbn [chain_ok] in Hok. destruct Hok as [Hok' _].
    unfold inv. cbn [chain row sent]. rewrite Hrow. cbn [bind]. rewrite Hrv.
    split; [exact Hok'|]. split; [exists c'; split; [reflexivity|exact Hm']|].
    cbn [sent_of] in Hs. injection Hs as _ Hs. subst srest.
    destruct rest as [|b2 r2]; [reflexivity|].
    cbn [sent_of]. f_equal.
    rewrite (broadcast_agrees p (b2 :: r2) c' Hok' Hm'). apply orb_diag.
Qed.

Lemma run_inv : forall p tr w w', inv p w -> run p w tr = Some w' -> inv p w'.
Proof.
  intros p tr. induction tr as [|e t IH]; intros w w' Hi Hr.
  - injection Hr as <-. exact Hi.
  - cbn [run] in Hr. destruct (step p w e) as [w1|] eqn:Est; [|discriminate].
    apply (IH w1 w'); [eapply step_inv; eassumption|exact Hr].
Qed.

(* C06, last sentence, v1: for every schedule meeting the hypotheses of [env_ok] and every
   point of it, the host has not crashed, the contract is not failed, and once the chain
   has reached window_end with the formation on it the contract is successful. *)
Theorem v1_ends_successful : forall p tr w,
  (p_ws p < p_we p)%N -> p_held p = true ->
  run p (init_world p) tr = Some w ->
  exists c, row w = Ok c /\
            c1_contract_status c <> Failed1 /\
            (formed_on (chain w) = true -> (p_we p <= tip (chain w))%N ->
             c1_contract_status c = Successful1).
Proof.
  intros p tr w Hw Hh Hrun.
  destruct (run_inv p tr _ w (inv_init p) Hrun) as [Hok [[c [Hrow Hm]] _]].
  exists c. split; [exact Hrow|].
  destruct Hm as [_ [_ [_ [_ [_ [_ [Hun [Hopen [Hpr Hmi]]]]]]]]].
  assert (Hnm : p_benefit p = true -> missed_on (chain w) = false)
    by (intro Hb; apply (never_missed p); assumption).
  split.
  - intro Hfail. destruct (formed_on (chain w)) eqn:Ef.
    + destruct (resolved_on (chain w)) eqn:Er.
      * unfold resolved_on in Er. destruct (proof_on (chain w)) eqn:Ep.
        -- destruct (Hpr eq_refl eq_refl) as [Hs _]. congruence.
        -- cbn [orb] in Er. specialize (Hmi eq_refl Er). destruct (p_benefit p) eqn:Eb.
           ++ rewrite (Hnm eq_refl) in Er. discriminate.
           ++ destruct Hmi as [Hs _]. congruence.
      * destruct (Hopen eq_refl eq_refl) as [Hs _]. congruence.
    + destruct (Hun eq_refl) as [[Hs|Hs] _]; congruence.
  - intros Hf Hle. pose proof (resolved_after_window p (chain w) Hw Hok Hf Hle) as Hres.
    unfold resolved_on in Hres. destruct (proof_on (chain w)) eqn:Ep.
    + destruct (Hpr Hf eq_refl) as [Hs _]. exact Hs.
    + cbn [orb] in Hres. specialize (Hmi Hf Hres). destruct (p_benefit p) eqn:Eb.
      * rewrite (Hnm eq_refl) in Hres. discriminate.
      * destruct Hmi as [Hs _]. exact Hs.
Qed.

(* the host does its part: whenever it processes a tip inside the window with the contract
   formed and unresolved on that chain, a proof goes out (so the fairness hypothesis is
   about the network, not about the host) *)
Theorem v1_host_broadcasts_in_window : forall p tr w,
  p_benefit p = true -> p_held p = true ->
  run p (init_world p) tr = Some w ->
  formed_on (chain w) = true -> resolved_on (chain w) = false ->
  (p_ws p <= tip (chain w))%N -> (tip (chain w) < p_we p)%N ->
  exists rest, sent w = true :: rest.
Proof.
  intros p tr w Hb Hh Hrun Hf Hr Hws Hwe.
  destruct (run_inv p tr _ w (inv_init p) Hrun) as [_ [_ Hs]].
  rewrite Hs. destruct (chain w) as [|b r] eqn:Ech; [discriminate Hf|].
  cbn [sent_of]. exists (sent_of p r). f_equal.
  unfold would_broadcast. rewrite Hf, Hr, Hb, Hh.
  replace (p_ws p <=? tip (b :: r))%N with true by lia.
  replace (tip (b :: r) <? p_we p)%N with true by lia. reflexivity.
Qed.

(* the hypotheses are needed: without the fairness clause a schedule exists in which the
   host broadcasts in the window and the contract still fails *)
Definition p_demo : params :=
  {| p_ws := 3; p_we := 5; p_neg := 0; p_rev0 := 1; p_rb := 18; p_benefit := true; p_held := true |}.
Definition blk0 : blk := {| b_form := false; b_rev := None; b_proof := false; b_missed := false |}.
Definition blk_form : blk := {| b_form := true; b_rev := None; b_proof := false; b_missed := false |}.
Definition blk_proof : blk := {| b_form := false; b_rev := None; b_proof := true; b_missed := false |}.
Definition demo_schedule : list estep :=
  [Mine blk_form; Mine blk0; Mine blk0; Mine blk_proof; Revert; Mine blk0; Mine blk_proof; Mine blk0].

(* every row the lifecycle produces satisfies the invariant wf1 the selection theorems assume *)
Lemma v1_rows_wf : forall p tr w,
  run p (init_world p) tr = Some w -> exists c, row w = Ok c /\ wf1 c.
Proof.
  intros p tr w Hrun.
  destruct (run_inv p tr _ w (inv_init p) Hrun) as [_ [[c [Hrow Hm]] _]].
  exists c. split; [exact Hrow|]. destruct Hm as [_ [_ [_ [_ [_ [Hcr _]]]]]].
  unfold wf1. rewrite Hcr. discriminate.
Qed.
