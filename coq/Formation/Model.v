(* Formation/Model.v — contract formation and renewal validation of hostd:
     rhp/v2/contracts.go  validateContractFormation, validateContractRenewal, renewalBaseCosts
     rhp/v3/contracts.go  validateContractRenewal, renewalBaseCosts
     rhp/v2/rpc.go        rpcFormContract, rpcRenewAndClearContract  (decision + recorded figures)
     rhp/v3/rpc.go        handleRPCRenew                              (decision + recorded figures)
   line by line, evaluation order preserved.  Corresponds to the code WITH
   fixes/C07-revision-validation-panics.patch and fixes/C12-renewal-cost-overflow.patch
   (AddWithOverflow/Mul64WithOverflow instead of the panicking Add/Mul64 on renter-influenced
   amounts).  No proofs here.

   A types.FileContract is a [rev] (Revision/Model.v) whose [rother]/[ruc] are unused.
   Addresses and hashes are numbered by the harness; address 0 is types.VoidAddress.
   [uhexp] is the id of contractUnlockConditions(hostKey, renterKey).UnlockHash(), computed by
   the harness with the real function.  uint64 additions wrap (Base.wadd). *)
From HostdBase Require Import Base.
From HostdRevision Require Import Model.
Local Open Scope N_scope.

Definition void_addr : N := 0.

(* the fields of rhp2.HostSettings the code reads *)
Record settings2 := {
  s_accepting : bool;   (* AcceptingContracts *)
  s_address   : N;      (* Address (the host's wallet address) *)
  s_window    : N;      (* WindowSize *)
  s_maxdur    : N;      (* MaxDuration *)
  s_price     : N;      (* ContractPrice *)
  s_maxcoll   : N;      (* MaxCollateral *)
  s_storage   : N;      (* StoragePrice, per byte per block *)
  s_coll      : N;      (* Collateral, per byte per block *)
  s_baserpc   : N       (* BaseRPCPrice *)
}.

(* the fields of rhp3.HostPriceTable the code reads *)
Record ptable := {
  p_height     : N;     (* HostBlockHeight *)
  p_window     : N;     (* WindowSize *)
  p_maxdur     : N;     (* MaxDuration *)
  p_price      : N;     (* ContractPrice *)
  p_maxcoll    : N;     (* MaxCollateral *)
  p_renewcost  : N;     (* RenewContractCost *)
  p_writestore : N;     (* WriteStoreCost *)
  p_collcost   : N      (* CollateralCost *)
}.

(* Currency.Mul64WithOverflow *)
Definition cmul64_o (a b : N) : N * bool := (((a * b) mod two128), (two128 <=? a * b)).

(** * rhp/v2/contracts.go validateContractFormation: returns the host's collateral *)
Definition validate_formation (fc : rev) (uhexp height : N) (s : settings2) : res N :=
  if negb (rsize fc =? 0) then bad else
  if negb (rnum fc =? 0) then bad else
  if negb (rroot fc =? 0) then bad else
  if rws fc <? wadd height (s_window s) then bad else
  if wadd height (s_maxdur s) <? rws fc then bad else
  if rwe fc <? wadd (rws fc) (s_window s) then bad else
  if negb (length (rvalid fc) =? 2)%nat then bad else
  if negb (length (rmissed fc) =? 3)%nat then bad else
  do vho <- nth_out (rvalid fc) 1;
  if negb (oaddr vho =? s_address s) then bad else
  do mho <- nth_out (rmissed fc) 1;
  if negb (oaddr mho =? s_address s) then bad else
  do vo <- nth_out (rmissed fc) 2;
  if negb (oaddr vo =? void_addr) then bad else
  do vo2 <- nth_out (rmissed fc) 2;
  if negb (oval vo2 =? 0) then bad else
  do vh1 <- valid_host fc;
  if vh1 <? s_price s then bad else
  do vh2 <- valid_host fc; do mh2 <- missed_host fc;
  if negb (vh2 =? mh2) then bad else
  do vh3 <- valid_host fc;
  if s_maxcoll s <? vh3 then bad else
  if negb (ruh fc =? uhexp) then bad else
  do vh4 <- valid_host fc;
  csub vh4 (s_price s).

(** * the checks both renewal validators start with *)
Definition renewal_std (ex rn : rev) (uhexp height window maxdur addr : N) : res unit :=
  if negb (rnum rn =? 0) then bad else
  if negb (rsize rn =? rsize ex) then bad else
  if negb (rroot rn =? rroot ex) then bad else
  if rwe rn <? rwe ex then bad else
  if rws rn <? wadd height window then bad else
  if wadd height maxdur <? rws rn then bad else
  if rwe rn <? wadd (rws rn) window then bad else
  if negb (length (rvalid rn) =? 2)%nat then bad else
  if negb (length (rmissed rn) =? 3)%nat then bad else
  do vho <- nth_out (rvalid rn) 1;
  if negb (oaddr vho =? addr) then bad else
  do mho <- nth_out (rmissed rn) 1;
  if negb (oaddr mho =? addr) then bad else
  do vo <- nth_out (rmissed rn) 2;
  if negb (oaddr vo =? void_addr) then bad else
  if negb (ruh rn =? uhexp) then bad else
  Ok tt.

(** * rhp/v2/contracts.go validateContractRenewal:
   returns (storageRevenue, riskedCollateral, lockedCollateral) *)
Definition validate_renewal2 (ex rn : rev) (uhexp baseRev baseRisk height : N) (s : settings2)
  : res (N * N * N) :=
  do _ <- renewal_std ex rn uhexp height (s_window s) (s_maxdur s) (s_address s);
  let '(expectedBurn, ov) := cadd_o baseRev baseRisk in
  if ov then bad else
  do vh1 <- valid_host rn; do mh1 <- missed_host rn;
  let '(hostBurn, uf1) := csub_u vh1 mh1 in
  if uf1 then bad else
  if expectedBurn <? hostBurn then bad else
  do vo <- nth_out (rmissed rn) 2;
  if negb (oval vo =? hostBurn) then bad else
  let '(r0, uf2) := csub_u hostBurn baseRev in
  let risked := if uf2 then 0 else r0 in
  do vh2 <- valid_host rn;
  let '(locked, uf3) := csub_u vh2 baseRev in
  if uf3 then bad else
  if s_maxcoll s <? locked then bad else
  Ok (baseRev, risked, locked).

(** * rhp/v3/contracts.go validateContractRenewal: returns (riskedCollateral, lockedCollateral) *)
Definition validate_renewal3 (ex rn : rev) (uhexp wallet baseRev baseRisk : N) (pt : ptable)
  : res (N * N) :=
  do _ <- renewal_std ex rn uhexp (p_height pt) (p_window pt) (p_maxdur pt) wallet;
  let '(expectedBurn, ov) := cadd_o baseRev baseRisk in
  if ov then bad else
  do vh1 <- valid_host rn; do mh1 <- missed_host rn;
  let '(hostBurn, uf1) := csub_u vh1 mh1 in
  if uf1 then bad else
  if expectedBurn <? hostBurn then bad else
  do vo <- nth_out (rmissed rn) 2;
  if negb (oval vo =? hostBurn) then bad else
  let '(r0, uf2) := csub_u hostBurn baseRev in
  let risked := if uf2 then 0 else r0 in
  let '(minValid, ov2) := cadd_o (p_price pt) baseRev in
  if ov2 then bad else
  do vh2 <- valid_host rn;
  let '(locked, uf3) := csub_u vh2 minValid in
  if uf3 then bad else
  if p_maxcoll pt <? locked then bad else
  (* minMissedPayout := pt.ContractPrice.Add(lockedCollateral).Sub(riskedCollateral) *)
  do t <- cadd (p_price pt) locked;
  do minMissed <- csub t risked;
  do mh2 <- missed_host rn;
  if mh2 <? minMissed then bad else
  Ok (risked, locked).

(** * renewalBaseCosts (both packages): (baseRevenue, baseCollateral) for the data already stored,
   [fixed] = ContractPrice (RHP2) / RenewContractCost (RHP3) *)
Definition base_costs (fixed unit_storage unit_coll : N) (ex rn : rev) : res (N * N) :=
  if rwe rn <=? rwe ex then Ok (fixed, 0) else
  let ext := rwe rn - rwe ex in
  let '(sc1, o1) := cmul64_o unit_storage (rsize rn) in
  if o1 then bad else
  let '(sc2, o2) := cmul64_o sc1 ext in
  if o2 then bad else
  let '(br, o3) := cadd_o fixed sc2 in
  if o3 then bad else
  let '(bc1, o4) := cmul64_o unit_coll (rsize rn) in
  if o4 then bad else
  let '(bc2, o5) := cmul64_o bc1 ext in
  if o5 then bad else
  Ok (br, bc2).

(** * what the handlers record for the contract: contracts.Usage (the categories they set) *)
Record usage := { u_rpc : N; u_storage : N; u_risked : N }.

Inductive outv :=
| OCur (a : N) | OCur2 (a b : N) | OCur3 (a b c : N)
| OForm (locked : N) (initial : usage)                      (* AddContract(rev, txns, locked, initial) *)
| ORenew (locked : N) (clearing renewal : usage).           (* RenewContract(.., locked, clearing, renewal) *)

(** * rhp/v2/rpc.go rpcFormContract, from the decoded request to AddContract.
   [require] = cs.Network.HardforkV2.RequireHeight.  Transaction funding, signatures and
   broadcast are taken to succeed (the harness signs honestly and stubs wallet and chain). *)
Definition form2 (fc : rev) (uhexp height require : N) (s : settings2) : res outv :=
  if require <=? height then bad else                      (* rpcLoop: RHP2 is disabled after the require height *)
  if negb (s_accepting s) then bad else
  if require <=? rws fc then bad else
  do hc <- validate_formation fc uhexp height s;
  Ok (OForm hc {| u_rpc := s_price s; u_storage := 0; u_risked := 0 |}).

(** * rhp/v2/rpc.go rpcRenewAndClearContract, from the decoded request to RenewContract.
   [ex] = s.contract.Revision (a contract is locked), [vals] = req.FinalValidProofValues *)
Definition renew2 (ex : rev) (vals : list N) (rn : rev) (uhexp height require : N) (s : settings2)
  : res outv :=
  if require <=? height then bad else                      (* rpcLoop *)
  if negb (s_accepting s) then bad else
  if rnum ex =? max64 then bad else                        (* ContractRevisable *)
  if require <=? rws rn then bad else
  do clr <- clearing_revision ex vals;
  do evr <- valid_renter ex;
  let expected := if evr <? s_baserpc s then evr else s_baserpc s in
  do finalPayment <- validate_clearing ex clr expected;
  do bc <- base_costs (s_price s) (s_storage s) (s_coll s) ex rn;
  do r <- validate_renewal2 ex rn uhexp (fst bc) (snd bc) height s;
  let '(br, risked, locked) := r in
  do st <- csub br (s_price s);
  Ok (ORenew locked {| u_rpc := finalPayment; u_storage := 0; u_risked := 0 |}
                    {| u_rpc := s_price s; u_storage := st; u_risked := risked |}).

(** * rhp/v3/rpc.go handleRPCRenew, from the decoded request to RenewContract.
   [ex] = the locked contract's revision, [clr] = the renter's clearing revision,
   [wallet] = sh.wallet.Address(); the price table is the one the host hands out *)
Definition renew3 (accepting : bool) (ex clr rn : rev) (uhexp wallet require : N) (pt : ptable)
  : res outv :=
  if negb accepting then bad else
  if require <=? rws rn then bad else
  do finalPayment <- validate_clearing ex clr 0;
  do bc <- base_costs (p_renewcost pt) (p_writestore pt) (p_collcost pt) ex rn;
  do r <- validate_renewal3 ex rn uhexp wallet (fst bc) (snd bc) pt;
  let '(risked, locked) := r in
  Ok (ORenew locked {| u_rpc := finalPayment; u_storage := 0; u_risked := 0 |}
                    {| u_rpc := p_price pt; u_storage := fst bc; u_risked := risked |}).

(** * correspondence entry point *)
Inductive fcall :=
| CForm (fc : rev) (uhexp height : N) (s : settings2)
| CRenew2 (ex rn : rev) (uhexp baseRev baseRisk height : N) (s : settings2)
| CRenew3 (ex rn : rev) (uhexp wallet baseRev baseRisk : N) (pt : ptable)
| HForm2 (fc : rev) (uhexp height require : N) (s : settings2)
| HRenew2 (ex : rev) (vals : list N) (rn : rev) (uhexp height require : N) (s : settings2)
| HRenew3 (accepting : bool) (ex clr rn : rev) (uhexp wallet require : N) (pt : ptable).

Definition frun (c : fcall) : res outv :=
  match c with
  | CForm fc u h s => do x <- validate_formation fc u h s; Ok (OCur x)
  | CRenew2 ex rn u br bk h s =>
      do x <- validate_renewal2 ex rn u br bk h s;
      let '(a, b, c) := x in Ok (OCur3 a b c)
  | CRenew3 ex rn u w br bk pt =>
      do x <- validate_renewal3 ex rn u w br bk pt; Ok (OCur2 (fst x) (snd x))
  | HForm2 fc u h rq s => form2 fc u h rq s
  | HRenew2 ex vals rn u h rq s => renew2 ex vals rn u h rq s
  | HRenew3 acc ex clr rn u w rq pt => renew3 acc ex clr rn u w rq pt
  end.

(* short constructors for the recorded cases *)
Definition S2 (acc : bool) (addr window maxdur price maxcoll storage coll baserpc : N) : settings2 :=
  {| s_accepting := acc; s_address := addr; s_window := window; s_maxdur := maxdur; s_price := price;
     s_maxcoll := maxcoll; s_storage := storage; s_coll := coll; s_baserpc := baserpc |}.
Definition PT (height window maxdur price maxcoll renewcost writestore collcost : N) : ptable :=
  {| p_height := height; p_window := window; p_maxdur := maxdur; p_price := price; p_maxcoll := maxcoll;
     p_renewcost := renewcost; p_writestore := writestore; p_collcost := collcost |}.
Definition U (rpc storage risked : N) : usage := {| u_rpc := rpc; u_storage := storage; u_risked := risked |}.

Definition usage_eqb (a b : usage) : bool :=
  (u_rpc a =? u_rpc b) && (u_storage a =? u_storage b) && (u_risked a =? u_risked b).
Definition foutv_eqb (a b : outv) : bool :=
  match a, b with
  | OCur x, OCur y => x =? y
  | OCur2 x1 x2, OCur2 y1 y2 => (x1 =? y1) && (x2 =? y2)
  | OCur3 x1 x2 x3, OCur3 y1 y2 y3 => (x1 =? y1) && (x2 =? y2) && (x3 =? y3)
  | OForm l u, OForm l' u' => (l =? l') && usage_eqb u u'
  | ORenew l c r, ORenew l' c' r' => (l =? l') && usage_eqb c c' && usage_eqb r r'
  | _, _ => false
  end.

Definition fcase := (N * fcall * res outv)%type.
Definition fcheck (cs : list fcase) := fmismatches frun (res_eqb foutv_eqb) cs.
