(* C12 — Accepted formations and renewals respect the host's settings.
   Statements only; every proof is [exact lemma].  Model: Formation/Model.v = rhp/v2/contracts.go,
   rhp/v3/contracts.go and the decision/recording part of rpcFormContract,
   rpcRenewAndClearContract (rhp/v2/rpc.go) and handleRPCRenew (rhp/v3/rpc.go), WITH
   fixes/C07-revision-validation-panics.patch and fixes/C12-renewal-cost-overflow.patch.

   Vocabulary (Formation/Proofs.v, Revision/Proofs.v):
     vh/mh/mvoid r   host valid / host missed / void payout (outputs 1 / 1 / 2)
     terms_ok fc height window maxdur addr :=
          height + window <= rws fc            window starts no sooner than the window size ...
       /\ rws fc <= height + maxdur            ... and no later than the maximum duration from the height
       /\ rws fc + window <= rwe fc            and is at least the window size long
       /\ shape23 fc                           2 valid / 3 missed outputs
       /\ addr_at (rvalid fc) 1 = addr /\ addr_at (rmissed fc) 1 = addr   host payouts to the wallet address
       /\ addr_at (rmissed fc) 2 = void_addr   third missed output to the void address
     nowrap height window maxdur := height + window < 2^64 /\ height + maxdur + window < 2^64
     ext_cost unit ex rn := 0 if rwe rn <= rwe ex, else unit * rsize rn * (rwe rn - rwe ex)
     inrange r       every output value < 2^128 (types.Currency is 128 bit)
     [a - b] on N is truncated at 0.

   Readings.  (1) The code computes height+window etc. in uint64; the model wraps likewise
   (Base.wadd).  The lower bound and the window length are stated for hosts whose own settings do
   not wrap around 2^64 ([nowrap]: all three operands are the host's, not the renter's); the upper
   bound is shown for ALL settings (c12_*_window_start_upper_any_settings).  (2) "the host's
   collateral does not exceed the configured maximum": the collateral is the locked collateral the
   validator returns (formation: the code even bounds the whole host payout by MaxCollateral).
   (3) "from the current height": RHP2 measures from the chain tip, RHP3 from the HostBlockHeight
   of the price table the renewal is negotiated under (the prices and height "in force").
   (4) "the base storage revenue of renewed data" is what the handlers compute: price * size *
   extension of the proof window (plus the fixed RenewContractCost in RHP3). *)
From HostdBase Require Import Base.
From HostdRevision Require Import Model Proofs.
From HostdFormation Require Import Model Proofs ProofsGen.
From HostdFormation.gen Require Import FormationGen.
From HostdFormation Require Legacy.
Local Open Scope N_scope.

(** validators *)

Theorem c12_formation_sound : forall fc uhexp height s hc,
  nowrap height (s_window s) (s_maxdur s) ->
  validate_formation fc uhexp height s = Ok hc ->
  terms_ok fc height (s_window s) (s_maxdur s) (s_address s) /\
  rsize fc = 0 /\ rnum fc = 0 /\ rroot fc = 0 /\ ruh fc = uhexp /\
  mvoid fc = 0 /\ vh fc = mh fc /\
  s_price s <= vh fc /\ vh fc <= s_maxcoll s /\
  hc = vh fc - s_price s /\ hc <= s_maxcoll s.
Proof. exact validate_formation_sound. Qed.
Print Assumptions c12_formation_sound.

Theorem c12_renewal2_sound : forall ex rn uhexp baseRev baseRisk height s sr risked locked,
  nowrap height (s_window s) (s_maxdur s) -> inrange rn ->
  validate_renewal2 ex rn uhexp baseRev baseRisk height s = Ok (sr, risked, locked) ->
  terms_ok rn height (s_window s) (s_maxdur s) (s_address s) /\
  rnum rn = 0 /\ rsize rn = rsize ex /\ rroot rn = rroot ex /\ rwe ex <= rwe rn /\ ruh rn = uhexp /\
  mh rn <= vh rn /\ vh rn - mh rn <= baseRev + baseRisk /\ mvoid rn = vh rn - mh rn /\
  sr = baseRev /\ baseRev <= vh rn /\ locked = vh rn - baseRev /\ locked <= s_maxcoll s /\
  risked = (vh rn - mh rn) - baseRev.
Proof. exact validate_renewal2_sound. Qed.
Print Assumptions c12_renewal2_sound.

Theorem c12_renewal3_sound : forall ex rn uhexp wallet baseRev baseRisk pt risked locked,
  nowrap (p_height pt) (p_window pt) (p_maxdur pt) -> inrange rn ->
  validate_renewal3 ex rn uhexp wallet baseRev baseRisk pt = Ok (risked, locked) ->
  terms_ok rn (p_height pt) (p_window pt) (p_maxdur pt) wallet /\
  rnum rn = 0 /\ rsize rn = rsize ex /\ rroot rn = rroot ex /\ rwe ex <= rwe rn /\ ruh rn = uhexp /\
  mh rn <= vh rn /\ vh rn - mh rn <= baseRev + baseRisk /\ mvoid rn = vh rn - mh rn /\
  p_price pt + baseRev <= vh rn /\ locked = vh rn - (p_price pt + baseRev) /\ locked <= p_maxcoll pt /\
  risked = (vh rn - mh rn) - baseRev /\
  p_price pt + locked - risked <= mh rn.
Proof. exact validate_renewal3_sound. Qed.
Print Assumptions c12_renewal3_sound.

(* the upper bound on the window start holds whatever the settings are *)
Theorem c12_formation_window_start_upper_any_settings : forall fc uhexp height s hc,
  validate_formation fc uhexp height s = Ok hc -> rws fc <= height + s_maxdur s.
Proof. exact validate_formation_upper. Qed.
Print Assumptions c12_formation_window_start_upper_any_settings.

Theorem c12_renewal2_window_start_upper_any_settings : forall ex rn uhexp baseRev baseRisk height s x,
  validate_renewal2 ex rn uhexp baseRev baseRisk height s = Ok x -> rws rn <= height + s_maxdur s.
Proof. exact validate_renewal2_upper. Qed.
Print Assumptions c12_renewal2_window_start_upper_any_settings.

Theorem c12_renewal3_window_start_upper_any_settings : forall ex rn uhexp wallet baseRev baseRisk pt x,
  validate_renewal3 ex rn uhexp wallet baseRev baseRisk pt = Ok x -> rws rn <= p_height pt + p_maxdur pt.
Proof. exact validate_renewal3_upper. Qed.
Print Assumptions c12_renewal3_window_start_upper_any_settings.

(* accepted formations and renewals establish the shape C07 assumes of stored contracts *)
Theorem c12_formation_establishes_shape : forall fc uhexp height s hc other uc,
  validate_formation fc uhexp height s = Ok hc ->
  shape23 fc /\ shape23 (initial_revision fc other uc).
Proof. exact formation_establishes_shape. Qed.
Print Assumptions c12_formation_establishes_shape.

Theorem c12_renewal2_establishes_shape : forall ex rn uhexp baseRev baseRisk height s x other uc,
  validate_renewal2 ex rn uhexp baseRev baseRisk height s = Ok x ->
  shape23 rn /\ shape23 (initial_revision rn other uc).
Proof. exact renewal2_establishes_shape. Qed.
Print Assumptions c12_renewal2_establishes_shape.

Theorem c12_renewal3_establishes_shape : forall ex rn uhexp wallet baseRev baseRisk pt x other uc,
  validate_renewal3 ex rn uhexp wallet baseRev baseRisk pt = Ok x ->
  shape23 rn /\ shape23 (initial_revision rn other uc).
Proof. exact renewal3_establishes_shape. Qed.
Print Assumptions c12_renewal3_establishes_shape.

(* no candidate (any output counts, any values, any settings) makes validation panic *)
Theorem c12_formation_no_panic : forall fc uhexp height s,
  validate_formation fc uhexp height s <> Panic.
Proof. exact validate_formation_no_panic. Qed.
Print Assumptions c12_formation_no_panic.

Theorem c12_renewal2_no_panic : forall ex rn uhexp baseRev baseRisk height s,
  validate_renewal2 ex rn uhexp baseRev baseRisk height s <> Panic.
Proof. exact validate_renewal2_no_panic. Qed.
Print Assumptions c12_renewal2_no_panic.

Theorem c12_renewal3_no_panic : forall ex rn uhexp wallet baseRev baseRisk pt,
  inrange rn ->
  validate_renewal3 ex rn uhexp wallet baseRev baseRisk pt <> Panic.
Proof. exact validate_renewal3_no_panic. Qed.
Print Assumptions c12_renewal3_no_panic.

(** handlers: what is recorded for the contract (AddContract / RenewContract arguments) *)

Theorem c12_form2_records : forall fc uhexp height require s o,
  nowrap height (s_window s) (s_maxdur s) ->
  form2 fc uhexp height require s = Ok o ->
  exists locked u, o = OForm locked u /\
  height < require /\ rws fc < require /\ s_accepting s = true /\
  terms_ok fc height (s_window s) (s_maxdur s) (s_address s) /\
  s_price s <= vh fc /\ locked <= s_maxcoll s /\
  locked = vh fc - s_price s /\ u = mkU (s_price s) 0 0 /\
  vh fc = locked + u_rpc u + u_storage u.
Proof. exact form2_sound. Qed.
Print Assumptions c12_form2_records.

Theorem c12_renew2_records : forall ex vals rn uhexp height require s o,
  nowrap height (s_window s) (s_maxdur s) ->
  inrange rn -> inrange ex -> Forall (fun v => v < two128) vals ->
  renew2 ex vals rn uhexp height require s = Ok o ->
  exists locked cu ru clr, o = ORenew locked cu ru /\
  height < require /\ rws rn < require /\ s_accepting s = true /\ rnum ex <> max64 /\
  clearing_revision ex vals = Ok clr /\ cleared ex clr (N.min (vr ex) (s_baserpc s)) /\
  cu = mkU (vh clr - vh ex) 0 0 /\
  terms_ok rn height (s_window s) (s_maxdur s) (s_address s) /\
  rnum rn = 0 /\ rsize rn = rsize ex /\ rroot rn = rroot ex /\ rwe ex <= rwe rn /\ ruh rn = uhexp /\
  s_price s + ext_cost (s_storage s) ex rn <= vh rn /\
  locked <= s_maxcoll s /\
  mh rn <= vh rn /\ mvoid rn = vh rn - mh rn /\
  vh rn - mh rn <= s_price s + ext_cost (s_storage s) ex rn + ext_cost (s_coll s) ex rn /\
  locked = vh rn - (s_price s + ext_cost (s_storage s) ex rn) /\
  ru = mkU (s_price s) (ext_cost (s_storage s) ex rn)
           ((vh rn - mh rn) - (s_price s + ext_cost (s_storage s) ex rn)) /\
  vh rn = locked + u_rpc ru + u_storage ru.
Proof. exact renew2_sound. Qed.
Print Assumptions c12_renew2_records.

Theorem c12_renew3_records : forall accepting ex clr rn uhexp wallet require pt o,
  nowrap (p_height pt) (p_window pt) (p_maxdur pt) ->
  inrange rn -> inrange ex -> inrange clr ->
  renew3 accepting ex clr rn uhexp wallet require pt = Ok o ->
  exists locked cu ru, o = ORenew locked cu ru /\
  rws rn < require /\ accepting = true /\
  cleared ex clr 0 /\ cu = mkU (vh clr - vh ex) 0 0 /\
  terms_ok rn (p_height pt) (p_window pt) (p_maxdur pt) wallet /\
  rnum rn = 0 /\ rsize rn = rsize ex /\ rroot rn = rroot ex /\ rwe ex <= rwe rn /\ ruh rn = uhexp /\
  p_price pt + (p_renewcost pt + ext_cost (p_writestore pt) ex rn) <= vh rn /\
  locked <= p_maxcoll pt /\
  mh rn <= vh rn /\ mvoid rn = vh rn - mh rn /\
  vh rn - mh rn <= p_renewcost pt + ext_cost (p_writestore pt) ex rn + ext_cost (p_collcost pt) ex rn /\
  locked = vh rn - (p_price pt + (p_renewcost pt + ext_cost (p_writestore pt) ex rn)) /\
  ru = mkU (p_price pt) (p_renewcost pt + ext_cost (p_writestore pt) ex rn)
           ((vh rn - mh rn) - (p_renewcost pt + ext_cost (p_writestore pt) ex rn)) /\
  vh rn = locked + u_rpc ru + u_storage ru.
Proof. exact renew3_sound. Qed.
Print Assumptions c12_renew3_records.

(* no renter input makes the handlers panic ([ex] is the host's own stored revision, which has a
   renter output; the candidate contracts, final values, clearing revision are arbitrary) *)
Theorem c12_form2_no_panic : forall fc uhexp height require s,
  form2 fc uhexp height require s <> Panic.
Proof. exact form2_no_panic. Qed.
Print Assumptions c12_form2_no_panic.

Theorem c12_renew2_no_panic : forall ex vals rn uhexp height require s,
  (1 <= length (rvalid ex))%nat ->
  renew2 ex vals rn uhexp height require s <> Panic.
Proof. exact renew2_no_panic. Qed.
Print Assumptions c12_renew2_no_panic.

Theorem c12_renew3_no_panic : forall accepting ex clr rn uhexp wallet require pt,
  inrange rn ->
  renew3 accepting ex clr rn uhexp wallet require pt <> Panic.
Proof. exact renew3_no_panic. Qed.
Print Assumptions c12_renew3_no_panic.

(* the last check of the RHP3 validator (missed host payout >= price + locked - risked) is
   implied by the earlier ones: it never rejects *)
Theorem c12_renewal3_missed_check_redundant : forall vhv mhv price baseRev,
  mhv <= vhv -> price + baseRev <= vhv ->
  price + (vhv - (price + baseRev)) - ((vhv - mhv) - baseRev) <= mhv.
Proof. exact renewal3_missed_check_redundant. Qed.
Print Assumptions c12_renewal3_missed_check_redundant.

(* the unpatched cost arithmetic does panic on renter-chosen window ends / file sizes *)
Theorem c12_legacy_no_panic_refuted :
  (exists ex rn, rsize rn = rsize ex /\ rwe rn <= max64 /\
     Legacy.base_costs 100 34722222222 0 ex rn = Panic) /\
  (exists ex rn, rsize rn <= max64 /\ rwe rn <= max64 /\ Legacy.base_costs 0 2 0 ex rn = Panic) /\
  (exists a b, a < two128 /\ b < two128 /\ Legacy.expected_burn a b = Panic).
Proof. exact Legacy.legacy_panics. Qed.
Print Assumptions c12_legacy_no_panic_refuted.

(* non-vacuity: an accepted formation, RHP2 renewal and RHP3 renewal with the recorded figures *)
Example c12_nonvacuous :
  nowrap 1000 144 4320
  /\ form2 ex_fc 1 1000 100000 ex_s2 = Ok (OForm 500 (mkU 100 0 0))
  /\ renew2 ex_existing [2990; 910] ex_rn2 1 1000 100000 ex_s2 = Ok (ORenew 4000 (mkU 10 0 0) (mkU 100 838860800 50))
  /\ renew3 true ex_existing ex_clr ex_rn3 1 5 100000 ex_pt = Ok (ORenew 4000 (mkU 10 0 0) (mkU 100 838860807 50))
  /\ form2 ex_fc 1 1001 100000 ex_s2 = Err EInvalid.
Proof. exact nonvacuous_ex. Qed.

(** The same theorems about the REGENERATED definitions: gen/FormationGen.v is written by
   tools/go2coq from the current rhp/v2/contracts.go (module V2) and rhp/v3/contracts.go
   (module V3) at the start of every check run; GenEquiv.v proves each translated function equal
   to the hand-written model for all arguments, ProofsGen.v transports the lemmas. *)

Theorem c12_gen_formation_sound : forall fc uhexp height s hc,
  nowrap height (s_window s) (s_maxdur s) ->
  V2.validateContractFormation fc uhexp height s = Ok hc ->
  terms_ok fc height (s_window s) (s_maxdur s) (s_address s) /\
  rsize fc = 0 /\ rnum fc = 0 /\ rroot fc = 0 /\ ruh fc = uhexp /\
  mvoid fc = 0 /\ vh fc = mh fc /\
  s_price s <= vh fc /\ vh fc <= s_maxcoll s /\
  hc = vh fc - s_price s /\ hc <= s_maxcoll s.
Proof. exact gen_validate_formation_sound. Qed.
Print Assumptions c12_gen_formation_sound.

Theorem c12_gen_renewal2_sound : forall ex rn uhexp baseRev baseRisk height s sr risked locked,
  nowrap height (s_window s) (s_maxdur s) -> inrange rn ->
  V2.validateContractRenewal ex rn uhexp baseRev baseRisk height s = Ok (sr, risked, locked) ->
  terms_ok rn height (s_window s) (s_maxdur s) (s_address s) /\
  rnum rn = 0 /\ rsize rn = rsize ex /\ rroot rn = rroot ex /\ rwe ex <= rwe rn /\ ruh rn = uhexp /\
  mh rn <= vh rn /\ vh rn - mh rn <= baseRev + baseRisk /\ mvoid rn = vh rn - mh rn /\
  sr = baseRev /\ baseRev <= vh rn /\ locked = vh rn - baseRev /\ locked <= s_maxcoll s /\
  risked = (vh rn - mh rn) - baseRev.
Proof. exact gen_validate_renewal2_sound. Qed.
Print Assumptions c12_gen_renewal2_sound.

Theorem c12_gen_renewal3_sound : forall ex rn uhexp wallet baseRev baseRisk pt risked locked,
  nowrap (p_height pt) (p_window pt) (p_maxdur pt) -> inrange rn ->
  V3.validateContractRenewal ex rn uhexp wallet baseRev baseRisk pt = Ok (risked, locked) ->
  terms_ok rn (p_height pt) (p_window pt) (p_maxdur pt) wallet /\
  rnum rn = 0 /\ rsize rn = rsize ex /\ rroot rn = rroot ex /\ rwe ex <= rwe rn /\ ruh rn = uhexp /\
  mh rn <= vh rn /\ vh rn - mh rn <= baseRev + baseRisk /\ mvoid rn = vh rn - mh rn /\
  p_price pt + baseRev <= vh rn /\ locked = vh rn - (p_price pt + baseRev) /\ locked <= p_maxcoll pt /\
  risked = (vh rn - mh rn) - baseRev /\
  p_price pt + locked - risked <= mh rn.
Proof. exact gen_validate_renewal3_sound. Qed.
Print Assumptions c12_gen_renewal3_sound.

Theorem c12_gen_formation_window_start_upper_any_settings : forall fc uhexp height s hc,
  V2.validateContractFormation fc uhexp height s = Ok hc -> rws fc <= height + s_maxdur s.
Proof. exact gen_validate_formation_upper. Qed.
Print Assumptions c12_gen_formation_window_start_upper_any_settings.

Theorem c12_gen_renewal2_window_start_upper_any_settings : forall ex rn uhexp baseRev baseRisk height s x,
  V2.validateContractRenewal ex rn uhexp baseRev baseRisk height s = Ok x -> rws rn <= height + s_maxdur s.
Proof. exact gen_validate_renewal2_upper. Qed.
Print Assumptions c12_gen_renewal2_window_start_upper_any_settings.

Theorem c12_gen_renewal3_window_start_upper_any_settings : forall ex rn uhexp wallet baseRev baseRisk pt x,
  V3.validateContractRenewal ex rn uhexp wallet baseRev baseRisk pt = Ok x -> rws rn <= p_height pt + p_maxdur pt.
Proof. exact gen_validate_renewal3_upper. Qed.
Print Assumptions c12_gen_renewal3_window_start_upper_any_settings.

Theorem c12_gen_formation_establishes_shape : forall fc uhexp height s hc other uc,
  V2.validateContractFormation fc uhexp height s = Ok hc ->
  shape23 fc /\ shape23 (initial_revision fc other uc).
Proof. exact gen_formation_establishes_shape. Qed.
Print Assumptions c12_gen_formation_establishes_shape.

Theorem c12_gen_renewal2_establishes_shape : forall ex rn uhexp baseRev baseRisk height s x other uc,
  V2.validateContractRenewal ex rn uhexp baseRev baseRisk height s = Ok x ->
  shape23 rn /\ shape23 (initial_revision rn other uc).
Proof. exact gen_renewal2_establishes_shape. Qed.
Print Assumptions c12_gen_renewal2_establishes_shape.

Theorem c12_gen_renewal3_establishes_shape : forall ex rn uhexp wallet baseRev baseRisk pt x other uc,
  V3.validateContractRenewal ex rn uhexp wallet baseRev baseRisk pt = Ok x ->
  shape23 rn /\ shape23 (initial_revision rn other uc).
Proof. exact gen_renewal3_establishes_shape. Qed.
Print Assumptions c12_gen_renewal3_establishes_shape.

Theorem c12_gen_formation_no_panic : forall fc uhexp height s,
  V2.validateContractFormation fc uhexp height s <> Panic.
Proof. exact gen_validate_formation_no_panic. Qed.
Print Assumptions c12_gen_formation_no_panic.

Theorem c12_gen_renewal2_no_panic : forall ex rn uhexp baseRev baseRisk height s,
  V2.validateContractRenewal ex rn uhexp baseRev baseRisk height s <> Panic.
Proof. exact gen_validate_renewal2_no_panic. Qed.
Print Assumptions c12_gen_renewal2_no_panic.

Theorem c12_gen_renewal3_no_panic : forall ex rn uhexp wallet baseRev baseRisk pt,
  inrange rn ->
  V3.validateContractRenewal ex rn uhexp wallet baseRev baseRisk pt <> Panic.
Proof. exact gen_validate_renewal3_no_panic. Qed.
Print Assumptions c12_gen_renewal3_no_panic.

(* renewalBaseCosts as translated from both packages ([< two64]: window ends are uint64 in Go) *)
Theorem c12_gen_base_costs2_sound : forall ex rn s br bc,
  rwe ex < two64 -> rwe rn < two64 ->
  V2.renewalBaseCosts ex rn s = Ok (br, bc) ->
  br = s_price s + ext_cost (s_storage s) ex rn /\ bc = ext_cost (s_coll s) ex rn.
Proof. exact gen_base_costs2_eq. Qed.
Print Assumptions c12_gen_base_costs2_sound.

Theorem c12_gen_base_costs3_sound : forall ex rn pt br bc,
  rwe ex < two64 -> rwe rn < two64 ->
  V3.renewalBaseCosts ex rn pt = Ok (br, bc) ->
  br = p_renewcost pt + ext_cost (p_writestore pt) ex rn /\ bc = ext_cost (p_collcost pt) ex rn.
Proof. exact gen_base_costs3_eq. Qed.
Print Assumptions c12_gen_base_costs3_sound.

Theorem c12_gen_base_costs2_no_panic : forall ex rn s,
  rwe ex < two64 -> rwe rn < two64 -> V2.renewalBaseCosts ex rn s <> Panic.
Proof. exact gen_base_costs2_no_panic. Qed.
Print Assumptions c12_gen_base_costs2_no_panic.

Theorem c12_gen_base_costs3_no_panic : forall ex rn pt,
  rwe ex < two64 -> rwe rn < two64 -> V3.renewalBaseCosts ex rn pt <> Panic.
Proof. exact gen_base_costs3_no_panic. Qed.
Print Assumptions c12_gen_base_costs3_no_panic.
