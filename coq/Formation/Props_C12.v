From HostdBase Require Import Base.
From HostdFormation Require Import Model Proofs.
