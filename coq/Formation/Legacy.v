(* Formation/Legacy.v — the renewal cost arithmetic as it was BEFORE
   fixes/C12-renewal-cost-overflow.patch (snapshot cb8ed00), kept for the record: the panics the
   patch removes are exhibited here on the model ([legacy_panics]); the C12 harnesses reproduce
   them on the real unpatched code as their directed cases 0..2 (monitor sigs
   contract-rpc-handler-panics, renewal-validation-panics).  Nothing else depends on this file. *)
From Coq Require Import Lia ZifyBool ZifyN ZifyNat.
From HostdBase Require Import Base.
From HostdRevision Require Import Model Proofs.
From HostdFormation Require Import Model Proofs.
Local Open Scope N_scope.

(* rpcRenewAndClearContract / handleRPCRenew, inline:
     baseRevenue = baseRevenue.Add(price.Mul64(renewal.Filesize).Mul64(extension))
     baseCollateral = collateral.Mul64(renewal.Filesize).Mul64(extension) *)
Definition base_costs (fixed unit_storage unit_coll : N) (ex rn : rev) : res (N * N) :=
  if rwe rn <=? rwe ex then Ok (fixed, 0) else
  let ext := rwe rn - rwe ex in
  do sc1 <- cmul64 unit_storage (rsize rn);
  do sc2 <- cmul64 sc1 ext;
  do br <- cadd fixed sc2;
  do bc1 <- cmul64 unit_coll (rsize rn);
  do bc2 <- cmul64 bc1 ext;
  Ok (br, bc2).

(* validateContractRenewal (both packages): expectedBurn := baseRevenue.Add(baseRiskedCollateral) *)
Definition expected_burn (baseRev baseRisk : N) : res N := cadd baseRev baseRisk.

Lemma legacy_panics :
  (* a renter holding a 4 GiB contract proposes a renewal ending at 2^64-1 at ordinary prices *)
  (exists ex rn, rsize rn = rsize ex /\ rwe rn <= max64 /\
     base_costs 100 34722222222 0 ex rn = Panic) /\
  (* RHP3: file size and window end are both renter-chosen, any price of 2 or more overflows *)
  (exists ex rn, rsize rn <= max64 /\ rwe rn <= max64 /\ base_costs 0 2 0 ex rn = Panic) /\
  (exists a b, a < two128 /\ b < two128 /\ expected_burn a b = Panic).
Proof.
  split; [|split].
  - exists (R 0 1 4294967296 1 1256 1400 [] [] 1 7), (R 0 0 4294967296 1 1300 max64 [] [] 1 0).
    split; [reflexivity|]. split; [cbn; lia|]. vm_compute; reflexivity.
  - exists (R 0 1 0 0 1256 1400 [] [] 1 7), (R 0 0 max64 0 1300 max64 [] [] 1 0).
    split; [cbn; lia|]. split; [cbn; lia|]. vm_compute; reflexivity.
  - exists max128, 1. split; [reflexivity|]. split; [reflexivity|]. vm_compute; reflexivity.
Qed.
