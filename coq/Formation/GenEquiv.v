(* Formation/GenEquiv.v — the definitions tools/go2coq regenerates from rhp/v2/contracts.go and
   rhp/v3/contracts.go (gen/FormationGen.v) are equal, for all arguments, to the hand-written
   model (Model.v).  Same robust case-splitting automation as Revision/GenEquiv.v.

   renewalBaseCosts: Go computes the extension of the proof window as a uint64 difference
   (Base.wsub, wrapping); the hand model uses the truncated difference on N.  They agree for
   window ends below 2^64 (the Go type), which is the hypothesis of the two base-cost lemmas. *)
From Coq Require Import Lia ZifyBool ZifyN ZifyNat.
From HostdBase Require Import Base.
From HostdRevision Require Import Model GenPrelude GenEquiv.
From HostdFormation Require Import Model.
From HostdFormation.gen Require Import FormationGen.
Local Open Scope N_scope.

Ltac equiv_f :=
  unfold renewal_std;
  solve [unfold_common; unfold_accessors; split_all].

Lemma validateContractFormation_eq : forall fc uhexp height s,
  V2.validateContractFormation fc uhexp height s = validate_formation fc uhexp height s.
Proof. intros. unfold V2.validateContractFormation, validate_formation. Time equiv_f. Qed.

Lemma validateContractRenewal2_eq : forall ex rn uhexp baseRev baseRisk height s,
  V2.validateContractRenewal ex rn uhexp baseRev baseRisk height s =
  validate_renewal2 ex rn uhexp baseRev baseRisk height s.
Proof. intros. unfold V2.validateContractRenewal, validate_renewal2. Time equiv_f. Qed.

Lemma validateContractRenewal3_eq : forall ex rn uhexp wallet baseRev baseRisk pt,
  V3.validateContractRenewal ex rn uhexp wallet baseRev baseRisk pt =
  validate_renewal3 ex rn uhexp wallet baseRev baseRisk pt.
Proof. intros. unfold V3.validateContractRenewal, validate_renewal3. Time equiv_f. Qed.

Ltac equiv_costs :=
  unfold_common; split_all_l ltac:(try rewrite wsub_sub by lia).

Lemma renewalBaseCosts2_eq : forall ex rn s,
  rwe ex < two64 -> rwe rn < two64 ->
  V2.renewalBaseCosts ex rn s = base_costs (s_price s) (s_storage s) (s_coll s) ex rn.
Proof. intros ex rn s Hex Hrn. unfold V2.renewalBaseCosts, base_costs. Time equiv_costs. Qed.

Lemma renewalBaseCosts3_eq : forall ex rn pt,
  rwe ex < two64 -> rwe rn < two64 ->
  V3.renewalBaseCosts ex rn pt = base_costs (p_renewcost pt) (p_writestore pt) (p_collcost pt) ex rn.
Proof. intros ex rn pt Hex Hrn. unfold V3.renewalBaseCosts, base_costs. Time equiv_costs. Qed.
