(* Formation/Proofs.v — lemmas about the model of formation/renewal validation (patched code). *)
From Coq Require Import Lia ZifyBool ZifyN ZifyNat.
From HostdBase Require Import Base.
From HostdRevision Require Import Model Proofs.
From HostdFormation Require Import Model.
Local Open Scope N_scope.

(** * vocabulary *)

Definition addr_at (l : list output) (i : nat) : N :=
  match nth_error l i with Some o => oaddr o | None => 0 end.

(* the host's heights and settings do not wrap around 2^64 (the uint64 sums of the code are
   the sums of the property's wording) *)
Definition nowrap (height window maxdur : N) : Prop :=
  height + window < two64 /\ height + maxdur + window < two64.

(* the contract terms the property demands of an accepted formation or renewal *)
Record terms_ok (fc : rev) (height window maxdur addr : N) : Prop := {
  t_start_lo : height + window <= rws fc;          (* starts no sooner than the window size *)
  t_start_hi : rws fc <= height + maxdur;          (* ... and no later than the maximum duration *)
  t_length   : rws fc + window <= rwe fc;          (* at least the window size long *)
  t_shape    : shape23 fc;                         (* renter+host valid, renter+host+void missed *)
  t_vaddr    : addr_at (rvalid fc) 1 = addr;       (* host payouts to the host's wallet address *)
  t_maddr    : addr_at (rmissed fc) 1 = addr;
  t_void     : addr_at (rmissed fc) 2 = void_addr  (* third missed output to the void address *)
}.

(* price * size * extension of the data already stored (0 without extension) *)
Definition ext_cost (unit : N) (ex rn : rev) : N :=
  if rwe rn <=? rwe ex then 0 else unit * rsize rn * (rwe rn - rwe ex).

(** * helpers *)

Lemma wadd_small : forall a b, a + b < two64 -> wadd a b = a + b.
Proof. intros a b H; unfold wadd; apply N.mod_small; assumption. Qed.

Lemma wadd_le : forall a b, wadd a b <= a + b.
Proof. intros a b; unfold wadd. apply N.mod_le. discriminate. Qed.

Lemma cmul64_o_false : forall a b s, cmul64_o a b = (s, false) -> s = a * b /\ a * b < two128.
Proof.
  unfold cmul64_o; intros a b s H; inversion H as [[Hs Hov]]; clear H.
  apply N.leb_gt in Hov. split; [apply N.mod_small|]; lia.
Qed.

Lemma nth_out_addr : forall l i o, nth_out l i = Ok o -> oaddr o = addr_at l i.
Proof. intros l i o H; apply nth_out_ok in H; unfold addr_at; rewrite H; reflexivity. Qed.

Lemma nth_out_eval : forall l i, (i < length l)%nat -> exists o, nth_out l i = Ok o /\ oaddr o = addr_at l i /\ oval o = val_at l i.
Proof.
  intros l i H. destruct (nth_out_lt l i H) as [o E]. exists o.
  split; [assumption|]. split; [apply nth_out_addr|apply nth_out_val]; assumption.
Qed.

(* rewrite every accessor of a contract with two valid and three missed outputs *)
Ltac eval_accessors r H :=
  let Lv := fresh "Lv" in let Lm := fresh "Lm" in
  match goal with
  | [ A : length (rvalid r) = 2%nat, B : length (rmissed r) = 3%nat |- _ ] =>
      let o1 := fresh "o" in let o2 := fresh "o" in let o3 := fresh "o" in
      destruct (nth_out_eval (rvalid r) 1) as (o1 & ?E1 & ?A1 & ?V1); [lia|];
      destruct (nth_out_eval (rmissed r) 1) as (o2 & ?E2 & ?A2 & ?V2); [lia|];
      destruct (nth_out_eval (rmissed r) 2) as (o3 & ?E3 & ?A3 & ?V3); [lia|]
  end.

(** * the shared window/shape/address checks *)

Lemma renewal_std_sound : forall ex rn uhexp height window maxdur addr,
  nowrap height window maxdur ->
  renewal_std ex rn uhexp height window maxdur addr = Ok tt ->
  terms_ok rn height window maxdur addr /\
  rnum rn = 0 /\ rsize rn = rsize ex /\ rroot rn = rroot ex /\ rwe ex <= rwe rn /\ ruh rn = uhexp.
Proof.
  intros ex rn uhexp height window maxdur addr [W1 W2] H. unfold renewal_std, bad in H.
  step H. step H. step H. step H. step H. step H. step H. step H. step H.
  assert (Lv : length (rvalid rn) = 2%nat) by lia.
  assert (Lm : length (rmissed rn) = 3%nat) by lia.
  destruct (nth_out_eval (rvalid rn) 1) as (o1 & E1 & A1 & V1); [lia|].
  destruct (nth_out_eval (rmissed rn) 1) as (o2 & E2 & A2 & V2); [lia|].
  destruct (nth_out_eval (rmissed rn) 2) as (o3 & E3 & A3 & V3); [lia|].
  rewrite E1, E2, E3 in H; cbn [bind] in H.
  step H. step H. step H. step H.
  rewrite (wadd_small height window) in * by lia.
  rewrite (wadd_small height maxdur) in * by lia.
  rewrite (wadd_small (rws rn) window) in * by lia.
  split; [constructor; try (unfold shape23; split; assumption); lia|]. lia.
Qed.

(* the upper bound on the window start needs no assumption on the settings *)
Lemma renewal_std_upper : forall ex rn uhexp height window maxdur addr,
  renewal_std ex rn uhexp height window maxdur addr = Ok tt -> rws rn <= height + maxdur.
Proof.
  intros ex rn uhexp height window maxdur addr H. unfold renewal_std, bad in H.
  step H. step H. step H. step H. step H. step H.
  pose proof (wadd_le height maxdur). lia.
Qed.

Lemma renewal_std_no_panic : forall ex rn uhexp height window maxdur addr,
  renewal_std ex rn uhexp height window maxdur addr <> Panic.
Proof.
  intros. unfold renewal_std, bad.
  do 7 (match goal with |- (if ?b then _ else _) <> Panic => destruct b; [discriminate|] end).
  destruct (negb (length (rvalid rn) =? 2)%nat) eqn:C1; [discriminate|].
  destruct (negb (length (rmissed rn) =? 3)%nat) eqn:C2; [discriminate|].
  destruct (nth_out_eval (rvalid rn) 1) as (o1 & E1 & _); [lia|].
  destruct (nth_out_eval (rmissed rn) 1) as (o2 & E2 & _); [lia|].
  destruct (nth_out_eval (rmissed rn) 2) as (o3 & E3 & _); [lia|].
  rewrite E1, E2, E3; cbn [bind].
  repeat match goal with |- (if ?b then _ else _) <> Panic => destruct b; [discriminate|] end.
  discriminate.
Qed.

(** * validateContractFormation *)

Lemma validate_formation_sound : forall fc uhexp height s hc,
  nowrap height (s_window s) (s_maxdur s) ->
  validate_formation fc uhexp height s = Ok hc ->
  terms_ok fc height (s_window s) (s_maxdur s) (s_address s) /\
  rsize fc = 0 /\ rnum fc = 0 /\ rroot fc = 0 /\ ruh fc = uhexp /\
  mvoid fc = 0 /\ vh fc = mh fc /\
  s_price s <= vh fc /\ vh fc <= s_maxcoll s /\
  hc = vh fc - s_price s /\ hc <= s_maxcoll s.
Proof.
  intros fc uhexp height s hc [W1 W2] H. unfold validate_formation, bad in H.
  step H. step H. step H. step H. step H. step H. step H. step H.
  assert (Lv : length (rvalid fc) = 2%nat) by lia.
  assert (Lm : length (rmissed fc) = 3%nat) by lia.
  destruct (nth_out_eval (rvalid fc) 1) as (o1 & E1 & A1 & V1); [lia|].
  destruct (nth_out_eval (rmissed fc) 1) as (o2 & E2 & A2 & V2); [lia|].
  destruct (nth_out_eval (rmissed fc) 2) as (o3 & E3 & A3 & V3); [lia|].
  rewrite E1, E2, E3, (valid_host_eval fc), (missed_host_eval fc) in H by lia; cbn [bind] in H.
  step H. step H. step H. step H. step H. step H. step H. step H.
  unfold csub in H. destruct (s_price s <=? vh fc) eqn:Cs; [|discriminate H]. inversion H; subst; clear H.
  rewrite (wadd_small height (s_window s)) in * by lia.
  rewrite (wadd_small height (s_maxdur s)) in * by lia.
  rewrite (wadd_small (rws fc) (s_window s)) in * by lia.
  fold (mvoid fc) in V3. fold (vh fc) in V1. fold (mh fc) in V2.
  split; [constructor; try (unfold shape23; split; assumption); lia|]. lia.
Qed.

Lemma validate_formation_upper : forall fc uhexp height s hc,
  validate_formation fc uhexp height s = Ok hc -> rws fc <= height + s_maxdur s.
Proof.
  intros fc uhexp height s hc H. unfold validate_formation, bad in H.
  step H. step H. step H. step H. step H.
  pose proof (wadd_le height (s_maxdur s)). lia.
Qed.

Lemma validate_formation_no_panic : forall fc uhexp height s,
  validate_formation fc uhexp height s <> Panic.
Proof.
  intros. unfold validate_formation, bad.
  do 6 (match goal with |- (if ?b then _ else _) <> Panic => destruct b; [discriminate|] end).
  destruct (negb (length (rvalid fc) =? 2)%nat) eqn:C1; [discriminate|].
  destruct (negb (length (rmissed fc) =? 3)%nat) eqn:C2; [discriminate|].
  destruct (nth_out_eval (rvalid fc) 1) as (o1 & E1 & _); [lia|].
  destruct (nth_out_eval (rmissed fc) 1) as (o2 & E2 & _); [lia|].
  destruct (nth_out_eval (rmissed fc) 2) as (o3 & E3 & _); [lia|].
  rewrite E1, E2, E3, (valid_host_eval fc), (missed_host_eval fc) by lia; cbn [bind].
  do 4 (match goal with |- (if ?b then _ else _) <> Panic => destruct b; [discriminate|] end).
  destruct (vh fc <? s_price s) eqn:C3; [discriminate|].
  do 3 (match goal with |- (if ?b then _ else _) <> Panic => destruct b; [discriminate|] end).
  unfold csub. destruct (s_price s <=? vh fc) eqn:C4; [discriminate|lia].
Qed.

(* an accepted formation has the shape C07 assumes of stored contracts, and so has the first
   revision the host stores for it *)
Lemma formation_establishes_shape : forall fc uhexp height s hc other uc,
  validate_formation fc uhexp height s = Ok hc ->
  shape23 fc /\ shape23 (initial_revision fc other uc).
Proof.
  intros fc uhexp height s hc other uc H. unfold validate_formation, bad in H.
  step H. step H. step H. step H. step H. step H. step H. step H.
  unfold shape23; cbn. lia.
Qed.

Lemma renewal_std_shape : forall ex rn uhexp height window maxdur addr other uc,
  renewal_std ex rn uhexp height window maxdur addr = Ok tt ->
  shape23 rn /\ shape23 (initial_revision rn other uc).
Proof.
  intros ex rn uhexp height window maxdur addr other uc H. unfold renewal_std, bad in H.
  step H. step H. step H. step H. step H. step H. step H. step H. step H.
  unfold shape23; cbn. lia.
Qed.

(** * validateContractRenewal (RHP2) *)

(* [a - b] on N is truncated at 0: exactly "SubWithUnderflow, 0 on underflow" *)
Lemma csub_u_trunc : forall a b d u, a < two128 -> csub_u a b = (d, u) -> (if u then 0 else d) = a - b.
Proof.
  intros a b d u Ha H. destruct u.
  - apply csub_u_true in H. lia.
  - apply csub_u_false in H as [? ->]; [reflexivity|assumption].
Qed.

Lemma validate_renewal2_sound : forall ex rn uhexp baseRev baseRisk height s sr risked locked,
  nowrap height (s_window s) (s_maxdur s) -> inrange rn ->
  validate_renewal2 ex rn uhexp baseRev baseRisk height s = Ok (sr, risked, locked) ->
  terms_ok rn height (s_window s) (s_maxdur s) (s_address s) /\
  rnum rn = 0 /\ rsize rn = rsize ex /\ rroot rn = rroot ex /\ rwe ex <= rwe rn /\ ruh rn = uhexp /\
  mh rn <= vh rn /\ vh rn - mh rn <= baseRev + baseRisk /\ mvoid rn = vh rn - mh rn /\
  sr = baseRev /\ baseRev <= vh rn /\ locked = vh rn - baseRev /\ locked <= s_maxcoll s /\
  risked = (vh rn - mh rn) - baseRev.
Proof.
  intros ex rn uhexp baseRev baseRisk height s sr risked locked W R H.
  unfold validate_renewal2, bad in H.
  destruct (renewal_std ex rn uhexp height (s_window s) (s_maxdur s) (s_address s)) as [[]| |] eqn:Es;
    cbn [bind] in H; try discriminate.
  apply renewal_std_sound in Es as (T & ? & ? & ? & ? & ?); [|assumption].
  pose proof (inrange_vals _ R) as (_ & Rvh & _ & Rmh & Rvoid).
  destruct (t_shape _ _ _ _ _ T) as [Lv Lm].
  destruct (nth_out_eval (rmissed rn) 2) as (o3 & E3 & A3 & V3); [lia|].
  rewrite E3, (valid_host_eval rn), (missed_host_eval rn) in H by lia; cbn [bind] in H.
  step H. step H. step H. step H.
  destruct (csub_u d0 baseRev) as [r0 uf2] eqn:S2.
  step H. step H.
  inversion H; subst; clear H.
  apply cadd_o_false in S as [-> ?].
  apply csub_u_false in S0 as [? ->]; [|assumption].
  apply csub_u_false in S1 as [? ->]; [|assumption].
  apply csub_u_trunc in S2; [|lia].
  fold (mvoid rn) in V3.
  split; [assumption|]. repeat split; try assumption; try lia.
Qed.

Lemma validate_renewal2_no_panic : forall ex rn uhexp baseRev baseRisk height s,
  validate_renewal2 ex rn uhexp baseRev baseRisk height s <> Panic.
Proof.
  intros. unfold validate_renewal2, bad.
  destruct (renewal_std ex rn uhexp height (s_window s) (s_maxdur s) (s_address s)) as [[]| |] eqn:Es;
    cbn [bind]; try discriminate; [|exfalso; eapply renewal_std_no_panic; eauto].
  destruct (renewal_std_shape _ _ _ _ _ _ _ 0 0 Es) as [[Lv Lm] _].
  destruct (nth_out_eval (rmissed rn) 2) as (o3 & E3 & _); [lia|].
  rewrite E3, (valid_host_eval rn), (missed_host_eval rn) by lia; cbn [bind].
  repeat match goal with
  | |- (if ?b then _ else _) <> Panic => destruct b; [discriminate|]
  | |- (let '(_, _) := ?p in _) <> Panic => destruct p as [? []]
  | |- Err _ <> Panic => discriminate
  end.
  all: try discriminate.
Qed.

(** * validateContractRenewal (RHP3) *)

Lemma validate_renewal3_sound : forall ex rn uhexp wallet baseRev baseRisk pt risked locked,
  nowrap (p_height pt) (p_window pt) (p_maxdur pt) -> inrange rn ->
  validate_renewal3 ex rn uhexp wallet baseRev baseRisk pt = Ok (risked, locked) ->
  terms_ok rn (p_height pt) (p_window pt) (p_maxdur pt) wallet /\
  rnum rn = 0 /\ rsize rn = rsize ex /\ rroot rn = rroot ex /\ rwe ex <= rwe rn /\ ruh rn = uhexp /\
  mh rn <= vh rn /\ vh rn - mh rn <= baseRev + baseRisk /\ mvoid rn = vh rn - mh rn /\
  p_price pt + baseRev <= vh rn /\ locked = vh rn - (p_price pt + baseRev) /\ locked <= p_maxcoll pt /\
  risked = (vh rn - mh rn) - baseRev /\
  p_price pt + locked - risked <= mh rn.
Proof.
  intros ex rn uhexp wallet baseRev baseRisk pt risked locked W R H.
  unfold validate_renewal3, bad in H.
  destruct (renewal_std ex rn uhexp (p_height pt) (p_window pt) (p_maxdur pt) wallet) as [[]| |] eqn:Es;
    cbn [bind] in H; try discriminate.
  apply renewal_std_sound in Es as (T & ? & ? & ? & ? & ?); [|assumption].
  pose proof (inrange_vals _ R) as (_ & Rvh & _ & Rmh & Rvoid).
  destruct (t_shape _ _ _ _ _ T) as [Lv Lm].
  destruct (nth_out_eval (rmissed rn) 2) as (o3 & E3 & A3 & V3); [lia|].
  rewrite E3, (valid_host_eval rn), (missed_host_eval rn) in H by lia; cbn [bind] in H.
  step H. step H. step H. step H.
  destruct (csub_u d0 baseRev) as [r0 uf2] eqn:S2.
  step H. step H. step H.
  apply cadd_o_false in S as [-> ?].
  apply csub_u_false in S0 as [? ->]; [|assumption].
  apply cadd_o_false in S1 as [-> ?].
  apply csub_u_false in S3 as [? ->]; [|assumption].
  apply csub_u_trunc in S2; [|lia].
  unfold cadd in H.
  destruct (p_price pt + (vh rn - (p_price pt + baseRev)) <? two128) eqn:Ca; cbn [bind] in H; [|discriminate].
  unfold csub in H.
  destruct ((if uf2 then 0 else r0) <=? p_price pt + (vh rn - (p_price pt + baseRev))) eqn:Cb; cbn [bind] in H; [|discriminate].
  step H. inversion H; subst; clear H.
  fold (mvoid rn) in V3.
  split; [assumption|]. repeat split; try assumption; try lia.
Qed.

Lemma validate_renewal3_no_panic : forall ex rn uhexp wallet baseRev baseRisk pt,
  inrange rn ->
  validate_renewal3 ex rn uhexp wallet baseRev baseRisk pt <> Panic.
Proof.
  intros ex rn uhexp wallet baseRev baseRisk pt R. unfold validate_renewal3, bad.
  destruct (renewal_std ex rn uhexp (p_height pt) (p_window pt) (p_maxdur pt) wallet) as [[]| |] eqn:Es;
    cbn [bind]; try discriminate; [|exfalso; eapply renewal_std_no_panic; eauto].
  destruct (renewal_std_shape _ _ _ _ _ _ _ 0 0 Es) as [[Lv Lm] _].
  pose proof (inrange_vals _ R) as (_ & Rvh & _ & Rmh & Rvoid).
  destruct (nth_out_eval (rmissed rn) 2) as (o3 & E3 & _); [lia|].
  rewrite E3, (valid_host_eval rn), (missed_host_eval rn) by lia; cbn [bind].
  destruct (cadd_o baseRev baseRisk) as [eb []] eqn:S; [discriminate|].
  destruct (csub_u (vh rn) (mh rn)) as [hb []] eqn:S0; [discriminate|].
  destruct (eb <? hb); [discriminate|].
  destruct (negb (oval o3 =? hb)); [discriminate|].
  destruct (csub_u hb baseRev) as [r0 uf2] eqn:S2.
  destruct (cadd_o (p_price pt) baseRev) as [mv []] eqn:S1; [discriminate|].
  destruct (csub_u (vh rn) mv) as [lk []] eqn:S3; [discriminate|].
  destruct (p_maxcoll pt <? lk); [discriminate|].
  apply csub_u_false in S0 as [? ->]; [|assumption].
  apply cadd_o_false in S1 as [-> ?].
  apply csub_u_false in S3 as [? ->]; [|assumption].
  apply csub_u_trunc in S2; [|lia].
  unfold cadd. destruct (p_price pt + (vh rn - (p_price pt + baseRev)) <? two128) eqn:Ca; [|lia].
  cbn [bind]. unfold csub.
  destruct ((if uf2 then 0 else r0) <=? p_price pt + (vh rn - (p_price pt + baseRev))) eqn:Cb; [|lia].
  cbn [bind]. destruct (mh rn <? _); discriminate.
Qed.

(* the last check of the RHP3 validator can never reject: it is implied by the earlier ones *)
Lemma renewal3_missed_check_redundant : forall vhv mhv price baseRev,
  mhv <= vhv -> price + baseRev <= vhv ->
  price + (vhv - (price + baseRev)) - ((vhv - mhv) - baseRev) <= mhv.
Proof. intros; lia. Qed.

(** * renewalBaseCosts *)

Lemma base_costs_sound : forall fixed us uc ex rn br bc,
  base_costs fixed us uc ex rn = Ok (br, bc) ->
  br = fixed + ext_cost us ex rn /\ bc = ext_cost uc ex rn /\ br < two128 \/
  (rwe rn <= rwe ex /\ br = fixed /\ bc = 0).
Proof.
  intros fixed us uc ex rn br bc H. unfold base_costs, bad in H.
  destruct (rwe rn <=? rwe ex) eqn:C0.
  - inversion H; subst. right. lia.
  - step H. step H. step H. step H. step H. inversion H; subst; clear H.
    apply cmul64_o_false in S as [-> ?]. apply cmul64_o_false in S0 as [-> ?].
    apply cadd_o_false in S1 as [-> ?].
    apply cmul64_o_false in S2 as [-> ?]. apply cmul64_o_false in S3 as [-> ?].
    left. unfold ext_cost. rewrite C0. lia.
Qed.

Lemma base_costs_eq : forall fixed us uc ex rn br bc,
  base_costs fixed us uc ex rn = Ok (br, bc) ->
  br = fixed + ext_cost us ex rn /\ bc = ext_cost uc ex rn.
Proof.
  intros fixed us uc ex rn br bc H. apply base_costs_sound in H as [(? & ? & _)|(L & ? & ?)].
  - split; assumption.
  - unfold ext_cost. destruct (rwe rn <=? rwe ex) eqn:C; lia.
Qed.

Lemma base_costs_no_panic : forall fixed us uc ex rn, base_costs fixed us uc ex rn <> Panic.
Proof.
  intros. unfold base_costs, bad. destruct (rwe rn <=? rwe ex); [discriminate|].
  repeat match goal with
  | |- (if ?b then _ else _) <> Panic => destruct b; [discriminate|]
  | |- (let '(_, _) := ?p in _) <> Panic => destruct p as [? []]; [discriminate|]
  end.
  discriminate.
Qed.

(** * the handlers: decision and recorded figures *)

Definition mkU (rpc storage risked : N) : usage := {| u_rpc := rpc; u_storage := storage; u_risked := risked |}.

Lemma form2_sound : forall fc uhexp height require s o,
  nowrap height (s_window s) (s_maxdur s) ->
  form2 fc uhexp height require s = Ok o ->
  exists locked u, o = OForm locked u /\
  height < require /\ rws fc < require /\ s_accepting s = true /\
  terms_ok fc height (s_window s) (s_maxdur s) (s_address s) /\
  s_price s <= vh fc /\ locked <= s_maxcoll s /\
  locked = vh fc - s_price s /\ u = mkU (s_price s) 0 0 /\
  vh fc = locked + u_rpc u + u_storage u.
Proof.
  intros fc uhexp height require s o W H. unfold form2, bad in H.
  step H. step H. step H.
  destruct (validate_formation fc uhexp height s) as [hc| |] eqn:Ev; cbn [bind] in H; try discriminate.
  inversion H; subst; clear H.
  apply validate_formation_sound in Ev as (T & ? & ? & ? & ? & ? & ? & ? & ? & ? & ?); [|assumption].
  exists hc, (mkU (s_price s) 0 0). unfold mkU; cbn [u_rpc u_storage].
  split; [reflexivity|]. split; [lia|]. split; [lia|].
  split; [destruct (s_accepting s); [reflexivity|discriminate]|].
  split; [exact T|]. repeat split; lia.
Qed.

Lemma form2_no_panic : forall fc uhexp height require s, form2 fc uhexp height require s <> Panic.
Proof.
  intros. unfold form2, bad.
  do 3 (match goal with |- (if ?b then _ else _) <> Panic => destruct b; [discriminate|] end).
  pose proof (validate_formation_no_panic fc uhexp height s).
  destruct (validate_formation fc uhexp height s); cbn [bind]; congruence.
Qed.

Lemma forall_vals_inrange : forall l, Forall (fun v => v < two128) (map oval l) -> Forall (fun o => oval o < two128) l.
Proof. induction l; intros H; inversion H; subst; constructor; auto. Qed.

Lemma renew2_sound : forall ex vals rn uhexp height require s o,
  nowrap height (s_window s) (s_maxdur s) ->
  inrange rn -> inrange ex -> Forall (fun v => v < two128) vals ->
  renew2 ex vals rn uhexp height require s = Ok o ->
  exists locked cu ru clr, o = ORenew locked cu ru /\
  height < require /\ rws rn < require /\ s_accepting s = true /\ rnum ex <> max64 /\
  (* the existing contract is cleared, paying at least min(renter payout, base RPC price) *)
  clearing_revision ex vals = Ok clr /\ cleared ex clr (N.min (vr ex) (s_baserpc s)) /\
  cu = mkU (vh clr - vh ex) 0 0 /\
  (* the renewal respects the settings *)
  terms_ok rn height (s_window s) (s_maxdur s) (s_address s) /\
  rnum rn = 0 /\ rsize rn = rsize ex /\ rroot rn = rroot ex /\ rwe ex <= rwe rn /\ ruh rn = uhexp /\
  s_price s + ext_cost (s_storage s) ex rn <= vh rn /\
  locked <= s_maxcoll s /\
  mh rn <= vh rn /\ mvoid rn = vh rn - mh rn /\
  vh rn - mh rn <= s_price s + ext_cost (s_storage s) ex rn + ext_cost (s_coll s) ex rn /\
  (* the recorded figures are those implied by the payouts and the prices *)
  locked = vh rn - (s_price s + ext_cost (s_storage s) ex rn) /\
  ru = mkU (s_price s) (ext_cost (s_storage s) ex rn)
           ((vh rn - mh rn) - (s_price s + ext_cost (s_storage s) ex rn)) /\
  vh rn = locked + u_rpc ru + u_storage ru.
Proof.
  intros ex vals rn uhexp height require s o W Rn Rx Rv H. unfold renew2, bad in H.
  step H. step H. step H. step H.
  destruct (clearing_revision ex vals) as [clr| |] eqn:Ec; cbn [bind] in H; try discriminate.
  destruct (valid_renter ex) as [evr| |] eqn:Er; cbn [bind] in H; try discriminate.
  destruct (validate_clearing ex clr (if evr <? s_baserpc s then evr else s_baserpc s)) as [fp| |] eqn:Ef;
    cbn [bind] in H; try discriminate.
  destruct (base_costs (s_price s) (s_storage s) (s_coll s) ex rn) as [[br bc]| |] eqn:Eb; cbn [bind fst snd] in H; try discriminate.
  destruct (validate_renewal2 ex rn uhexp br bc height s) as [[[sr risked] locked]| |] eqn:Ev; cbn [bind] in H; try discriminate.
  unfold csub in H. destruct (s_price s <=? sr) eqn:Cs; cbn [bind] in H; [|discriminate].
  inversion H; subst; clear H.
  apply acc_ok in Er as [-> _]. fold (vr ex) in Ef.
  pose proof (clearing_revision_sound _ _ _ Ec) as (_ & _ & _ & _ & Hm & Hv & _).
  assert (Rc : inrange clr).
  { unfold inrange. rewrite Hm. rewrite <- Hv in Rv. apply forall_vals_inrange in Rv. split; assumption. }
  apply validate_clearing_sound in Ef as (Cl & Hfp & _ & _); [|assumption|assumption].
  replace (if vr ex <? s_baserpc s then vr ex else s_baserpc s) with (N.min (vr ex) (s_baserpc s)) in Cl
    by (destruct (vr ex <? s_baserpc s) eqn:Cm; lia).
  apply base_costs_eq in Eb as [-> ->].
  apply validate_renewal2_sound in Ev as (T & ? & ? & ? & ? & ? & ? & ? & ? & ? & ? & ? & ? & ?); [|assumption|assumption].
  exists locked, (mkU fp 0 0), (mkU (s_price s) (sr - s_price s) risked), clr.
  subst sr. unfold mkU; cbn [u_rpc u_storage].
  replace (s_price s + ext_cost (s_storage s) ex rn - s_price s) with (ext_cost (s_storage s) ex rn) by lia.
  split; [reflexivity|]. split; [lia|]. split; [lia|].
  split; [destruct (s_accepting s); [reflexivity|discriminate]|].
  split; [lia|]. split; [reflexivity|]. split; [exact Cl|]. split; [subst fp; reflexivity|].
  split; [exact T|]. repeat split; try assumption; try lia. subst risked. reflexivity.
Qed.

Lemma renew2_no_panic : forall ex vals rn uhexp height require s,
  (1 <= length (rvalid ex))%nat ->
  renew2 ex vals rn uhexp height require s <> Panic.
Proof.
  intros ex vals rn uhexp height require s L. unfold renew2, bad.
  do 4 (match goal with |- (if ?b then _ else _) <> Panic => destruct b; [discriminate|] end).
  pose proof (clearing_revision_no_panic ex vals).
  destruct (clearing_revision ex vals) as [clr| |] eqn:Ec; cbn [bind]; try congruence.
  unfold valid_renter. destruct (nth_out_lt (rvalid ex) 0) as [o0 E0]; [lia|]. rewrite E0; cbn [bind].
  match goal with |- context [validate_clearing ex clr ?p] =>
    pose proof (validate_clearing_no_panic ex clr p); destruct (validate_clearing ex clr p) as [fp| |] end;
    cbn [bind]; try congruence.
  pose proof (base_costs_no_panic (s_price s) (s_storage s) (s_coll s) ex rn).
  destruct (base_costs (s_price s) (s_storage s) (s_coll s) ex rn) as [[br bc]| |] eqn:Eb; cbn [bind fst snd]; try congruence.
  pose proof (validate_renewal2_no_panic ex rn uhexp br bc height s).
  destruct (validate_renewal2 ex rn uhexp br bc height s) as [[[sr risked] locked]| |] eqn:Ev; cbn [bind]; try congruence.
  (* baseRev.Sub(ContractPrice): the base revenue includes the contract price *)
  assert (sr = br).
  { unfold validate_renewal2 in Ev.
    destruct (renewal_std ex rn uhexp height (s_window s) (s_maxdur s) (s_address s)) as [[]| |]; cbn [bind] in Ev; try discriminate.
    unfold bad in Ev.
    repeat match type of Ev with
    | (if ?b then _ else _) = Ok _ => destruct b; [discriminate Ev|]
    | (let '(_, _) := ?p in _) = Ok _ => destruct p as [? ?]
    | bind ?r _ = Ok _ => destruct r; cbn [bind] in Ev; try discriminate Ev
    end.
    inversion Ev; reflexivity. }
  subst sr. apply base_costs_eq in Eb as [-> _].
  unfold csub. destruct (s_price s <=? s_price s + ext_cost (s_storage s) ex rn) eqn:C; [|lia].
  cbn [bind]. discriminate.
Qed.

Lemma renew3_sound : forall accepting ex clr rn uhexp wallet require pt o,
  nowrap (p_height pt) (p_window pt) (p_maxdur pt) ->
  inrange rn -> inrange ex -> inrange clr ->
  renew3 accepting ex clr rn uhexp wallet require pt = Ok o ->
  exists locked cu ru, o = ORenew locked cu ru /\
  rws rn < require /\ accepting = true /\
  cleared ex clr 0 /\ cu = mkU (vh clr - vh ex) 0 0 /\
  terms_ok rn (p_height pt) (p_window pt) (p_maxdur pt) wallet /\
  rnum rn = 0 /\ rsize rn = rsize ex /\ rroot rn = rroot ex /\ rwe ex <= rwe rn /\ ruh rn = uhexp /\
  p_price pt + (p_renewcost pt + ext_cost (p_writestore pt) ex rn) <= vh rn /\
  locked <= p_maxcoll pt /\
  mh rn <= vh rn /\ mvoid rn = vh rn - mh rn /\
  vh rn - mh rn <= p_renewcost pt + ext_cost (p_writestore pt) ex rn + ext_cost (p_collcost pt) ex rn /\
  locked = vh rn - (p_price pt + (p_renewcost pt + ext_cost (p_writestore pt) ex rn)) /\
  ru = mkU (p_price pt) (p_renewcost pt + ext_cost (p_writestore pt) ex rn)
           ((vh rn - mh rn) - (p_renewcost pt + ext_cost (p_writestore pt) ex rn)) /\
  vh rn = locked + u_rpc ru + u_storage ru.
Proof.
  intros accepting ex clr rn uhexp wallet require pt o W Rn Rx Rc H. unfold renew3, bad in H.
  step H. step H.
  destruct (validate_clearing ex clr 0) as [fp| |] eqn:Ef; cbn [bind] in H; try discriminate.
  destruct (base_costs (p_renewcost pt) (p_writestore pt) (p_collcost pt) ex rn) as [[br bc]| |] eqn:Eb; cbn [bind fst snd] in H; try discriminate.
  destruct (validate_renewal3 ex rn uhexp wallet br bc pt) as [[risked locked]| |] eqn:Ev; cbn [bind] in H; try discriminate.
  inversion H; subst; clear H.
  apply validate_clearing_sound in Ef as (Cl & Hfp & _ & _); [|assumption|assumption].
  apply base_costs_eq in Eb as [-> ->].
  apply validate_renewal3_sound in Ev as (T & ? & ? & ? & ? & ? & ? & ? & ? & ? & ? & ? & ? & ?); [|assumption|assumption].
  exists locked, (mkU fp 0 0), (mkU (p_price pt) (p_renewcost pt + ext_cost (p_writestore pt) ex rn) risked).
  unfold mkU; cbn [u_rpc u_storage].
  split; [reflexivity|]. split; [lia|].
  split; [destruct accepting; [reflexivity|discriminate]|].
  split; [exact Cl|]. split; [subst fp; reflexivity|].
  split; [exact T|]. repeat split; try assumption; try lia. subst risked. reflexivity.
Qed.

Lemma renew3_no_panic : forall accepting ex clr rn uhexp wallet require pt,
  inrange rn ->
  renew3 accepting ex clr rn uhexp wallet require pt <> Panic.
Proof.
  intros accepting ex clr rn uhexp wallet require pt R. unfold renew3, bad.
  do 2 (match goal with |- (if ?b then _ else _) <> Panic => destruct b; [discriminate|] end).
  pose proof (validate_clearing_no_panic ex clr 0).
  destruct (validate_clearing ex clr 0) as [fp| |]; cbn [bind]; try congruence.
  pose proof (base_costs_no_panic (p_renewcost pt) (p_writestore pt) (p_collcost pt) ex rn).
  destruct (base_costs (p_renewcost pt) (p_writestore pt) (p_collcost pt) ex rn) as [[br bc]| |]; cbn [bind fst snd]; try congruence.
  pose proof (validate_renewal3_no_panic ex rn uhexp wallet br bc pt R).
  destruct (validate_renewal3 ex rn uhexp wallet br bc pt) as [[risked locked]| |]; cbn [bind]; congruence.
Qed.

(** * non-vacuity *)
Definition ex_s2 : settings2 := S2 true 5 144 4320 100 10000 2 3 10.
Definition ex_pt : ptable := PT 1000 144 4320 100 10000 7 2 3.
Definition ex_fc : rev := R 0 0 0 0 1144 1288 [O 1 5000; O 5 600] [O 1 5000; O 5 600; O 0 0] 1 0.
Definition ex_existing : rev := R 0 1 4194304 1 1256 1400 [O 1 3000; O 5 900] [O 1 3000; O 5 800; O 0 100] 9 7.
(* 4 MiB extended by 100 blocks: storage 2*4Mi*100 = 838860800, collateral 3*4Mi*100 = 1258291200 *)
Definition ex_rn2 : rev := R 0 0 4194304 1 1300 1500 [O 1 7000; O 5 838864900] [O 1 7000; O 5 3950; O 0 838860950] 1 0.
Definition ex_rn3 : rev := R 0 0 4194304 1 1300 1500 [O 1 7000; O 5 838864907] [O 1 7000; O 5 4050; O 0 838860857] 1 0.
Definition ex_clr : rev := R 0 1 0 0 1256 1400 [O 1 2990; O 5 910] [O 1 2990; O 5 910] 9 max64.

Lemma nonvacuous_ex :
  nowrap 1000 144 4320
  /\ form2 ex_fc 1 1000 100000 ex_s2 = Ok (OForm 500 (mkU 100 0 0))
  /\ renew2 ex_existing [2990; 910] ex_rn2 1 1000 100000 ex_s2 = Ok (ORenew 4000 (mkU 10 0 0) (mkU 100 838860800 50))
  /\ renew3 true ex_existing ex_clr ex_rn3 1 5 100000 ex_pt = Ok (ORenew 4000 (mkU 10 0 0) (mkU 100 838860807 50))
  /\ form2 ex_fc 1 1001 100000 ex_s2 = Err EInvalid.
Proof.
  split; [unfold nowrap; split; reflexivity|]. vm_compute. repeat split; reflexivity.
Qed.

(** * wrappers used by the property file *)

Lemma validate_renewal2_upper : forall ex rn uhexp baseRev baseRisk height s x,
  validate_renewal2 ex rn uhexp baseRev baseRisk height s = Ok x -> rws rn <= height + s_maxdur s.
Proof.
  intros ex rn uhexp baseRev baseRisk height s x H. unfold validate_renewal2 in H.
  destruct (renewal_std ex rn uhexp height (s_window s) (s_maxdur s) (s_address s)) as [[]| |] eqn:Es;
    cbn [bind] in H; try discriminate.
  eapply renewal_std_upper; eauto.
Qed.

Lemma validate_renewal3_upper : forall ex rn uhexp wallet baseRev baseRisk pt x,
  validate_renewal3 ex rn uhexp wallet baseRev baseRisk pt = Ok x -> rws rn <= p_height pt + p_maxdur pt.
Proof.
  intros ex rn uhexp wallet baseRev baseRisk pt x H. unfold validate_renewal3 in H.
  destruct (renewal_std ex rn uhexp (p_height pt) (p_window pt) (p_maxdur pt) wallet) as [[]| |] eqn:Es;
    cbn [bind] in H; try discriminate.
  eapply renewal_std_upper; eauto.
Qed.

Lemma renewal2_establishes_shape : forall ex rn uhexp baseRev baseRisk height s x other uc,
  validate_renewal2 ex rn uhexp baseRev baseRisk height s = Ok x ->
  shape23 rn /\ shape23 (initial_revision rn other uc).
Proof.
  intros ex rn uhexp baseRev baseRisk height s x other uc H. unfold validate_renewal2 in H.
  destruct (renewal_std ex rn uhexp height (s_window s) (s_maxdur s) (s_address s)) as [[]| |] eqn:Es;
    cbn [bind] in H; try discriminate.
  eapply renewal_std_shape; eauto.
Qed.

Lemma renewal3_establishes_shape : forall ex rn uhexp wallet baseRev baseRisk pt x other uc,
  validate_renewal3 ex rn uhexp wallet baseRev baseRisk pt = Ok x ->
  shape23 rn /\ shape23 (initial_revision rn other uc).
Proof.
  intros ex rn uhexp wallet baseRev baseRisk pt x other uc H. unfold validate_renewal3 in H.
  destruct (renewal_std ex rn uhexp (p_height pt) (p_window pt) (p_maxdur pt) wallet) as [[]| |] eqn:Es;
    cbn [bind] in H; try discriminate.
  eapply renewal_std_shape; eauto.
Qed.
