From HostdBase Require Import Base.
From HostdRevision Require Import Model.
From HostdFormation Require Import Model.
