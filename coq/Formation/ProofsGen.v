(* Formation/ProofsGen.v — the headline lemmas of Proofs.v restated about the definitions that
   tools/go2coq regenerates from rhp/v2/contracts.go and rhp/v3/contracts.go
   (gen/FormationGen.v), obtained by rewriting with the equivalences of GenEquiv.v. *)
From Coq Require Import Lia ZifyBool ZifyN ZifyNat.
From HostdBase Require Import Base.
From HostdRevision Require Import Model Proofs.
From HostdFormation Require Import Model Proofs GenEquiv.
From HostdFormation.gen Require Import FormationGen.
Local Open Scope N_scope.

Lemma gen_validate_formation_sound : forall fc uhexp height s hc,
  nowrap height (s_window s) (s_maxdur s) ->
  V2.validateContractFormation fc uhexp height s = Ok hc ->
  terms_ok fc height (s_window s) (s_maxdur s) (s_address s) /\
  rsize fc = 0 /\ rnum fc = 0 /\ rroot fc = 0 /\ ruh fc = uhexp /\
  mvoid fc = 0 /\ vh fc = mh fc /\
  s_price s <= vh fc /\ vh fc <= s_maxcoll s /\
  hc = vh fc - s_price s /\ hc <= s_maxcoll s.
Proof. intros *. rewrite validateContractFormation_eq. apply validate_formation_sound. Qed.

Lemma gen_validate_renewal2_sound : forall ex rn uhexp baseRev baseRisk height s sr risked locked,
  nowrap height (s_window s) (s_maxdur s) -> inrange rn ->
  V2.validateContractRenewal ex rn uhexp baseRev baseRisk height s = Ok (sr, risked, locked) ->
  terms_ok rn height (s_window s) (s_maxdur s) (s_address s) /\
  rnum rn = 0 /\ rsize rn = rsize ex /\ rroot rn = rroot ex /\ rwe ex <= rwe rn /\ ruh rn = uhexp /\
  mh rn <= vh rn /\ vh rn - mh rn <= baseRev + baseRisk /\ mvoid rn = vh rn - mh rn /\
  sr = baseRev /\ baseRev <= vh rn /\ locked = vh rn - baseRev /\ locked <= s_maxcoll s /\
  risked = (vh rn - mh rn) - baseRev.
Proof. intros *. rewrite validateContractRenewal2_eq. apply validate_renewal2_sound. Qed.

Lemma gen_validate_renewal3_sound : forall ex rn uhexp wallet baseRev baseRisk pt risked locked,
  nowrap (p_height pt) (p_window pt) (p_maxdur pt) -> inrange rn ->
  V3.validateContractRenewal ex rn uhexp wallet baseRev baseRisk pt = Ok (risked, locked) ->
  terms_ok rn (p_height pt) (p_window pt) (p_maxdur pt) wallet /\
  rnum rn = 0 /\ rsize rn = rsize ex /\ rroot rn = rroot ex /\ rwe ex <= rwe rn /\ ruh rn = uhexp /\
  mh rn <= vh rn /\ vh rn - mh rn <= baseRev + baseRisk /\ mvoid rn = vh rn - mh rn /\
  p_price pt + baseRev <= vh rn /\ locked = vh rn - (p_price pt + baseRev) /\ locked <= p_maxcoll pt /\
  risked = (vh rn - mh rn) - baseRev /\
  p_price pt + locked - risked <= mh rn.
Proof. intros *. rewrite validateContractRenewal3_eq. apply validate_renewal3_sound. Qed.

Lemma gen_validate_formation_upper : forall fc uhexp height s hc,
  V2.validateContractFormation fc uhexp height s = Ok hc -> rws fc <= height + s_maxdur s.
Proof. intros *. rewrite validateContractFormation_eq. apply validate_formation_upper. Qed.

Lemma gen_validate_renewal2_upper : forall ex rn uhexp baseRev baseRisk height s x,
  V2.validateContractRenewal ex rn uhexp baseRev baseRisk height s = Ok x -> rws rn <= height + s_maxdur s.
Proof. intros *. rewrite validateContractRenewal2_eq. apply validate_renewal2_upper. Qed.

Lemma gen_validate_renewal3_upper : forall ex rn uhexp wallet baseRev baseRisk pt x,
  V3.validateContractRenewal ex rn uhexp wallet baseRev baseRisk pt = Ok x -> rws rn <= p_height pt + p_maxdur pt.
Proof. intros *. rewrite validateContractRenewal3_eq. apply validate_renewal3_upper. Qed.

Lemma gen_formation_establishes_shape : forall fc uhexp height s hc other uc,
  V2.validateContractFormation fc uhexp height s = Ok hc ->
  shape23 fc /\ shape23 (initial_revision fc other uc).
Proof. intros *. rewrite validateContractFormation_eq. apply formation_establishes_shape. Qed.

Lemma gen_renewal2_establishes_shape : forall ex rn uhexp baseRev baseRisk height s x other uc,
  V2.validateContractRenewal ex rn uhexp baseRev baseRisk height s = Ok x ->
  shape23 rn /\ shape23 (initial_revision rn other uc).
Proof. intros *. rewrite validateContractRenewal2_eq. apply renewal2_establishes_shape. Qed.

Lemma gen_renewal3_establishes_shape : forall ex rn uhexp wallet baseRev baseRisk pt x other uc,
  V3.validateContractRenewal ex rn uhexp wallet baseRev baseRisk pt = Ok x ->
  shape23 rn /\ shape23 (initial_revision rn other uc).
Proof. intros *. rewrite validateContractRenewal3_eq. apply renewal3_establishes_shape. Qed.

Lemma gen_validate_formation_no_panic : forall fc uhexp height s,
  V2.validateContractFormation fc uhexp height s <> Panic.
Proof. intros *. rewrite validateContractFormation_eq. apply validate_formation_no_panic. Qed.

Lemma gen_validate_renewal2_no_panic : forall ex rn uhexp baseRev baseRisk height s,
  V2.validateContractRenewal ex rn uhexp baseRev baseRisk height s <> Panic.
Proof. intros *. rewrite validateContractRenewal2_eq. apply validate_renewal2_no_panic. Qed.

Lemma gen_validate_renewal3_no_panic : forall ex rn uhexp wallet baseRev baseRisk pt,
  inrange rn ->
  V3.validateContractRenewal ex rn uhexp wallet baseRev baseRisk pt <> Panic.
Proof. intros *. rewrite validateContractRenewal3_eq. apply validate_renewal3_no_panic. Qed.

(* renewalBaseCosts of both packages: the base revenue is the fixed price plus unit price * size *
   extension of the proof window, the base collateral likewise; no window end or file size makes
   it panic ([< two64]: the fields are uint64 in Go) *)
Lemma gen_base_costs2_eq : forall ex rn s br bc,
  rwe ex < two64 -> rwe rn < two64 ->
  V2.renewalBaseCosts ex rn s = Ok (br, bc) ->
  br = s_price s + ext_cost (s_storage s) ex rn /\ bc = ext_cost (s_coll s) ex rn.
Proof. intros ex rn s br bc Hex Hrn. rewrite renewalBaseCosts2_eq by assumption. apply base_costs_eq. Qed.

Lemma gen_base_costs3_eq : forall ex rn pt br bc,
  rwe ex < two64 -> rwe rn < two64 ->
  V3.renewalBaseCosts ex rn pt = Ok (br, bc) ->
  br = p_renewcost pt + ext_cost (p_writestore pt) ex rn /\ bc = ext_cost (p_collcost pt) ex rn.
Proof. intros ex rn pt br bc Hex Hrn. rewrite renewalBaseCosts3_eq by assumption. apply base_costs_eq. Qed.

Lemma gen_base_costs2_no_panic : forall ex rn s,
  rwe ex < two64 -> rwe rn < two64 -> V2.renewalBaseCosts ex rn s <> Panic.
Proof. intros ex rn s Hex Hrn. rewrite renewalBaseCosts2_eq by assumption. apply base_costs_no_panic. Qed.

Lemma gen_base_costs3_no_panic : forall ex rn pt,
  rwe ex < two64 -> rwe rn < two64 -> V3.renewalBaseCosts ex rn pt <> Panic.
Proof. intros ex rn pt Hex Hrn. rewrite renewalBaseCosts3_eq by assumption. apply base_costs_no_panic. Qed.
