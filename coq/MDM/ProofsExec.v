(* MDM/ProofsExec.v — budget invariant, payForExecution, every instruction, the program. *)
From Coq Require Import Lia ZifyBool ZifyN ZifyNat.
From HostdBase Require Import Base.
From HostdMDM Require Import Model Proofs.
Local Open Scope N_scope.

(** * usage arithmetic *)
Lemma usage_total_ok : forall u, utot u < two128 -> usage_total u = Ok (utot u).
Proof.
  intros u H. unfold usage_total, utot in *.
  rewrite cadd_ok by lia. cbn [bind]. rewrite cadd_ok by lia. cbn [bind].
  rewrite cadd_ok by lia. cbn [bind]. rewrite cadd_ok by lia. cbn [bind].
  rewrite cadd_ok by lia. reflexivity.
Qed.

Definition uplus (a b : usage) : usage :=
  {| uRpc := uRpc a + uRpc b; uStorage := uStorage a + uStorage b; uEgress := uEgress a + uEgress b;
     uIngress := uIngress a + uIngress b; uRegR := uRegR a + uRegR b; uRegW := uRegW a + uRegW b |}.

Lemma usage_add_ok : forall a b, utot a + utot b < two128 -> usage_add a b = Ok (uplus a b).
Proof.
  intros a b H. unfold usage_add, utot in *.
  rewrite cadd_ok by lia. cbn [bind]. rewrite cadd_ok by lia. cbn [bind].
  rewrite cadd_ok by lia. cbn [bind]. rewrite cadd_ok by lia. cbn [bind].
  rewrite cadd_ok by lia. cbn [bind]. rewrite cadd_ok by lia. reflexivity.
Qed.

Lemma utot_uplus : forall a b, utot (uplus a b) = utot a + utot b.
Proof. intros. unfold utot, uplus. cbn. lia. Qed.

Lemma spend_spec : forall b u, utot (buse b) + utot u < two128 ->
  spend b u = if bmax b <? utot (buse b) + utot u then Err EInsufficient
              else Ok {| bmax := bmax b; buse := uplus (buse b) u |}.
Proof.
  intros b u H. unfold spend. rewrite usage_add_ok by assumption. cbn [bind].
  rewrite usage_total_ok by (rewrite utot_uplus; assumption). cbn [bind].
  rewrite utot_uplus. reflexivity.
Qed.

Definition cplus (a b : cost) : cost :=
  {| cBase := cBase a + cBase b; cStorage := cStorage a + cStorage b; cCollateral := cCollateral a + cCollateral b;
     cEgress := cEgress a + cEgress b; cIngress := cIngress a + cIngress b |}.

Lemma cost_add_ok : forall a b, ncoll a + ncoll b < two128 -> cCollateral a + cCollateral b < two128 ->
  cost_add a b = Ok (cplus a b).
Proof.
  intros a b H Hc. unfold cost_add, ncoll in *.
  rewrite cadd_ok by lia. cbn [bind]. rewrite cadd_ok by lia. cbn [bind].
  rewrite cadd_ok by lia. cbn [bind]. rewrite cadd_ok by lia. cbn [bind].
  rewrite cadd_ok by lia. reflexivity.
Qed.

(** * the executor invariant *)
(* i0: what the handler spent from the budget before the executor was created *)
Record binv (i0 m : N) (s : estate) : Prop := {
  bi_tot : utot (buse (ebudget s)) <= bmax (ebudget s);
  bi_m : bmax (ebudget s) = m;
  bi_max : m < two127;
  bi_cost : ncoll (ecost s) + i0 = utot (buse (ebudget s));
  bi_rpc : uRpc (buse (ebudget s)) = i0 + uRpc (eusage s);
  bi_sto : uStorage (buse (ebudget s)) = uStorage (eusage s);
  bi_egr : uEgress (buse (ebudget s)) = uEgress (eusage s);
  bi_ing : uIngress (buse (ebudget s)) = uIngress (eusage s);
  bi_rr : uRegR (buse (ebudget s)) = uRegR (eusage s);
  bi_rw : uRegW (buse (ebudget s)) = uRegW (eusage s) }.

(* k more instructions may each add one unit of collateral *)
Definition inv (x : ctx) (i0 m : N) (k : nat) (s : estate) : Prop :=
  binv i0 m s /\ cCollateral (ecost s) + N.of_nat k * coll_unit x < two128.
(* len(roots) is a Go int; k more instructions may each append one root *)
Definition rinv (k : nat) (s : estate) : Prop := nroots (eroots s) + N.of_nat k < two63.

Lemma inv_weaken : forall x i0 m k s, inv x i0 m (S k) s -> inv x i0 m k s.
Proof. intros x i0 m k s (Hb & Hc). split; [assumption|]. rewrite Nat2N.inj_succ in *. nia. Qed.
Lemma rinv_weaken : forall k s, rinv (S k) s -> rinv k s.
Proof. unfold rinv. intros k s H. rewrite Nat2N.inj_succ in H. lia. Qed.

Lemma inv_frame : forall x i0 m k s s',
  ebudget s' = ebudget s -> ecost s' = ecost s -> eusage s' = eusage s -> inv x i0 m k s -> inv x i0 m k s'.
Proof.
  intros x i0 m k s s' H1 H2 H3 ([? ? ? ? ? ? ? ? ? ?] & Hc).
  split; [constructor|]; rewrite ?H1, ?H2, ?H3; assumption.
Qed.

Definition mk_ok (mk : cost -> usage) : Prop := mk = std_usage \/ mk = regr_usage \/ mk = regw_usage.

Lemma mk_utot : forall mk c, mk_ok mk -> utot (mk c) = ncoll c.
Proof. intros mk c [-> | [-> | ->]]; unfold utot, ncoll, std_usage, regr_usage, regw_usage; cbn; lia. Qed.

(* payForExecution: either nothing happens and an error is returned, or the invariant moves on *)
Lemma pay_spec : forall x i0 m k s r mk,
  inv x i0 m (S k) s -> cost_fits (coll_unit x) r -> mk_ok mk ->
  (exists e, pay r mk s = (s, Err e)) \/
  (exists s', pay r mk s = (s', Ok tt) /\ inv x i0 m k s' /\
              eroots s' = eroots s /\ etemps s' = etemps s /\ ewrites s' = ewrites s).
Proof.
  intros x i0 m k s r mk (Hb & Hc) (c & -> & Hn & Hcu) Hmk.
  destruct Hb as [Ht Hmm Hm Hco Hrpc Hsto Hegr Hing Hrr Hrw]. subst m.
  unfold pay.
  assert (Hu : utot (mk c) = ncoll c) by (apply mk_utot; assumption).
  rewrite spend_spec by (rewrite Hu; unfold two127, two128 in *; lia).
  destruct (bmax (ebudget s) <? utot (buse (ebudget s)) + utot (mk c)) eqn:Hlt.
  - left. eexists. reflexivity.
  - right.
    rewrite Nat2N.inj_succ in Hc.
    rewrite cost_add_ok by (unfold two127, two128 in *; nia).
    assert (Hue : utot (eusage s) + utot (mk c) < two128).
    { unfold utot in *. unfold two127, two128 in *. lia. }
    rewrite usage_add_ok by assumption.
    eexists. split; [reflexivity|]. cbn [eroots etemps ewrites].
    split; [|auto].
    split.
    + constructor; cbn [ebudget ecost eusage bmax buse].
      * rewrite utot_uplus. lia.
      * reflexivity.
      * assumption.
      * rewrite utot_uplus, Hu. unfold ncoll, cplus in *. cbn. lia.
      * destruct Hmk as [-> | [-> | ->]]; cbn; lia.
      * destruct Hmk as [-> | [-> | ->]]; cbn; lia.
      * destruct Hmk as [-> | [-> | ->]]; cbn; lia.
      * destruct Hmk as [-> | [-> | ->]]; cbn; lia.
      * destruct Hmk as [-> | [-> | ->]]; cbn; lia.
      * destruct Hmk as [-> | [-> | ->]]; cbn; lia.
    + cbn [ecost cplus cCollateral]. nia.
Qed.

(** * a weakest-precondition style predicate on the state monad *)
Definition safe {A} (m : M A) (s : estate) (Q : A -> estate -> Prop) (E : estate -> Prop) : Prop :=
  match m s with
  | (s', Ok a) => Q a s'
  | (s', Err _) => E s'
  | (_, Panic) => False
  end.

Lemma safe_bind : forall A B (m : M A) (f : A -> M B) s Q E,
  safe m s (fun a s' => safe (f a) s' Q E) E -> safe (bindM m f) s Q E.
Proof.
  intros A B m f s Q E H. unfold safe, bindM in *.
  destruct (m s) as [s' [a | e |]]; assumption.
Qed.

Lemma safe_ret : forall A (a : A) s (Q : A -> estate -> Prop) E, Q a s -> safe (ret a) s Q E.
Proof. intros. exact H. Qed.

Lemma safe_lift : forall A (r : res A) s (Q : A -> estate -> Prop) (E : estate -> Prop),
  match r with Ok a => Q a s | Err _ => E s | Panic => False end -> safe (lift r) s Q E.
Proof. intros A r s Q E H. unfold safe, lift. destruct r; assumption. Qed.

Lemma safe_fail : forall A e s (Q : A -> estate -> Prop) (E : estate -> Prop), E s -> safe (failM e) s Q E.
Proof. intros. exact H. Qed.

Lemma safe_guard : forall b e s (Q : unit -> estate -> Prop) (E : estate -> Prop),
  (b = true -> E s) -> (b = false -> Q tt s) -> safe (guard b e) s Q E.
Proof. intros b e s Q E H1 H2. unfold guard. destruct b; [apply H1|apply H2]; reflexivity. Qed.

Lemma safe_pay : forall x i0 m k s r mk (Q : unit -> estate -> Prop) (E : estate -> Prop),
  inv x i0 m (S k) s -> cost_fits (coll_unit x) r -> mk_ok mk ->
  E s ->
  (forall s', inv x i0 m k s' -> eroots s' = eroots s -> etemps s' = etemps s -> ewrites s' = ewrites s -> Q tt s') ->
  safe (pay r mk) s Q E.
Proof.
  intros x i0 m k s r mk Q E Hi Hc Hm HE HQ. unfold safe.
  destruct (pay_spec x i0 m k s r mk Hi Hc Hm) as [[e ->] | (s' & -> & Hi' & H1 & H2 & H3)].
  - exact HE.
  - apply HQ; assumption.
Qed.

Definition with_roots (s : estate) (r : list N) : estate :=
  {| eroots := r; ebudget := ebudget s; ecost := ecost s; eusage := eusage s; etemps := etemps s; ewrites := ewrites s |}.
Definition with_write (s : estate) (r : N) : estate :=
  {| eroots := eroots s; ebudget := ebudget s; ecost := ecost s; eusage := eusage s; etemps := etemps s; ewrites := r :: ewrites s |}.
Definition with_temp (s : estate) (t : N * N) : estate :=
  {| eroots := eroots s; ebudget := ebudget s; ecost := ecost s; eusage := eusage s; etemps := etemps s ++ [t]; ewrites := ewrites s |}.

Lemma safe_set_roots : forall r s (Q : unit -> estate -> Prop) E, Q tt (with_roots s r) -> safe (set_roots r) s Q E.
Proof. intros. exact H. Qed.

Lemma safe_write : forall e s (Q : unit -> estate -> Prop) (E : estate -> Prop),
  (owrite e = false -> E s) -> (owrite e = true -> Q tt (with_write s (oroot e))) -> safe (write_sector e) s Q E.
Proof. intros e s Q E H1 H2. unfold safe, write_sector. destruct (owrite e); [apply H2|apply H1]; reflexivity. Qed.

Lemma safe_add_temp : forall r ex s (Q : unit -> estate -> Prop) E, Q tt (with_temp s (r, ex)) -> safe (add_temp r ex) s Q E.
Proof. intros. exact H. Qed.

Lemma safe_get_roots : forall x s (Q : list N -> estate -> Prop) E,
  xcontract x = true -> Q (eroots s) s -> safe (get_roots x) s Q E.
Proof. intros x s Q E Hx H. unfold safe, get_roots, with_updater. rewrite Hx. exact H. Qed.

Lemma safe_upd_append : forall x r s (Q : unit -> estate -> Prop) E,
  xcontract x = true -> Q tt (with_roots s (eroots s ++ [r])) -> safe (upd_append x r) s Q E.
Proof. intros x r s Q E Hx H. unfold safe, upd_append, with_updater. rewrite Hx. exact H. Qed.

Lemma inv_with_roots : forall x i0 m k s r, inv x i0 m k s -> inv x i0 m k (with_roots s r).
Proof. intros. eapply inv_frame; try eassumption; reflexivity. Qed.
Lemma inv_with_write : forall x i0 m k s r, inv x i0 m k s -> inv x i0 m k (with_write s r).
Proof. intros. eapply inv_frame; try eassumption; reflexivity. Qed.
Lemma inv_with_temp : forall x i0 m k s t, inv x i0 m k s -> inv x i0 m k (with_temp s t).
Proof. intros. eapply inv_frame; try eassumption; reflexivity. Qed.

(** * instructions *)
(* the post-conditions of one instruction: the invariant moves on; a failure leaves the
   sector list and the pending temporary sectors as they were *)
Definition iQ (x : ctx) (i0 m : N) (k : nat) : N -> estate -> Prop := fun _ s' => inv x i0 m k s' /\ rinv k s'.
Definition iE (x : ctx) (i0 m : N) (k : nat) (s : estate) : estate -> Prop :=
  fun s' => inv x i0 m k s' /\ eroots s' = eroots s /\ etemps s' = etemps s.

Lemma iE_self : forall x i0 m k s, inv x i0 m (S k) s -> iE x i0 m k s s.
Proof. intros. split; [apply inv_weaken; assumption|auto]. Qed.

Lemma iE_after_pay : forall x i0 m k s s', inv x i0 m k s' -> eroots s' = eroots s -> etemps s' = etemps s -> iE x i0 m k s s'.
Proof. intros. split; auto. Qed.

Lemma nroots_app : forall l r, nroots (l ++ [r]) = nroots l + 1.
Proof. intros. unfold nroots. rewrite app_length. cbn. lia. Qed.


(* append_proof never fails once the root has been appended *)
Lemma safe_append_proof : forall x p s (Q : unit -> estate -> Prop) E,
  xcontract x = true -> (1 <= nroots (eroots s) < two64) -> Q tt s -> safe (append_proof x p) s Q E.
Proof.
  intros x p s Q E Hx Hn HQ. unfold append_proof. destruct p; [|exact HQ].
  apply safe_bind. apply safe_get_roots; [assumption|].
  apply safe_lift. rewrite wsub_small by lia.
  unfold go_slice, slice_ok.
  destruct ((0 <=? nroots (eroots s) - 1) && (nroots (eroots s) - 1 <=? nroots (eroots s))) eqn:H; [exact HQ|lia].
Qed.
