(* MDM/ProofsRpc.v — lemmas about MDM/Rpc.v *)
From Coq Require Import Lia ZifyBool ZifyN ZifyNat.
From HostdBase Require Import Base.
From HostdMDM Require Import Model Rpc Proofs ProofsExec ProofsInstr.
Local Open Scope N_scope.

(** * rpcSectorRoots *)
Lemma rpc_sector_roots_no_panic : forall s q,
  nroots (rroots s) < two63 -> snd (rpc_sector_roots s q) <> Panic.
Proof.
  intros s q Hn. unfold rpc_sector_roots.
  destruct ((srNum q =? 0) || (srSectors q <? srOff q) || (srSectors q - srOff q <? srNum q)) eqn:H1; [discriminate|].
  destruct (negb (srPayOk q)); [discriminate|].
  destruct (maxInt <? srNum q); [discriminate|].
  destruct (maxInt <? srOff q); [discriminate|].
  destruct (negb (nroots (rroots s) =? srSectors q)) eqn:H2; [discriminate|].
  cbn [snd]. unfold two63 in *.
  rewrite wadd_small by (unfold two64; lia).
  unfold go_slice, slice_ok.
  destruct ((srOff q <=? srOff q + srNum q) && (srOff q + srNum q <=? nroots (rroots s))) eqn:H3; [|lia].
  cbn [bind]. unfold build_sector_range_proof.
  destruct (nroots (rroots s) =? 0); [discriminate|].
  destruct ((nroots (rroots s) <? srOff q + srNum q) || (srOff q + srNum q <=? srOff q)) eqn:H4; [lia|discriminate].
Qed.

Lemma rpc_sector_roots_rejected : forall s q s' e,
  nroots (rroots s) < two63 -> rpc_sector_roots s q = (s', Err e) -> s' = s.
Proof.
  intros s q s' e Hn. pose proof (rpc_sector_roots_no_panic s q Hn) as Hnp. revert Hnp.
  unfold rpc_sector_roots.
  destruct ((srNum q =? 0) || (srSectors q <? srOff q) || (srSectors q - srOff q <? srNum q)) eqn:H1; [intros _ H; injection H; auto|].
  destruct (negb (srPayOk q)); [intros _ H; injection H; auto|].
  destruct (maxInt <? srNum q); [intros _ H; injection H; auto|].
  destruct (maxInt <? srOff q); [intros _ H; injection H; auto|].
  destruct (negb (nroots (rroots s) =? srSectors q)) eqn:H2; [intros _ H; injection H; auto|].
  cbn [snd]. unfold two63 in *.
  rewrite wadd_small by (unfold two64; lia).
  unfold go_slice, slice_ok.
  destruct ((srOff q <=? srOff q + srNum q) && (srOff q + srNum q <=? nroots (rroots s))) eqn:H3; [|lia].
  cbn [bind]. unfold build_sector_range_proof.
  destruct (nroots (rroots s) =? 0); [discriminate|].
  destruct ((nroots (rroots s) <? srOff q + srNum q) || (srOff q + srNum q <=? srOff q)) eqn:H4; [lia|discriminate].
Qed.

(** * rpcRead *)
Lemma read_sections_spec : forall proof l,
  forallb section_in_sector l = true -> forallb (section_cost_ok proof) l = true ->
  (exists outs, read_sections proof l = Ok outs) \/
  (read_sections proof l = Err ENotFound /\ exists c, In c l /\ scPresent c = false).
Proof.
  intros proof l. induction l as [|c t IH]; intros H1 H2.
  - left. eexists. reflexivity.
  - cbn [forallb] in *. apply andb_prop in H1 as [Hc1 Ht1]. apply andb_prop in H2 as [Hc2 Ht2].
    cbn [read_sections].
    destruct (scPresent c) eqn:Hp; cbn [negb].
    2:{ right. split; [reflexivity|]. exists c. split; [left; reflexivity|assumption]. }
    unfold section_in_sector in Hc1. unfold section_cost_ok in Hc2.
    assert (Hoff : scOff c <= SectorSize /\ scLen c <= SectorSize - scOff c) by lia.
    destruct (read_out_ok (scOff c) (scLen c) proof) as (n & Hn); [lia|lia| |].
    { intros ->. cbn [andb] in Hc2. unfold LeafSize in *. lia. }
    unfold read_out in Hn.
    destruct proof.
    + destruct (build_proof (scOff c / LeafSize) (wadd (scOff c) (scLen c) / LeafSize)) eqn:Hbp; cbn [bind] in Hn; try discriminate.
      destruct (go_slice SectorSize (scOff c) (wadd (scOff c) (scLen c))) eqn:Hgs; cbn [bind] in Hn; try discriminate.
      cbn [bind].
      destruct (IH Ht1 Ht2) as [(outs & ->) | (-> & c' & Hin & Hc')].
      * left. cbn [bind]. eexists. reflexivity.
      * right. split; [reflexivity|]. exists c'. split; [right; assumption|assumption].
    + cbn [bind] in Hn.
      destruct (go_slice SectorSize (scOff c) (wadd (scOff c) (scLen c))) eqn:Hgs; cbn [bind] in Hn; try discriminate.
      cbn [bind].
      destruct (IH Ht1 Ht2) as [(outs & ->) | (-> & c' & Hin & Hc')].
      * left. cbn [bind]. eexists. reflexivity.
      * right. split; [reflexivity|]. exists c'. split; [right; assumption|assumption].
Qed.

Lemma rpc_read_no_panic : forall s q, snd (rpc_read s q) <> Panic.
Proof.
  intros s q. unfold rpc_read.
  destruct (forallb section_in_sector (rdSections q)) eqn:H1; cbn [negb]; [|discriminate].
  destruct (forallb (section_cost_ok (rdProof q)) (rdSections q)) eqn:H2; cbn [negb]; [|discriminate].
  destruct (rdPayOk q); cbn [negb]; [|discriminate].
  cbn [snd]. destruct (read_sections_spec _ _ H1 H2) as [(outs & ->) | (-> & _)]; discriminate.
Qed.

(* the only rejection after the revision has been committed (the renter has paid for the
   whole request up front) is a section naming a sector the host does not store *)
Lemma rpc_read_rejected : forall s q s' e,
  rpc_read s q = (s', Err e) ->
  s' = s \/ (rdPayOk q = true /\ exists c, In c (rdSections q) /\ scPresent c = false).
Proof.
  intros s q s' e. unfold rpc_read.
  destruct (forallb section_in_sector (rdSections q)) eqn:H1; cbn [negb]; [|intros H; injection H; auto].
  destruct (forallb (section_cost_ok (rdProof q)) (rdSections q)) eqn:H2; cbn [negb]; [|intros H; injection H; auto].
  destruct (rdPayOk q); cbn [negb]; [|intros H; injection H; auto].
  destruct (read_sections_spec _ _ H1 H2) as [(outs & ->) | (-> & c & Hin & Hc)]; [discriminate|].
  intros _. right. split; [reflexivity|]. exists c. split; assumption.
Qed.

(** * rpcWrite *)
Lemma apply_actions_no_panic : forall l roots, apply_actions roots l <> Panic.
Proof.
  induction l as [|a t IH]; intros roots; cbn [apply_actions]; [discriminate|].
  destruct a.
  - destruct (negb (dlen =? SectorSize)); [discriminate|apply IH].
  - destruct (nroots roots <? a); [discriminate|apply IH].
  - destruct ((nroots roots <=? a) || (nroots roots <=? b)); [discriminate|apply IH].
  - destruct (nroots roots <=? idx); [discriminate|].
    destruct (negb present); [discriminate|].
    destruct (SectorSize <? off) eqn:H1; [discriminate|].
    destruct (SectorSize <? wadd off dlen); [discriminate|].
    unfold go_slice, slice_ok.
    destruct ((off <=? SectorSize) && (SectorSize <=? SectorSize)) eqn:H2; [|lia].
    cbn [bind]. apply IH.
  - apply IH.
Qed.

Lemma rpc_write_no_panic : forall s q, snd (rpc_write s q) <> Panic.
Proof.
  intros s q. unfold rpc_write.
  destruct (wrProof q) eqn:Hp; cbn [andb].
  - destruct (existsb is_update (wrActions q)) eqn:Hu; [discriminate|].
    destruct (negb (write_cost_ok true (wrSectors q) (wrActions q))); [discriminate|].
    unfold diff_proof. rewrite Hu.
    destruct (negb (wrPayOk q)); [discriminate|].
    pose proof (apply_actions_no_panic (wrActions q) (rroots s)) as Ha.
    destruct (apply_actions (rroots s) (wrActions q)); [|discriminate|contradiction].
    destruct (negb (wrSigOk q)); [discriminate|]. destruct (negb (wrCommitOk q)); discriminate.
  - destruct (negb (write_cost_ok false (wrSectors q) (wrActions q))); [discriminate|].
    destruct (negb (wrPayOk q)); [discriminate|].
    pose proof (apply_actions_no_panic (wrActions q) (rroots s)) as Ha.
    destruct (apply_actions (rroots s) (wrActions q)); [|discriminate|contradiction].
    destruct (negb (wrSigOk q)); [discriminate|]. destruct (negb (wrCommitOk q)); discriminate.
Qed.

Lemma rpc_write_rejected : forall s q s' e, rpc_write s q = (s', Err e) -> s' = s.
Proof.
  intros s q s' e. unfold rpc_write.
  destruct (wrProof q && existsb is_update (wrActions q)); [intros H; injection H; auto|].
  destruct (negb (write_cost_ok (wrProof q) (wrSectors q) (wrActions q))); [intros H; injection H; auto|].
  destruct (if wrProof q then diff_proof (wrActions q) else Ok tt); [|intros H; injection H; auto|discriminate].
  destruct (negb (wrPayOk q)); [intros H; injection H; auto|].
  destruct (apply_actions (rroots s) (wrActions q)); [|intros H; injection H; auto|discriminate].
  destruct (negb (wrSigOk q)); [intros H; injection H; auto|].
  destruct (negb (wrCommitOk q)); [intros H; injection H; auto|discriminate].
Qed.

(** * renter key, renewal costs, fund account *)
Lemma form_renter_key_no_panic : forall alg n, form_renter_key alg n <> Panic.
Proof.
  intros alg n. unfold form_renter_key. destruct (negb alg); [discriminate|].
  destruct (negb (n =? 32)) eqn:E; [discriminate|]. unfold to_array.
  destruct (n <? 32) eqn:E2; [lia|discriminate].
Qed.

Lemma renewal_costs_no_panic : forall base sp cp fs ce ne, renewal_costs base sp cp fs ce ne <> Panic.
Proof.
  intros. unfold renewal_costs, renewal_base_costs, cmul64_o, cadd_o.
  destruct (ce <? ne); [|discriminate].
  repeat match goal with |- context [if ?b then _ else _] => destruct b end; discriminate.
Qed.

(* when accepted, the costs are the exact products *)
Lemma renewal_costs_exact : forall base sp cp fs ce ne r c,
  ce < ne -> ne < two64 -> renewal_costs base sp cp fs ce ne = Ok (r, c) ->
  r = base + sp * fs * (ne - ce) /\ c = cp * fs * (ne - ce) /\ r < two128 /\ c < two128.
Proof.
  intros base sp cp fs ce ne r c H1 H2. unfold renewal_costs, renewal_base_costs, cmul64_o, cadd_o.
  destruct (ce <? ne) eqn:E; [|lia].
  rewrite wsub_small by lia.
  destruct (two128 <=? sp * fs) eqn:E1; [discriminate|].
  rewrite (N.mod_small (sp * fs)) by lia.
  destruct (two128 <=? sp * fs * (ne - ce)) eqn:E2; [discriminate|].
  rewrite (N.mod_small (sp * fs * (ne - ce))) by lia.
  destruct (two128 <=? base + sp * fs * (ne - ce)) eqn:E3; [discriminate|].
  rewrite (N.mod_small (base + sp * fs * (ne - ce))) by lia.
  destruct (two128 <=? cp * fs) eqn:E4; [discriminate|].
  rewrite (N.mod_small (cp * fs)) by lia.
  destruct (two128 <=? cp * fs * (ne - ce)) eqn:E5; [discriminate|].
  rewrite (N.mod_small (cp * fs * (ne - ce))) by lia.
  intros H. injection H as <- <-. repeat split; lia.
Qed.

Lemma rpc_fund_account_no_panic : forall s q,
  fbal s + fdTotal q < two128 -> snd (rpc_fund_account s q) <> Panic.
Proof.
  intros s q H. unfold rpc_fund_account.
  destruct (negb (fdRevOk q)); [discriminate|].
  destruct (fdTotal q <? fdCost q) eqn:E; [discriminate|].
  destruct (negb (fdSigOk q)); [discriminate|].
  rewrite cadd_ok by lia.
  destruct (fdMaxBal q <? fbal s + (fdTotal q - fdCost q)); discriminate.
Qed.

Lemma rpc_fund_account_rejected : forall s q s' e, rpc_fund_account s q = (s', Err e) -> s' = s.
Proof.
  intros s q s' e. unfold rpc_fund_account.
  destruct (negb (fdRevOk q)); [intros H; injection H; auto|].
  destruct (fdTotal q <? fdCost q) eqn:E; [intros H; injection H; auto|].
  destruct (negb (fdSigOk q)); [intros H; injection H; auto|].
  destruct (cadd (fbal s) (fdTotal q - fdCost q)); [|intros H; injection H; auto|discriminate].
  destruct (fdMaxBal q <? a); [intros H; injection H; auto|discriminate].
Qed.

(* an accepted funding credits exactly payment - cost *)
Lemma rpc_fund_account_accepted : forall s q s' a,
  rpc_fund_account s q = (s', Ok a) ->
  a + fdCost q = fdTotal q /\ fbal s' = fbal s + a /\ fbal s' <= fdMaxBal q.
Proof.
  intros s q s' a. unfold rpc_fund_account.
  destruct (negb (fdRevOk q)); [discriminate|].
  destruct (fdTotal q <? fdCost q) eqn:E; [discriminate|].
  destruct (negb (fdSigOk q)); [discriminate|].
  unfold cadd. destruct (fbal s + (fdTotal q - fdCost q) <? two128); [|discriminate].
  destruct (fdMaxBal q <? fbal s + (fdTotal q - fdCost q)) eqn:E2; [discriminate|].
  intros H. injection H as <- <-. cbn. lia.
Qed.

(** * RHP4 contractor interface *)
Lemma add_v2_contract_no_panic : forall a b c, add_v2_contract a b c <> Panic.
Proof.
  intros a b c. unfold add_v2_contract, go_index.
  destruct (a =? 0) eqn:E; [discriminate|].
  destruct (a - 1 <? a) eqn:E1; [|lia]. cbn [bind].
  destruct (negb (b =? 1)) eqn:E2; [discriminate|].
  destruct (0 <? b) eqn:E3; [|lia]. cbn [bind]. destruct c; discriminate.
Qed.

Lemma renew_v2_contract_no_panic : forall a b c d e f g, renew_v2_contract a b c d e f g <> Panic.
Proof.
  intros a b c d e f g. unfold renew_v2_contract, go_index.
  destruct (a =? 0) eqn:E; [discriminate|].
  destruct (a - 1 <? a) eqn:E1; [|lia]. cbn [bind].
  destruct (negb (b =? 1)) eqn:E2; [discriminate|].
  destruct (0 <? b) eqn:E3; [|lia]. cbn [bind].
  destruct c, d, e, f, g; discriminate.
Qed.

Lemma revise_v2_contract_no_panic : forall s q, snd (revise_v2_contract s q) <> Panic.
Proof.
  intros s q. unfold revise_v2_contract.
  repeat match goal with |- context [if ?b then _ else _] => destruct b end; discriminate.
Qed.

Lemma revise_v2_contract_rejected : forall s q s' e, revise_v2_contract s q = (s', Err e) -> s' = s.
Proof.
  intros s q s' e. unfold revise_v2_contract.
  repeat match goal with |- context [if ?b then _ else _] => destruct b end;
    intros H; try discriminate; injection H; auto.
Qed.

(* an accepted revision has a file size that matches the root list it installs *)
Lemma revise_v2_contract_accepted : forall s q s',
  revise_v2_contract s q = (s', Ok tt) ->
  rroots s' = r4Roots q /\ r4Filesize q = SectorSize * nroots (r4Roots q) /\ r4Filesize q <= r4Capacity q.
Proof.
  intros s q s'. unfold revise_v2_contract.
  destruct (negb (r4Found q)); [discriminate|]. destruct (r4Renewed q); [discriminate|].
  destruct (negb (r4KeysOk q)); [discriminate|]. destruct (negb (r4HeightsOk q)); [discriminate|].
  destruct (negb (r4Filesize q =? SectorSize * nroots (r4Roots q))) eqn:E1; [discriminate|].
  destruct (r4Capacity q <? r4Filesize q) eqn:E2; [discriminate|].
  destruct (negb (r4SigsOk q)); [discriminate|]. destruct (negb (r4RootOk q)); [discriminate|].
  destruct (negb (r4StoreOk q)); [discriminate|].
  intros H. injection H as <-. cbn [rroots]. repeat split; lia.
Qed.
