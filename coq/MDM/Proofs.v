(* MDM/Proofs.v — lemmas about MDM/Model.v: accessors, costs, budget, instructions. *)
From Coq Require Import Lia ZifyBool ZifyN ZifyNat.
From HostdBase Require Import Base.
From HostdMDM Require Import Model.
Local Open Scope N_scope.

(** * hypotheses on what is NOT peer input *)
Definition two63 : N := 9223372036854775808.
Definition two127 : N := 170141183460469231731687303715884105728.
Definition p60 : N := 1152921504606846976.
Definition p40 : N := 1099511627776.

Definition u64 (n : N) : Prop := n < two64.
(* Go's len() is an int *)
Definition pd_ok (d : pdata) : Prop := plen d < two63.

(* host-chosen unit prices: below 2^60 H per byte / per call, storage and collateral below
   2^40 H per byte per block (the defaults are around 2^35) *)
Record pt_sane (pt : ptable) : Prop := {
  ps_init : ptInit pt < p60; ps_down : ptDownload pt < p60; ps_up : ptUpload pt < p60;
  ps_dropb : ptDropBase pt < p60; ps_dropu : ptDropUnit pt < p60; ps_has : ptHasSector pt < p60;
  ps_readb : ptReadBase pt < p60; ps_readl : ptReadLength pt < p60; ps_rev : ptRevision pt < p60;
  ps_swap : ptSwap pt < p60; ps_wb : ptWriteBase pt < p60; ps_wl : ptWriteLength pt < p60;
  ps_store : ptWriteStore pt < p40; ps_coll : ptCollateral pt < p40; ps_h : ptHeight pt < two64 }.

(* collateral the host risks for one appended sector *)
Definition coll_unit (x : ctx) : N := ptCollateral (xpt x) * SectorSize * xdur x.

Definition ctx_ok (x : ctx) : Prop := pd_ok (xdata x) /\ pt_sane (xpt x) /\ u64 (xdur x).

(* the immediates of an instruction are uint64 fields *)
Definition instr_wf (i : instr) : Prop :=
  match i with
  | IAppendSector a _ | IAppendSectorRoot a _ | IDropSectors a _ | IHasSector a => u64 a
  | IReadOffset a b _ | ISwapSector a b _ | IStoreSector a b => u64 a /\ u64 b
  | IReadSector a b c _ | IUpdateSector a b c _ => u64 a /\ u64 b /\ u64 c
  | IRevision => True
  | IReadRegistry a b c v => u64 a /\ u64 b /\ u64 c /\ v < 256
  | IUpdateRegistry a b c d e f g => u64 a /\ u64 b /\ u64 c /\ u64 d /\ u64 e /\ u64 f /\ u64 g
  end.

(** * arithmetic *)
Lemma wadd_small : forall a b, a + b < two64 -> wadd a b = a + b.
Proof. intros a b H. unfold wadd. apply N.mod_small. exact H. Qed.

Lemma wadd_lt : forall a b, wadd a b < two64.
Proof. intros. unfold wadd. apply N.mod_lt. unfold two64. lia. Qed.

Lemma wsub_small : forall a b, b <= a -> a < two64 -> wsub a b = a - b.
Proof.
  intros a b H1 H2. unfold wsub.
  rewrite (N.mod_small b) by lia.
  replace (a + two64 - b) with ((a - b) + 1 * two64) by lia.
  rewrite N.mod_add by (unfold two64; lia). apply N.mod_small. lia.
Qed.

Lemma cadd_ok : forall a b, a + b < two128 -> cadd a b = Ok (a + b).
Proof. intros a b H. unfold cadd. destruct (a + b <? two128) eqn:E; [reflexivity|lia]. Qed.
Lemma csub_ok : forall a b, b <= a -> csub a b = Ok (a - b).
Proof. intros a b H. unfold csub. destruct (b <=? a) eqn:E; [reflexivity|lia]. Qed.
Lemma cmul64_ok : forall a b, a * b < two128 -> cmul64 a b = Ok (a * b).
Proof. intros a b H. unfold cmul64. destruct (a * b <? two128) eqn:E; [reflexivity|lia]. Qed.

Lemma mul_bound : forall a b A B, a < A -> b < B -> a * b < A * B.
Proof. intros. apply N.mul_lt_mono; assumption. Qed.

Lemma le_num_bound : forall g n off, le_num g off n < 256 ^ N.of_nat n.
Proof.
  intros g n. induction n as [|n IH]; intros off.
  - cbn. lia.
  - cbn [le_num]. specialize (IH (off + 1)).
    assert (H : g off mod 256 < 256) by (apply N.mod_lt; lia).
    rewrite Nat2N.inj_succ, N.pow_succ_r by lia. lia.
Qed.

Lemma le_num8_u64 : forall g off, le_num g off 8 < two64.
Proof. intros. pose proof (le_num_bound g 8 off) as H. exact H. Qed.

(** * accessors *)
Lemma in_bounds_spec : forall len off n, in_bounds len off n = true <-> off + n <= len.
Proof. intros. unfold in_bounds. lia. Qed.

Lemma pd_fixed_spec : forall d off n,
  pd_ok d -> pd_fixed d off n = if in_bounds (plen d) off n then Ok tt else Err EInvalid.
Proof.
  intros d off n Hd. unfold pd_fixed.
  destruct (in_bounds (plen d) off n) eqn:Hb; cbn [negb]; [|reflexivity].
  apply in_bounds_spec in Hb. unfold go_slice, slice_ok, to_array.
  destruct ((off <=? plen d) && (plen d <=? plen d)) eqn:H1; [|lia].
  cbn [bind]. destruct (plen d - off <? n) eqn:H2; [lia|reflexivity].
Qed.

Lemma pd_uint64_spec : forall d off, pd_ok d ->
  pd_uint64 d off = if in_bounds (plen d) off 8 then Ok (le_num (pget d) off 8) else Err EInvalid.
Proof. intros. unfold pd_uint64. rewrite pd_fixed_spec by assumption. destruct (in_bounds _ _ _); reflexivity. Qed.

Lemma pd_hash_spec : forall d off, pd_ok d ->
  pd_hash d off = if in_bounds (plen d) off 32 then Ok (le_num (pget d) off 32) else Err EInvalid.
Proof. intros. unfold pd_hash. rewrite pd_fixed_spec by assumption. destruct (in_bounds _ _ _); reflexivity. Qed.

Lemma pd_signature_spec : forall d off, pd_ok d ->
  pd_signature d off = if in_bounds (plen d) off 64 then Ok tt else Err EInvalid.
Proof. intros. unfold pd_signature. apply pd_fixed_spec. assumption. Qed.

Lemma pd_sector_spec : forall d off, pd_ok d ->
  pd_sector d off = if in_bounds (plen d) off SectorSize then Ok tt else Err EInvalid.
Proof.
  intros d off Hd. unfold pd_sector.
  destruct (in_bounds (plen d) off SectorSize) eqn:Hb; cbn [negb]; [|reflexivity].
  apply in_bounds_spec in Hb. unfold pd_ok, two63 in Hd.
  rewrite wadd_small by (unfold two64; lia).
  unfold go_slice, slice_ok, to_array.
  destruct ((off <=? off + SectorSize) && (off + SectorSize <=? plen d)) eqn:H1; [|lia].
  cbn [bind]. destruct (off + SectorSize - off <? SectorSize) eqn:H2; [lia|reflexivity].
Qed.

Lemma pd_bytes_spec : forall d off len, pd_ok d ->
  pd_bytes d off len = if in_bounds (plen d) off len then Ok len else Err EInvalid.
Proof.
  intros d off len Hd. unfold pd_bytes.
  destruct (in_bounds (plen d) off len) eqn:Hb; cbn [negb]; [|reflexivity].
  apply in_bounds_spec in Hb. unfold pd_ok, two63 in Hd.
  rewrite wadd_small by (unfold two64; lia).
  unfold go_slice, slice_ok.
  destruct ((off <=? off + len) && (off + len <=? plen d)) eqn:H1; [|lia].
  cbn [bind]. f_equal. lia.
Qed.

Lemma pd_unlockkey_spec : forall d off len, pd_ok d ->
  pd_unlockkey d off len =
  if (16 <=? len) && in_bounds (plen d) off len then Ok (le_num (pget d) off 16, len - 16) else Err EInvalid.
Proof.
  intros d off len Hd. unfold pd_unlockkey.
  destruct (len <? 16) eqn:H16.
  - cbn [orb]. replace (16 <=? len) with false by lia. reflexivity.
  - cbn [orb]. replace (16 <=? len) with true by lia. cbn [andb].
    destruct (in_bounds (plen d) off len) eqn:Hb; cbn [negb]; [|reflexivity].
    apply in_bounds_spec in Hb. unfold pd_ok, two63 in Hd.
    rewrite (wadd_small off 16) by (unfold two64; lia).
    rewrite (wadd_small off len) by (unfold two64; lia).
    unfold go_slice, slice_ok.
    destruct ((off <=? off + 16) && (off + 16 <=? plen d)) eqn:H1; [|lia].
    cbn [bind].
    destruct ((off + 16 <=? off + len) && (off + len <=? plen d)) eqn:H2; [|lia].
    cbn [bind]. f_equal. f_equal. lia.
Qed.

Lemma run_acc_no_panic : forall a d off len, pd_ok d -> run_acc (a, d, off, len) <> Panic.
Proof.
  intros a d off len Hd. unfold run_acc. destruct a.
  - rewrite pd_uint64_spec by assumption. destruct (in_bounds _ _ _); discriminate.
  - rewrite pd_hash_spec by assumption. destruct (in_bounds _ _ _); discriminate.
  - rewrite pd_signature_spec by assumption. destruct (in_bounds _ _ _); discriminate.
  - rewrite pd_sector_spec by assumption. destruct (in_bounds _ _ _); discriminate.
  - rewrite pd_bytes_spec by assumption. destruct (in_bounds _ _ _); discriminate.
  - rewrite pd_unlockkey_spec by assumption. destruct (_ && _); discriminate.
Qed.

(* what an accepted access needs: offset + size within the data, computed without wrap-around *)
Definition acc_need (a : acc) (len : N) : N :=
  match a with AUint64 => 8 | AHash => 32 | ASignature => 64 | ASector => SectorSize | ABytes | AUnlockKey => len end.

Lemma run_acc_ok_iff : forall a d off len, pd_ok d ->
  (exists v, run_acc (a, d, off, len) = Ok v) <->
  (off + acc_need a len <= plen d /\ (a = AUnlockKey -> 16 <= len)).
Proof.
  intros a d off len Hd. unfold run_acc, acc_need. destruct a.
  - rewrite pd_uint64_spec by assumption. destruct (in_bounds _ _ _) eqn:E.
    + apply in_bounds_spec in E. split; [intros _; split; [lia|discriminate]|eauto].
    + split; [intros [v H]; discriminate|]. intros [H _]. apply in_bounds_spec in H. congruence.
  - rewrite pd_hash_spec by assumption. destruct (in_bounds _ _ _) eqn:E.
    + apply in_bounds_spec in E. split; [intros _; split; [lia|discriminate]|cbn; eauto].
    + split; [intros [v H]; discriminate|]. intros [H _]. apply in_bounds_spec in H. congruence.
  - rewrite pd_signature_spec by assumption. destruct (in_bounds _ _ _) eqn:E.
    + apply in_bounds_spec in E. split; [intros _; split; [lia|discriminate]|cbn; eauto].
    + split; [intros [v H]; discriminate|]. intros [H _]. apply in_bounds_spec in H. congruence.
  - rewrite pd_sector_spec by assumption. destruct (in_bounds _ _ _) eqn:E.
    + apply in_bounds_spec in E. split; [intros _; split; [lia|discriminate]|cbn; eauto].
    + split; [intros [v H]; discriminate|]. intros [H _]. apply in_bounds_spec in H. congruence.
  - rewrite pd_bytes_spec by assumption. destruct (in_bounds _ _ _) eqn:E.
    + apply in_bounds_spec in E. split; [intros _; split; [lia|discriminate]|eauto].
    + split; [intros [v H]; discriminate|]. intros [H _]. apply in_bounds_spec in H. congruence.
  - rewrite pd_unlockkey_spec by assumption.
    destruct (16 <=? len) eqn:E16; cbn [andb].
    + destruct (in_bounds _ _ _) eqn:E.
      * apply in_bounds_spec in E. split; [intros _; split; [lia|intros _; lia]|cbn; eauto].
      * split; [intros [v H]; discriminate|]. intros [H _]. apply in_bounds_spec in H. congruence.
    + split; [intros [v H]; discriminate|]. intros [_ H]. specialize (H eq_refl). lia.
Qed.

(** * costs *)
Definition ncoll (c : cost) : N := cBase c + cStorage c + cEgress c + cIngress c.
Definition utot (u : usage) : N := uRpc u + uStorage u + uEgress u + uIngress u + uRegR u + uRegW u.

(* a cost that one instruction can produce *)
Definition cost_fits (unit : N) (r : res cost) : Prop :=
  exists c, r = Ok c /\ ncoll c < two127 /\ cCollateral c <= unit.

Ltac prices H :=
  destruct H as [Hinit Hdown Hup Hdropb Hdropu Hhas Hreadb Hreadl Hrev Hswap Hwb Hwl Hstore Hcoll Hh];
  unfold p60, p40 in *.

Lemma write_base_cost_ok : forall pt len, pt_sane pt -> len = SectorSize \/ len = 256 ->
  exists b, write_base_cost pt len = Ok b /\ b < p60 * 4194305.
Proof.
  intros pt len Hs Hl. prices Hs. unfold write_base_cost.
  assert (Hlen' : (if len mod 4096 =? 0 then len else wadd len (4096 - len mod 4096)) <= SectorSize).
  { destruct Hl as [-> | ->]; vm_compute; discriminate. }
  set (len' := if len mod 4096 =? 0 then len else wadd len (4096 - len mod 4096)) in *.
  assert (H1 : ptWriteLength pt * len' < 1152921504606846976 * 4194305).
  { apply mul_bound; [assumption|unfold SectorSize in Hlen'; lia]. }
  rewrite cmul64_ok by (unfold two128; lia). cbn [bind].
  assert (H2 : ptWriteLength pt * len' <= 1152921504606846976 * 4194304).
  { apply N.mul_le_mono; [lia|exact Hlen']. }
  rewrite cadd_ok by (unfold two128; lia).
  eexists; split; [reflexivity|]. unfold p60. lia.
Qed.

Lemma mul2_store_ok : forall p d, p < p40 -> d < two64 ->
  exists s, mul2 p SectorSize d = Ok s /\ s = p * SectorSize * d /\ s < p40 * SectorSize * two64.
Proof.
  intros p d Hp Hd. unfold mul2, p40 in *.
  assert (H1 : p * SectorSize < 1099511627776 * 4194304) by (unfold SectorSize; lia).
  rewrite cmul64_ok by (unfold two128; lia). cbn [bind].
  assert (H2 : p * SectorSize * d < (1099511627776 * 4194304) * two64) by (apply mul_bound; assumption).
  rewrite cmul64_ok by (unfold two128, two64 in *; lia).
  eexists; split; [reflexivity|split; [reflexivity|]]. unfold SectorSize, two64 in *. lia.
Qed.

Lemma mul2_coll_ok : forall p d, p < p40 -> p * SectorSize * d < two128 ->
  mul2 p SectorSize d = Ok (p * SectorSize * d).
Proof.
  intros p d Hp H. unfold mul2, p40 in *.
  assert (H1 : p * SectorSize < 1099511627776 * 4194304) by (unfold SectorSize; lia).
  rewrite cmul64_ok by (unfold two128; lia). cbn [bind].
  apply cmul64_ok. assumption.
Qed.

Ltac cost_finish :=
  eexists; split; [reflexivity|]; unfold ncoll, two127, two64, SectorSize, blocksPerYear in *; cbn [cBase cStorage cEgress cIngress cCollateral];
  split; lia.

Lemma append_sector_cost_fits : forall x, ctx_ok x -> coll_unit x < two128 ->
  cost_fits (coll_unit x) (append_sector_cost (xpt x) (xdur x)).
Proof.
  intros x (Hd & Hs & Hdur) Hu. unfold cost_fits, append_sector_cost, coll_unit in *.
  destruct (write_base_cost_ok (xpt x) SectorSize Hs (or_introl eq_refl)) as (b & -> & Hb).
  cbn [bind]. pose proof Hs as Hs'. prices Hs.
  destruct (mul2_store_ok (ptWriteStore (xpt x)) (xdur x)) as (s & -> & _ & Hsb); [unfold p40; assumption|assumption|].
  cbn [bind]. rewrite mul2_coll_ok by (unfold p40; assumption). cbn [bind].
  assert (H1 : ptUpload (xpt x) * SectorSize < 1152921504606846976 * 4194305) by (unfold SectorSize; lia).
  rewrite cmul64_ok by (unfold two128; lia). cbn [bind].
  unfold p60, p40 in *. cost_finish.
Qed.

Lemma append_root_cost_fits : forall x, ctx_ok x -> coll_unit x < two128 ->
  cost_fits (coll_unit x) (append_root_cost (xpt x) (xdur x)).
Proof.
  intros x (Hd & Hs & Hdur) Hu. unfold cost_fits, append_root_cost, coll_unit in *.
  pose proof Hs as Hs'. prices Hs.
  destruct (mul2_store_ok (ptWriteStore (xpt x)) (xdur x)) as (s & -> & _ & Hsb); [unfold p40; assumption|assumption|].
  cbn [bind]. rewrite mul2_coll_ok by (unfold p40; assumption). cbn [bind].
  rewrite cmul64_ok by (unfold two128; lia). cbn [bind].
  unfold p40 in *. cost_finish.
Qed.

Lemma drop_sectors_cost_fits : forall x n u, ctx_ok x -> u64 n ->
  cost_fits u (drop_sectors_cost (xpt x) n).
Proof.
  intros x n u (Hd & Hs & Hdur) Hn. unfold cost_fits, drop_sectors_cost, u64 in *. prices Hs.
  assert (H1 : ptDropUnit (xpt x) * n < 1152921504606846976 * two64) by (apply mul_bound; assumption).
  unfold two64 in *.
  rewrite cmul64_ok by (unfold two128; lia). cbn [bind].
  rewrite cadd_ok by (unfold two128; lia). cbn [bind].
  rewrite cmul64_ok by (unfold two128; lia). cbn [bind].
  cost_finish.
Qed.

Lemma has_sector_cost_fits : forall x u, ctx_ok x -> cost_fits u (has_sector_cost (xpt x)).
Proof.
  intros x u (Hd & Hs & Hdur). unfold cost_fits, has_sector_cost. prices Hs.
  rewrite cmul64_ok by (unfold two128; lia). cbn [bind]. cost_finish.
Qed.

Lemma read_cost_fits : forall x length arg u, ctx_ok x -> u64 length -> arg <= 32 ->
  cost_fits u (read_cost (xpt x) length arg).
Proof.
  intros x length arg u (Hd & Hs & Hdur) Hn Harg. unfold cost_fits, read_cost, u64 in *. prices Hs.
  assert (H1 : ptReadLength (xpt x) * length < 1152921504606846976 * two64) by (apply mul_bound; assumption).
  assert (H2 : ptDownload (xpt x) * length < 1152921504606846976 * two64) by (apply mul_bound; assumption).
  assert (H3 : ptUpload (xpt x) * arg < 1152921504606846976 * 33) by (apply mul_bound; [assumption|lia]).
  unfold two64 in *.
  rewrite cmul64_ok by (unfold two128; lia). cbn [bind].
  rewrite cadd_ok by (unfold two128; lia). cbn [bind].
  rewrite cmul64_ok by (unfold two128; lia). cbn [bind].
  rewrite cmul64_ok by (unfold two128; lia). cbn [bind].
  cost_finish.
Qed.

Lemma swap_sector_cost_fits : forall x u, ctx_ok x -> cost_fits u (swap_sector_cost (xpt x)).
Proof.
  intros x u (Hd & Hs & Hdur). unfold cost_fits, swap_sector_cost. prices Hs.
  rewrite cmul64_ok by (unfold two128; lia). cbn [bind]. cost_finish.
Qed.

Lemma update_sector_cost_fits : forall x length u, ctx_ok x -> u64 length ->
  cost_fits u (update_sector_cost (xpt x) length).
Proof.
  intros x length u (Hd & Hs & Hdur) Hn. unfold cost_fits, update_sector_cost, u64 in *.
  destruct (write_base_cost_ok (xpt x) SectorSize Hs (or_introl eq_refl)) as (b & -> & Hb).
  cbn [bind]. prices Hs.
  assert (H1 : ptUpload (xpt x) * length < 1152921504606846976 * two64) by (apply mul_bound; assumption).
  unfold two64 in *.
  rewrite cmul64_ok by (unfold two128; lia). cbn [bind]. cost_finish.
Qed.

Lemma store_sector_cost_fits : forall x dur u, ctx_ok x -> u64 dur ->
  cost_fits u (store_sector_cost (xpt x) dur).
Proof.
  intros x dur u (Hd & Hs & Hdur) Hn. unfold cost_fits, store_sector_cost, u64 in *.
  destruct (write_base_cost_ok (xpt x) SectorSize Hs (or_introl eq_refl)) as (b & -> & Hb).
  cbn [bind]. pose proof Hs as Hs'. prices Hs.
  destruct (mul2_store_ok (ptWriteStore (xpt x)) dur) as (s & -> & _ & Hsb); [unfold p40; assumption|assumption|].
  cbn [bind].
  assert (H1 : ptUpload (xpt x) * SectorSize < 1152921504606846976 * 4194305) by (unfold SectorSize; lia).
  rewrite cmul64_ok by (unfold two128; lia). cbn [bind].
  unfold p40 in *. cost_finish.
Qed.

Lemma revision_cost_fits : forall x u, ctx_ok x -> cost_fits u (revision_cost (xpt x)).
Proof.
  intros x u (Hd & Hs & Hdur). unfold cost_fits, revision_cost. prices Hs. cost_finish.
Qed.

Lemma read_registry_cost_fits : forall x u, ctx_ok x -> cost_fits u (read_registry_cost (xpt x)).
Proof.
  intros x u (Hd & Hs & Hdur). unfold cost_fits, read_registry_cost.
  destruct (write_base_cost_ok (xpt x) 256 Hs (or_intror eq_refl)) as (b & -> & Hb).
  cbn [bind]. prices Hs.
  assert (H1 : ptWriteStore (xpt x) * (256 * 10 * blocksPerYear) < 1099511627776 * 134553601).
  { apply mul_bound; [assumption|vm_compute; reflexivity]. }
  rewrite cmul64_ok by (unfold two128; lia). cbn [bind].
  rewrite cmul64_ok by (unfold two128; lia). cbn [bind].
  cost_finish.
Qed.
