(* MDM/Proofs.v — lemmas about MDM/Model.v *)
From Coq Require Import Lia ZifyBool ZifyN ZifyNat.
From HostdBase Require Import Base.
From HostdMDM Require Import Model.
Local Open Scope N_scope.

Definition u64 (n : N) : Prop := n < two64.
(* Go's len() is an int *)
Definition pd_ok (d : pdata) : Prop := plen d < 9223372036854775808.

Lemma wadd_small : forall a b, a + b < two64 -> wadd a b = a + b.
Proof. intros a b H. unfold wadd. apply N.mod_small. exact H. Qed.

Ltac bounds :=
  unfold in_bounds, slice_ok, go_slice, to_array, pd_ok, u64, two64 in *;
  repeat match goal with
         | H : context [wadd ?a ?b] |- _ => rewrite (wadd_small a b) in H by (unfold two64; lia)
         | |- context [wadd ?a ?b] => rewrite (wadd_small a b) by (unfold two64; lia)
         end.

Lemma pd_fixed_no_panic : forall d off n, pd_ok d -> pd_fixed d off n <> Panic.
Proof.
  intros d off n Hd. unfold pd_fixed.
  destruct (in_bounds (plen d) off n) eqn:Hb; cbn [negb]; [|discriminate].
  unfold in_bounds in Hb. unfold go_slice, slice_ok, to_array.
  destruct ((off <=? plen d) && (plen d <=? plen d)) eqn:H1; [|lia].
  cbn [bind]. destruct (plen d - off <? n) eqn:H2; [lia|discriminate].
Qed.
