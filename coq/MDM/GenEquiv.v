(* MDM/GenEquiv.v — the programData accessors tools/go2coq regenerates from rhp/v3/execute.go
   (gen/MDMGen.v) are equal to the hand-written model (the pd_ functions of Model.v), for every program data
   whose length fits a uint64 and all uint64 offsets/lengths (the Go types).  The generated
   functions return the Go values (byte views, the key struct); the model returns the projections
   the correspondence check observes (length of Bytes, specifier and key length of UnlockKey,
   nothing for Sector/Signature/Hash beyond acceptance) - the lemmas state equality after that
   projection.

   Same meaning-following case-split automation as Revision/GenEquiv.v: the shared tactic library
   coq/Revision/GenTactics.v (it depends on Coq's library and Base.v only) is included with [Load],
   so that the MDM group does not have to be built after - and cannot be broken by - the Revision
   group. *)
From Coq Require Import Lia ZifyBool ZifyN ZifyNat.
From HostdBase Require Import Base.
From HostdMDM Require Import Model GenPrelude.
From HostdMDM.gen Require Import MDMGen.
Load "../Revision/GenTactics".
Local Open Scope N_scope.

Ltac equiv_pd :=
  repeat autounfold with go2coq in *;
  unfold pd_fixed, go_slice, to_array, pd_slice, view_array, view_sector, set_k_alg, set_k_key, zero_ukey in *;
  unfold in_bounds, slice_ok in *;
  unfold bind, negb, andb, orb in *;
  cbn [v_len v_off v_data k_alg k_key N.of_nat Pos.of_succ_nat Pos.succ] in *;
  split_all_l ltac:(nowrap; cbn [v_len v_off v_data k_alg k_key] in *).

Definition fits (d : pdata) : Prop := plen d < two64.

Lemma programData_Uint64_eq : forall d off, fits d -> off < two64 ->
  programData_Uint64 d off = pd_uint64 d off.
Proof. intros d off Hd Ho. unfold fits in Hd. unfold pd_uint64. Time equiv_pd. Qed.

Lemma programData_Hash_eq : forall d off, fits d -> off < two64 ->
  programData_Hash d off = pd_hash d off.
Proof. intros d off Hd Ho. unfold fits in Hd. unfold pd_hash. Time equiv_pd. Qed.

Lemma programData_Signature_eq : forall d off, fits d -> off < two64 ->
  (do _ <- programData_Signature d off; Ok tt) = pd_signature d off.
Proof. intros d off Hd Ho. unfold fits in Hd. unfold pd_signature. Time equiv_pd. Qed.

Lemma programData_Sector_eq : forall d off, fits d -> off < two64 ->
  programData_Sector d off = pd_sector d off.
Proof.
  intros d off Hd Ho. unfold fits in Hd. unfold pd_sector.
  assert (HS : SectorSize = 4194304) by reflexivity. Time equiv_pd.
Qed.

Lemma programData_Bytes_eq : forall d off len, fits d -> off < two64 -> len < two64 ->
  (do v <- programData_Bytes d off len; Ok (v_len v)) = pd_bytes d off len.
Proof. intros d off len Hd Ho Hl. unfold fits in Hd. unfold pd_bytes. Time equiv_pd. Qed.

Lemma programData_UnlockKey_eq : forall d off len, fits d -> off < two64 -> len < two64 ->
  (do k <- programData_UnlockKey d off len; Ok (k_alg k, v_len (k_key k))) = pd_unlockkey d off len.
Proof. intros d off len Hd Ho Hl. unfold fits in Hd. unfold pd_unlockkey. Time equiv_pd. Qed.

(* the correspondence entry point over the generated accessors *)
Definition gen_run_acc (i : acc_in) : res N :=
  let '(a, d, off, len) := i in
  match a with
  | AUint64 => programData_Uint64 d off
  | AHash => do _ <- programData_Hash d off; Ok 0
  | ASignature => do _ <- programData_Signature d off; Ok 0
  | ASector => do _ <- programData_Sector d off; Ok 0
  | ABytes => do v <- programData_Bytes d off len; Ok (v_len v)
  | AUnlockKey => do k <- programData_UnlockKey d off len; Ok (v_len (k_key k))
  end.

Lemma gen_run_acc_eq : forall a d off len, fits d -> off < two64 -> len < two64 ->
  gen_run_acc (a, d, off, len) = run_acc (a, d, off, len).
Proof.
  intros a d off len Hd Ho Hl. unfold gen_run_acc, run_acc. destruct a.
  - apply programData_Uint64_eq; assumption.
  - rewrite programData_Hash_eq by assumption. reflexivity.
  - rewrite <- programData_Signature_eq by assumption.
    destruct (programData_Signature d off); reflexivity.
  - rewrite programData_Sector_eq by assumption. reflexivity.
  - apply programData_Bytes_eq; assumption.
  - rewrite <- programData_UnlockKey_eq by assumption.
    destruct (programData_UnlockKey d off len); reflexivity.
Qed.
