(* MDM/ProofsInstr.v — every instruction: no panic, the invariant moves on, and a failed
   instruction leaves the sector list and the pending temporary sectors unchanged. *)
From Coq Require Import Lia ZifyBool ZifyN ZifyNat.
From HostdBase Require Import Base.
From HostdMDM Require Import Model Proofs ProofsExec.
Local Open Scope N_scope.

Lemma unit_fits : forall x i0 m k s, inv x i0 m (S k) s -> coll_unit x < two128.
Proof. intros x i0 m k s (_ & H). rewrite Nat2N.inj_succ in H. nia. Qed.

Lemma length_list_set : forall l i v, length (list_set l i v) = length l.
Proof. induction l as [|h t IH]; intros [|i] v; cbn; auto. Qed.
Lemma nroots_list_set : forall l i v, nroots (list_set l i v) = nroots l.
Proof. intros. unfold nroots. rewrite length_list_set. reflexivity. Qed.
Lemma nroots_list_swap : forall l a b, nroots (list_swap l a b) = nroots l.
Proof. intros. unfold list_swap. rewrite !nroots_list_set. reflexivity. Qed.
Lemma nroots_firstn : forall n (l : list N), nroots (firstn n l) <= nroots l.
Proof. intros. unfold nroots. rewrite firstn_length. lia. Qed.

Ltac start Hx Hi :=
  pose proof Hx as (Hd & Hs & Hdur);
  pose proof (unit_fits _ _ _ _ _ Hi) as Hu.

(* a read of an operand: continue with the value, or fail with the state untouched *)
Ltac rd_u64 Hi v Hv :=
  apply safe_bind; apply safe_lift; rewrite pd_uint64_spec by assumption;
  match goal with |- context [in_bounds ?a ?b ?c] => destruct (in_bounds a b c) end;
  [ try match goal with |- context [le_num ?g ?o 8] =>
      pose proof (le_num8_u64 g o) as Hv; set (v := le_num g o 8) in * end
  | apply iE_self; exact Hi ].
Ltac rd_hash Hi :=
  apply safe_bind; apply safe_lift; rewrite pd_hash_spec by assumption;
  match goal with |- context [in_bounds ?a ?b ?c] => destruct (in_bounds a b c) end;
  [ | apply iE_self; exact Hi ].
Ltac do_guard Hfail :=
  apply safe_bind; apply safe_guard; [intros _; Hfail | intros ?G].

Lemma exec_append_sector_safe : forall x i0 m k e off p s,
  ctx_ok x -> xcontract x = true -> inv x i0 m (S k) s -> rinv (S k) s ->
  safe (exec_append_sector x e off p) s (iQ x i0 m k) (iE x i0 m k s).
Proof.
  intros x i0 m k e off p s Hx Hc Hi Hr. start Hx Hi. unfold exec_append_sector.
  apply safe_bind. apply safe_lift. rewrite pd_sector_spec by assumption.
  destruct (in_bounds _ _ _); [|apply iE_self; assumption].
  apply safe_bind. eapply safe_pay; [eassumption | apply append_sector_cost_fits; assumption | left; reflexivity | apply iE_self; assumption |].
  intros s1 Hi1 Hr1 Ht1 Hw1.
  apply safe_bind. apply safe_write; [intros _; apply iE_after_pay; assumption|intros _].
  apply safe_bind. apply safe_upd_append; [assumption|].
  unfold rinv in Hr. rewrite Nat2N.inj_succ in Hr.
  apply safe_bind. apply safe_append_proof; [assumption | cbn [with_roots with_write eroots]; rewrite nroots_app, Hr1; unfold two63, two64 in *; lia |].
  apply safe_ret. split.
  - apply inv_with_roots, inv_with_write. assumption.
  - unfold rinv. cbn [with_roots with_write eroots]. rewrite nroots_app, Hr1. lia.
Qed.

Lemma exec_append_root_safe : forall x i0 m k e off p s,
  ctx_ok x -> xcontract x = true -> inv x i0 m (S k) s -> rinv (S k) s ->
  safe (exec_append_root x e off p) s (iQ x i0 m k) (iE x i0 m k s).
Proof.
  intros x i0 m k e off p s Hx Hc Hi Hr. start Hx Hi. unfold exec_append_root.
  rd_hash Hi.
  apply safe_bind. eapply safe_pay; [eassumption | apply append_root_cost_fits; assumption | left; reflexivity | apply iE_self; assumption |].
  intros s1 Hi1 Hr1 Ht1 Hw1.
  do_guard ltac:(apply iE_after_pay; assumption).
  apply safe_bind. apply safe_upd_append; [assumption|].
  unfold rinv in Hr. rewrite Nat2N.inj_succ in Hr.
  apply safe_bind. apply safe_append_proof; [assumption | cbn [with_roots eroots]; rewrite nroots_app, Hr1; unfold two63, two64 in *; lia |].
  apply safe_ret. split.
  - apply inv_with_roots. assumption.
  - unfold rinv. cbn [with_roots eroots]. rewrite nroots_app, Hr1. lia.
Qed.

Lemma safe_range_proof : forall (p : bool) count n s (Q : unit -> estate -> Prop) (E : estate -> Prop),
  count <= n -> n < two64 -> Q tt s ->
  safe (if p && (0 <? count) then lift (build_sector_range_proof n (wsub n count) n) else ret tt) s Q E.
Proof.
  intros p count n s Q E H1 H2 HQ.
  destruct (p && (0 <? count)) eqn:Hp; [|exact HQ].
  apply safe_lift. unfold build_sector_range_proof.
  rewrite wsub_small by lia.
  destruct (n =? 0) eqn:H0; [exact HQ|].
  destruct ((n <? n) || (n <=? n - count)) eqn:H3; [lia|exact HQ].
Qed.

Lemma exec_drop_sectors_safe : forall x i0 m k off p s,
  ctx_ok x -> xcontract x = true -> inv x i0 m (S k) s -> rinv (S k) s ->
  safe (exec_drop_sectors x off p) s (iQ x i0 m k) (iE x i0 m k s).
Proof.
  intros x i0 m k off p s Hx Hc Hi Hr. start Hx Hi. unfold exec_drop_sectors.
  rd_u64 Hi count Hcount.
  apply safe_bind. apply safe_get_roots; [assumption|].
  do_guard ltac:(apply iE_self; assumption).
  apply safe_bind. eapply safe_pay; [eassumption | apply drop_sectors_cost_fits; assumption | left; reflexivity | apply iE_self; assumption |].
  intros s1 Hi1 Hr1 Ht1 Hw1.
  unfold rinv in Hr. rewrite Nat2N.inj_succ in Hr.
  apply safe_bind. apply safe_range_proof; [lia | unfold two63, two64 in *; lia |].
  do_guard ltac:(apply iE_after_pay; assumption).
  apply safe_bind. apply safe_set_roots. apply safe_ret. split.
  - apply inv_with_roots. assumption.
  - unfold rinv. cbn [with_roots eroots]. pose proof (nroots_firstn (N.to_nat (nroots (eroots s) - count)) (eroots s)). lia.
Qed.

Lemma exec_has_sector_safe : forall x i0 m k e off s,
  ctx_ok x -> inv x i0 m (S k) s -> rinv (S k) s ->
  safe (exec_has_sector x e off) s (iQ x i0 m k) (iE x i0 m k s).
Proof.
  intros x i0 m k e off s Hx Hi Hr. start Hx Hi. unfold exec_has_sector.
  rd_hash Hi.
  apply safe_bind. eapply safe_pay; [eassumption | apply has_sector_cost_fits; assumption | left; reflexivity | apply iE_self; assumption |].
  intros s1 Hi1 Hr1 Ht1 Hw1.
  apply safe_ret. split; [assumption|]. apply rinv_weaken. unfold rinv in *. rewrite Hr1. assumption.
Qed.

(* the response range: inside the sector, and (with a proof) a non-empty run of whole leaves *)
Lemma read_out_ok : forall rel length proof,
  rel <= SectorSize -> length <= SectorSize - rel ->
  (proof = true -> length <> 0 /\ rel mod LeafSize = 0 /\ length mod LeafSize = 0) ->
  exists n, read_out rel length proof = Ok n.
Proof.
  intros rel length proof H1 H2 H3. unfold read_out.
  rewrite wadd_small by (unfold SectorSize, two64 in *; lia).
  assert (Hp : (if proof then build_proof (rel / LeafSize) ((rel + length) / LeafSize) else Ok tt) = Ok tt).
  { destruct proof; [|reflexivity]. destruct (H3 eq_refl) as (Hl & Hr & Hm).
    unfold build_proof, LeafSize, LeavesPerSector, SectorSize in *.
    assert (rel = 64 * (rel / 64)) by (rewrite (N.div_mod rel 64) at 1 by lia; lia).
    assert (length = 64 * (length / 64)) by (rewrite (N.div_mod length 64) at 1 by lia; lia).
    assert ((rel + length) / 64 = rel / 64 + length / 64).
    { rewrite H, H0 at 1. rewrite <- N.mul_add_distr_l. rewrite N.mul_comm, N.div_mul by lia. reflexivity. }
    destruct ((65536 <? (rel + length) / 64) || ((rel + length) / 64 <=? rel / 64)) eqn:E; [|reflexivity].
    exfalso. lia. }
  rewrite Hp. cbn [bind]. unfold go_slice, slice_ok.
  destruct ((rel <=? rel + length) && (rel + length <=? SectorSize)) eqn:E; [|lia].
  cbn [bind]. eauto.
Qed.

Lemma exec_read_offset_safe : forall x i0 m k e lo oo p s,
  ctx_ok x -> xcontract x = true -> inv x i0 m (S k) s -> rinv (S k) s ->
  safe (exec_read_offset x e lo oo p) s (iQ x i0 m k) (iE x i0 m k s).
Proof.
  intros x i0 m k e lo oo p s Hx Hc Hi Hr. start Hx Hi. unfold exec_read_offset.
  rd_u64 Hi offset Hoffset.
  rd_u64 Hi rlen Hlength.
  cbv zeta.
  assert (Hrel : offset mod SectorSize < SectorSize) by (apply N.mod_lt; unfold SectorSize; lia).
  do_guard ltac:(apply iE_self; assumption).
  do_guard ltac:(apply iE_self; assumption).
  do_guard ltac:(apply iE_self; assumption).
  apply safe_bind. eapply safe_pay; [eassumption | apply read_cost_fits; [assumption|assumption|lia] | left; reflexivity | apply iE_self; assumption |].
  intros s1 Hi1 Hr1 Ht1 Hw1.
  apply safe_bind. apply safe_get_roots; [assumption|].
  do_guard ltac:(apply iE_after_pay; assumption).
  do_guard ltac:(apply iE_after_pay; assumption).
  apply safe_lift.
  destruct (read_out_ok (offset mod SectorSize) rlen p) as (n & ->); [lia|lia| |].
  - intros ->. cbn [andb] in *. unfold LeafSize in *. lia.
  - split; [assumption|]. apply rinv_weaken. unfold rinv in *. rewrite Hr1. assumption.
Qed.

Lemma exec_read_sector_safe : forall x i0 m k e lo oo ro p s,
  ctx_ok x -> inv x i0 m (S k) s -> rinv (S k) s ->
  safe (exec_read_sector x e lo oo ro p) s (iQ x i0 m k) (iE x i0 m k s).
Proof.
  intros x i0 m k e lo oo ro p s Hx Hi Hr. start Hx Hi. unfold exec_read_sector.
  rd_hash Hi.
  rd_u64 Hi rlen Hlength.
  rd_u64 Hi offset Hoffset.
  do_guard ltac:(apply iE_self; assumption).
  do_guard ltac:(apply iE_self; assumption).
  do_guard ltac:(apply iE_self; assumption).
  apply safe_bind. eapply safe_pay; [eassumption | apply read_cost_fits; [assumption|assumption|lia] | left; reflexivity | apply iE_self; assumption |].
  intros s1 Hi1 Hr1 Ht1 Hw1.
  do_guard ltac:(apply iE_after_pay; assumption).
  apply safe_lift.
  destruct (read_out_ok offset rlen p) as (n & ->); [lia|lia| |].
  - intros ->. cbn [andb] in *. unfold LeafSize in *. lia.
  - split; [assumption|]. apply rinv_weaken. unfold rinv in *. rewrite Hr1. assumption.
Qed.

Lemma exec_swap_sector_safe : forall x i0 m k o1 o2 p s,
  ctx_ok x -> xcontract x = true -> inv x i0 m (S k) s -> rinv (S k) s ->
  safe (exec_swap_sector x o1 o2 p) s (iQ x i0 m k) (iE x i0 m k s).
Proof.
  intros x i0 m k o1 o2 p s Hx Hc Hi Hr. start Hx Hi. unfold exec_swap_sector.
  rd_u64 Hi a0 Ha0.
  rd_u64 Hi b0 Hb0.
  cbv zeta.
  apply safe_bind. eapply safe_pay; [eassumption | apply swap_sector_cost_fits; assumption | left; reflexivity | apply iE_self; assumption |].
  intros s1 Hi1 Hr1 Ht1 Hw1.
  apply safe_bind.
  match goal with |- safe (if p then ?m else ?m2) _ _ _ =>
    assert (Hout : forall (Q : N -> estate -> Prop) (E : estate -> Prop), (forall n, Q n s1) -> safe (if p then m else m2) s1 Q E) end.
  { intros Q E HQ. destruct p; [|apply HQ].
    apply safe_bind. apply safe_get_roots; [assumption|]. apply safe_ret. apply HQ. }
  apply Hout. intros outlen. clear Hout.
  apply safe_bind. apply safe_get_roots; [assumption|].
  do_guard ltac:(apply iE_after_pay; assumption).
  apply safe_bind. apply safe_set_roots. apply safe_ret. split.
  - apply inv_with_roots. assumption.
  - apply rinv_weaken. unfold rinv in *. cbn [with_roots eroots]. rewrite nroots_list_swap, Hr1. assumption.
Qed.

Lemma exec_update_sector_safe : forall x i0 m k e off len dof s,
  ctx_ok x -> xcontract x = true -> inv x i0 m (S k) s -> rinv (S k) s ->
  safe (exec_update_sector x e off len dof) s (iQ x i0 m k) (iE x i0 m k s).
Proof.
  intros x i0 m k e off len dof s Hx Hc Hi Hr. start Hx Hi. unfold exec_update_sector.
  apply safe_bind. apply safe_lift. rewrite pd_bytes_spec by assumption.
  destruct (in_bounds (plen (xdata x)) dof len) eqn:Hb; [|apply iE_self; assumption].
  apply in_bounds_spec in Hb.
  assert (Hlen : u64 len) by (unfold u64, pd_ok, two63, two64 in *; lia).
  apply safe_bind. eapply safe_pay; [eassumption | apply update_sector_cost_fits; assumption | left; reflexivity | apply iE_self; assumption |].
  intros s1 Hi1 Hr1 Ht1 Hw1.
  cbv zeta.
  assert (Hrel : off mod SectorSize < SectorSize) by (apply N.mod_lt; unfold SectorSize; lia).
  apply safe_bind. apply safe_get_roots; [assumption|].
  do_guard ltac:(apply iE_after_pay; assumption).
  do_guard ltac:(apply iE_after_pay; assumption).
  do_guard ltac:(apply iE_after_pay; assumption).
  apply safe_bind. apply safe_lift. unfold go_slice, slice_ok.
  destruct ((off mod SectorSize <=? SectorSize) && (SectorSize <=? SectorSize)) eqn:E; [|lia].
  apply safe_bind. apply safe_write; [intros _; apply iE_after_pay; assumption|intros _].
  apply safe_bind. apply safe_get_roots; [assumption|].
  cbn [with_write eroots].
  apply safe_bind; apply safe_guard; [intros G2; exfalso; lia | intros _].
  apply safe_bind. apply safe_set_roots. apply safe_ret. split.
  - apply inv_with_roots, inv_with_write. assumption.
  - apply rinv_weaken. unfold rinv in *. cbn [with_roots with_write eroots]. rewrite nroots_list_set, Hr1. assumption.
Qed.

Lemma exec_store_sector_safe : forall x i0 m k e dof dur s,
  ctx_ok x -> u64 dur -> inv x i0 m (S k) s -> rinv (S k) s ->
  safe (exec_store_sector x e dof dur) s (iQ x i0 m k) (iE x i0 m k s).
Proof.
  intros x i0 m k e dof dur s Hx Hdu Hi Hr. start Hx Hi. unfold exec_store_sector.
  apply safe_bind. apply safe_lift. rewrite pd_sector_spec by assumption.
  destruct (in_bounds _ _ _); [|apply iE_self; assumption].
  do_guard ltac:(apply iE_self; assumption).
  do_guard ltac:(apply iE_self; assumption).
  apply safe_bind. eapply safe_pay; [eassumption | apply store_sector_cost_fits; assumption | left; reflexivity | apply iE_self; assumption |].
  intros s1 Hi1 Hr1 Ht1 Hw1.
  apply safe_bind. apply safe_write; [intros _; apply iE_after_pay; assumption|intros _].
  apply safe_bind. apply safe_add_temp. apply safe_ret. split.
  - apply inv_with_temp, inv_with_write. assumption.
  - apply rinv_weaken. unfold rinv in *. cbn [with_temp with_write eroots]. rewrite Hr1. assumption.
Qed.

Lemma exec_revision_safe : forall x i0 m k s,
  ctx_ok x -> xcontract x = true -> inv x i0 m (S k) s -> rinv (S k) s ->
  safe (exec_revision x) s (iQ x i0 m k) (iE x i0 m k s).
Proof.
  intros x i0 m k s Hx Hc Hi Hr. start Hx Hi. unfold exec_revision.
  apply safe_bind. eapply safe_pay; [eassumption | apply revision_cost_fits; assumption | left; reflexivity | apply iE_self; assumption |].
  intros s1 Hi1 Hr1 Ht1 Hw1. rewrite Hc.
  apply safe_ret. split; [assumption|]. apply rinv_weaken. unfold rinv in *. rewrite Hr1. assumption.
Qed.

Lemma check_unlock_key_no_panic : forall d a b, pd_ok d -> check_unlock_key d a b <> Panic.
Proof.
  intros d a b Hd. unfold check_unlock_key. rewrite pd_unlockkey_spec by assumption.
  destruct ((16 <=? b) && in_bounds (plen d) a b); cbn [bind fst snd]; [|discriminate].
  destruct (negb (le_num (pget d) a 16 =? spec_ed25519)); [discriminate|].
  destruct (negb (b - 16 =? 32)) eqn:E; [discriminate|].
  unfold to_array. destruct (b - 16 <? 32) eqn:E2; [lia|discriminate].
Qed.

Ltac rd_key Hi :=
  apply safe_bind; apply safe_lift;
  match goal with |- context [check_unlock_key ?d ?a ?b] =>
    pose proof (check_unlock_key_no_panic d a b ltac:(assumption)) as Hk;
    destruct (check_unlock_key d a b) as [[] | ? |]; [ clear Hk | apply iE_self; exact Hi | exfalso; apply Hk; reflexivity ] end.

Lemma exec_read_registry_safe : forall x i0 m k e a b c v s,
  ctx_ok x -> inv x i0 m (S k) s -> rinv (S k) s ->
  safe (exec_read_registry x e a b c v) s (iQ x i0 m k) (iE x i0 m k s).
Proof.
  intros x i0 m k e a b c v s Hx Hi Hr. start Hx Hi. unfold exec_read_registry.
  do_guard ltac:(apply iE_self; assumption).
  rd_key Hi.
  rd_hash Hi.
  apply safe_bind. eapply safe_pay; [eassumption | apply read_registry_cost_fits; assumption | right; left; reflexivity | apply iE_self; assumption |].
  intros s1 Hi1 Hr1 Ht1 Hw1.
  destruct (oget e).
  - apply safe_ret. split; [assumption|]. apply rinv_weaken. unfold rinv in *. rewrite Hr1. assumption.
  - apply safe_fail. apply iE_after_pay; assumption.
Qed.

Lemma exec_update_registry_safe : forall x i0 m k e a b c d l f g s,
  ctx_ok x -> inv x i0 m (S k) s -> rinv (S k) s ->
  safe (exec_update_registry x e a b c d l f g) s (iQ x i0 m k) (iE x i0 m k s).
Proof.
  intros x i0 m k e a b c d l f g s Hx Hi Hr. start Hx Hi. unfold exec_update_registry.
  rd_hash Hi.
  rd_u64 Hi rv Hrv.
  apply safe_bind. apply safe_lift. rewrite pd_signature_spec by assumption.
  destruct (in_bounds _ _ 64); [|apply iE_self; assumption].
  rd_key Hi.
  apply safe_bind. apply safe_lift. rewrite pd_bytes_spec by assumption.
  destruct (in_bounds _ f g); [|apply iE_self; assumption].
  apply safe_bind. eapply safe_pay; [eassumption | apply read_registry_cost_fits; assumption | right; right; reflexivity | apply iE_self; assumption |].
  intros s1 Hi1 Hr1 Ht1 Hw1.
  do_guard ltac:(apply iE_after_pay; assumption).
  apply safe_ret. split; [assumption|]. apply rinv_weaken. unfold rinv in *. rewrite Hr1. assumption.
Qed.

(* every instruction, given that the handler attached a contract when one is required *)
Theorem exec_instr_safe : forall x i0 m k i e s,
  ctx_ok x -> instr_wf i -> (requires_contract i = true -> xcontract x = true) ->
  inv x i0 m (S k) s -> rinv (S k) s ->
  safe (exec_instr x i e) s (iQ x i0 m k) (iE x i0 m k s).
Proof.
  intros x i0 m k i e s Hx Hwf Hc Hi Hr.
  destruct i; cbn [exec_instr requires_contract instr_wf] in *.
  - apply exec_append_sector_safe; auto.
  - apply exec_append_root_safe; auto.
  - apply exec_drop_sectors_safe; auto.
  - apply exec_has_sector_safe; auto.
  - apply exec_read_offset_safe; auto.
  - apply exec_read_sector_safe; auto.
  - apply exec_swap_sector_safe; auto.
  - apply exec_update_sector_safe; auto.
  - apply exec_store_sector_safe; auto. tauto.
  - apply exec_revision_safe; auto.
  - apply exec_read_registry_safe; auto.
  - apply exec_update_registry_safe; auto.
Qed.
