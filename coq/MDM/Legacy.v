(* MDM/Legacy.v — the checks of the UNPATCHED code (repository HEAD before fixes/C14-*.patch)
   at every site the patches touch, with a witness that each of them lets a renter-chosen
   value reach a panicking slice expression, proof builder or Currency operation.
   Not used by the correspondence check (the harness reproduces every witness on the
   implementation as a directed case). *)
From Coq Require Import Lia.
From HostdBase Require Import Base.
From HostdMDM Require Import Model Rpc.
Local Open Scope N_scope.

Definition max64' : N := 18446744073709551615.
Definition data64 : pdata := mkpd 64 [] 0 [].

(** * programData accessors: `if offset+n > uint64(len(pd))` wraps *)
Definition head_fixed (d : pdata) (off n : N) : res unit :=
  if plen d <? wadd off n then Err EInvalid
  else do _ <- go_slice (plen d) off (plen d); to_array (plen d - off) n.
Definition head_sector (d : pdata) (off : N) : res unit :=
  if plen d <? wadd off SectorSize then Err EInvalid
  else do _ <- go_slice (plen d) off (wadd off SectorSize); to_array (wadd off SectorSize - off) SectorSize.
Definition head_bytes (d : pdata) (off len : N) : res unit :=
  if plen d <? wadd off len then Err EInvalid else go_slice (plen d) off (wadd off len).
Definition head_unlockkey (d : pdata) (off len : N) : res unit :=
  if plen d <? wadd off len then Err EInvalid
  else do _ <- go_slice (plen d) off (wadd off 16); go_slice (plen d) (wadd off 16) (wadd off len).

Lemma head_uint64_refuted : head_fixed data64 (max64' - 7) 8 = Panic.
Proof. vm_compute. reflexivity. Qed.
Lemma head_hash_refuted : head_fixed data64 (max64' - 31) 32 = Panic.
Proof. vm_compute. reflexivity. Qed.
Lemma head_signature_refuted : head_fixed data64 (max64' - 63) 64 = Panic.
Proof. vm_compute. reflexivity. Qed.
Lemma head_sector_refuted : head_sector (mkpd SectorSize [] 0 []) (max64' - SectorSize + 1) = Panic.
Proof. vm_compute. reflexivity. Qed.
Lemma head_bytes_refuted : head_bytes data64 max64' 2 = Panic.
Proof. vm_compute. reflexivity. Qed.
(* no wrap-around needed: a key shorter than its 16-byte specifier *)
Lemma head_unlockkey_refuted : head_unlockkey data64 0 8 = Panic.
Proof. vm_compute. reflexivity. Qed.

(** * executeDropSectors: the proof is built before TrimSectors checks the count *)
Definition head_drop_proof (n count : N) : res unit :=
  build_sector_range_proof n (wsub n count) n.
Lemma head_drop_sectors_refuted : head_drop_proof 2 0 = Panic /\ head_drop_proof 2 3 = Panic.
Proof. vm_compute. split; reflexivity. Qed.

(** * executeReadOffset: no bound on the length; executeReadSector: `offset+length` wraps *)
Lemma head_read_offset_refuted :
  read_out 0 (SectorSize + 1) false = Panic /\ read_out 0 1 true = Panic /\ read_out 0 0 true = Panic.
Proof. vm_compute. repeat split; reflexivity. Qed.
Definition head_read_sector (offset length : N) (proof : bool) : res N :=
  if length =? 0 then Err EInvalid
  else if SectorSize <? wadd offset length then Err EInvalid
  else if proof && (negb (offset mod LeafSize =? 0) || negb (length mod LeafSize =? 0)) then Err EInvalid
  else read_out offset length proof.
Lemma head_read_sector_refuted : head_read_sector (max64' - 63) 128 true = Panic.
Proof. vm_compute. reflexivity. Qed.

(** * processFundAccountPayment: `totalAmount.Sub(pt.FundAccountCost)` *)
Lemma head_fund_account_refuted : csub 0 1 = Panic.
Proof. vm_compute. reflexivity. Qed.

(** * RHP2 *)
(* rpcSectorRoots: `end > contractSectors` only; an empty range reaches BuildSectorRangeProof *)
Definition head_sector_roots (n off num : N) : res unit :=
  if n <? wadd off num then Err EInvalid
  else do _ <- go_slice n off (wadd off num); build_sector_range_proof n off (wadd off num).
Lemma head_sector_roots_refuted : head_sector_roots 2 1 0 = Panic.
Proof. vm_compute. reflexivity. Qed.

(* rpcRead: only core's RPCReadCost validates the sections, with uint64 wrap-around *)
Definition head_read (c : section) (proof : bool) : res (list N) :=
  if negb (section_cost_ok proof c) then Err EInvalid else read_sections proof [c].
Lemma head_read_refuted :
  head_read {| scPresent := true; scOff := max64' - 63; scLen := 128 |} true = Panic.
Proof. vm_compute. reflexivity. Qed.

(* rpcWrite: an update action with a Merkle proof panics in core's DiffProofSize *)
Definition head_write (q : write_req) : res unit :=
  if negb (write_cost_ok (wrProof q) (wrSectors q) (wrActions q)) then Err EInvalid
  else if wrProof q then diff_proof (wrActions q) else Ok tt.
Lemma head_write_refuted :
  head_write {| wrActions := [WUpdate 0 0 64 true 7]; wrProof := true; wrSectors := 1;
                wrPayOk := true; wrSigOk := true; wrCommitOk := true |} = Panic.
Proof. vm_compute. reflexivity. Qed.

(* rpcFormContract: the renter key is converted to a 32-byte array after checking the algorithm only *)
Definition head_form_key (alg : bool) (keylen : N) : res unit :=
  if negb alg then Err EInvalid else to_array keylen 32.
Lemma head_form_key_refuted : head_form_key true 0 = Panic.
Proof. vm_compute. reflexivity. Qed.

(* renewal base costs: StoragePrice.Mul64(Filesize).Mul64(extension) on unvalidated values *)
Definition head_renewal (base sp fs ext : N) : res N :=
  do a <- cmul64 sp fs; do b <- cmul64 a ext; cadd base b.
Lemma head_renewal_refuted : head_renewal 0 34359738368 max64' max64' = Panic.
Proof. vm_compute. reflexivity. Qed.

(** * RPCExecuteProgramRequest decoding (core): `make([]Instruction, d.ReadUint64())` with a
   renter-chosen count that nothing bounds.  Beyond the runtime's maximal allocation
   (2^48 bytes on 64-bit platforms; an interface value takes 16) makeslice panics; below
   it, counts such as 2^40 end in a fatal out-of-memory error on any real machine. *)
Definition go_max_alloc : N := 281474976710656.
Definition head_decode_program (declared : N) : res unit :=
  if go_max_alloc <? declared * 16 then Panic else Ok tt.
Lemma head_decode_program_refuted : head_decode_program 4611686018427387904 = Panic.
Proof. vm_compute. reflexivity. Qed.
