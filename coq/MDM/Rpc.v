(* MDM/Rpc.v — the range / index / arithmetic logic of the RHP2 and RHP3 handlers that a
   renter controls: rhp/v2/rpc.go (rpcSectorRoots, rpcRead, rpcWrite, the renter key of
   rpcFormContract, the base costs of rpcRenewAndClearContract) and rhp/v3 (
   processFundAccountPayment, the base costs of handleRPCRenew), including the validation
   that core's RPCReadCost / RPCWriteCost perform on the request (with their uint64
   wrap-around) and the panics of core's proof builders.

   Corresponds to the code WITH fixes/C14-rhp2-form-renter-key.patch,
   C14-rhp2-sector-roots-range.patch, C14-rhp2-read-section-wrap.patch,
   C14-rhp2-update-proof-panic.patch and C14-rhp3-fund-account-underflow.patch applied, and
   with commit b6b66ef (renewalBaseCosts, overflow -> error) for the renewal base costs.
   The unpatched logic is in Legacy.v.  No proofs here.

   Everything a handler decides from signatures, payout validation (rhp/contracts.go, C07)
   or the price arithmetic on host-chosen prices enters as an oracle bit of the request. *)
From HostdBase Require Import Base.
From HostdMDM Require Import Model.
Local Open Scope N_scope.

Definition maxInt : N := 9223372036854775807.

(* the contract a session has locked *)
Record rstate := { rrev : N; rroots : list N }.
Definition bump (s : rstate) (roots : list N) : rstate := {| rrev := rrev s + 1; rroots := roots |}.

(** * rpcSectorRoots *)
Record sroots_req := {
  srOff : N; srNum : N;
  srSectors : N;           (* Revision.Filesize / SectorSize *)
  srPayOk : bool           (* Revise + ValidateRevision + renter signature accepted *)
}.

Definition rpc_sector_roots (s : rstate) (q : sroots_req) : rstate * res N :=
  let n := srSectors q in
  let start := srOff q in
  let end_ := wadd (srOff q) (srNum q) in
  if (srNum q =? 0) || (n <? srOff q) || (n - srOff q <? srNum q) then (s, Err EInvalid)
  else if negb (srPayOk q) then (s, Err EInvalid)
  else if maxInt <? srNum q then (s, Err EInvalid)
  else if maxInt <? srOff q then (s, Err EInvalid)
  else if negb (nroots (rroots s) =? n) then (s, Err EInvalid)
  else
    (* updater.Commit, then the response is built *)
    let s' := bump s (rroots s) in
    (s', do _ <- go_slice (nroots (rroots s)) start end_;
         do _ <- build_sector_range_proof (nroots (rroots s)) start end_;
         Ok (end_ - start)).

(** * rpcRead *)
Record section := { scPresent : bool; scOff : N; scLen : N }.
Record read_req := { rdSections : list section; rdProof : bool; rdPayOk : bool }.

(* hostd's own check (patch) *)
Definition section_in_sector (c : section) : bool :=
  negb ((SectorSize <? scOff c) || (SectorSize - scOff c <? scLen c)).
(* core RPCReadCost's validation, uint64 arithmetic *)
Definition section_cost_ok (proof : bool) (c : section) : bool :=
  negb (SectorSize <? wadd (scOff c) (scLen c))
  && negb (scLen c =? 0)
  && negb (proof && (negb (scOff c mod LeafSize =? 0) || negb (scLen c mod LeafSize =? 0))).

Fixpoint read_sections (proof : bool) (l : list section) : res (list N) :=
  match l with
  | [] => Ok []
  | c :: t =>
      if negb (scPresent c) then Err ENotFound else
      do _ <- go_slice SectorSize (scOff c) (wadd (scOff c) (scLen c));
      do _ <- (if proof then build_proof (scOff c / LeafSize) (wadd (scOff c) (scLen c) / LeafSize) else Ok tt);
      do r <- read_sections proof t;
      Ok ((wadd (scOff c) (scLen c) - scOff c) :: r)
  end.

(* the boolean tells whether the revision was committed (the renter has paid) *)
Definition rpc_read (s : rstate) (q : read_req) : rstate * res (list N) :=
  if negb (forallb section_in_sector (rdSections q)) then (s, Err EInvalid)
  else if negb (forallb (section_cost_ok (rdProof q)) (rdSections q)) then (s, Err EInvalid)
  else if negb (rdPayOk q) then (s, Err EInvalid)
  else (bump s (rroots s), read_sections (rdProof q) (rdSections q)).

(** * rpcWrite *)
Inductive waction :=
| WAppend (dlen root : N)
| WTrim (a : N)
| WSwap (a b : N)
| WUpdate (idx off dlen : N) (present : bool) (newroot : N)
| WUnknown.

Definition is_update (a : waction) : bool := match a with WUpdate _ _ _ _ _ => true | _ => false end.

(* core RPCWriteCost's validation loop over newSectors *)
Fixpoint write_cost_ok (proof : bool) (n : N) (l : list waction) : bool :=
  match l with
  | [] => true
  | WAppend dlen _ :: t => (dlen =? SectorSize) && write_cost_ok proof (wadd n 1) t
  | WTrim a :: t => negb (n <? a) && write_cost_ok proof (wsub n a) t
  | WSwap a b :: t => negb ((n <=? a) || (n <=? b)) && write_cost_ok proof n t
  | WUpdate idx off dlen _ _ :: t =>
      negb (n <=? idx) && negb (SectorSize <? wadd off dlen)
      && negb ((proof && negb (off mod LeafSize =? 0)) || negb (dlen mod LeafSize =? 0))
      && write_cost_ok proof n t
  | WUnknown :: _ => false
  end.

(* core's sectorsChanged (DiffProofSize, BuildDiffProof): panics on an update action *)
Definition diff_proof (l : list waction) : res unit :=
  if existsb is_update l then Panic else Ok tt.

(* the action loop of rpcWrite over the updater *)
Fixpoint apply_actions (roots : list N) (l : list waction) : res (list N) :=
  match l with
  | [] => Ok roots
  | WAppend dlen root :: t =>
      if negb (dlen =? SectorSize) then Err EInvalid else apply_actions (roots ++ [root]) t
  | WTrim a :: t =>
      if nroots roots <? a then Err EInvalid
      else apply_actions (firstn (N.to_nat (nroots roots - a)) roots) t
  | WSwap a b :: t =>
      if (nroots roots <=? a) || (nroots roots <=? b) then Err EInvalid
      else apply_actions (list_swap roots (N.to_nat a) (N.to_nat b)) t
  | WUpdate idx off dlen present newroot :: t =>
      if nroots roots <=? idx then Err EInvalid
      else if negb present then Err ENotFound
      else if SectorSize <? off then Err EInvalid
      else if SectorSize <? wadd off dlen then Err EInvalid
      else do _ <- go_slice SectorSize off SectorSize;
           apply_actions (list_set roots (N.to_nat idx) newroot) t
  | WUnknown :: t => apply_actions roots t      (* the switch has no default *)
  end.

Record write_req := {
  wrActions : list waction; wrProof : bool;
  wrSectors : N;           (* Revision.Filesize / SectorSize *)
  wrPayOk : bool;          (* Revise + ValidateRevision accepted *)
  wrSigOk : bool;          (* renter signature over the new revision *)
  wrCommitOk : bool        (* updater.Commit: the store accepted the new roots (it refuses a root
                              whose sector was never stored, which is what the update action of
                              rpcWrite produces: it writes the patched sector under the old root) *)
}.

Definition rpc_write (s : rstate) (q : write_req) : rstate * res unit :=
  if wrProof q && existsb is_update (wrActions q) then (s, Err EInvalid)
  else if negb (write_cost_ok (wrProof q) (wrSectors q) (wrActions q)) then (s, Err EInvalid)
  else match (if wrProof q then diff_proof (wrActions q) else Ok tt) with
  | Panic => (s, Panic) | Err e => (s, Err e) | Ok _ =>
  if negb (wrPayOk q) then (s, Err EInvalid)
  else match apply_actions (rroots s) (wrActions q) with
  | Panic => (s, Panic) | Err e => (s, Err e) | Ok roots' =>
  match (if wrProof q then diff_proof (wrActions q) else Ok tt) with
  | Panic => (s, Panic) | Err e => (s, Err e) | Ok _ =>
  if negb (wrSigOk q) then (s, Err EInvalid)
  else if negb (wrCommitOk q) then (s, Err EOther)
  else (bump s roots', Ok tt)
  end end end.

(** * rpcFormContract: the renter key *)
Definition form_renter_key (alg_ed25519 : bool) (keylen : N) : res unit :=
  if negb alg_ed25519 then Err EInvalid
  else if negb (keylen =? 32) then Err EInvalid
  else to_array keylen 32.

(** * renewal base costs (rpcRenewAndClearContract, handleRPCRenew) *)
Definition cmul64_o (a b : N) : N * bool := (((a * b) mod two128)%N, (two128 <=? a * b)%N).

(* Some (revenue, collateral), None = rejected with an error *)
Definition renewal_base_costs (base storagePrice collateralPrice filesize extension : N) : res (N * N) :=
  let '(s1, o1) := cmul64_o storagePrice filesize in
  if o1 then Err EInvalid else
  let '(s2, o2) := cmul64_o s1 extension in
  if o2 then Err EInvalid else
  let '(rev, o3) := cadd_o base s2 in
  if o3 then Err EInvalid else
  let '(c1, o4) := cmul64_o collateralPrice filesize in
  if o4 then Err EInvalid else
  let '(c2, o5) := cmul64_o c1 extension in
  if o5 then Err EInvalid else Ok (rev, c2).

Definition renewal_costs (base storagePrice collateralPrice filesize curEnd newEnd : N) : res (N * N) :=
  if curEnd <? newEnd
  then renewal_base_costs base storagePrice collateralPrice filesize (wsub newEnd curEnd)
  else Ok (base, 0).

(** * processFundAccountPayment (RHP3 RPCFundAccount) *)
Record fstate := { fbal : N; frev : N }.
Record fund_req := {
  fdRevOk : bool;          (* Revise, no underflow, ValidatePaymentRevision accepted *)
  fdTotal : N;             (* current renter payout - revised renter payout *)
  fdCost : N;              (* pt.FundAccountCost *)
  fdSigOk : bool;
  fdMaxBal : N             (* settings.MaxAccountBalance *)
}.

Definition rpc_fund_account (s : fstate) (q : fund_req) : fstate * res N :=
  if negb (fdRevOk q) then (s, Err EInvalid)
  else if fdTotal q <? fdCost q then (s, Err EInvalid)
  else if negb (fdSigOk q) then (s, Err EInvalid)
  else
    let amount := fdTotal q - fdCost q in
    (* AccountManager.Credit *)
    match cadd (fbal s) amount with
    | Panic => (s, Panic)
    | Err e => (s, Err e)
    | Ok nb => if fdMaxBal q <? nb then (s, Err EInsufficient)
               else ({| fbal := nb; frev := frev s + 1 |}, Ok amount)
    end.

(** * RHP4 contractor interface (host/contracts/manager.go): the argument checks of
   AddV2Contract, RenewV2Contract and ReviseV2Contract, for arguments of any shape *)
Definition go_index (len i : N) : res unit := if i <? len then Ok tt else Panic.

(* AddV2Contract(formation): number of transactions, file contracts in the last one *)
Definition add_v2_contract (ntxns nfcLast : N) (storeOk : bool) : res unit :=
  if ntxns =? 0 then Err EInvalid
  else do _ <- go_index ntxns (ntxns - 1);
       if negb (nfcLast =? 1) then Err EInvalid
       else do _ <- go_index nfcLast 0;
            if storeOk then Ok tt else Err EOther.

(* RenewV2Contract(renewal): transactions, resolutions in the last one, whether the
   resolution is a renewal, then the comparison with the existing contract *)
Definition renew_v2_contract (ntxns nresLast : N) (isRenewal found fieldsOk rootsOk storeOk : bool) : res unit :=
  if ntxns =? 0 then Err EInvalid
  else do _ <- go_index ntxns (ntxns - 1);
       if negb (nresLast =? 1) then Err EInvalid
       else do _ <- go_index nresLast 0;
            if negb isRenewal then Err EInvalid
            else if negb found then Err ENotFound
            else if negb fieldsOk then Err EInvalid
            else if negb rootsOk then Err EInvalid
            else if storeOk then Ok tt else Err EOther.

Record revise4_req := {
  r4Found : bool; r4Renewed : bool;
  r4KeysOk : bool;           (* renter and host public key unchanged *)
  r4HeightsOk : bool;        (* proof and expiration height unchanged *)
  r4Filesize : N; r4Capacity : N;
  r4Roots : list N;          (* new sector roots, any length *)
  r4SigsOk : bool; r4RootOk : bool;   (* signatures, FileMerkleRoot = MetaRoot(newRoots) *)
  r4StoreOk : bool;
  r4Rev : N
}.

Definition revise_v2_contract (s : rstate) (q : revise4_req) : rstate * res unit :=
  if negb (r4Found q) then (s, Err ENotFound)
  else if r4Renewed q then (s, Err EInvalid)
  else if negb (r4KeysOk q) then (s, Err EInvalid)
  else if negb (r4HeightsOk q) then (s, Err EInvalid)
  else if negb (r4Filesize q =? SectorSize * nroots (r4Roots q)) then (s, Err EInvalid)
  else if r4Capacity q <? r4Filesize q then (s, Err EInvalid)
  else if negb (r4SigsOk q) then (s, Err EInvalid)
  else if negb (r4RootOk q) then (s, Err EInvalid)
  else if negb (r4StoreOk q) then (s, Err EOther)
  else ({| rrev := r4Rev q; rroots := r4Roots q |}, Ok tt).

(** * correspondence entry point for handler-level sessions *)
Inductive rop :=
| RSetContract (rev : N) (roots : list N)
| RSetAccount (bal : N)
| RSectorRoots (q : sroots_req)
| RRead (q : read_req)
| RWrite (q : write_req)
| RFormKey (alg : bool) (keylen : N)
| RRenewCosts (base sp cp filesize curEnd newEnd : N)
| RFund (q : fund_req)
| RAddV2 (ntxns nfcLast : N) (storeOk : bool)
| RRenewV2 (ntxns nresLast : N) (isRenewal found fieldsOk rootsOk storeOk : bool)
| RReviseV2 (q : revise4_req).

Inductive robs :=
| RDone
| RRes (r : res (list N)) (rev : N) (roots : list N)     (* result, contract afterwards *)
| RFundRes (r : res N) (bal : N).

Record hs := { hsC : rstate; hsF : fstate }.
Definition hs0 : hs := {| hsC := {| rrev := 0; rroots := [] |}; hsF := {| fbal := 0; frev := 0 |} |}.

Definition lift1 {A} (r : res A) (f : A -> list N) : res (list N) :=
  match r with Ok a => Ok (f a) | Err e => Err e | Panic => Panic end.

Definition rstep (h : hs) (o : rop) : hs * robs :=
  match o with
  | RSetContract rev roots => ({| hsC := {| rrev := rev; rroots := roots |}; hsF := hsF h |}, RDone)
  | RSetAccount bal => ({| hsC := hsC h; hsF := {| fbal := bal; frev := frev (hsF h) |} |}, RDone)
  | RSectorRoots q =>
      let '(s', r) := rpc_sector_roots (hsC h) q in
      ({| hsC := s'; hsF := hsF h |}, RRes (lift1 r (fun n => [n])) (rrev s') (rroots s'))
  | RRead q =>
      let '(s', r) := rpc_read (hsC h) q in
      ({| hsC := s'; hsF := hsF h |}, RRes r (rrev s') (rroots s'))
  | RWrite q =>
      let '(s', r) := rpc_write (hsC h) q in
      ({| hsC := s'; hsF := hsF h |}, RRes (lift1 r (fun _ => [])) (rrev s') (rroots s'))
  | RFormKey alg keylen =>
      (h, RRes (lift1 (form_renter_key alg keylen) (fun _ => [])) (rrev (hsC h)) (rroots (hsC h)))
  | RRenewCosts base sp cp fs ce ne =>
      (h, RRes (lift1 (renewal_costs base sp cp fs ce ne) (fun _ => [])) (rrev (hsC h)) (rroots (hsC h)))
  | RAddV2 a b c =>
      (h, RRes (lift1 (add_v2_contract a b c) (fun _ => [])) (rrev (hsC h)) (rroots (hsC h)))
  | RRenewV2 a b c d e f g =>
      (h, RRes (lift1 (renew_v2_contract a b c d e f g) (fun _ => [])) (rrev (hsC h)) (rroots (hsC h)))
  | RReviseV2 q =>
      let '(s', r) := revise_v2_contract (hsC h) q in
      ({| hsC := s'; hsF := hsF h |}, RRes (lift1 r (fun _ => [])) (rrev s') (rroots s'))
  | RFund q =>
      let '(f', r) := rpc_fund_account (hsF h) q in
      ({| hsC := {| rrev := rrev (hsC h) + (frev f' - frev (hsF h)); rroots := rroots (hsC h) |}; hsF := f' |},
       RFundRes r (fbal f'))
  end.

Definition resl_eqb (a b : res (list N)) : bool :=
  match a, b with
  | Ok x, Ok y => list_eqb N.eqb x y
  | Err _, Err _ => true
  | Panic, Panic => true
  | _, _ => false
  end.

Definition robs_eqb (a b : robs) : bool :=
  match a, b with
  | RDone, RDone => true
  | RRes r v l, RRes r' v' l' => resl_eqb r r' && (v =? v') && list_eqb N.eqb l l'
  | RFundRes r b, RFundRes r' b' => resn_eqb r r' && (b =? b')
  | _, _ => false
  end.

Definition rcase := (N * list (rop * robs))%type.
Definition check_rpc (cs : list rcase) := mismatches hs0 rstep robs_eqb cs.
