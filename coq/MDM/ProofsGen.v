(* MDM/ProofsGen.v — the accessor lemmas of Proofs.v restated about the programData accessors
   that tools/go2coq regenerates from rhp/v3/execute.go (gen/MDMGen.v), by rewriting with
   GenEquiv.v.  [off < two64], [len < two64]: the operands are uint64 in Go. *)
From Coq Require Import Lia ZifyBool ZifyN ZifyNat.
From HostdBase Require Import Base.
From HostdMDM Require Import Model Proofs GenPrelude GenEquiv.
From HostdMDM.gen Require Import MDMGen.
Local Open Scope N_scope.

Lemma pd_ok_fits : forall d, pd_ok d -> fits d.
Proof. intros d H. unfold pd_ok, two63 in H. unfold fits, two64. lia. Qed.

Lemma gen_run_acc_no_panic : forall a d off len,
  pd_ok d -> off < two64 -> len < two64 -> gen_run_acc (a, d, off, len) <> Panic.
Proof.
  intros a d off len Hd Ho Hl. rewrite gen_run_acc_eq by (try apply pd_ok_fits; assumption).
  apply run_acc_no_panic; assumption.
Qed.

Lemma gen_run_acc_ok_iff : forall a d off len,
  pd_ok d -> off < two64 -> len < two64 ->
  (exists v, gen_run_acc (a, d, off, len) = Ok v) <->
  (off + acc_need a len <= plen d /\ (a = AUnlockKey -> 16 <= len)).
Proof.
  intros a d off len Hd Ho Hl. rewrite gen_run_acc_eq by (try apply pd_ok_fits; assumption).
  apply run_acc_ok_iff; assumption.
Qed.

(* each translated accessor on its own *)
Lemma gen_uint64_spec : forall d off, pd_ok d -> off < two64 ->
  programData_Uint64 d off = if in_bounds (plen d) off 8 then Ok (le_num (pget d) off 8) else Err EInvalid.
Proof. intros d off Hd Ho. rewrite programData_Uint64_eq by (try apply pd_ok_fits; assumption). apply pd_uint64_spec; assumption. Qed.

Lemma gen_hash_spec : forall d off, pd_ok d -> off < two64 ->
  programData_Hash d off = if in_bounds (plen d) off 32 then Ok (le_num (pget d) off 32) else Err EInvalid.
Proof. intros d off Hd Ho. rewrite programData_Hash_eq by (try apply pd_ok_fits; assumption). apply pd_hash_spec; assumption. Qed.

Lemma gen_sector_spec : forall d off, pd_ok d -> off < two64 ->
  programData_Sector d off = if in_bounds (plen d) off SectorSize then Ok tt else Err EInvalid.
Proof. intros d off Hd Ho. rewrite programData_Sector_eq by (try apply pd_ok_fits; assumption). apply pd_sector_spec; assumption. Qed.

Lemma gen_bytes_spec : forall d off len, pd_ok d -> off < two64 -> len < two64 ->
  (do v <- programData_Bytes d off len; Ok (v_len v)) = if in_bounds (plen d) off len then Ok len else Err EInvalid.
Proof. intros d off len Hd Ho Hl. rewrite programData_Bytes_eq by (try apply pd_ok_fits; assumption). apply pd_bytes_spec; assumption. Qed.
