(* C14 — No peer input can crash the host or change state when rejected. Statements only. *)
From HostdBase Require Import Base.
From HostdMDM Require Import Model Proofs.
Local Open Scope N_scope.

Theorem c14_accessors_no_panic : forall a d off len, pd_ok d -> run_acc (a, d, off, len) <> Panic.
Proof. exact run_acc_no_panic. Qed.
Print Assumptions c14_accessors_no_panic.

Example c14_nonvacuous : pd_fixed (mkpd 8 [1;2;3;4;5;6;7;8] 0 []) 0 8 = Ok tt.
Proof. vm_compute; reflexivity. Qed.
