(* C14 — No peer input can crash the host or change state when rejected.
   Statements only; every proof is [exact lemma].

   The models (Model.v: rhp/v3/execute.go + budget + the contract gate of handleRPCExecute;
   Rpc.v: the renter-controlled range/index/arithmetic logic of rhp/v2/rpc.go and of
   RPCFundAccount / the renewal handlers) correspond to the code WITH the patches
   fixes/C14-*.patch; Legacy.v holds the unpatched checks and the c14_head_*_refuted
   witnesses show that each of them is reachable with a panic.

   Quantification: program data of any length and content ([pdata] = length + arbitrary
   byte function), every operand value, every instruction sequence, with and without a
   contract ([qcontract], [xcontract]) and with and without proofs.  What is NOT peer input
   is a hypothesis ([ctx_ok], [request_ok], [inv]): data length is a Go int, host prices
   are below 2^60 / 2^40 H, durations and immediates are uint64, the budget is below
   2^127 H, and the collateral for the whole program fits a Currency.

   Reading of "rejected leaves ... exactly as they were": contract revision number, sector
   roots and temporary-sector references are unchanged; the account is debited exactly the
   non-storage cost of the instructions that were executed before the failure (the
   protocol's documented charge), never more than the budget, and nothing at all when the
   rejection happens before the program starts or at finalization.  Sectors written by
   executed instructions stay on disk unreferenced (awaiting prune) — they are not
   "stored sectors" in the host's accounting.

   PARTIAL: a hang of the host process is outside the model; the only no-hang statement is
   that every model function is a total Gallina function (structural recursion over the
   instruction / section / action lists), c14_no_hang_partial below.  Panics inside
   core/coreutils that do not depend on the modelled checks (e.g. a decoder allocating
   a renter-chosen slice length) are outside the model as well. *)
From HostdBase Require Import Base.
From HostdMDM Require Import Model Rpc Proofs ProofsExec ProofsInstr ProofsProg ProofsRpc Legacy GenPrelude GenEquiv ProofsGen.
From HostdMDM.gen Require Import MDMGen.
Local Open Scope N_scope.

(** * programData accessors *)
Theorem c14_accessors_no_panic : forall a d off len, pd_ok d -> run_acc (a, d, off, len) <> Panic.
Proof. exact run_acc_no_panic. Qed.
Print Assumptions c14_accessors_no_panic.

(* an access is accepted exactly when offset + size (no wrap-around) lies inside the data *)
Theorem c14_accessors_accept_iff_in_range : forall a d off len, pd_ok d ->
  (exists v, run_acc (a, d, off, len) = Ok v) <->
  (off + acc_need a len <= plen d /\ (a = AUnlockKey -> 16 <= len)).
Proof. exact run_acc_ok_iff. Qed.
Print Assumptions c14_accessors_accept_iff_in_range.

(** * MDM instructions *)
Theorem c14_instr_no_panic : forall x i0 m k i e s,
  ctx_ok x -> instr_wf i -> (requires_contract i = true -> xcontract x = true) ->
  inv x i0 m (S k) s -> rinv (S k) s ->
  snd (exec_instr x i e s) <> Panic.
Proof. exact instr_no_panic. Qed.
Print Assumptions c14_instr_no_panic.

Theorem c14_instr_rejected_unchanged : forall x i0 m k i e s s' er,
  ctx_ok x -> instr_wf i -> (requires_contract i = true -> xcontract x = true) ->
  inv x i0 m (S k) s -> rinv (S k) s ->
  exec_instr x i e s = (s', Err er) ->
  eroots s' = eroots s /\ etemps s' = etemps s /\ inv x i0 m k s'.
Proof. exact instr_rejected_unchanged. Qed.
Print Assumptions c14_instr_rejected_unchanged.

Theorem c14_instr_keeps_invariant : forall x i0 m k i e s s' n,
  ctx_ok x -> instr_wf i -> (requires_contract i = true -> xcontract x = true) ->
  inv x i0 m (S k) s -> rinv (S k) s ->
  exec_instr x i e s = (s', Ok n) -> inv x i0 m k s' /\ rinv k s'.
Proof. exact instr_ok_invariant. Qed.
Print Assumptions c14_instr_keeps_invariant.

(** * whole programs through handleRPCExecute / Execute *)
Theorem c14_mdm_no_panic : forall h q, request_ok h q -> snd (run_program h q) <> Crashed.
Proof. exact run_program_no_panic. Qed.
Print Assumptions c14_mdm_no_panic.

Theorem c14_mdm_rejected_unchanged : forall h q h' e,
  request_ok h q -> run_program h q = (h', Rejected e) ->
  hrev h' = hrev h /\ hroots h' = hroots h /\ htemps h' = htemps h /\
  hbal h' <= hbal h /\ hbal h - hbal h' <= qamount q /\
  (hbal h' = hbal h \/
   exists b1 s er,
     spend {| bmax := qamount q; buse := usage0 |} (init_usage q) = Ok b1 /\
     run_instrs (ctx_of q) (qprog q) (start_of h q b1) = (s, Err er) /\
     hbal h = hbal h' + ptInit (qpt q) + nonstorage (eusage s)).
Proof. exact run_program_rejected. Qed.
Print Assumptions c14_mdm_rejected_unchanged.

(* the gate matters: without it an instruction that needs a contract dereferences nil *)
Theorem c14_ungated_instruction_panics : forall s e,
  snd (exec_instr {| xdata := dummy_pd; xpt := dummy_pt; xdur := 0; xcontract := false |} IRevision e
         {| eroots := []; ebudget := {| bmax := 10; buse := usage0 |}; ecost := cost0; eusage := usage0;
            etemps := []; ewrites := s |}) = Panic.
Proof. exact ungated_revision_panics. Qed.
Print Assumptions c14_ungated_instruction_panics.

(* totality is all the model can say about hangs *)
Theorem c14_no_hang_partial : forall h q, exists h' o, run_program h q = (h', o).
Proof. exact (fun h q => ex_intro _ (fst (run_program h q)) (ex_intro _ (snd (run_program h q)) (surjective_pairing _))). Qed.
Print Assumptions c14_no_hang_partial.

(** * RHP2 range logic, renter key, renewal costs, RHP3 fund account *)
Theorem c14_rpc_no_panic :
  (forall s q, nroots (rroots s) < two63 -> snd (rpc_sector_roots s q) <> Panic) /\
  (forall s q, snd (rpc_read s q) <> Panic) /\
  (forall s q, snd (rpc_write s q) <> Panic) /\
  (forall alg n, form_renter_key alg n <> Panic) /\
  (forall base sp cp fs ce ne, renewal_costs base sp cp fs ce ne <> Panic) /\
  (forall s q, fbal s + fdTotal q < two128 -> snd (rpc_fund_account s q) <> Panic).
Proof. exact (conj rpc_sector_roots_no_panic (conj rpc_read_no_panic (conj rpc_write_no_panic
         (conj form_renter_key_no_panic (conj renewal_costs_no_panic rpc_fund_account_no_panic))))). Qed.
Print Assumptions c14_rpc_no_panic.

Theorem c14_rpc_rejected_unchanged :
  (forall s q s' e, nroots (rroots s) < two63 -> rpc_sector_roots s q = (s', Err e) -> s' = s) /\
  (forall s q s' e, rpc_write s q = (s', Err e) -> s' = s) /\
  (forall s q s' e, rpc_fund_account s q = (s', Err e) -> s' = s) /\
  (* rpcRead commits the payment for the whole request before it reads the sectors: the
     only rejection after that point is a section naming a sector the host does not store *)
  (forall s q s' e, rpc_read s q = (s', Err e) ->
     s' = s \/ (rdPayOk q = true /\ exists c, In c (rdSections q) /\ scPresent c = false)).
Proof. exact (conj rpc_sector_roots_rejected (conj rpc_write_rejected (conj rpc_fund_account_rejected rpc_read_rejected))). Qed.
Print Assumptions c14_rpc_rejected_unchanged.

Theorem c14_fund_account_exact : forall s q s' a,
  rpc_fund_account s q = (s', Ok a) ->
  a + fdCost q = fdTotal q /\ fbal s' = fbal s + a /\ fbal s' <= fdMaxBal q.
Proof. exact rpc_fund_account_accepted. Qed.
Print Assumptions c14_fund_account_exact.

Theorem c14_renewal_costs_exact : forall base sp cp fs ce ne r c,
  ce < ne -> ne < two64 -> renewal_costs base sp cp fs ce ne = Ok (r, c) ->
  r = base + sp * fs * (ne - ce) /\ c = cp * fs * (ne - ce) /\ r < two128 /\ c < two128.
Proof. exact renewal_costs_exact. Qed.
Print Assumptions c14_renewal_costs_exact.

(** * RHP4 contractor interface: arguments of any shape (empty transaction sets, any number of
   contracts / resolutions, root lists of any length, any file size and capacity) *)
Theorem c14_rhp4_no_panic :
  (forall ntxns nfc ok, add_v2_contract ntxns nfc ok <> Panic) /\
  (forall ntxns nres a b c d e, renew_v2_contract ntxns nres a b c d e <> Panic) /\
  (forall s q, snd (revise_v2_contract s q) <> Panic).
Proof. exact (conj add_v2_contract_no_panic (conj renew_v2_contract_no_panic revise_v2_contract_no_panic)). Qed.
Print Assumptions c14_rhp4_no_panic.

Theorem c14_rhp4_rejected_unchanged : forall s q s' e, revise_v2_contract s q = (s', Err e) -> s' = s.
Proof. exact revise_v2_contract_rejected. Qed.
Print Assumptions c14_rhp4_rejected_unchanged.

Theorem c14_rhp4_accepted_consistent : forall s q s',
  revise_v2_contract s q = (s', Ok tt) ->
  rroots s' = r4Roots q /\ r4Filesize q = SectorSize * nroots (r4Roots q) /\ r4Filesize q <= r4Capacity q.
Proof. exact revise_v2_contract_accepted. Qed.
Print Assumptions c14_rhp4_accepted_consistent.

(** * the unpatched checks (Legacy.v): each site is reachable with a panic.
   Full statement "no input panics" is FALSE for the HEAD logic at these sites. *)
Theorem c14_head_accessors_refuted :
  head_fixed data64 (max64' - 7) 8 = Panic /\ head_fixed data64 (max64' - 31) 32 = Panic /\
  head_fixed data64 (max64' - 63) 64 = Panic /\
  head_sector (mkpd SectorSize [] 0 []) (max64' - SectorSize + 1) = Panic /\
  head_bytes data64 max64' 2 = Panic /\ head_unlockkey data64 0 8 = Panic.
Proof. exact (conj head_uint64_refuted (conj head_hash_refuted (conj head_signature_refuted
         (conj head_sector_refuted (conj head_bytes_refuted head_unlockkey_refuted))))). Qed.
Print Assumptions c14_head_accessors_refuted.

Theorem c14_head_instructions_refuted :
  (head_drop_proof 2 0 = Panic /\ head_drop_proof 2 3 = Panic) /\
  (read_out 0 (SectorSize + 1) false = Panic /\ read_out 0 1 true = Panic /\ read_out 0 0 true = Panic) /\
  head_read_sector (max64' - 63) 128 true = Panic /\
  csub 0 1 = Panic.
Proof. exact (conj head_drop_sectors_refuted (conj head_read_offset_refuted
         (conj head_read_sector_refuted head_fund_account_refuted))). Qed.
Print Assumptions c14_head_instructions_refuted.

Theorem c14_head_rhp2_refuted :
  head_sector_roots 2 1 0 = Panic /\
  head_read {| scPresent := true; scOff := max64' - 63; scLen := 128 |} true = Panic /\
  head_write {| wrActions := [WUpdate 0 0 64 true 7]; wrProof := true; wrSectors := 1;
                wrPayOk := true; wrSigOk := true; wrCommitOk := true |} = Panic /\
  head_form_key true 0 = Panic /\
  head_renewal 0 34359738368 max64' max64' = Panic /\
  head_decode_program 4611686018427387904 = Panic.
Proof. exact (conj head_sector_roots_refuted (conj head_read_refuted (conj head_write_refuted
         (conj head_form_key_refuted (conj head_renewal_refuted head_decode_program_refuted))))). Qed.
Print Assumptions c14_head_rhp2_refuted.

(* non-vacuity: a concrete request meets the hypotheses; one program runs to completion
   (ReadOffset with proof, DropSectors with proof, finalized), one is rejected in its second
   instruction (operand offset 2^64-8) and pays only for the first *)
Example c14_nonvacuous :
  request_ok ex_h ex_good /\ request_ok ex_h ex_bad /\
  run_program ex_h ex_good = ({| hbal := 999852; hrev := 4; hroots := [11]; htemps := [] |}, Done [64; 0]) /\
  run_program ex_h ex_bad = ({| hbal := 999862; hrev := 3; hroots := [11; 22]; htemps := [] |}, Rejected EInvalid).
Proof. exact ex_nonvacuous. Qed.

(** The accessor theorems about the REGENERATED definitions: gen/MDMGen.v is written by
   tools/go2coq from the programData methods of the current rhp/v3/execute.go at the start of
   every check run (programData_Uint64, _Hash, _Signature, _Sector, _Bytes, _UnlockKey);
   GenEquiv.v proves each equal to the hand-written pd_ function (after projecting the returned
   byte view / key to what the model observes) for all uint64 operands, [gen_run_acc] is
   [run_acc] over the generated accessors.  [off < two64], [len < two64]: uint64 in Go. *)

Theorem c14_gen_accessors_no_panic : forall a d off len,
  pd_ok d -> off < two64 -> len < two64 -> gen_run_acc (a, d, off, len) <> Panic.
Proof. exact gen_run_acc_no_panic. Qed.
Print Assumptions c14_gen_accessors_no_panic.

Theorem c14_gen_accessors_accept_iff_in_range : forall a d off len,
  pd_ok d -> off < two64 -> len < two64 ->
  (exists v, gen_run_acc (a, d, off, len) = Ok v) <->
  (off + acc_need a len <= plen d /\ (a = AUnlockKey -> 16 <= len)).
Proof. exact gen_run_acc_ok_iff. Qed.
Print Assumptions c14_gen_accessors_accept_iff_in_range.

Theorem c14_gen_accessors_equal_model : forall a d off len,
  fits d -> off < two64 -> len < two64 -> gen_run_acc (a, d, off, len) = run_acc (a, d, off, len).
Proof. exact gen_run_acc_eq. Qed.
Print Assumptions c14_gen_accessors_equal_model.

Theorem c14_gen_uint64_reads_little_endian : forall d off, pd_ok d -> off < two64 ->
  programData_Uint64 d off = if in_bounds (plen d) off 8 then Ok (le_num (pget d) off 8) else Err EInvalid.
Proof. exact gen_uint64_spec. Qed.
Print Assumptions c14_gen_uint64_reads_little_endian.
