(* MDM/Model.v — rhp/v3/execute.go of hostd (programData accessors, every execute*
   instruction, payForExecution, the execution loop, commit/rollback) together with the
   part of handleRPCExecute that decides whether a contract is attached, and the budget
   of host/accounts/budget.go.  Source order of the checks is preserved.

   Corresponds to the code WITH fixes/C14-mdm-bounds.patch applied (overflow-safe accessor
   bounds, UnlockKey length >= 16, ReadOffset/ReadSector/DropSectors validation before
   slicing / proof construction).  The unpatched checks are kept in Legacy.v, where
   their panics are exhibited.  No proofs here.

   Two entry points are replayed against the implementation: [cstep] (one programExecutor
   driven instruction by instruction, then rollback/commit) and [run_program] (a whole
   RPCExecuteProgram through the handler, op [OpProgram]); [run_acc] for the accessors.

   Go -> model:
   * programData ([]byte with len = cap, it is allocated by the decoder with make) -> [pdata]
     = length + byte function; operands read from it are computed by the model
     ([le_num], little endian), hashes/roots/keys are the little-endian number of their bytes.
   * s[lo:hi] -> [go_slice cap lo hi] (Panic unless lo <= hi <= cap); slice -> array pointer
     conversion -> [to_array] (Panic when the slice is shorter); uint64 + -> [wadd] (wraps).
   * types.Currency Add/Sub/Mul64 -> Base.cadd/csub/cmul64 (Panic on overflow/underflow);
     the price-table cost functions of core are written out ([*_cost]).
   * a nil *ContractUpdater / nil revision (program without contract) -> every use is Panic.
   * the environment (sector roots computed by hashing, storage and registry answers) enters
     as the per-step oracle record [env], filled in by the harness with what the real
     components answered.
   * a returned error -> Err (texts are not compared; the enum only separates classes). *)
From HostdBase Require Import Base.
Local Open Scope N_scope.

Definition SectorSize : N := 4194304.
Definition LeafSize : N := 64.
Definition LeavesPerSector : N := 65536.
Definition MaxTempSectorBlocks : N := 1008.
Definition blocksPerYear : N := 52560.

(** * programData *)
Record pdata := { plen : N; pget : N -> N }.

(* harness notation: explicit prefix, explicit suffix, constant filler in between *)
Definition mkpd (len : N) (prefix : list N) (fill : N) (suffix : list N) : pdata :=
  {| plen := len;
     pget := fun i =>
       let lp := N.of_nat (length prefix) in
       let ls := N.of_nat (length suffix) in
       if i <? lp then nth (N.to_nat i) prefix fill
       else if (len - ls <=? i) && (i <? len) then nth (N.to_nat (i - (len - ls))) suffix fill
       else fill |}.

Fixpoint le_num (g : N -> N) (off : N) (n : nat) : N :=
  match n with
  | O => 0
  | S k => g off mod 256 + 256 * le_num g (off + 1) k
  end.

Definition in_bounds (len off n : N) : bool := (off <=? len) && (n <=? len - off).
Definition go_slice (cap lo hi : N) : res unit := if slice_ok cap lo hi then Ok tt else Panic.
Definition to_array (l n : N) : res unit := if l <? n then Panic else Ok tt.

(* Uint64 / Hash / Signature: bounds check, pd[offset:], fixed-size read of the result *)
Definition pd_fixed (d : pdata) (off n : N) : res unit :=
  if negb (in_bounds (plen d) off n) then Err EInvalid
  else do _ <- go_slice (plen d) off (plen d); to_array (plen d - off) n.

Definition pd_uint64 (d : pdata) (off : N) : res N :=
  do _ <- pd_fixed d off 8; Ok (le_num (pget d) off 8).
Definition pd_hash (d : pdata) (off : N) : res N :=
  do _ <- pd_fixed d off 32; Ok (le_num (pget d) off 32).
Definition pd_signature (d : pdata) (off : N) : res unit := pd_fixed d off 64.

Definition pd_sector (d : pdata) (off : N) : res unit :=
  if negb (in_bounds (plen d) off SectorSize) then Err EInvalid
  else do _ <- go_slice (plen d) off (wadd off SectorSize);
       to_array (wadd off SectorSize - off) SectorSize.

Definition pd_bytes (d : pdata) (off len : N) : res N :=
  if negb (in_bounds (plen d) off len) then Err EInvalid
  else do _ <- go_slice (plen d) off (wadd off len); Ok (wadd off len - off).

(* returns (algorithm specifier, key length) *)
Definition pd_unlockkey (d : pdata) (off len : N) : res (N * N) :=
  if (len <? 16) || negb (in_bounds (plen d) off len) then Err EInvalid
  else do _ <- go_slice (plen d) off (wadd off 16);
       do _ <- go_slice (plen d) (wadd off 16) (wadd off len);
       Ok (le_num (pget d) off 16, wadd off len - wadd off 16).

(* types.SpecifierEd25519 = "ed25519" padded with zeros *)
Definition spec_ed25519 : N :=
  101 + 256 * (100 + 256 * (50 + 256 * (53 + 256 * (53 + 256 * (49 + 256 * 57))))).

(** * price table and instruction costs (core rhp/v3) *)
Record ptable := {
  ptInit : N; ptDownload : N; ptUpload : N; ptDropBase : N; ptDropUnit : N;
  ptHasSector : N; ptReadBase : N; ptReadLength : N; ptRevision : N; ptSwap : N;
  ptWriteBase : N; ptWriteLength : N; ptWriteStore : N; ptCollateral : N;
  ptHeight : N }.

Record cost := { cBase : N; cStorage : N; cCollateral : N; cEgress : N; cIngress : N }.
Definition cost0 : cost := {| cBase := 0; cStorage := 0; cCollateral := 0; cEgress := 0; cIngress := 0 |}.

Definition cost_add (a b : cost) : res cost :=
  do x1 <- cadd (cBase a) (cBase b);
  do x2 <- cadd (cStorage a) (cStorage b);
  do x3 <- cadd (cCollateral a) (cCollateral b);
  do x4 <- cadd (cEgress a) (cEgress b);
  do x5 <- cadd (cIngress a) (cIngress b);
  Ok {| cBase := x1; cStorage := x2; cCollateral := x3; cEgress := x4; cIngress := x5 |}.

Definition write_base_cost (pt : ptable) (len : N) : res N :=
  let len' := if len mod 4096 =? 0 then len else wadd len (4096 - len mod 4096) in
  do a <- cmul64 (ptWriteLength pt) len'; cadd a (ptWriteBase pt).

Definition mul2 (p a b : N) : res N := do x <- cmul64 p a; cmul64 x b.

Definition append_sector_cost (pt : ptable) (dur : N) : res cost :=
  do b <- write_base_cost pt SectorSize;
  do s <- mul2 (ptWriteStore pt) SectorSize dur;
  do c <- mul2 (ptCollateral pt) SectorSize dur;
  do i <- cmul64 (ptUpload pt) SectorSize;
  Ok {| cBase := b; cStorage := s; cCollateral := c; cEgress := 0; cIngress := i |}.

Definition append_root_cost (pt : ptable) (dur : N) : res cost :=
  do s <- mul2 (ptWriteStore pt) SectorSize dur;
  do c <- mul2 (ptCollateral pt) SectorSize dur;
  do i <- cmul64 (ptUpload pt) 32;
  Ok {| cBase := ptWriteBase pt; cStorage := s; cCollateral := c; cEgress := 0; cIngress := i |}.

Definition drop_sectors_cost (pt : ptable) (n : N) : res cost :=
  do a <- cmul64 (ptDropUnit pt) n;
  do b <- cadd a (ptDropBase pt);
  do i <- cmul64 (ptUpload pt) 8;
  Ok {| cBase := b; cStorage := 0; cCollateral := 0; cEgress := 0; cIngress := i |}.

Definition has_sector_cost (pt : ptable) : res cost :=
  do i <- cmul64 (ptUpload pt) 32;
  Ok {| cBase := ptHasSector pt; cStorage := 0; cCollateral := 0; cEgress := ptDownload pt; cIngress := i |}.

Definition read_cost (pt : ptable) (length argbytes : N) : res cost :=
  do a <- cmul64 (ptReadLength pt) length;
  do b <- cadd a (ptReadBase pt);
  do i <- cmul64 (ptUpload pt) argbytes;
  do e <- cmul64 (ptDownload pt) length;
  Ok {| cBase := b; cStorage := 0; cCollateral := 0; cEgress := e; cIngress := i |}.
Definition read_offset_cost pt length := read_cost pt length 8.
Definition read_sector_cost pt length := read_cost pt length 32.

Definition swap_sector_cost (pt : ptable) : res cost :=
  do i <- cmul64 (ptUpload pt) 16;
  Ok {| cBase := ptSwap pt; cStorage := 0; cCollateral := 0; cEgress := 0; cIngress := i |}.

Definition update_sector_cost (pt : ptable) (length : N) : res cost :=
  do b <- write_base_cost pt SectorSize;
  do i <- cmul64 (ptUpload pt) length;
  Ok {| cBase := b; cStorage := 0; cCollateral := 0; cEgress := 0; cIngress := i |}.

Definition store_sector_cost (pt : ptable) (dur : N) : res cost :=
  do b <- write_base_cost pt SectorSize;
  do s <- mul2 (ptWriteStore pt) SectorSize dur;
  do i <- cmul64 (ptUpload pt) SectorSize;
  Ok {| cBase := b; cStorage := s; cCollateral := 0; cEgress := 0; cIngress := i |}.

Definition revision_cost (pt : ptable) : res cost :=
  Ok {| cBase := ptRevision pt; cStorage := 0; cCollateral := 0; cEgress := 0; cIngress := 0 |}.

(* used by both registry instructions (executeUpdateRegistry also charges ReadRegistryCost) *)
Definition read_registry_cost (pt : ptable) : res cost :=
  do b <- write_base_cost pt 256;
  do s <- cmul64 (ptWriteStore pt) (256 * 10 * blocksPerYear);
  do e <- cmul64 (ptDownload pt) 256;
  Ok {| cBase := b; cStorage := s; cCollateral := 0; cEgress := e; cIngress := 0 |}.

(** * accounts.Usage and accounts.Budget *)
Record usage := { uRpc : N; uStorage : N; uEgress : N; uIngress : N; uRegR : N; uRegW : N }.
Definition usage0 : usage := {| uRpc := 0; uStorage := 0; uEgress := 0; uIngress := 0; uRegR := 0; uRegW := 0 |}.

Definition usage_total (u : usage) : res N :=
  do a <- cadd (uRpc u) (uStorage u);
  do b <- cadd a (uEgress u);
  do c <- cadd b (uIngress u);
  do d <- cadd c (uRegR u);
  cadd d (uRegW u).

Definition usage_add (a b : usage) : res usage :=
  do x1 <- cadd (uRpc a) (uRpc b);
  do x2 <- cadd (uStorage a) (uStorage b);
  do x3 <- cadd (uEgress a) (uEgress b);
  do x4 <- cadd (uIngress a) (uIngress b);
  do x5 <- cadd (uRegR a) (uRegR b);
  do x6 <- cadd (uRegW a) (uRegW b);
  Ok {| uRpc := x1; uStorage := x2; uEgress := x3; uIngress := x4; uRegR := x5; uRegW := x6 |}.

Definition usage_sub (a b : usage) : res usage :=
  do x1 <- csub (uRpc a) (uRpc b);
  do x2 <- csub (uStorage a) (uStorage b);
  do x3 <- csub (uEgress a) (uEgress b);
  do x4 <- csub (uIngress a) (uIngress b);
  do x5 <- csub (uRegR a) (uRegR b);
  do x6 <- csub (uRegW a) (uRegW b);
  Ok {| uRpc := x1; uStorage := x2; uEgress := x3; uIngress := x4; uRegR := x5; uRegW := x6 |}.

Record budget := { bmax : N; buse : usage }.

(* Budget.Spend *)
Definition spend (b : budget) (u : usage) : res budget :=
  do nu <- usage_add (buse b) u;
  do t <- usage_total nu;
  if bmax b <? t then Err EInsufficient else Ok {| bmax := bmax b; buse := nu |}.

(* Budget.Refund *)
Definition refund (b : budget) (u : usage) : res budget :=
  do nu <- usage_sub (buse b) u; Ok {| bmax := bmax b; buse := nu |}.

(* costToAccountUsage, and the two registry variants *)
Definition std_usage (c : cost) : usage :=
  {| uRpc := cBase c; uStorage := cStorage c; uEgress := cEgress c; uIngress := cIngress c; uRegR := 0; uRegW := 0 |}.
Definition regr_usage (c : cost) : usage :=
  {| uRpc := cBase c; uStorage := 0; uEgress := cEgress c; uIngress := cIngress c; uRegR := cStorage c; uRegW := 0 |}.
Definition regw_usage (c : cost) : usage :=
  {| uRpc := cBase c; uStorage := 0; uEgress := cEgress c; uIngress := cIngress c; uRegR := 0; uRegW := cStorage c |}.

(** * executor *)
Record estate := {
  eroots  : list N;         (* updater.sectorRoots *)
  ebudget : budget;
  ecost   : cost;           (* pe.cost *)
  eusage  : usage;          (* pe.usage *)
  etemps  : list (N * N);   (* pe.tempSectors *)
  ewrites : list N          (* roots handed to sectors.Write so far *)
}.

Record ctx := {
  xdata : pdata;
  xpt : ptable;
  xdur : N;                 (* remainingDuration *)
  xcontract : bool          (* revision / updater attached *)
}.

(* what the environment answered in this step *)
Record env := {
  oroot  : N;               (* rhp2.SectorRoot of the sector written by this instruction *)
  owrite : bool;            (* sectors.Write succeeded *)
  ohas   : bool;            (* sectors.HasSector *)
  oread  : bool;            (* sectors.ReadSector found the sector *)
  oget   : option N;        (* registry.Get: None = error, Some n = length of the data *)
  oput   : bool             (* registry.Put accepted the entry *)
}.

Inductive instr :=
| IAppendSector (dataOff : N) (proof : bool)
| IAppendSectorRoot (rootOff : N) (proof : bool)
| IDropSectors (countOff : N) (proof : bool)
| IHasSector (rootOff : N)
| IReadOffset (lenOff offOff : N) (proof : bool)
| IReadSector (lenOff offOff rootOff : N) (proof : bool)
| ISwapSector (off1 off2 : N) (proof : bool)
| IUpdateSector (off len dataOff : N) (proof : bool)
| IStoreSector (dataOff dur : N)
| IRevision
| IReadRegistry (pkOff pkLen tweakOff version : N)
| IUpdateRegistry (tweakOff revOff sigOff pkOff pkLen dataOff dataLen : N).

(* state-and-result monad: the state survives an error (the budget has been spent) *)
Definition M (A : Type) := estate -> estate * res A.
Definition ret {A} (a : A) : M A := fun s => (s, Ok a).
Definition lift {A} (r : res A) : M A := fun s => (s, r).
Definition bindM {A B} (m : M A) (f : A -> M B) : M B :=
  fun s => let '(s', r) := m s in
           match r with Ok a => f a s' | Err e => (s', Err e) | Panic => (s', Panic) end.
Notation "'dom' x <- m ; k" := (bindM m (fun x => k)) (at level 200, x pattern, m at level 100, k at level 200).
Definition failM {A} (e : err) : M A := fun s => (s, Err e).
Definition guard (b : bool) (e : err) : M unit := if b then failM e else ret tt.

Definition set_roots (r : list N) : M unit := fun s =>
  ({| eroots := r; ebudget := ebudget s; ecost := ecost s; eusage := eusage s; etemps := etemps s; ewrites := ewrites s |}, Ok tt).

(* payForExecution *)
Definition pay (c : res cost) (mk : cost -> usage) : M unit := fun s =>
  match c with
  | Panic => (s, Panic)
  | Err e => (s, Err e)
  | Ok c =>
      match spend (ebudget s) (mk c) with
      | Panic => (s, Panic)
      | Err e => (s, Err e)
      | Ok b' =>
          match cost_add (ecost s) c, usage_add (eusage s) (mk c) with
          | Ok c', Ok u' =>
              ({| eroots := eroots s; ebudget := b'; ecost := c'; eusage := u';
                  etemps := etemps s; ewrites := ewrites s |}, Ok tt)
          | _, _ => (s, Panic)
          end
      end
  end.

(* sectors.Write *)
Definition write_sector (e : env) : M unit := fun s =>
  if owrite e then
    ({| eroots := eroots s; ebudget := ebudget s; ecost := ecost s; eusage := eusage s;
        etemps := etemps s; ewrites := oroot e :: ewrites s |}, Ok tt)
  else (s, Err ENotEnoughStorage).

(* uses of pe.updater: nil without a contract *)
Definition with_updater {A} (x : ctx) (m : M A) : M A :=
  if xcontract x then m else lift Panic.
Definition get_roots (x : ctx) : M (list N) := with_updater x (fun s => (s, Ok (eroots s))).
Definition nroots (l : list N) : N := N.of_nat (length l).

Definition upd_append (x : ctx) (r : N) : M unit :=
  with_updater x (fun s => set_roots (eroots s ++ [r]) s).

Fixpoint list_set (l : list N) (i : nat) (v : N) : list N :=
  match l, i with
  | [], _ => []
  | _ :: t, O => v :: t
  | h :: t, S k => h :: list_set t k v
  end.
Definition list_swap (l : list N) (a b : nat) : list N :=
  let va := nth a l 0 in let vb := nth b l 0 in list_set (list_set l a vb) b va.

(* proof builders of core: their panics are part of what a peer can reach *)
Definition build_proof (start end_ : N) : res unit :=
  if (LeavesPerSector <? end_) || (end_ <=? start) then Panic else Ok tt.
Definition build_sector_range_proof (n start end_ : N) : res unit :=
  if n =? 0 then Ok tt else if (n <? end_) || (end_ <=? start) then Panic else Ok tt.

(* roots[:len(roots)-1] + BuildDiffProof(append) *)
Definition append_proof (x : ctx) (proof : bool) : M unit :=
  if proof then
    dom l <- get_roots x;
    lift (go_slice (nroots l) 0 (wsub (nroots l) 1))
  else ret tt.

Definition exec_append_sector (x : ctx) (e : env) (off : N) (proof : bool) : M N :=
  dom _ <- lift (pd_sector (xdata x) off);
  dom _ <- pay (append_sector_cost (xpt x) (xdur x)) std_usage;
  dom _ <- write_sector e;
  dom _ <- upd_append x (oroot e);
  dom _ <- append_proof x proof;
  ret 0.

Definition exec_append_root (x : ctx) (e : env) (off : N) (proof : bool) : M N :=
  dom root <- lift (pd_hash (xdata x) off);
  dom _ <- pay (append_root_cost (xpt x) (xdur x)) std_usage;
  dom _ <- guard (negb (ohas e)) ENotFound;
  dom _ <- upd_append x root;
  dom _ <- append_proof x proof;
  ret 0.

Definition exec_drop_sectors (x : ctx) (off : N) (proof : bool) : M N :=
  dom count <- lift (pd_uint64 (xdata x) off);
  dom l <- get_roots x;
  dom _ <- guard (nroots l <? count) EInvalid;
  dom _ <- pay (drop_sectors_cost (xpt x) count) std_usage;
  dom _ <- (if proof && (0 <? count)
            then lift (build_sector_range_proof (nroots l) (wsub (nroots l) count) (nroots l))
            else ret tt);
  (* updater.TrimSectors *)
  dom _ <- guard (nroots l <? count) EInvalid;
  dom _ <- set_roots (firstn (N.to_nat (nroots l - count)) l);
  ret 0.

Definition exec_has_sector (x : ctx) (e : env) (off : N) : M N :=
  dom _ <- lift (pd_hash (xdata x) off);
  dom _ <- pay (has_sector_cost (xpt x)) std_usage;
  ret 1.

(* sector[rel : rel+length] (+ BuildProof first when a proof is requested) *)
Definition read_out (rel length : N) (proof : bool) : res N :=
  do _ <- (if proof then build_proof (rel / LeafSize) (wadd rel length / LeafSize) else Ok tt);
  do _ <- go_slice SectorSize rel (wadd rel length);
  Ok (wadd rel length - rel).

Definition exec_read_offset (x : ctx) (e : env) (lenOff offOff : N) (proof : bool) : M N :=
  dom offset <- lift (pd_uint64 (xdata x) offOff);
  dom length <- lift (pd_uint64 (xdata x) lenOff);
  let idx := offset / SectorSize in
  let rel := offset mod SectorSize in
  dom _ <- guard (SectorSize - rel <? length) EInvalid;
  dom _ <- guard (proof && (length =? 0)) EInvalid;
  dom _ <- guard (proof && (negb (rel mod LeafSize =? 0) || negb (length mod LeafSize =? 0))) EInvalid;
  dom _ <- pay (read_offset_cost (xpt x) length) std_usage;
  dom l <- get_roots x;
  dom _ <- guard (nroots l <=? idx) EInvalid;
  dom _ <- guard (negb (oread e)) ENotFound;
  lift (read_out rel length proof).

Definition exec_read_sector (x : ctx) (e : env) (lenOff offOff rootOff : N) (proof : bool) : M N :=
  dom _ <- lift (pd_hash (xdata x) rootOff);
  dom length <- lift (pd_uint64 (xdata x) lenOff);
  dom offset <- lift (pd_uint64 (xdata x) offOff);
  dom _ <- guard (length =? 0) EInvalid;
  dom _ <- guard ((SectorSize <? offset) || (SectorSize - offset <? length)) EInvalid;
  dom _ <- guard (proof && (negb (offset mod LeafSize =? 0) || negb (length mod LeafSize =? 0))) EInvalid;
  dom _ <- pay (read_sector_cost (xpt x) length) std_usage;
  dom _ <- guard (negb (oread e)) ENotFound;
  lift (read_out offset length proof).

Definition exec_swap_sector (x : ctx) (off1 off2 : N) (proof : bool) : M N :=
  dom a0 <- lift (pd_uint64 (xdata x) off1);
  dom b0 <- lift (pd_uint64 (xdata x) off2);
  let a := if b0 <? a0 then b0 else a0 in
  let b := if b0 <? a0 then a0 else b0 in
  dom _ <- pay (swap_sector_cost (xpt x)) std_usage;
  (* BuildDiffProof ignores indices beyond the roots; the old leaf hashes are the output *)
  dom outlen <- (if proof then
                   dom l <- get_roots x;
                   ret (8 + 32 * ((if a <? nroots l then 1 else 0) +
                                  (if (b <? nroots l) && negb (a =? b) then 1 else 0)))
                 else ret 0);
  dom l <- get_roots x;
  dom _ <- guard ((nroots l <=? a) || (nroots l <=? b)) EInvalid;
  dom _ <- set_roots (list_swap l (N.to_nat a) (N.to_nat b));
  ret outlen.

Definition exec_update_sector (x : ctx) (e : env) (off len dataOff : N) : M N :=
  dom _ <- lift (pd_bytes (xdata x) dataOff len);
  dom _ <- pay (update_sector_cost (xpt x) len) std_usage;
  let idx := off / SectorSize in
  let rel := off mod SectorSize in
  dom l <- get_roots x;
  dom _ <- guard (nroots l <=? idx) EInvalid;
  dom _ <- guard (negb (oread e)) ENotFound;
  dom _ <- guard (SectorSize <? wadd rel len) EInvalid;
  dom _ <- lift (go_slice SectorSize rel SectorSize);
  dom _ <- write_sector e;
  (* updater.UpdateSector *)
  dom l2 <- get_roots x;
  dom _ <- guard (nroots l2 <=? idx) EInvalid;
  dom _ <- set_roots (list_set l2 (N.to_nat idx) (oroot e));
  ret 32.

Definition add_temp (r exp : N) : M unit := fun s =>
  ({| eroots := eroots s; ebudget := ebudget s; ecost := ecost s; eusage := eusage s;
      etemps := etemps s ++ [(r, exp)]; ewrites := ewrites s |}, Ok tt).

Definition exec_store_sector (x : ctx) (e : env) (dataOff dur : N) : M N :=
  dom _ <- lift (pd_sector (xdata x) dataOff);
  (* fix C14-store-sector-duration-before-cost: the renter-chosen duration is checked before it is priced *)
  dom _ <- guard (dur =? 0) EInvalid;
  dom _ <- guard (MaxTempSectorBlocks <? dur) EInvalid;
  dom _ <- pay (store_sector_cost (xpt x) dur) std_usage;
  dom _ <- write_sector e;
  dom _ <- add_temp (oroot e) (wadd (ptHeight (xpt x)) dur);
  ret 32.

(* the encoded revision transaction; its length is a property of the contract, reported as 0 *)
Definition exec_revision (x : ctx) : M N :=
  dom _ <- pay (revision_cost (xpt x)) std_usage;
  if xcontract x then ret 0 else lift Panic.

Definition check_unlock_key (d : pdata) (pkOff pkLen : N) : res unit :=
  do uk <- pd_unlockkey d pkOff pkLen;
  if negb (fst uk =? spec_ed25519) then Err EInvalid
  else if negb (snd uk =? 32) then Err EInvalid
  else to_array (snd uk) 32.

Definition exec_read_registry (x : ctx) (e : env) (pkOff pkLen tweakOff version : N) : M N :=
  dom _ <- guard (negb (version =? 1) && negb (version =? 2)) EInvalid;
  dom _ <- lift (check_unlock_key (xdata x) pkOff pkLen);
  dom _ <- lift (pd_hash (xdata x) tweakOff);
  dom _ <- pay (read_registry_cost (xpt x)) regr_usage;
  match oget e with
  | None => failM ENotFound
  | Some n => ret (64 + 8 + n + (if version =? 2 then 1 else 0))
  end.

Definition exec_update_registry (x : ctx) (e : env) (tweakOff revOff sigOff pkOff pkLen dataOff dataLen : N) : M N :=
  dom _ <- lift (pd_hash (xdata x) tweakOff);
  dom _ <- lift (pd_uint64 (xdata x) revOff);
  dom _ <- lift (pd_signature (xdata x) sigOff);
  dom _ <- lift (check_unlock_key (xdata x) pkOff pkLen);
  dom _ <- lift (pd_bytes (xdata x) dataOff dataLen);
  dom _ <- pay (read_registry_cost (xpt x)) regw_usage;
  dom _ <- guard (negb (oput e)) EInvalid;
  ret 0.

Definition exec_instr (x : ctx) (i : instr) (e : env) : M N :=
  match i with
  | IAppendSector off p => exec_append_sector x e off p
  | IAppendSectorRoot off p => exec_append_root x e off p
  | IDropSectors off p => exec_drop_sectors x off p
  | IHasSector off => exec_has_sector x e off
  | IReadOffset lo oo p => exec_read_offset x e lo oo p
  | IReadSector lo oo ro p => exec_read_sector x e lo oo ro p
  | ISwapSector a b p => exec_swap_sector x a b p
  | IUpdateSector off len d _ => exec_update_sector x e off len d
  | IStoreSector d dur => exec_store_sector x e d dur
  | IRevision => exec_revision x
  | IReadRegistry a b c v => exec_read_registry x e a b c v
  | IUpdateRegistry a b c d l f g => exec_update_registry x e a b c d l f g
  end.

(* executeProgram: stop at the first instruction that fails *)
Fixpoint run_instrs (x : ctx) (prog : list (instr * env)) (s : estate) : estate * res (list N) :=
  match prog with
  | [] => (s, Ok [])
  | (i, e) :: t =>
      let '(s', r) := exec_instr x i e s in
      match r with
      | Ok n => let '(s'', r') := run_instrs x t s' in
                (s'', match r' with Ok l => Ok (n :: l) | Err er => Err er | Panic => Panic end)
      | Err er => (s', Err er)
      | Panic => (s', Panic)
      end
  end.

Definition requires_contract (i : instr) : bool :=
  match i with
  | IHasSector _ | IReadSector _ _ _ _ | IStoreSector _ _ | IReadRegistry _ _ _ _
  | IUpdateRegistry _ _ _ _ _ _ _ => false
  | _ => true
  end.
Definition requires_finalization (i : instr) : bool :=
  match i with
  | IAppendSector _ _ | IAppendSectorRoot _ _ | IDropSectors _ _ | ISwapSector _ _ _
  | IUpdateSector _ _ _ _ => true
  | _ => false
  end.

(** * handleRPCExecute + Execute: one program against the host *)
Record hstate := {
  hbal   : N;               (* account balance *)
  hrev   : N;               (* contract revision number *)
  hroots : list N;          (* contract sector roots *)
  htemps : list (N * N)     (* temporary sector references *)
}.

Record request := {
  qamount   : N;            (* payment: the budget *)
  qcontract : bool;         (* a lockable contract id was supplied *)
  qdeclared : N;            (* the instruction count field of the encoded request (= length of
                               the program in a well-formed request; any uint64 in a raw one) *)
  qprog     : list (instr * env);
  qdata     : pdata;
  qpt       : ptable;
  qdur      : N;
  qfinal    : option N      (* finalize: None = revision/signature rejected, Some n = accepted revision number *)
}.

Definition set_bal (h : hstate) (b : N) : hstate :=
  {| hbal := b; hrev := hrev h; hroots := hroots h; htemps := htemps h |}.

(* Budget.Commit: debit the account by what was spent *)
Definition commit_budget (h : hstate) (b : budget) : res hstate :=
  do t <- usage_total (buse b);
  if hbal h <? t then Err EInsufficient      (* Store.DebitAccount: insufficient balance *)
  else do _ <- csub (bmax b) t;              (* rem := b.max.Sub(spent) *)
       Ok (set_bal h (hbal h - t)).

Inductive outcome := Done (outs : list N) | Rejected (e : err) | Crashed.

Definition init_usage (q : request) : usage :=
  {| uRpc := ptInit (qpt q); uStorage := 0; uEgress := 0; uIngress := 0; uRegR := 0; uRegW := 0 |}.
Definition needs_contract (q : request) : bool := existsb (fun ie => requires_contract (fst ie)) (qprog q).
Definition needs_final (q : request) : bool := existsb (fun ie => requires_finalization (fst ie)) (qprog q).
(* revision / updater are only attached when an instruction asks for them *)
Definition attach (q : request) : bool := needs_contract q || needs_final q.
Definition ctx_of (q : request) : ctx :=
  {| xdata := qdata q; xpt := qpt q; xdur := qdur q; xcontract := attach q |}.
Definition start_of (h : hstate) (q : request) (b1 : budget) : estate :=
  {| eroots := if attach q then hroots h else []; ebudget := b1; ecost := cost0;
     eusage := usage0; etemps := []; ewrites := [] |}.
Definition storage_only (u : usage) : usage :=
  {| uRpc := 0; uStorage := uStorage u; uEgress := 0; uIngress := 0; uRegR := 0; uRegW := 0 |}.

(* maxProgramRequestSize / 24: what a 20 MiB request can hold (fixes/C14-rhp3-program-count-oom) *)
Definition max_instructions : N := 873813.

Definition run_program (h : hstate) (q : request) : hstate * outcome :=
  (* processAccountPayment / AccountManager.Budget *)
  if qamount q =? 0 then (h, Rejected EInvalid) else
  if hbal h <? qamount q then (h, Rejected EInsufficient) else
  (* reading the request: the instruction count is checked before the program is allocated;
     the deferred budget.Rollback gives everything back *)
  if max_instructions <? qdeclared q then (h, Rejected EInvalid) else
  (* pay for the execution: budget.Spend(RPCRevenue: InitBaseCost) *)
  match spend {| bmax := qamount q; buse := usage0 |} (init_usage q) with
  | Panic => (h, Crashed)
  | Err e => (h, Rejected e)            (* deferred budget.Rollback: nothing is debited *)
  | Ok b1 =>
      if attach q && negb (qcontract q) then (h, Rejected EInvalid) else
      let '(s, r) := run_instrs (ctx_of q) (qprog q) (start_of h q b1) in
      match r with
      | Panic => (h, Crashed)
      | Err e =>
          (* rollback: refund the storage spending, commit the rest *)
          match refund (ebudget s) (storage_only (eusage s)) with
          | Ok b2 => match commit_budget h b2 with
                     | Ok h' => (h', Rejected e)
                     | Err _ => (h, Rejected e)      (* the error of the deferred rollback is dropped *)
                     | Panic => (h, Crashed)
                     end
          | _ => (h, Crashed)
          end
      | Ok outs =>
          (* commit *)
          if needs_final q then
            match qfinal q with
            | None => (h, Rejected EInvalid)     (* committed = true: rollback is a no-op, the budget is rolled back *)
            | Some n =>
                let h1 := {| hbal := hbal h; hrev := n; hroots := eroots s; htemps := htemps h |} in
                match commit_budget h1 (ebudget s) with
                | Ok h2 => ({| hbal := hbal h2; hrev := hrev h2; hroots := hroots h2;
                               htemps := htemps h2 ++ etemps s |}, Done outs)
                | Err e => (h1, Rejected e)          (* after updater.Commit *)
                | Panic => (h, Crashed)
                end
            end
          else
            match commit_budget h (ebudget s) with
            | Ok h2 => ({| hbal := hbal h2; hrev := hrev h2; hroots := hroots h2;
                           htemps := htemps h2 ++ etemps s |}, Done outs)
            | Err e => (h, Rejected e)
            | Panic => (h, Crashed)
            end
      end
  end.

(** * correspondence entry points *)

(* programData accessors as pure functions *)
Inductive acc := AUint64 | AHash | ASignature | ASector | ABytes | AUnlockKey.
Definition acc_in := (acc * pdata * N * N)%type.
(* class + the value read (Uint64), the length returned (Bytes), the key length (UnlockKey) *)
Definition run_acc (i : acc_in) : res N :=
  let '(a, d, off, len) := i in
  match a with
  | AUint64 => pd_uint64 d off
  | AHash => do _ <- pd_hash d off; Ok 0
  | ASignature => do _ <- pd_signature d off; Ok 0
  | ASector => do _ <- pd_sector d off; Ok 0
  | ABytes => pd_bytes d off len
  | AUnlockKey => do uk <- pd_unlockkey d off len; Ok (snd uk)
  end.
Definition check_acc (cs : list (N * acc_in * res N)) := fmismatches run_acc (res_eqb N.eqb) cs.

(* instruction-level executor histories *)
Inductive op :=
| OpInit (x : ctx) (roots : list N) (bal amount : N)   (* newExecutor over a fresh budget that paid the init cost *)
| OpInstr (i : instr) (e : env)
| OpRollback                                           (* pe.rollback() *)
| OpCommit                                             (* pe.commit() of a program that needs no finalization *)
| OpProgram (h : hstate) (q : request).                (* one RPCExecuteProgram through handleRPCExecute *)

Inductive obs :=
| OInit (ok : bool)
| OInstr (r : res N) (roots : list N) (spent coll : N) (ntemps : N)
| OEnd (r : res unit) (bal : N) (ntemps : N)
| OProg (o : outcome) (bal rev : N) (roots : list N) (ntemps : N).

Record cstate := { cx : ctx; cs : estate; cbal : N; ctemps : N }.
Definition dummy_pd : pdata := {| plen := 0; pget := fun _ => 0 |}.
Definition dummy_pt : ptable :=
  {| ptInit := 0; ptDownload := 0; ptUpload := 0; ptDropBase := 0; ptDropUnit := 0; ptHasSector := 0;
     ptReadBase := 0; ptReadLength := 0; ptRevision := 0; ptSwap := 0; ptWriteBase := 0;
     ptWriteLength := 0; ptWriteStore := 0; ptCollateral := 0; ptHeight := 0 |}.
Definition estate0 : estate :=
  {| eroots := []; ebudget := {| bmax := 0; buse := usage0 |}; ecost := cost0; eusage := usage0;
     etemps := []; ewrites := [] |}.
Definition cinit : cstate :=
  {| cx := {| xdata := dummy_pd; xpt := dummy_pt; xdur := 0; xcontract := false |};
     cs := estate0; cbal := 0; ctemps := 0 |}.

Definition spent_of (b : budget) : N :=
  match usage_total (buse b) with Ok t => t | _ => 0 end.

Definition debit (bal : N) (b : budget) : res N :=
  do t <- usage_total (buse b);
  if bal <? t then Err EInsufficient else do _ <- csub (bmax b) t; Ok (bal - t).

Definition cstep (c : cstate) (o : op) : cstate * obs :=
  match o with
  | OpInit x roots bal amount =>
      let b0 := {| bmax := amount; buse := usage0 |} in
      match (if bal <? amount then Err EInsufficient else
             spend b0 {| uRpc := ptInit (xpt x); uStorage := 0; uEgress := 0; uIngress := 0; uRegR := 0; uRegW := 0 |}) with
      | Ok b1 =>
          ({| cx := x;
              cs := {| eroots := roots; ebudget := b1; ecost := cost0; eusage := usage0; etemps := []; ewrites := [] |};
              cbal := bal; ctemps := 0 |}, OInit true)
      | _ => ({| cx := x; cs := estate0; cbal := bal; ctemps := 0 |}, OInit false)
      end
  | OpInstr i e =>
      let '(s', r) := exec_instr (cx c) i e (cs c) in
      ({| cx := cx c; cs := s'; cbal := cbal c; ctemps := ctemps c |},
       OInstr r (eroots s') (spent_of (ebudget s')) (cCollateral (ecost s')) (N.of_nat (length (etemps s'))))
  | OpRollback =>
      let s := cs c in
      match (do b2 <- refund (ebudget s) {| uRpc := 0; uStorage := uStorage (eusage s); uEgress := 0;
                                            uIngress := 0; uRegR := 0; uRegW := 0 |};
             debit (cbal c) b2) with
      | Ok nb => ({| cx := cx c; cs := s; cbal := nb; ctemps := ctemps c |}, OEnd (Ok tt) nb (ctemps c))
      | Err e => (c, OEnd (Err e) (cbal c) (ctemps c))
      | Panic => (c, OEnd Panic (cbal c) (ctemps c))
      end
  | OpCommit =>
      let s := cs c in
      match debit (cbal c) (ebudget s) with
      | Ok nb =>
          let nt := ctemps c + N.of_nat (length (etemps s)) in
          ({| cx := cx c; cs := s; cbal := nb; ctemps := nt |}, OEnd (Ok tt) nb nt)
      | Err e => (c, OEnd (Err e) (cbal c) (ctemps c))
      | Panic => (c, OEnd Panic (cbal c) (ctemps c))
      end
  | OpProgram h q =>
      let '(h', o) := run_program h q in
      (c, OProg o (hbal h') (hrev h') (hroots h') (N.of_nat (length (htemps h'))))
  end.

Definition outcome_eqb (a b : outcome) : bool :=
  match a, b with
  | Done x, Done y => list_eqb N.eqb x y
  | Rejected _, Rejected _ => true
  | Crashed, Crashed => true
  | _, _ => false
  end.

Definition class_eqb {A} (a b : res A) : bool :=
  match a, b with
  | Ok _, Ok _ | Err _, Err _ | Panic, Panic => true
  | _, _ => false
  end.

(* error classes are compared as classes only (Err vs Err); output lengths exactly *)
Definition resn_eqb (a b : res N) : bool :=
  match a, b with
  | Ok x, Ok y => x =? y
  | Err _, Err _ => true
  | Panic, Panic => true
  | _, _ => false
  end.

Definition obs_eqb (a b : obs) : bool :=
  match a, b with
  | OInit x, OInit y => Bool.eqb x y
  | OInstr r l s c t, OInstr r' l' s' c' t' =>
      resn_eqb r r' && list_eqb N.eqb l l' && (s =? s') && (c =? c') && (t =? t')
  | OEnd r b t, OEnd r' b' t' => class_eqb r r' && (b =? b') && (t =? t')
  | OProg o b v l t, OProg o' b' v' l' t' =>
      outcome_eqb o o' && (b =? b') && (v =? v') && list_eqb N.eqb l l' && (t =? t')
  | _, _ => false
  end.

Definition case := (N * list (op * obs))%type.
Definition check (cs : list case) := mismatches cinit cstep obs_eqb cs.
