(* MDM/GenPrelude.v — the definitions the output of tools/go2coq for the programData accessors
   of rhp/v3/execute.go (gen/MDMGen.v) refers to besides Base.v / Model.v.  Hand-written, no
   proofs; part of the trusted base of the translator (what a Go construct means):

     bview                  a []byte sliced out of the program data: which data, where, how long
     pd_slice d lo hi       d[lo:hi] on the program data (len = cap = plen d): Panic unless
                            lo <= hi <= len (Go's slice bounds check)
     view_array s n         dereferenced conversion of s to a pointer to an n-byte array type, and
                            binary.LittleEndian.Uint64(s) with n = 8: Panic when
                            s is shorter than n; the value is the little-endian number of the bytes
     view_sector s          conversion of s to a pointer to [rhp2.SectorSize]byte: Panic when s is shorter than a sector
     ukey                   types.UnlockKey {Algorithm (number of its 16 bytes), Key} *)
From HostdBase Require Import Base.
From HostdMDM Require Import Model.
Local Open Scope N_scope.

(* unfold hints for every generated definition (emitted by the translator) *)
Create HintDb go2coq.

Record bview := { v_data : pdata; v_off : N; v_len : N }.

Definition pd_slice (d : pdata) (lo hi : N) : res bview :=
  if slice_ok (plen d) lo hi then Ok {| v_data := d; v_off := lo; v_len := hi - lo |} else Panic.

Definition view_array (s : bview) (n : nat) : res N :=
  if v_len s <? N.of_nat n then Panic else Ok (le_num (pget (v_data s)) (v_off s) n).

Definition view_sector (s : bview) : res unit :=
  if v_len s <? SectorSize then Panic else Ok tt.

Record ukey := { k_alg : N; k_key : bview }.
Definition zero_pdata : pdata := {| plen := 0; pget := fun _ => 0 |}.
Definition zero_ukey : ukey := {| k_alg := 0; k_key := {| v_data := zero_pdata; v_off := 0; v_len := 0 |} |}.
Definition set_k_alg (k : ukey) (a : N) : ukey := {| k_alg := a; k_key := k_key k |}.
Definition set_k_key (k : ukey) (v : bview) : ukey := {| k_alg := k_alg k; k_key := v |}.
