(* MDM/ProofsProg.v — the execution loop and handleRPCExecute/Execute as a whole. *)
From Coq Require Import Lia ZifyBool ZifyN ZifyNat.
From HostdBase Require Import Base.
From HostdMDM Require Import Model Proofs ProofsExec ProofsInstr.
Local Open Scope N_scope.

Lemma run_instrs_safe : forall x i0 m prog s,
  ctx_ok x ->
  Forall (fun ie => instr_wf (fst ie)) prog ->
  (forall ie, In ie prog -> requires_contract (fst ie) = true -> xcontract x = true) ->
  inv x i0 m (length prog) s -> rinv (length prog) s ->
  match run_instrs x prog s with
  | (s', Ok _) => binv i0 m s'
  | (s', Err _) => binv i0 m s'
  | (_, Panic) => False
  end.
Proof.
  intros x i0 m prog. induction prog as [|[i e] t IH]; intros s Hx Hwf Hc Hi Hr.
  - cbn. destruct Hi. assumption.
  - cbn [run_instrs]. inversion Hwf as [|? ? Hwi Hwt]; subst.
    pose proof (exec_instr_safe x i0 m (length t) i e s Hx Hwi
                  (fun H => Hc (i, e) (or_introl eq_refl) H) Hi Hr) as Hsafe.
    unfold safe in Hsafe. destruct (exec_instr x i e s) as [s1 [n | er |]].
    + destruct Hsafe as [Hi1 Hr1].
      specialize (IH s1 Hx Hwt (fun ie Hin => Hc ie (or_intror Hin)) Hi1 Hr1).
      destruct (run_instrs x t s1) as [s2 [l | er |]]; assumption.
    + destruct Hsafe as [[Hb _] _]. assumption.
    + contradiction.
Qed.

(* a failed instruction in the middle of a program: the executed prefix is what is charged *)
Definition nonstorage (u : usage) : N := uRpc u + uEgress u + uIngress u + uRegR u + uRegW u.

Lemma refund_ok : forall i0 m s, binv i0 m s ->
  exists b2, refund (ebudget s) (storage_only (eusage s)) = Ok b2 /\
             bmax b2 = bmax (ebudget s) /\ utot (buse b2) = i0 + nonstorage (eusage s).
Proof.
  intros i0 m s [Ht Hmm Hm Hco Hrpc Hsto Hegr Hing Hrr Hrw].
  unfold refund, usage_sub, storage_only. cbn [uRpc uStorage uEgress uIngress uRegR uRegW].
  repeat (rewrite csub_ok by lia; cbn [bind]).
  eexists; split; [reflexivity|]. cbn [bmax buse]. split; [reflexivity|].
  unfold utot, nonstorage. cbn. lia.
Qed.

Lemma commit_budget_ok : forall h b,
  utot (buse b) <= bmax b -> bmax b <= hbal h -> bmax b < two127 ->
  commit_budget h b = Ok (set_bal h (hbal h - utot (buse b))).
Proof.
  intros h b H1 H2 H3. unfold commit_budget.
  rewrite usage_total_ok by (unfold two127, two128 in *; lia). cbn [bind].
  destruct (hbal h <? utot (buse b)) eqn:E; [lia|].
  rewrite csub_ok by lia. reflexivity.
Qed.

(* what is not peer input: the data is a Go slice, prices are sane, heights and immediates
   are uint64, the budget is below 2^127 H (the coin supply is below 2^116), the
   collateral the host would risk for the whole program and the resulting number of
   sector roots are representable *)
Definition request_ok (h : hstate) (q : request) : Prop :=
  pd_ok (qdata q) /\ pt_sane (qpt q) /\ u64 (qdur q) /\
  Forall (fun ie => instr_wf (fst ie)) (qprog q) /\
  qamount q < two127 /\
  N.of_nat (length (qprog q)) * (ptCollateral (qpt q) * SectorSize * qdur q) < two128 /\
  nroots (hroots h) + N.of_nat (length (qprog q)) < two63.

Lemma attach_covers : forall q ie, In ie (qprog q) -> requires_contract (fst ie) = true -> xcontract (ctx_of q) = true.
Proof.
  intros q ie Hin Hreq. cbn. unfold attach, needs_contract.
  assert (existsb (fun ie0 => requires_contract (fst ie0)) (qprog q) = true).
  { apply existsb_exists. exists ie. split; assumption. }
  rewrite H. reflexivity.
Qed.

Lemma spend_init : forall q, pt_sane (qpt q) ->
  spend {| bmax := qamount q; buse := usage0 |} (init_usage q) =
  if qamount q <? ptInit (qpt q) then Err EInsufficient
  else Ok {| bmax := qamount q; buse := uplus usage0 (init_usage q) |}.
Proof.
  intros q Hs. rewrite spend_spec.
  - cbn [bmax buse]. unfold utot, usage0, init_usage. cbn. rewrite !N.add_0_r. reflexivity.
  - destruct Hs. unfold utot, usage0, init_usage, p60, two128 in *. cbn. lia.
Qed.

Lemma start_inv : forall h q,
  request_ok h q -> ptInit (qpt q) <= qamount q ->
  let b1 := {| bmax := qamount q; buse := uplus usage0 (init_usage q) |} in
  inv (ctx_of q) (ptInit (qpt q)) (qamount q) (length (qprog q)) (start_of h q b1) /\
  rinv (length (qprog q)) (start_of h q b1).
Proof.
  intros h q (Hd & Hs & Hdur & Hwf & Ham & Hcoll & Hroots) Hle b1. split; [split|].
  - constructor; cbn; unfold utot, ncoll, usage0, init_usage; cbn; lia.
  - cbn. unfold coll_unit. cbn. lia.
  - unfold rinv. cbn. destruct (attach q); [assumption|]. cbn. unfold two63 in *. lia.
Qed.

(* the state of the executor when the loop ends, whatever the outcome *)
Lemma run_program_loop : forall h q,
  request_ok h q -> ptInit (qpt q) <= qamount q ->
  let b1 := {| bmax := qamount q; buse := uplus usage0 (init_usage q) |} in
  match run_instrs (ctx_of q) (qprog q) (start_of h q b1) with
  | (s, Ok _) | (s, Err _) => binv (ptInit (qpt q)) (qamount q) s
  | (_, Panic) => False
  end.
Proof.
  intros h q Hok Hle b1. pose proof Hok as (Hd & Hs & Hdur & Hwf & Ham & Hcoll & Hroots).
  destruct (start_inv h q Hok Hle) as [Hi Hr].
  exact (run_instrs_safe (ctx_of q) (ptInit (qpt q)) (qamount q) (qprog q) _
           (conj Hd (conj Hs Hdur)) Hwf (attach_covers q) Hi Hr).
Qed.

Theorem run_program_no_panic : forall h q, request_ok h q -> snd (run_program h q) <> Crashed.
Proof.
  intros h q Hok. pose proof Hok as (Hd & Hs & Hdur & Hwf & Ham & Hcoll & Hroots).
  unfold run_program.
  destruct (qamount q =? 0); [discriminate|].
  destruct (hbal h <? qamount q) eqn:Hbal; [discriminate|].
  destruct (max_instructions <? qdeclared q); [discriminate|].
  rewrite spend_init by assumption.
  destruct (qamount q <? ptInit (qpt q)) eqn:Hinit; [discriminate|].
  destruct (attach q && negb (qcontract q)); [discriminate|].
  pose proof (run_program_loop h q Hok ltac:(lia)) as Hrun. cbv zeta in Hrun.
  destruct (run_instrs (ctx_of q) (qprog q) _) as [s [outs | er |]]; [| |contradiction].
  - pose proof Hrun as [Ht Hmm Hm Hco Hrpc Hsto Hegr Hing Hrr Hrw].
    destruct (needs_final q).
    + destruct (qfinal q); [|discriminate].
      rewrite commit_budget_ok by (cbn [hbal]; lia). discriminate.
    + rewrite commit_budget_ok by lia. discriminate.
  - destruct (refund_ok _ _ _ Hrun) as (b2 & -> & Hb2 & Hu2).
    pose proof Hrun as [Ht Hmm Hm Hco Hrpc Hsto Hegr Hing Hrr Hrw].
    rewrite commit_budget_ok; [discriminate| | |]; unfold utot, nonstorage in *; lia.
Qed.

Definition rejected_post (h : hstate) (q : request) (h' : hstate) : Prop :=
  hrev h' = hrev h /\ hroots h' = hroots h /\ htemps h' = htemps h /\
  hbal h' <= hbal h /\ hbal h - hbal h' <= qamount q /\
  (hbal h' = hbal h \/
   exists b1 s er,
     spend {| bmax := qamount q; buse := usage0 |} (init_usage q) = Ok b1 /\
     run_instrs (ctx_of q) (qprog q) (start_of h q b1) = (s, Err er) /\
     hbal h = hbal h' + ptInit (qpt q) + nonstorage (eusage s)).

Theorem run_program_rejected : forall h q h' e,
  request_ok h q -> run_program h q = (h', Rejected e) -> rejected_post h q h'.
Proof.
  intros h q h' e Hok. pose proof Hok as (Hd & Hs & Hdur & Hwf & Ham & Hcoll & Hroots).
  unfold run_program.
  assert (Hsame : forall e0, (h, Rejected e0) = (h', Rejected e) -> rejected_post h q h').
  { intros e0 H. injection H as <- _. unfold rejected_post. repeat split; try lia. }
  destruct (qamount q =? 0); [apply Hsame|].
  destruct (hbal h <? qamount q) eqn:Hbal; [apply Hsame|].
  destruct (max_instructions <? qdeclared q); [apply Hsame|].
  rewrite spend_init by assumption.
  destruct (qamount q <? ptInit (qpt q)) eqn:Hinit; [apply Hsame|].
  destruct (attach q && negb (qcontract q)); [apply Hsame|].
  pose proof (run_program_loop h q Hok ltac:(lia)) as Hrun. cbv zeta in Hrun.
  destruct (run_instrs (ctx_of q) (qprog q) _) as [s [outs | er |]] eqn:Erun; [| |contradiction].
  - pose proof Hrun as [Ht Hmm Hm Hco Hrpc Hsto Hegr Hing Hrr Hrw].
    destruct (needs_final q).
    + destruct (qfinal q); [|apply Hsame].
      rewrite commit_budget_ok by (cbn [hbal]; lia). discriminate.
    + rewrite commit_budget_ok by lia. discriminate.
  - destruct (refund_ok _ _ _ Hrun) as (b2 & -> & Hb2 & Hu2).
    pose proof Hrun as [Ht Hmm Hm Hco Hrpc Hsto Hegr Hing Hrr Hrw].
    rewrite commit_budget_ok by (unfold utot, nonstorage in *; lia).
    intros H. injection H as <- <-. unfold rejected_post. cbn [set_bal hrev hroots htemps hbal].
    repeat split; try reflexivity; try (unfold utot, nonstorage in *; lia).
    right. exists {| bmax := qamount q; buse := uplus usage0 (init_usage q) |}, s, er.
    split; [|split].
    + rewrite spend_init by assumption. rewrite Hinit. reflexivity.
    + exact Erun.
    + rewrite Hu2. unfold utot, nonstorage in *. lia.
Qed.

(** * instruction-level statements in plain form *)
Theorem instr_no_panic : forall x i0 m k i e s,
  ctx_ok x -> instr_wf i -> (requires_contract i = true -> xcontract x = true) ->
  inv x i0 m (S k) s -> rinv (S k) s ->
  snd (exec_instr x i e s) <> Panic.
Proof.
  intros x i0 m k i e s Hx Hwf Hc Hi Hr.
  pose proof (exec_instr_safe x i0 m k i e s Hx Hwf Hc Hi Hr) as H. unfold safe in H.
  destruct (exec_instr x i e s) as [s' [n | er |]]; cbn [snd]; [discriminate|discriminate|contradiction].
Qed.

Theorem instr_rejected_unchanged : forall x i0 m k i e s s' er,
  ctx_ok x -> instr_wf i -> (requires_contract i = true -> xcontract x = true) ->
  inv x i0 m (S k) s -> rinv (S k) s ->
  exec_instr x i e s = (s', Err er) ->
  eroots s' = eroots s /\ etemps s' = etemps s /\ inv x i0 m k s'.
Proof.
  intros x i0 m k i e s s' er Hx Hwf Hc Hi Hr Heq.
  pose proof (exec_instr_safe x i0 m k i e s Hx Hwf Hc Hi Hr) as H. unfold safe in H.
  rewrite Heq in H. destruct H as (H1 & H2 & H3). auto.
Qed.

Theorem instr_ok_invariant : forall x i0 m k i e s s' n,
  ctx_ok x -> instr_wf i -> (requires_contract i = true -> xcontract x = true) ->
  inv x i0 m (S k) s -> rinv (S k) s ->
  exec_instr x i e s = (s', Ok n) -> inv x i0 m k s' /\ rinv k s'.
Proof.
  intros x i0 m k i e s s' n Hx Hwf Hc Hi Hr Heq.
  pose proof (exec_instr_safe x i0 m k i e s Hx Hwf Hc Hi Hr) as H. unfold safe in H.
  rewrite Heq in H. exact H.
Qed.

(* without a contract the instructions that need one do crash: the gate of
   handleRPCExecute (attach) is what the program-level theorem relies on *)
Lemma ungated_revision_panics : forall s e,
  snd (exec_instr {| xdata := dummy_pd; xpt := dummy_pt; xdur := 0; xcontract := false |} IRevision e
         {| eroots := []; ebudget := {| bmax := 10; buse := usage0 |}; ecost := cost0; eusage := usage0;
            etemps := []; ewrites := s |}) = Panic.
Proof. intros. vm_compute. reflexivity. Qed.

(** * non-vacuity: a concrete request meeting the hypotheses, accepted and rejected runs *)
Definition ex_pt : ptable :=
  {| ptInit := 1; ptDownload := 1; ptUpload := 1; ptDropBase := 1; ptDropUnit := 1; ptHasSector := 1;
     ptReadBase := 1; ptReadLength := 1; ptRevision := 1; ptSwap := 1; ptWriteBase := 1;
     ptWriteLength := 1; ptWriteStore := 1; ptCollateral := 1; ptHeight := 100 |}.
Definition ex_env : env := {| oroot := 9; owrite := true; ohas := true; oread := true; oget := None; oput := true |}.
Definition ex_h : hstate := {| hbal := 1000000; hrev := 3; hroots := [11; 22]; htemps := [] |}.
(* data: count = 1 at offset 0, length = 64 at offset 8, offset = 0 at offset 16 *)
Definition ex_data : pdata := mkpd 24 [1;0;0;0;0;0;0;0; 64;0;0;0;0;0;0;0; 0;0;0;0;0;0;0;0] 0 [].
Definition ex_q (prog : list (instr * env)) : request :=
  {| qamount := 100000; qcontract := true; qdeclared := 2; qprog := prog; qdata := ex_data; qpt := ex_pt; qdur := 10;
     qfinal := Some 4 |}.
Definition ex_good := ex_q [(IReadOffset 8 16 true, ex_env); (IDropSectors 0 true, ex_env)].
(* second instruction reads its operand at offset 2^64-8 *)
Definition ex_bad := ex_q [(IReadOffset 8 16 true, ex_env); (IDropSectors 18446744073709551608 true, ex_env)].

Lemma ex_pt_sane : pt_sane ex_pt.
Proof. constructor; vm_compute; reflexivity. Qed.

Lemma ex_request_ok : forall prog, Forall (fun ie => instr_wf (fst ie)) prog -> length prog = 2%nat ->
  request_ok ex_h (ex_q prog).
Proof.
  intros prog Hwf Hlen. unfold request_ok. cbn [qdata qpt qdur qprog qamount ex_q ex_h hroots]. rewrite Hlen.
  split; [vm_compute; reflexivity|]. split; [apply ex_pt_sane|].
  split; [vm_compute; reflexivity|]. split; [assumption|].
  split; [vm_compute; reflexivity|]. split; vm_compute; reflexivity.
Qed.

Lemma ex_nonvacuous :
  request_ok ex_h ex_good /\ request_ok ex_h ex_bad /\
  run_program ex_h ex_good = ({| hbal := 999852; hrev := 4; hroots := [11]; htemps := [] |}, Done [64; 0]) /\
  run_program ex_h ex_bad = ({| hbal := 999862; hrev := 3; hroots := [11; 22]; htemps := [] |}, Rejected EInvalid).
Proof.
  split; [|split; [|split]].
  - apply ex_request_ok; [|reflexivity]. repeat constructor.
  - apply ex_request_ok; [|reflexivity]. repeat constructor.
  - vm_compute. reflexivity.
  - vm_compute. reflexivity.
Qed.
